import Jose.Basic
import Jose.Tables
import Jose.Json
import Jose.JsonParse
import Jose.B64
