#!/usr/bin/env python3
"""
Generates the known-answer vectors used by CryptoTest.lean / CryptoTestA.lean.

  usage:  python3 vectors_gen.py path/to/CryptoTest.lean

The section between the markers `-- BEGIN GENERATED VECTORS` / `-- END GENERATED VECTORS`
of the given Lean file is replaced.

Reference implementations used:
  * hashlib / hmac / hashlib.pbkdf2_hmac      (SHA-1/2, HMAC, PBKDF2)
  * zlib (raw deflate, wbits = -15)           (inflate vectors, truncation behaviour)
  * OpenSSL 3 libcrypto through the tiny C oracle `evpref.c` (AES-ECB/CBC/GCM/KW); it is
    compiled on the fly with `gcc -O2 evpref.c -lcrypto` (the C source is embedded below).
  * hand-typed published vectors (FIPS 197 App. C, RFC 3394 §4, GCM spec test cases,
    RFC 4231, RFC 6070) -- each is asserted against the reference implementation here,
    so a typo in this file is caught at generation time.

Large inputs are not stored: both sides regenerate them with the same deterministic
generators (`lcg_bytes`, `textgen`; see the Lean harness for the twins).
"""
import hashlib, hmac, os, subprocess, sys, tempfile, zlib

# ----------------------------------------------------------------------------- generators

def lcg_step(x):
    return (x * 1103515245 + 12345) & 0x7fffffff

def lcg_bytes(n, seed):
    x = seed & 0x7fffffff
    out = bytearray()
    for _ in range(n):
        x = lcg_step(x)
        out.append((x >> 16) & 0xff)
    return bytes(out)

WORDS = ("the of and to in is that it was for on are as with his they at be this from have "
         "or by one had not but what all were when we there can an your which their said if "
         "do will each about how up out them then she many some so these would other into "
         "has more her two like him see time could no make than first been its who now "
         "people my made over did down only way find use may water long little very after "
         "words called just where most know").split()

def textgen(n, seed):
    """English-like text with a little binary junk mixed in."""
    x = seed & 0x7fffffff
    out = bytearray()
    while len(out) < n:
        x = lcg_step(x)
        r = x >> 8
        if r % 23 == 0:
            for _ in range(6):
                x = lcg_step(x)
                out.append((x >> 16) & 0xff)
        else:
            out += WORDS[r % len(WORDS)].encode()
            out += b". " if r % 11 == 0 else b" "
    return bytes(out[:n])

def segs(spec):
    """spec: list of (kind, n, param)"""
    out = b""
    for kind, n, p in spec:
        if kind == "text": out += textgen(n, p)
        elif kind == "lcg": out += lcg_bytes(n, p)
        elif kind == "rep": out += bytes([p]) * n
        else: raise ValueError(kind)
    return out

# ----------------------------------------------------------------------------- OpenSSL oracle

EVPREF_C = r'''
#include <openssl/evp.h>
#include <stdio.h>
#include <stdlib.h>
#include <string.h>
static unsigned char *unhex(const char *s, int *len) {
  if (strcmp(s, "-") == 0) { *len = 0; return calloc(1, 1); }
  int n = strlen(s) / 2; unsigned char *b = malloc(n + 1);
  for (int i = 0; i < n; i++) { unsigned v; sscanf(s + 2 * i, "%2x", &v); b[i] = v; }
  *len = n; return b;
}
static void phex(const unsigned char *b, int n) {
  if (n == 0) { printf("-"); return; }
  for (int i = 0; i < n; i++) printf("%02x", b[i]);
}
static const EVP_CIPHER *pick(const char *mode, int kl) {
  if (!strcmp(mode, "ecb")) return kl == 16 ? EVP_aes_128_ecb() : kl == 24 ? EVP_aes_192_ecb() : EVP_aes_256_ecb();
  if (!strcmp(mode, "cbc")) return kl == 16 ? EVP_aes_128_cbc() : kl == 24 ? EVP_aes_192_cbc() : EVP_aes_256_cbc();
  if (!strcmp(mode, "gcm")) return kl == 16 ? EVP_aes_128_gcm() : kl == 24 ? EVP_aes_192_gcm() : EVP_aes_256_gcm();
  return kl == 16 ? EVP_aes_128_wrap() : kl == 24 ? EVP_aes_192_wrap() : EVP_aes_256_wrap();
}
int main(void) {
  static char line[4 << 20];
  while (fgets(line, sizeof line, stdin)) {
    char *op = strtok(line, " \n"), *ks = strtok(NULL, " \n"), *is = strtok(NULL, " \n"),
         *as = strtok(NULL, " \n"), *ds = strtok(NULL, " \n"), *ts = strtok(NULL, " \n");
    if (!op || !ds) continue;
    int kl, il, al, dl, tl = 0;
    unsigned char *k = unhex(ks, &kl), *iv = unhex(is, &il), *aad = unhex(as, &al), *d = unhex(ds, &dl);
    unsigned char *t = ts ? unhex(ts, &tl) : NULL;
    unsigned char *out = malloc(dl + 64); int n = 0, m = 0, ok = 1;
    EVP_CIPHER_CTX *c = EVP_CIPHER_CTX_new();
    char mode[4]; memcpy(mode, op, 3); mode[3] = 0; if (op[2] == '-') mode[2] = 0;
    int enc = strstr(op, "dec") == NULL;
    if (!strcmp(mode, "gcm")) {
      ok &= EVP_CipherInit_ex(c, pick("gcm", kl), NULL, NULL, NULL, enc);
      ok &= EVP_CIPHER_CTX_ctrl(c, EVP_CTRL_GCM_SET_IVLEN, il, NULL);
      ok &= EVP_CipherInit_ex(c, NULL, NULL, k, iv, enc);
      if (al) ok &= EVP_CipherUpdate(c, NULL, &m, aad, al);
      if (dl) ok &= EVP_CipherUpdate(c, out, &n, d, dl);
      if (!enc) ok &= EVP_CIPHER_CTX_ctrl(c, EVP_CTRL_GCM_SET_TAG, tl, t);
      ok &= EVP_CipherFinal_ex(c, out + n, &m); n += m;
      if (!ok) printf("FAIL\n");
      else if (enc) { unsigned char tag[16]; EVP_CIPHER_CTX_ctrl(c, EVP_CTRL_GCM_GET_TAG, 16, tag);
        phex(out, n); printf(" "); phex(tag, 16); printf("\n"); }
      else { phex(out, n); printf("\n"); }
    } else {
      const char *mm = !strcmp(mode, "kw") ? "kw" : mode;
      if (!strcmp(mm, "kw")) EVP_CIPHER_CTX_set_flags(c, EVP_CIPHER_CTX_FLAG_WRAP_ALLOW);
      ok &= EVP_CipherInit_ex(c, pick(mm, kl), NULL, k, il ? iv : NULL, enc);
      if (!strcmp(op, "cbc-raw") || !strcmp(mm, "ecb")) EVP_CIPHER_CTX_set_padding(c, 0);
      ok &= EVP_CipherUpdate(c, out, &n, d, dl) > 0;
      if (ok) { ok &= EVP_CipherFinal_ex(c, out + n, &m); n += m; }
      if (!ok) printf("FAIL\n"); else { phex(out, n); printf("\n"); }
    }
    EVP_CIPHER_CTX_free(c); free(k); free(iv); free(aad); free(d); free(t); free(out);
    fflush(stdout);
  }
  return 0;
}
'''

class Oracle:
    def __init__(self):
        self.dir = tempfile.mkdtemp(prefix="evpref")
        src = os.path.join(self.dir, "evpref.c")
        exe = os.path.join(self.dir, "evpref")
        open(src, "w").write(EVPREF_C)
        subprocess.check_call(["gcc", "-O2", "-o", exe, src, "-lcrypto"])
        self.p = subprocess.Popen([exe], stdin=subprocess.PIPE, stdout=subprocess.PIPE, text=True)
    def ask(self, op, key, iv=b"", aad=b"", data=b"", tag=None):
        h = lambda b: b.hex() if b else "-"
        line = " ".join([op, h(key), h(iv), h(aad), h(data)] + ([h(tag)] if tag is not None else []))
        self.p.stdin.write(line + "\n"); self.p.stdin.flush()
        res = self.p.stdout.readline().split()
        unh = lambda s: b"" if s == "-" else bytes.fromhex(s)
        if res == ["FAIL"]: return None
        return [unh(x) for x in res]

# ----------------------------------------------------------------------------- Lean output

def q(s): return '"' + s + '"'
def hx(b): return q(b.hex())

def lean_array(name, ty, rows):
    body = ",\n".join("  (" + ", ".join(r) + ")" for r in rows)
    return f"def {name} : Array ({ty}) := #[\n{body}]\n"

def main():
    target = sys.argv[1]
    O = Oracle()
    out = []

    # ---- SHA
    rows = []
    for alg in ["sha1", "sha224", "sha256", "sha384", "sha512"]:
        for n in [0, 1, 55, 56, 63, 64, 65, 111, 112, 119, 120, 127, 128, 129, 1000, 100000]:
            rows.append((q(alg), str(n), q(hashlib.new(alg, lcg_bytes(n, n + 1)).hexdigest())))
    out.append("/-- (alg, n, digest of lcgBytes n (n+1)) -/\n" + lean_array("shaVecs", "String × Nat × String", rows))
    # classic "abc" vectors, typed by hand
    abc = {"sha1": "a9993e364706816aba3e25717850c26c9cd0d89d",
           "sha256": "ba7816bf8f01cfea414140de5dae2223b00361a396177a9cb410ff61f20015ad"}
    for a, d in abc.items(): assert hashlib.new(a, b"abc").hexdigest() == d

    # ---- HMAC
    rows = []
    for alg in ["sha1", "sha224", "sha256", "sha384", "sha512"]:
        bs = hashlib.new(alg).block_size
        for kl in [0, 1, 20, bs - 1, bs, bs + 1, 2 * bs + 7]:
            for ml in [0, 1, 50, bs, 300]:
                key = lcg_bytes(kl, 1000 + kl); msg = lcg_bytes(ml, 2000 + ml)
                rows.append((q(alg), str(kl), str(ml), q(hmac.new(key, msg, alg).hexdigest())))
    out.append("/-- (alg, keyLen, msgLen, mac) with key = lcgBytes keyLen (1000+keyLen), msg = lcgBytes msgLen (2000+msgLen) -/\n"
               + lean_array("hmacVecs", "String × Nat × Nat × String", rows))
    # RFC 4231 test cases 1, 2, 6 (SHA-256), typed by hand
    kat = [("sha256", b"\x0b" * 20, b"Hi There",
            "b0344c61d8db38535ca8afceaf0bf12b881dc200c9833da726e9376c2e32cff7"),
           ("sha256", b"Jefe", b"what do ya want for nothing?",
            "5bdcc146bf60754e6a042426089575c75a003f089d2739839dec58b964ec3843"),
           ("sha256", b"\xaa" * 131, b"Test Using Larger Than Block-Size Key - Hash Key First",
            "60e431591ee0b67f0d8a26aacbf5b77f8e0bc6213728c5140546040f0ee37f54"),
           ("sha512", b"Jefe", b"what do ya want for nothing?",
            "164b7a7bfcf819e2e395fbe73b56e0a387bd64222e831fd610270cd7ea250554"
            "9758bf75c05a994a6d034f65f8f0e6fdcaeab1a34d4a6b4b636e070a38bce737")]
    rows = []
    for alg, k, m, d in kat:
        assert hmac.new(k, m, alg).hexdigest() == d, (alg, k)
        rows.append((q(alg), hx(k), hx(m), q(d)))
    out.append(lean_array("hmacKat", "String × String × String × String", rows))

    # ---- PBKDF2
    rows = []
    def pb(alg, pw, salt, c, dk):
        rows.append((q(alg), hx(pw), hx(salt), str(c), str(dk), q(hashlib.pbkdf2_hmac(alg, pw, salt, c, dk).hex())))
    for alg in ["sha1", "sha224", "sha256", "sha384", "sha512"]:
        for c in [1, 2, 1000]:
            for dk in [16, 32, 48, 64, 100]:
                pb(alg, b"passw0rd-" + alg.encode(), lcg_bytes(16 + dk % 7, c + dk), c, dk)
        pb(alg, b"correct horse battery staple", b"PBES2-HS512+A256KW\x00" + lcg_bytes(16, 5), 32768, 32)
    pb("sha256", lcg_bytes(100, 77), lcg_bytes(40, 78), 32768, 100)   # password longer than block
    pb("sha512", lcg_bytes(200, 79), b"", 32768, 100)                  # empty salt
    pb("sha1", b"", b"salt", 3, 20)                                    # empty password
    # RFC 6070 (PBKDF2-HMAC-SHA1), typed by hand
    for c, d in [(1, "0c60c80f961f0e71f3a9b524af6012062fe037a6"), (2, "ea6c014dc72d6f8ccd1ed92ace1d41f0d8de8957"),
                 (4096, "4b007901b765489abead49d926f721d065a429c1")]:
        assert hashlib.pbkdf2_hmac("sha1", b"password", b"salt", c, 20).hex() == d
        rows.append((q("sha1"), hx(b"password"), hx(b"salt"), str(c), "20", q(d)))
    out.append("/-- (alg, password, salt, iterations, dkLen, dk) -/\n"
               + lean_array("pbkdf2Vecs", "String × String × String × Nat × Nat × String", rows))

    # ---- AES single block
    rows = []
    fips = [("000102030405060708090a0b0c0d0e0f", "69c4e0d86a7b0430d8cdb78070b4c55a"),
            ("000102030405060708090a0b0c0d0e0f1011121314151617", "dda97ca4864cdfe06eaf70a0ec0d7191"),
            ("000102030405060708090a0b0c0d0e0f101112131415161718191a1b1c1d1e1f", "8ea2b7ca516745bfeafc49904b496089")]
    for k, c in fips:
        pt = bytes.fromhex("00112233445566778899aabbccddeeff")
        assert O.ask("ecb-enc", bytes.fromhex(k), data=pt)[0].hex() == c
        rows.append((q(k), hx(pt), q(c)))
    for kl in [16, 24, 32]:
        for i in range(6):
            k = lcg_bytes(kl, 100 * kl + i); pt = lcg_bytes(16, 7 * kl + i)
            ct = O.ask("ecb-enc", k, data=pt)[0]
            assert O.ask("ecb-dec", k, data=ct)[0] == pt
            rows.append((hx(k), hx(pt), hx(ct)))
    out.append("/-- (key, plaintext block, ciphertext block) -/\n" + lean_array("aesBlockVecs", "String × String × String", rows))

    # ---- CBC
    rows = []
    for kl in [16, 24, 32]:
        for n in [0, 1, 15, 16, 17, 31, 32, 4096]:
            k = lcg_bytes(kl, 31 * kl + n); iv = lcg_bytes(16, 17 * kl + n); pt = lcg_bytes(n, 3000 + n)
            ct = O.ask("cbc-enc", k, iv, data=pt)[0]
            assert len(ct) == 16 * (n // 16 + 1)
            rows.append((hx(k), hx(iv), str(n), hx(ct)))
    out.append("/-- (key, iv, n, ciphertext of lcgBytes n (3000+n)) -/\n" + lean_array("cbcVecs", "String × String × Nat × String", rows))
    # bad padding: raw-CBC encryptions of blocks with invalid PKCS#7 endings
    rows = []
    k = lcg_bytes(16, 4242); iv = lcg_bytes(16, 4343)
    for tail in [b"\x00", b"\x11", b"\x02\x03", b"\x03\x03", b"\x01\x02\x04\x04\x04", b"\xff"]:
        pt = (lcg_bytes(32, 99) + tail)[-32:]
        if tail == b"\x03\x03": pt = pt[:-3] + b"\x07\x03\x03"
        ct = O.ask("cbc-raw", k, iv, data=pt)[0]
        assert O.ask("cbc-dec", k, iv, data=ct) is None
        rows.append((hx(k), hx(iv), hx(ct)))
    # a 16-byte all-0x10 padding block alone is valid and decrypts to the empty string
    ct = O.ask("cbc-raw", k, iv, data=b"\x10" * 16)[0]
    out.append("/-- (key, iv, ciphertext) : decryption must fail (bad padding) -/\n" + lean_array("cbcBad", "String × String × String", rows))
    out.append(f"def cbcEmptyCt : String × String × String := ({hx(k)}, {hx(iv)}, {hx(ct)})\n")

    # ---- GCM
    rows = []
    for kl in [16, 24, 32]:
        for al in [0, 20, 1000]:
            for n in [0, 1, 16, 17, 4096]:
                k = lcg_bytes(kl, 5 * kl + al + n); iv = lcg_bytes(12, kl + al + 3 * n)
                aad = lcg_bytes(al, 4000 + al); pt = lcg_bytes(n, 5000 + n)
                ct, tag = O.ask("gcm-enc", k, iv, aad, pt)
                assert O.ask("gcm-dec", k, iv, aad, ct, tag)[0] == pt
                rows.append((hx(k), hx(iv), str(al), str(n), hx(ct), hx(tag)))
    out.append("/-- (key, iv, aadLen, n, ct, tag) with aad = lcgBytes aadLen (4000+aadLen), pt = lcgBytes n (5000+n) -/\n"
               + lean_array("gcmVecs", "String × String × Nat × Nat × String × String", rows))
    rows = []
    # GCM spec (McGrew/Viega) test cases 1-6 typed by hand; checked against OpenSSL here
    K = "feffe9928665731c6d6a8f9467308308"
    P = ("d9313225f88406e5a55909c5aff5269a86a7a9531534f7da2e4c303d8a318a72"
         "1c3c0c95956809532fcf0e2449a6b525b16aedf5aa0de657ba637b391aafd255")
    A = "feedfacedeadbeeffeedfacedeadbeefabaddad2"
    tcs = [("00" * 16, "00" * 12, "", "", "", "58e2fccefa7e3061367f1d57a4e7455a"),
           ("00" * 16, "00" * 12, "", "00" * 16, "0388dace60b6a392f328c2b971b2fe78", "ab6e47d42cec13bdf53a67b21257bddf"),
           (K, "cafebabefacedbaddecaf888", "", P,
            "42831ec2217774244b7221b784d0d49ce3aa212f2c02a4e035c17e2329aca12e"
            "21d514b25466931c7d8f6a5aac84aa051ba30b396a0aac973d58e091473f5985", "4d5c2af327cd64a62cf35abd2ba6fab4"),
           (K, "cafebabefacedbaddecaf888", A, P[:120],
            "42831ec2217774244b7221b784d0d49ce3aa212f2c02a4e035c17e2329aca12e"
            "21d514b25466931c7d8f6a5aac84aa051ba30b396a0aac973d58e091", "5bc94fbc3221a5db94fae95ae7121a47"),
           (K, "cafebabefacedbad", A, P[:120], None, "3612d2e79e3b0785561be14aaca2fccb"),
           (K, "9313225df88406e555909c5aff5269aa6a7a9538534f7da1e4c303d2a318a728c3c0c95156809539fcf0e2429a6b525416aedbf5a0de6a57a637b39b",
            A, P[:120], None, "619cc5aefffe0bfa462af43c1699d050")]
    for k, iv, aad, pt, ct, tag in tcs:
        r = O.ask("gcm-enc", bytes.fromhex(k), bytes.fromhex(iv), bytes.fromhex(aad), bytes.fromhex(pt))
        if ct is not None: assert r[0].hex() == ct, (iv, r[0].hex())
        assert r[1].hex() == tag, (iv, r[1].hex())
        rows.append((q(k), q(iv), q(aad), q(pt), hx(r[0]), q(tag)))
    # further IV lengths
    for kl, il in [(16, 1), (24, 8), (32, 13), (16, 16), (32, 17), (24, 32), (32, 100)]:
        k = lcg_bytes(kl, 900 + il); iv = lcg_bytes(il, 901 + il); aad = lcg_bytes(il + 3, 902); pt = lcg_bytes(50 + il, 903)
        ct, tag = O.ask("gcm-enc", k, iv, aad, pt)
        rows.append((hx(k), hx(iv), hx(aad), hx(pt), hx(ct), hx(tag)))
    out.append("/-- (key, iv, aad, pt, ct, tag) -/\n" + lean_array("gcmKat", "String × String × String × String × String × String", rows))

    # ---- key wrap
    rows = []
    rfc = [("000102030405060708090A0B0C0D0E0F", "00112233445566778899AABBCCDDEEFF",
            "1FA68B0A8112B447AEF34BD8FB5A7B829D3E862371D2CFE5"),
           ("000102030405060708090A0B0C0D0E0F1011121314151617", "00112233445566778899AABBCCDDEEFF",
            "96778B25AE6CA435F92B5B97C050AED2468AB8A17AD84E5D"),
           ("000102030405060708090A0B0C0D0E0F101112131415161718191A1B1C1D1E1F", "00112233445566778899AABBCCDDEEFF",
            "64E8C3F9CE0F5BA263E9777905818A2A93C8191E7D6E8AE7"),
           ("000102030405060708090A0B0C0D0E0F1011121314151617", "00112233445566778899AABBCCDDEEFF0001020304050607",
            "031D33264E15D33268F24EC260743EDCE1C6C7DDEE725A936BA814915C6762D2"),
           ("000102030405060708090A0B0C0D0E0F101112131415161718191A1B1C1D1E1F", "00112233445566778899AABBCCDDEEFF0001020304050607",
            "A8F9BC1612C68B3FF6E6F4FBE30E71E4769C8B80A32CB8958CD5D17D6B254DA1"),
           ("000102030405060708090A0B0C0D0E0F101112131415161718191A1B1C1D1E1F",
            "00112233445566778899AABBCCDDEEFF000102030405060708090A0B0C0D0E0F",
            "28C9F404C4B810F4CBCCB35CFB87F8263F5786E2D80ED326CBC7F0E71A99F43BFB988B9B7A02DD21")]
    for k, p, c in rfc:
        assert O.ask("kw-enc", bytes.fromhex(k), data=bytes.fromhex(p))[0].hex() == c.lower(), k
        rows.append((q(k.lower()), q(p.lower()), q(c.lower())))
    for kl in [16, 24, 32]:
        for n in [16, 24, 32, 40, 64, 512]:
            k = lcg_bytes(kl, 600 + kl + n); p = lcg_bytes(n, 700 + n)
            c = O.ask("kw-enc", k, data=p)[0]
            assert O.ask("kw-dec", k, data=c)[0] == p
            rows.append((hx(k), hx(p), hx(c)))
    out.append("/-- (kek, plaintext, wrapped) -/\n" + lean_array("kwVecs", "String × String × String", rows))

    # ---- inflate
    def raw(data, level=9, strategy=zlib.Z_DEFAULT_STRATEGY, mem=8):
        c = zlib.compressobj(level, zlib.DEFLATED, -15, mem, strategy)
        return c.compress(data) + c.flush()
    def btypes(stream):
        """(sanity) list the block types occurring in a raw deflate stream, via zlib's Z_BLOCK-less
        trick: decode with our own tiny walker would be overkill; instead we only peek at the first."""
        return (stream[0] >> 1) & 3
    def fmtspec(spec): return "[" + ", ".join(f"({q(k)}, {n}, {p})" for k, n, p in spec) + "]"
    cases = []
    def add(name, spec, stream):
        data = segs(spec)
        assert zlib.decompressobj(-15).decompress(stream) == data
        cases.append((name, spec, stream, data))
    add("empty", [], raw(b""))
    add("one-byte", [("rep", 1, 0x61)], raw(b"a"))
    s = [("text", 40, 3)];            add("fixed-short", s, raw(segs(s))); assert btypes(raw(segs(s))) == 1
    s = [("rep", 1000, 0x41)];        add("fixed-rle", s, raw(segs(s)))
    s = [("text", 3000, 11)];         add("fixed-forced-3000", s, raw(segs(s), 9, zlib.Z_FIXED)); assert btypes(cases[-1][2]) == 1
    s = [("text", 20480, 5)];         add("dynamic-20k-l9", s, raw(segs(s))); assert btypes(cases[-1][2]) == 2
    s = [("text", 20480, 6)];         add("dynamic-20k-l1", s, raw(segs(s), 1)); assert btypes(cases[-1][2]) == 2
    s = [("text", 9000, 8), ("lcg", 3000, 9), ("text", 9000, 8)]
    add("dynamic-mixed-21k", s, raw(segs(s)))
    s = [("text", 6000, 12)];         add("huffman-only", s, raw(segs(s), 9, zlib.Z_HUFFMAN_ONLY))
    s = [("lcg", 5000, 10)];          add("stored-by-zlib", s, raw(segs(s))); assert btypes(cases[-1][2]) == 0
    s = [("lcg", 12000, 13)];         add("stored-level0-multi", s, raw(segs(s), 0, zlib.Z_DEFAULT_STRATEGY, 1))
    def stored_blocks(st):
        i = n = 0
        while True:
            assert st[i] & 6 == 0
            ln = st[i + 1] | st[i + 2] << 8; n += 1
            if st[i] & 1: return n
            i += 5 + ln
    assert stored_blocks(cases[-1][2]) >= 2, stored_blocks(cases[-1][2])
    s = [("text", 30000, 14)];        add("dynamic-multiblock-mem1", s, raw(segs(s), 9, zlib.Z_DEFAULT_STRATEGY, 1))
    # hand-assembled multi-block stream: dynamic, stored, fixed, dynamic pieces glued with sync flushes
    c = zlib.compressobj(9, zlib.DEFLATED, -15)
    spec = [("text", 5000, 21), ("lcg", 1200, 22), ("rep", 300, 0x7a), ("text", 4000, 21)]
    stream = b""
    for piece in spec:
        stream += c.compress(segs([piece])) + c.flush(zlib.Z_SYNC_FLUSH)
    stream += c.flush()
    add("multi-sync-flush", spec, stream)
    # long distances / window: 32 KiB apart repeats
    s = [("lcg", 2000, 30), ("text", 30000, 31), ("lcg", 2000, 30)]
    add("far-match", s, raw(segs(s)))
    rows = [(q(n), fmtspec(sp), hx(st)) for n, sp, st, _ in cases]
    out.append("/-- (name, expected-data spec, raw deflate stream) -/\n"
               + lean_array("inflateVecs", "String × List (String × Nat × Nat) × String", rows))

    # truncation: what zlib yields for a cut stream
    rows = []
    for name, spec, stream, data in cases:
        if len(stream) < 8: continue
        cuts = sorted(set([1, 2, 5, len(stream) // 3, len(stream) // 2, len(stream) - 2, len(stream) - 1]))
        for cut in cuts:
            d = zlib.decompressobj(-15)
            got = d.decompress(stream[:cut])
            assert data.startswith(got)
            if d.eof:   # complete anyway (e.g. only padding cut off)
                continue
            rows.append((q(name), str(cut), str(len(got))))
    out.append("/-- (vector name, cut position, number of output bytes zlib produces from the cut stream) -/\n"
               + lean_array("inflateTrunc", "String × Nat × Nat", rows))

    # malformed streams (each rejected by zlib)
    class BW:
        def __init__(s): s.bits = []
        def put(s, v, n):                # n bits, LSB first
            for i in range(n): s.bits.append((v >> i) & 1)
        def code(s, v, n):               # Huffman code, MSB first
            for i in reversed(range(n)): s.bits.append((v >> i) & 1)
        def bytes(s):
            b = s.bits + [0] * (-len(s.bits) % 8)
            return bytes(sum(b[i + j] << j for j in range(8)) for i in range(0, len(b), 8))
    bad = []
    bad.append(("btype3", bytes([0x07])))
    bad.append(("stored-bad-nlen", bytes([0x01, 0x05, 0x00, 0xfa, 0xfe]) + b"hello"))
    w = BW(); w.put(1, 1); w.put(1, 2); w.code(0b0000001, 7); w.code(0, 5); w.code(0, 7)
    bad.append(("dist-before-start", w.bytes()))
    w = BW(); w.put(1, 1); w.put(1, 2); w.code(0x30 + 0x61, 8); w.code(0b0000001, 7); w.code(1, 5); w.code(0, 7)
    bad.append(("dist-too-far-by-one", w.bytes()))
    w = BW(); w.put(1, 1); w.put(1, 2); w.code(0b11000110, 8); w.code(0, 7)       # lit/len symbol 286
    bad.append(("fixed-sym-286", w.bytes()))
    w = BW(); w.put(1, 1); w.put(1, 2); w.code(0x30 + 0x61, 8); w.code(0b0000001, 7); w.code(30, 5); w.code(0, 7)
    bad.append(("fixed-dist-30", w.bytes()))
    w = BW(); w.put(1, 1); w.put(2, 2); w.put(31, 5); w.put(0, 5); w.put(0, 4); w.put(0, 12); w.put(0, 32)
    bad.append(("dyn-nlen-288", w.bytes()))
    w = BW(); w.put(1, 1); w.put(2, 2); w.put(0, 5); w.put(31, 5); w.put(0, 4); w.put(0, 12); w.put(0, 32)
    bad.append(("dyn-ndist-32", w.bytes()))
    w = BW(); w.put(1, 1); w.put(2, 2); w.put(0, 5); w.put(0, 5); w.put(0, 4); w.put(1, 3); w.put(0, 9); w.put(0, 64)
    bad.append(("dyn-incomplete-clcode", w.bytes()))
    w = BW(); w.put(1, 1); w.put(2, 2); w.put(0, 5); w.put(0, 5); w.put(15, 4)
    for _ in range(19): w.put(1, 3)
    w.put(0, 64)
    bad.append(("dyn-oversubscribed-clcode", w.bytes()))
    # code-length code {16:1bit, 0:1bit}; first symbol is 16 (repeat with no previous length)
    w = BW(); w.put(1, 1); w.put(2, 2); w.put(0, 5); w.put(0, 5); w.put(0, 4)
    w.put(1, 3); w.put(0, 3); w.put(0, 3); w.put(1, 3)      # order 16,17,18,0
    w.code(1, 1); w.put(0, 2); w.put(0, 64)
    bad.append(("dyn-repeat-without-previous", w.bytes()))
    # all 258 lengths zero via code 18 -> no end-of-block code
    w = BW(); w.put(1, 1); w.put(2, 2); w.put(0, 5); w.put(0, 5); w.put(0, 4)
    w.put(0, 3); w.put(0, 3); w.put(1, 3); w.put(1, 3)      # 18 and 0 have length 1: 0 -> code 0, 18 -> code 1
    w.code(1, 1); w.put(127, 7); w.code(1, 1); w.put(109, 7); w.put(0, 64)
    bad.append(("dyn-no-eob", w.bytes()))
    # repeat overruns nlen+ndist
    w = BW(); w.put(1, 1); w.put(2, 2); w.put(0, 5); w.put(0, 5); w.put(0, 4)
    w.put(0, 3); w.put(0, 3); w.put(1, 3); w.put(1, 3)
    w.code(1, 1); w.put(127, 7); w.code(1, 1); w.put(127, 7); w.put(0, 64)
    bad.append(("dyn-repeat-overrun", w.bytes()))
    good_then_garbage = raw(b"trailing bytes are ignored") + b"\xff\xff\xff"
    rows = []
    for name, st in bad:
        try:
            d = zlib.decompressobj(-15); d.decompress(st)
            raise SystemExit(f"zlib accepted malformed vector {name} (eof={d.eof})")
        except zlib.error:
            pass
        rows.append((q(name), hx(st)))
    out.append("/-- (name, stream) : zlib reports a data error for each of these -/\n" + lean_array("inflateBad", "String × String", rows))
    d = zlib.decompressobj(-15); assert d.decompress(good_then_garbage) == b"trailing bytes are ignored" and d.unused_data == b"\xff\xff\xff"
    out.append(f"def inflateTrailing : String × String := ({hx(good_then_garbage)}, {hx(b'trailing bytes are ignored')})\n")
    # incomplete single-code distance tree (allowed): zlib produces these for e.g. runs
    s = raw(b"ab" * 200)
    out.append(f"def inflateRun : String := {hx(s)}\n")
    assert zlib.decompressobj(-15).decompress(s) == b"ab" * 200

    # zip bomb: 10 MiB of zeros
    bomb = raw(b"\0" * (10 << 20))
    out.append(f"def inflateBomb : String := {hx(bomb)}\n")

    # 300 KB timing stream: the sync-flushed (byte aligned, non-final) compression of 20 KiB of
    # text repeated 15 times, then an empty final stored block.
    c = zlib.compressobj(9, zlib.DEFLATED, -15)
    piece = c.compress(textgen(20480, 40)) + c.flush(zlib.Z_SYNC_FLUSH)
    big = piece * 15 + bytes([1, 0, 0, 0xff, 0xff])
    assert zlib.decompressobj(-15).decompress(big) == textgen(20480, 40) * 15
    out.append(f"/-- sync-flushed deflate of textgen 20480 40 (non-final, byte aligned) -/\ndef inflatePiece : String := {hx(piece)}\n")

    # deflateStored reference (built by hand here, checked with zlib)
    rows = []
    def stored(data):
        chunks = [data[i:i + 65535] for i in range(0, len(data), 65535)] or [b""]
        o = b""
        for i, ch in enumerate(chunks):
            o += bytes([1 if i == len(chunks) - 1 else 0]) + len(ch).to_bytes(2, "little") + (0xffff - len(ch)).to_bytes(2, "little") + ch
        return o
    for n in [0, 1, 1000, 65535, 65536, 131070, 131071, 200000]:
        st = stored(lcg_bytes(n, 50 + n))
        assert zlib.decompressobj(-15).decompress(st) == lcg_bytes(n, 50 + n)
        rows.append((str(n), str(len(st)), q(hashlib.sha256(st).hexdigest())))
    out.append("/-- (n, length, sha256) of deflateStored (lcgBytes n (50+n)) -/\n" + lean_array("storedVecs", "Nat × Nat × String", rows))

    # ---- timing references
    k = lcg_bytes(32, 1); iv = lcg_bytes(12, 2); aad = lcg_bytes(64, 3); pt = lcg_bytes(307200, 7)
    ct, tag = O.ask("gcm-enc", k, iv, aad, pt)
    out.append(f"def timingSha256 : String := {q(hashlib.sha256(pt).hexdigest())}\n")
    out.append(f"def timingGcm : String × String × String × String × String := ({hx(k)}, {hx(iv)}, {hx(aad)}, {q(hashlib.sha256(ct).hexdigest())}, {hx(tag)})\n")
    out.append(f"def timingPbkdf2 : String := {q(hashlib.pbkdf2_hmac('sha512', b'timing-password', b'timing-salt', 32768, 32).hex())}\n")

    gen = "-- BEGIN GENERATED VECTORS (by vectors_gen.py; do not edit by hand)\n" + "\n".join(out) + "-- END GENERATED VECTORS\n"
    src = open(target).read()
    a = src.index("-- BEGIN GENERATED VECTORS"); b = src.index("-- END GENERATED VECTORS") + len("-- END GENERATED VECTORS\n")
    open(target, "w").write(src[:a] + gen + src[b:])
    print(f"wrote {len(gen)} bytes of vectors into {target}")

if __name__ == "__main__":
    main()
