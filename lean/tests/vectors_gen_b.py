#!/usr/bin/env python3
"""
Known-answer vector generator for CryptoTest.lean (agent B: Num / Ec / Rsa).

Uses the `openssl` CLI (tested with OpenSSL 3.0.x) to generate fresh RSA and EC
keys, sign / encrypt / derive with them, and python3 big ints for the number
theory vectors.  The result is spliced into CryptoTest.lean between the markers

    -- BEGIN GENERATED VECTORS
    -- END GENERATED VECTORS

usage:  python3 vectors_gen_b.py [path/to/CryptoTest(B).lean] [workdir]

Every run produces *new* keys (so new vectors); the test executable itself is
offline and deterministic because the vectors are embedded as literals.
"""
import hashlib, os, random, re, subprocess, sys

TARGET = sys.argv[1] if len(sys.argv) > 1 else (
    "CryptoTestB.lean" if os.path.exists("CryptoTestB.lean") else "CryptoTest.lean")
WORK = sys.argv[2] if len(sys.argv) > 2 else "/var/tmp/agentB/vec"
os.makedirs(WORK, exist_ok=True)


def run(*args, inp=None):
    r = subprocess.run(args, input=inp, capture_output=True)
    if r.returncode != 0:
        raise SystemExit("FAILED: %s\n%s" % (" ".join(args), r.stderr.decode()))
    return r.stdout


def W(name):
    return os.path.join(WORK, name)


def write(name, data):
    with open(W(name), "wb") as f:
        f.write(data)
    return W(name)


def read(name):
    with open(W(name), "rb") as f:
        return f.read()


def text_fields(pem_path):
    """parse `openssl pkey -text -noout`: name -> int (colon-hex blocks) """
    t = run("openssl", "pkey", "-in", pem_path, "-text", "-noout").decode()
    out, cur = {}, None
    for line in t.splitlines():
        m = re.match(r"^([A-Za-z0-9 ]+):\s*(.*)$", line)
        if m and not line.startswith(" "):
            cur = m.group(1).strip()
            out[cur] = m.group(2).strip()
        elif cur is not None and line.startswith("    "):
            out[cur] += line.strip()
    return out


def hexint(s):
    m = re.match(r"^(\d+) \(0x[0-9a-fA-F]+\)$", s)
    if m:
        return int(m.group(1))
    return int(s.replace(":", ""), 16)


def der_sig_to_rs(der):
    assert der[0] == 0x30
    i = 2 if der[1] < 0x80 else 2 + (der[1] & 0x7F)
    assert der[i] == 2
    l = der[i + 1]
    r = int.from_bytes(der[i + 2:i + 2 + l], "big")
    i += 2 + l
    assert der[i] == 2
    l = der[i + 1]
    s = int.from_bytes(der[i + 2:i + 2 + l], "big")
    assert i + 2 + l == len(der)
    return r, s


out = []


def emit(s=""):
    out.append(s)


def lean_str(s):
    return '"' + s.replace("\\", "\\\\").replace("\n", "\\n").replace('"', '\\"') + '"'


def lean_hex(b):
    return '"' + b.hex() + '"'


MSG = (b"The quick brown fox jumps over the lazy dog. " +
       bytes(range(0, 256, 7)) + b" -- jose model vectors B")
write("msg.bin", MSG)
emit("def vecMsg : String := " + lean_hex(MSG))
emit()

# ---------------------------------------------------------------- number theory
rnd = random.Random(20260930)
emit("/-- (b, e, m, b^e mod m) -/")
emit("def modPowVecs : List (Nat × Nat × Nat × Nat) := [")
rows = []
for bits in (8, 64, 255, 521, 1024):
    for _ in range(2):
        m = rnd.getrandbits(bits) | 1 | (1 << (bits - 1))
        b = rnd.getrandbits(bits + 13)
        e = rnd.getrandbits(bits)
        rows.append("  (0x%x, 0x%x, 0x%x, 0x%x)" % (b, e, m, pow(b, e, m)))
rows.append("  (0x5, 0x0, 0x7, 0x1)")
rows.append("  (0x5, 0x0, 0x1, 0x0)")
rows.append("  (0x0, 0x0, 0x9, 0x1)")
rows.append("  (0x0, 0x5, 0x9, 0x0)")
rows.append("  (0x2, 0x400, 0x%x, 0x%x)" % (2**127 - 1, pow(2, 1024, 2**127 - 1)))
emit(",\n".join(rows) + "]")
emit()
emit("/-- (a, m, a^-1 mod m) ; 0 encodes `none` -/")
emit("def modInvVecs : List (Nat × Nat × Nat) := [")
rows = []
from math import gcd
for bits in (8, 64, 256, 521):
    for _ in range(3):
        m = rnd.getrandbits(bits) | (1 << (bits - 1))
        a = rnd.getrandbits(bits + 5)
        inv = pow(a, -1, m) if gcd(a, m) == 1 else 0
        rows.append("  (0x%x, 0x%x, 0x%x)" % (a, m, inv))
rows += ["  (0x6, 0x9, 0x0)", "  (0x0, 0x7, 0x0)", "  (0x3, 0x1, 0x0)", "  (0x3, 0x0, 0x0)",
         "  (0x1, 0x2, 0x1)", "  (0x3, 0x7, 0x5)", "  (0xa, 0x7, 0x5)"]
emit(",\n".join(rows) + "]")
emit()

# ---------------------------------------------------------------- MGF1
emit("/-- (hash, seed, len, mask) -/")
emit("def mgf1Vecs : List (HashAlg × String × Nat × String) := [")
rows = []


def mgf1(hname, seed, n):
    t = b""
    c = 0
    while len(t) < n:
        t += hashlib.new(hname, seed + c.to_bytes(4, "big")).digest()
        c += 1
    return t[:n]


for hname, seed, n in (("sha1", b"seed", 50), ("sha256", b"\x00\x01\x02", 32), ("sha256", b"", 100),
                       ("sha384", b"abc", 1), ("sha512", b"xyz" * 30, 200), ("sha224", b"q", 0),
                       ("sha224", b"q", 57)):
    rows.append("  (.%s, %s, %d, %s)" % (hname, lean_hex(seed), n, lean_hex(mgf1(hname, seed, n))))
emit(",\n".join(rows) + "]")
emit()

# ---------------------------------------------------------------- RSA
emit("""structure RsaVec where
  bits : Nat
  n : Nat
  e : Nat
  d : Nat
  pem : String
  /-- RSASSA-PKCS1-v1_5 signatures over `vecMsg` made by `openssl dgst -<h> -sign` -/
  p1sigs : List (HashAlg × String)
  /-- RSASSA-PSS signatures over `vecMsg`: hash, salt length used by openssl, signature -/
  pss : List (HashAlg × Nat × String)
  /-- RSAES-OAEP: hash (also MGF1 hash), plaintext, ciphertext made by openssl -/
  oaep : List (HashAlg × String × String)
  /-- RSAES-PKCS1-v1_5: plaintext, ciphertext made by openssl -/
  p1enc : List (String × String)
  /-- independent python implementation, deterministic: hash, salt, signature over `vecMsg` -/
  pssKats : List (HashAlg × String × String)
  /-- python: hash, plaintext, seed, ciphertext -/
  oaepKats : List (HashAlg × String × String × String)
  /-- python: plaintext, padding string, ciphertext -/
  p1encKats : List (String × String × String)
""")


def xor(a, b):
    return bytes(x ^ y for x, y in zip(a, b))


def py_pss_sign(h, n, d, msg, salt):
    H = lambda b: hashlib.new(h, b).digest()
    embits = n.bit_length() - 1
    emlen = (embits + 7) // 8
    mh = H(msg)
    hh = H(b"\0" * 8 + mh + salt)
    db = b"\0" * (emlen - len(salt) - len(hh) - 2) + b"\x01" + salt
    m = bytearray(xor(db, mgf1(h, hh, len(db))))
    m[0] &= 0xFF >> (8 * emlen - embits)
    em = bytes(m) + hh + b"\xbc"
    return pow(int.from_bytes(em, "big"), d, n).to_bytes((n.bit_length() + 7) // 8, "big")


def py_oaep_enc(h, n, e, msg, seed):
    H = lambda b: hashlib.new(h, b).digest()
    k = (n.bit_length() + 7) // 8
    hl = len(H(b""))
    db = H(b"") + b"\0" * (k - len(msg) - 2 * hl - 2) + b"\x01" + msg
    mdb = xor(db, mgf1(h, seed, k - hl - 1))
    ms = xor(seed, mgf1(h, mdb, hl))
    return pow(int.from_bytes(b"\0" + ms + mdb, "big"), e, n).to_bytes(k, "big")


HASHES = ["sha1", "sha224", "sha256", "sha384", "sha512"]
HLEN = {"sha1": 20, "sha224": 28, "sha256": 32, "sha384": 48, "sha512": 64}


def gen_rsa(bits, full=True):
    key = W("rsa%d.pem" % bits)
    pub = W("rsa%d.pub.pem" % bits)
    run("openssl", "genpkey", "-algorithm", "RSA", "-pkeyopt", "rsa_keygen_bits:%d" % bits, "-out", key)
    run("openssl", "pkey", "-in", key, "-pubout", "-out", pub)
    f = text_fields(key)
    n, e, d = hexint(f["modulus"]), hexint(f["publicExponent"]), hexint(f["privateExponent"])
    assert n.bit_length() == bits
    k = bits // 8
    emit("def rsa%d : RsaVec where" % bits)
    emit("  bits := %d" % bits)
    emit("  n := 0x%x" % n)
    emit("  e := 0x%x" % e)
    emit("  d := 0x%x" % d)
    emit("  pem := " + lean_str(open(key).read()))
    rows = []
    for h in (HASHES if full else ["sha256"]):
        sig = run("openssl", "dgst", "-" + h, "-sign", key, W("msg.bin"))
        assert len(sig) == k
        rows.append("    (.%s, %s)" % (h, lean_hex(sig)))
    emit("  p1sigs := [\n" + ",\n".join(rows) + "]")
    rows = []
    if full:
        for h, sl in (("sha384", "digest"), ("sha256", "digest"), ("sha512", "digest"), ("sha1", "digest"),
                      ("sha256", "max"), ("sha256", "0"), ("sha224", "11")):
            sig = run("openssl", "dgst", "-" + h, "-sigopt", "rsa_padding_mode:pss",
                      "-sigopt", "rsa_pss_saltlen:" + sl, "-sign", key, W("msg.bin"))
            emlen = (bits - 1 + 7) // 8
            slen = {"digest": HLEN[h], "max": emlen - HLEN[h] - 2}.get(sl)
            if slen is None:
                slen = int(sl)
            rows.append("    (.%s, %d, %s)" % (h, slen, lean_hex(sig)))
    emit("  pss := [\n" + ",\n".join(rows) + "]")
    rows = []
    if full:
        for h, pt in (("sha256", b"oaep secret \x00\x01\xff payload"), ("sha1", b"A"), ("sha256", b""),
                      ("sha384", bytes(range(40))), ("sha512", b"cek:" + bytes(range(32))),
                      ("sha256", bytes(i % 251 for i in range(k - 2 * 32 - 2)))):
            write("pt.bin", pt)
            ct = run("openssl", "pkeyutl", "-encrypt", "-pubin", "-inkey", pub,
                     "-pkeyopt", "rsa_padding_mode:oaep", "-pkeyopt", "rsa_oaep_md:" + h,
                     "-pkeyopt", "rsa_mgf1_md:" + h, "-in", W("pt.bin"))
            rows.append("    (.%s, %s, %s)" % (h, lean_hex(pt), lean_hex(ct)))
    emit("  oaep := [\n" + ",\n".join(rows) + "]")
    rows = []
    if full:
        for pt in (b"pkcs1 v1.5 secret", b"", bytes((255 - i) % 256 for i in range(k - 11))):
            write("pt.bin", pt)
            ct = run("openssl", "pkeyutl", "-encrypt", "-pubin", "-inkey", pub,
                     "-pkeyopt", "rsa_padding_mode:pkcs1", "-in", W("pt.bin"))
            rows.append("    (%s, %s)" % (lean_hex(pt), lean_hex(ct)))
    emit("  p1enc := [\n" + ",\n".join(rows) + "]")
    rows = []
    if full:
        for h, sl in (("sha256", 32), ("sha384", 48), ("sha512", 0), ("sha1", 5), ("sha224", k - 28 - 2)):
            salt = rnd.randbytes(sl)
            sig = py_pss_sign(h, n, d, MSG, salt)
            # cross-check the python implementation against openssl too
            write("sig.bin", sig)
            okv = run("openssl", "dgst", "-" + h, "-sigopt", "rsa_padding_mode:pss", "-sigopt",
                      "rsa_pss_saltlen:%d" % sl, "-verify", pub, "-signature", W("sig.bin"), W("msg.bin"))
            assert b"Verified OK" in okv
            rows.append("    (.%s, %s, %s)" % (h, lean_hex(salt), lean_hex(sig)))
    emit("  pssKats := [\n" + ",\n".join(rows) + "]")
    rows = []
    if full:
        for h, pt in (("sha256", b"python oaep"), ("sha1", b""), ("sha512", bytes(range(60))),
                      ("sha384", bytes(i % 253 for i in range(k - 2 * 48 - 2))), ("sha224", b"\0\0\1")):
            seed = rnd.randbytes(HLEN[h])
            ct = py_oaep_enc(h, n, e, pt, seed)
            write("ct.bin", ct)
            back = run("openssl", "pkeyutl", "-decrypt", "-inkey", key, "-pkeyopt", "rsa_padding_mode:oaep",
                       "-pkeyopt", "rsa_oaep_md:" + h, "-pkeyopt", "rsa_mgf1_md:" + h, "-in", W("ct.bin"))
            assert back == pt
            rows.append("    (.%s, %s, %s, %s)" % (h, lean_hex(pt), lean_hex(seed), lean_hex(ct)))
    emit("  oaepKats := [\n" + ",\n".join(rows) + "]")
    rows = []
    if full:
        for pt in (b"python pkcs1", b"", bytes(i % 256 for i in range(k - 11))):
            ps = bytes(rnd.randrange(1, 256) for _ in range(k - len(pt) - 3))
            ct = pow(int.from_bytes(b"\0\2" + ps + b"\0" + pt, "big"), e, n).to_bytes(k, "big")
            write("ct.bin", ct)
            back = run("openssl", "pkeyutl", "-decrypt", "-inkey", key, "-pkeyopt", "rsa_padding_mode:pkcs1",
                       "-in", W("ct.bin"))
            assert back == pt
            rows.append("    (%s, %s, %s)" % (lean_hex(pt), lean_hex(ps), lean_hex(ct)))
    emit("  p1encKats := [\n" + ",\n".join(rows) + "]")
    emit()


gen_rsa(2048)
gen_rsa(3072)
gen_rsa(4096, full=False)

# ---------------------------------------------------------------- EC
emit("""structure EcVec where
  /-- openssl curve name -/
  name : String
  d : Nat
  x : Nat
  y : Nat
  pem : String
  /-- peer key for ECDH -/
  d2 : Nat
  x2 : Nat
  y2 : Nat
  /-- `openssl pkeyutl -derive` (our private key, peer public key) -/
  shared : String
  /-- ECDSA signatures over `vecMsg` by `openssl dgst -<h> -sign`: hash, r, s -/
  sigs : List (HashAlg × Nat × Nat)
  /-- ECDSA signing KATs from an independent (python, affine) implementation:
      private key `d`, nonce k, digest integer e, r, s -/
  signKats : List (Nat × Nat × Nat × Nat)
  /-- scalar multiplication KATs (python): k, x, y of k·G -/
  mulKats : List (Nat × Nat × Nat)
""")

# independent affine EC arithmetic in python (parameters parsed from openssl)
def curve_params(ossl_name):
    t = run("openssl", "ecparam", "-name", ossl_name, "-param_enc", "explicit", "-text", "-noout").decode()
    fields, cur = {}, None
    for line in t.splitlines():
        m = re.match(r"^(Prime|A|B|Generator \(uncompressed\)|Order|Cofactor|Seed):\s*(.*)$", line)
        if m:
            cur = m.group(1)
            fields[cur] = m.group(2).strip()
        elif cur and line.startswith("    "):
            fields[cur] += line.strip()
    p, a, b, n = (hexint(fields[k]) for k in ("Prime", "A", "B", "Order"))
    g = fields["Generator (uncompressed)"].replace(":", "")[2:]
    return p, a, b, int(g[:len(g) // 2], 16), int(g[len(g) // 2:], 16), n


def ec_add(cv, P, Q):
    p, a = cv[0], cv[1]
    if P is None:
        return Q
    if Q is None:
        return P
    if P[0] == Q[0]:
        if (P[1] + Q[1]) % p == 0:
            return None
        l = (3 * P[0] * P[0] + a) * pow(2 * P[1], -1, p) % p
    else:
        l = (Q[1] - P[1]) * pow(Q[0] - P[0], -1, p) % p
    x = (l * l - P[0] - Q[0]) % p
    return x, (l * (P[0] - x) - P[1]) % p


def ec_mul(cv, k, P):
    R = None
    while k:
        if k & 1:
            R = ec_add(cv, R, P)
        P = ec_add(cv, P, P)
        k >>= 1
    return R



def gen_ec(lean_name, ossl_name):
    def mk(tag):
        key = W("%s_%s.pem" % (lean_name, tag))
        run("openssl", "genpkey", "-algorithm", "EC", "-pkeyopt", "ec_paramgen_curve:" + ossl_name,
            "-pkeyopt", "ec_param_enc:named_curve", "-out", key)
        pub = W("%s_%s.pub.pem" % (lean_name, tag))
        run("openssl", "pkey", "-in", key, "-pubout", "-out", pub)
        f = text_fields(key)
        d = hexint(f["priv"])
        pubhex = f["pub"].replace(":", "")
        assert pubhex.startswith("04")
        pubhex = pubhex[2:]
        x, y = int(pubhex[:len(pubhex) // 2], 16), int(pubhex[len(pubhex) // 2:], 16)
        return key, pub, d, x, y

    key, pub, d, x, y = mk("a")
    key2, pub2, d2, x2, y2 = mk("b")
    z = run("openssl", "pkeyutl", "-derive", "-inkey", key, "-peerkey", pub2)
    z2 = run("openssl", "pkeyutl", "-derive", "-inkey", key2, "-peerkey", pub)
    assert z == z2
    emit("def ec_%s : EcVec where" % lean_name)
    emit("  name := %s" % lean_str(ossl_name))
    emit("  d := 0x%x" % d)
    emit("  x := 0x%x" % x)
    emit("  y := 0x%x" % y)
    emit("  pem := " + lean_str(open(key).read()))
    emit("  d2 := 0x%x" % d2)
    emit("  x2 := 0x%x" % x2)
    emit("  y2 := 0x%x" % y2)
    emit("  shared := " + lean_hex(z))
    rows = []
    for h in ("sha256", "sha384", "sha512", "sha1", "sha224"):
        for _ in range(2):
            der = run("openssl", "dgst", "-" + h, "-sign", key, W("msg.bin"))
            r, s = der_sig_to_rs(der)
            rows.append("    (.%s, 0x%x, 0x%x)" % (h, r, s))
    emit("  sigs := [\n" + ",\n".join(rows) + "]")
    cv = curve_params(ossl_name)
    p, a, b, gx, gy, n = cv
    G = (gx, gy)
    assert ec_mul(cv, n, G) is None and ec_mul(cv, d, G) == (x, y)
    rows = []
    for ebits in (n.bit_length(), 160, n.bit_length()):
        k = rnd.randrange(1, n)
        e = rnd.getrandbits(ebits)
        r = ec_mul(cv, k, G)[0] % n
        s = pow(k, -1, n) * (e + r * d) % n
        assert r and s
        rows.append("    (0x%x, 0x%x, 0x%x, 0x%x)" % (k, e, r, s))
    emit("  signKats := [\n" + ",\n".join(rows) + "]")
    rows = []
    for k in (1, 2, 3, 4, 5, 0xffff, n - 1, n - 2, rnd.randrange(1, n), rnd.randrange(1, n), n + 5, (n << 9) + 12345):
        X, Y = ec_mul(cv, k, G)
        rows.append("    (0x%x, 0x%x, 0x%x)" % (k, X, Y))
    emit("  mulKats := [\n" + ",\n".join(rows) + "]")
    emit()


gen_ec("p256", "prime256v1")
gen_ec("p384", "secp384r1")
gen_ec("p521", "secp521r1")
gen_ec("secp256k1", "secp256k1")

# ---------------------------------------------------------------- splice
body = "\n".join(out) + "\n"
src = open(TARGET).read()
b, e = "-- BEGIN GENERATED VECTORS\n", "-- END GENERATED VECTORS\n"
i, j = src.index(b) + len(b), src.index(e)
open(TARGET, "w").write(src[:i] + body + src[j:])
print("wrote %d bytes of vectors into %s" % (len(body), TARGET))
