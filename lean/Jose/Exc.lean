import Jose.Tables
import Jose.Json
import Jose.B64
import Jose.Prim
import Jose.Jwk
import Jose.Jws
/-
  Model of jose_jwk_exc (lib/jwk.c) with the ECDH and ECMR hooks (lib/openssl/ecdh.c, ecmr.c).
-/
namespace Jose
namespace Exc
open Tables Json Jws

def exchAlgs : List AlgRec := algs.filter (fun a => a.kind == .exch)
def findExch (n : String) : Option AlgRec := exchAlgs.find? (fun a => a.name == n)

/-- `exch.sug`: only ECDH suggests itself — both EC, same curve among P-256/384/521 -/
def exchSugOf (name : String) (prv pub : Json) : Option String :=
  if name = "ECDH" then
    match prv.getStr? "kty", prv.getStr? "crv", pub.getStr? "kty", pub.getStr? "crv" with
    | some "EC", some ca, some "EC", some cb =>
      if ca = cb && (ca = "P-256" || ca = "P-384" || ca = "P-521") then some "ECDH" else none
    | _, _, _, _ => none
  else none

/-- the loop over the registry in `jose_jwk_exc`: first non-NULL suggestion -/
def exchSug (prv pub : Json) : Option String :=
  exchAlgs.findSome? (fun a => exchSugOf a.name prv pub)

/-- result key: only kty, crv, x, y -/
def pointJwk (crv : String) (x y : Bs) : Json :=
  .obj [("kty", .str "EC"), ("crv", .str crv), ("x", B64.enc x), ("y", B64.enc y)]

/-- the point computed: ECDH = scalar multiplication by the local private key; ECMR = the same
    with a local private key, else the remote point (negated unless the remote key is private)
    added to the local point -/
def excPoint (P : Prims) (name : String) (lcl rem : EcKey) : Option (Bs × Bs) :=
  if name = "ECDH" then lcl.d.bind fun d => P.ecdh lcl.crv d rem.x rem.y
  else if name = "ECMR" then
    match lcl.d with
    | some d => P.ecdh lcl.crv d rem.x rem.y
    | none => P.ecAdd lcl.crv lcl.x lcl.y rem.x rem.y rem.d.isNone
  else none

/-- `exch.exc`: both keys must import (EC_KEY_check_key) and lie on the same curve -/
def body (P : Prims) (name : String) (prv pub : Json) : Option Json :=
  (ecKeyOf P prv).bind fun lcl =>
  (ecKeyOf P pub).bind fun rem =>
  if lcl.crv != rem.crv then none
  else (excPoint P name lcl rem).map fun xy => pointJwk lcl.crv xy.1 xy.2

/-- how the two declared algorithms are reconciled; `none` = refused -/
def excSelect (alga algb : Option String) (sug : Option String) : Option String :=
  match alga, algb with
  | some a, some b => if a = b then some a else none
  | some a, none => some a
  | none, some b => some b
  | none, none => sug

/-- `jose_jwk_exc(cfg, prv, pub)` -/
def exc (P : Prims) (prv pub : Json) : Option Json :=
  (prv.getStr? "kty").bind fun ktya =>
  (optStr prv "alg").bind fun alga =>
  (pub.getStr? "kty").bind fun ktyb =>
  (optStr pub "alg").bind fun algb =>
  if ktya != ktyb then none
  else
    -- suggestions are only consulted when neither key names an algorithm
    (excSelect alga algb (exchSug prv pub)).bind fun name =>
    (findExch name).bind fun a =>
    if !Jwk.prm (some prv) false a.p1 then none
    else if !Jwk.prm (some pub) false a.p1 then none
    else body P a.name prv pub

end Exc
end Jose
