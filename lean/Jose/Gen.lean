import Jose.Tables
import Jose.Json
import Jose.B64
import Jose.Prim
import Jose.Jwk
import Jose.Jws
/-
  Model of jose_jwk_gen (lib/jwk.c) with the PREP hooks (table regenerated from the
  hooks themselves, conflict rules as coded in each file) and the three MAKE hooks
  (lib/openssl/oct.c, ec.c, rsa.c).  Randomness is an explicit argument.
-/
namespace Jose
namespace Gen
open Tables Json Jws

/-- C `int` read through jansson's "i" format: the 64-bit value narrowed to 32 bits -/
def toInt32 (i : Int) : Int :=
  let m := i % 4294967296
  if m ≥ 2147483648 then m - 4294967296 else m

/-- a PREP hook handles the template when "alg" is a string naming one of its algorithms -/
def prepRow (jwk : Json) : Option PrepRec :=
  match jwk.getStr? "alg" with
  | some a => prepTable.find? (fun r => r.alg == a)
  | none => none

/-- `{…, s?I}`-style optional integer member -/
def optInt (jwk : Json) (m : String) : Option (Option Int) :=
  match jwk with
  | .obj kvs =>
    match lookup m kvs with
    | none => some none
    | some (.int i) => some (some i)
    | some _ => none
  | _ => none

/-- one PREP hook: conflicts with what the algorithm implies are refused, the implied
    kty / crv / bytes are written -/
def prep (jwk : Json) : Option Json :=
  match prepRow jwk with
  | none => some jwk
  | some r =>
    match jwk, optStr jwk "kty" with
    | .obj kvs, some kty =>
      if (match kty with | some k => k != r.kty | none => false) then none
      else
        let kvs1 := setKV "kty" (.str r.kty) kvs
        if r.kty = "oct" then
          match optInt jwk "bytes", r.bytes with
          | some byt, some len =>
            if (match byt with | some b => b != 0 && b != (len : Int) | none => false) then none
            else some (.obj (setKV "bytes" (.int len) kvs1))
          | _, _ => none
        else if r.kty = "EC" then
          match optStr jwk "crv", r.crv with
          | some crv, some grp =>
            if r.crvStrict then
              if (match crv with | some c => c != grp | none => false) then none
              else some (.obj (setKV "crv" (.str grp) kvs1))
            else some (.obj (setKV "crv" (.str (match crv with | some c => c | none => grp)) kvs1))
          | _, _ => none
        else some (.obj kvs1)
    | _, _ => none

/-- `check_public_exponent`: 3, or odd with 17..256 bits -/
def expOk (e : Nat) : Bool := e == 3 || (e % 2 == 1 && e ≥ 65536 && e < 2 ^ 256)

def natOfBytes (b : Bs) : Nat := b.foldl (fun n x => n * 256 + x) 0

/-- `copy_val(from, into, names…)`: existing members must be equal, missing ones are copied -/
def copyVal (src : List (String × Json)) (into : List (String × Json)) : List String → Option (List (String × Json))
  | [] => some into
  | n :: r =>
    match lookup n src with
    | none => none
    | some f =>
      match lookup n into with
      | some i => if Json.equal i f then copyVal src into r else none
      | none => copyVal src (setKV n f into) r

/-- lib/openssl/oct.c `jwk_make_execute` -/
def makeOct (kvs : List (String × Json)) (rnd : Bs) : Option Json :=
  match lookup "bytes" kvs with
  | some (.int len) =>
    if len ≤ 0 || len > (keymax : Int) then none
    else some (.obj (setKV "k" (B64.enc (rnd.take len.toNat)) (delKV "bytes" kvs)))
  | _ => none

/-- lib/openssl/ec.c `jwk_make_execute` -/
def makeEc (P : Prims) (kvs : List (String × Json)) (rnd : Bs) : Option Json :=
  (optStr (.obj kvs) "crv").bind fun crvO =>
    let crv := match crvO with | some c => c | none => "P-256"
    (crvLen crv).bind fun _ =>
    (P.ecGen crv rnd).bind fun (d, x, y) =>
      (copyVal [("crv", .str crv), ("x", B64.enc x), ("y", B64.enc y), ("d", B64.enc d)] kvs ["crv", "x", "y", "d"]).map .obj

/-- the public exponent requested: absent = 65537, base64url text or integer -/
def rsaExp (kvs : List (String × Json)) : Option Nat :=
  match lookup "e" kvs with
  | none => some 65537
  | some (.str s) => (B64.decode (B64.bytesOfString s)).map natOfBytes
  | some (.int i) => if i < 0 then none else some i.toNat
  | some _ => none

/-- lib/openssl/rsa.c `jwk_make_execute` / `mkrsa` -/
def rsaBits (kvs : List (String × Json)) : Option Int :=
  (optInt (.obj kvs) "bits").bind fun bitsO =>
    match bitsO with
    | some b => if b > 2147483647 then none else some b     -- the 64-bit value; beyond INT_MAX refused
    | none => some 2048

def makeRsa (P : Prims) (kvs : List (String × Json)) (rnd : Bs) : Option Json :=
  (rsaBits kvs).bind fun bits =>
    if bits < 2048 then none else
    (rsaExp kvs).bind fun ev =>
    if !expOk ev then none else
    (P.rsaGen bits.toNat ev rnd).bind fun ms =>
      (copyVal (ms.map (fun (n, b) => (n, B64.enc b))) (delKV "e" (delKV "bits" kvs))
        ["n", "e", "p", "d", "q", "dp", "dq", "qi"]).map .obj

/-- the MAKE hooks, dispatched on "kty" -/
def make (P : Prims) (jwk : Json) (rnd : Bs) : Option Json :=
  match jwk, jwk.getStr? "kty" with
  | .obj kvs, some "oct" => makeOct kvs rnd
  | .obj kvs, some "EC" => makeEc P kvs rnd
  | .obj kvs, some "RSA" => makeRsa P kvs rnd
  | _, _ => none

/-- inferred `key_ops` for an algorithm name (first registry entry with that name) -/
def opsFor (alg : String) : Option (List String) :=
  match algs.find? (fun a => a.name == alg) with
  | some a =>
    (match a.kind with
     | .sign => some ["sign", "verify"]
     | .wrap => some ["wrapKey", "unwrapKey"]
     | .encr => some ["encrypt", "decrypt"]
     | .exch => some ["deriveKey"]
     | _ => none)
  | none => none

/-- key_ops inference: only when "alg" is present and neither "use" nor "key_ops" is -/
def inferOps (kvs : List (String × Json)) (alg use : Option String) : List (String × Json) :=
  match alg, use, lookup "key_ops" kvs with
  | some a, none, none =>
    (match opsFor a with
     | some ops => setKV "key_ops" (.arr (ops.map .str)) kvs
     | none => kvs)
  | _, _, _ => kvs

/-- the final check of `jose_jwk_gen`: every required member of the key type is present -/
def complete (kty : String) (kvs : List (String × Json)) : Bool :=
  match ktys.find? (fun t => t.kty == kty) with
  | some t => t.req.all (fun m => (lookup m kvs).isSome)
  | none => false

/-- `jose_jwk_gen(cfg, jwk)`; `none` = false -/
def gen (P : Prims) (jwk : Json) (rnd : Bs) : Option Json :=
  (prep jwk).bind fun j1 =>
  (make P j1 rnd).bind fun j2 =>
  match j2 with
  | .obj kvs =>
    (optStr j2 "alg").bind fun alg =>
    (j2.getStr? "kty").bind fun kty =>
    (optStr j2 "use").bind fun use =>
      let kvs' := inferOps kvs alg use
      if complete kty kvs' then some (.obj kvs') else none
  | _ => none

end Gen
end Jose
