import Jose.Tables
import Jose.Json
import Jose.B64
import Jose.IO
import Jose.Prim
import Jose.Jwk
import Jose.Entity
/-
  Model of lib/jws.c and of the signature algorithm hooks
  (lib/openssl/hmac.c, ecdsa.c, rsassa.c; key import from lib/openssl/jwk.c).
-/
namespace Jose
namespace Jws
open Tables Json Entity

/-! ### algorithm families (which C file implements a registered name) -/

inductive Family where
  | hmac (hash : String)
  | ecdsa (crv : String) (hash : String)      -- alg2crv, alg2hash
  | rsa (pss : Bool) (hash : String)
  deriving DecidableEq, Repr

/-- NAMES macros of hmac.c / ecdsa.c / rsassa.c -/
def family : String → Option Family
  | "HS256" => some (.hmac "S256") | "HS384" => some (.hmac "S384") | "HS512" => some (.hmac "S512")
  | "ES256" => some (.ecdsa "P-256" "S256") | "ES384" => some (.ecdsa "P-384" "S384")
  | "ES512" => some (.ecdsa "P-521" "S512") | "ES256K" => some (.ecdsa "secp256k1" "S256")
  | "RS256" => some (.rsa false "S256") | "RS384" => some (.rsa false "S384") | "RS512" => some (.rsa false "S512")
  | "PS256" => some (.rsa true "S256") | "PS384" => some (.rsa true "S384") | "PS512" => some (.rsa true "S512")
  | _ => none

def signAlgs : List AlgRec := algs.filter (fun a => a.kind == .sign)

/-- `jose_hook_alg_find(JOSE_HOOK_ALG_KIND_SIGN, name)` -/
def findSign (name : String) : Option AlgRec := signAlgs.find? (fun a => a.name == name)

def hashLen (h : String) : Nat := (Jwk.hashSize h).getD 0

/-! ### key material -/

def bytesOfJson (j : Option Json) : Option Bs :=
  match j with
  | some (.str s) => B64.decode (B64.bytesOfString s)
  | _ => none

def stripZeros : Bs → Bs
  | 0 :: r => stripZeros r
  | l => l

/-- width of a coordinate: `(EC_GROUP_get_degree + 7) / 8` -/
def crvLen : String → Option Nat
  | "P-256" => some 32 | "P-384" => some 48 | "P-521" => some 66 | "secp256k1" => some 32
  | _ => none

structure EcKey where
  crv : String
  len : Nat
  x : Bs
  y : Bs
  d : Option Bs
  deriving Repr

/-- `jose_openssl_jwk_to_EC_KEY` -/
def ecKeyOf (P : Prims) (jwk : Json) : Option EcKey :=
  match jwk.getStr? "kty", jwk.getStr? "crv", jwk.get? "x", jwk.get? "y" with
  | some "EC", some crv, some xj, some yj =>
    match crvLen crv with
    | none => none
    | some len =>
      let dOk : Option (Option Bs) :=
        match jwk.get? "d" with
        | none => some none
        | some dj => (bytesOfJson (some dj)).map some
      match dOk, bytesOfJson (some xj), bytesOfJson (some yj) with
      | some d, some x, some y => if P.ecValid crv x y d then some ⟨crv, len, x, y, d⟩ else none
      | _, _, _ => none
  | _, _, _, _ => none

structure RsaKey where
  n : Bs
  e : Bs
  d : Option Bs
  crt : Option (Bs × Bs × Bs × Bs × Bs) := none

def RsaKey.priv (k : RsaKey) : RsaPriv := { n := k.n, e := k.e, d := k.d, crt := k.crt }

/-- whether OpenSSL can perform a private-key operation at all -/
def RsaKey.hasPriv (k : RsaKey) : Bool := k.d.isSome || k.crt.isSome

/-- `jose_openssl_jwk_to_RSA` (members that are present must decode; p and q, and
    dp, dq, qi, only together) -/
def rsaKeyOf (jwk : Json) : Option RsaKey :=
  match jwk.getStr? "kty", jwk.get? "n", jwk.get? "e" with
  | some _, some nj, some ej =>
    let opt (m : String) : Option (Option Bs) :=
      match jwk.get? m with
      | none => some none
      | some v => (bytesOfJson (some v)).map some
    match bytesOfJson (some nj), bytesOfJson (some ej), opt "d", opt "p", opt "q", opt "dp", opt "dq", opt "qi" with
    | some n, some e, some dO, some p, some q, some dp, some dq, some qi =>
      let factorsOk := (p.isNone && q.isNone) || (p.isSome && q.isSome)
      let crtOk := (dp.isNone && dq.isNone && qi.isNone) || (dp.isSome && dq.isSome && qi.isSome)
      if factorsOk && crtOk then
        some { n := n, e := e, d := dO,
               crt := (match p, q, dp, dq, qi with
                 | some a, some b, some c, some d', some f => some (a, b, c, d', f)
                 | _, _, _, _, _ => none) }
      else none
    | _, _, _, _, _, _, _, _ => none
  | _, _, _ => none

/-! ### algorithm suggestion (`sign.sug`) -/

def isName (names : List String) (n : String) : Option String := if names.contains n then some n else none

/-- `{s?s,s?s}` style unpack: `none` if the value is not an object or a present member is not a string -/
def optStr (jwk : Json) (m : String) : Option (Option String) :=
  match jwk with
  | .obj kvs =>
    match lookup m kvs with
    | none => some none
    | some (.str s) => some (some s)
    | some _ => none
  | _ => none

def hmacSug (jwk : Json) : Option String :=
  match optStr jwk "alg", optStr jwk "kty" with
  | some (some name), some _ => isName ["HS256", "HS384", "HS512"] name
  | some none, some (some "oct") =>
    match jwk.get? "k" with
    | some (.str s) =>
      match B64.dlen (B64.bytesOfString s).length with
      | none => none
      | some len => if len ≥ 64 then some "HS512" else if len ≥ 48 then some "HS384" else if len ≥ 32 then some "HS256" else none
    | _ => none
  | _, _ => none

def ecSug (jwk : Json) : Option String :=
  match optStr jwk "alg", optStr jwk "kty", optStr jwk "crv" with
  | some (some name), some _, some _ => isName ["ES256", "ES384", "ES512", "ES256K"] name
  | some none, some (some "EC"), some crv =>
    match crv with
    | some "P-256" => some "ES256" | some "P-384" => some "ES384" | some "P-521" => some "ES512"
    | some "secp256k1" => some "ES256K" | _ => none
  | _, _, _ => none

/-- `alg_sign_sug` of rsassa.c; the size query result times 8 wraps like `size_t` -/
def rsaSug (jwk : Json) : Option String :=
  match optStr jwk "alg", optStr jwk "kty" with
  | some (some name), some _ => isName ["RS256", "RS384", "RS512", "PS256", "PS384", "PS512"] name
  | some none, some (some "RSA") =>
    let dl : Nat := match jwk.get? "n" with
      | some (.str s) => (match B64.dlen (B64.bytesOfString s).length with | some l => l | none => 2 ^ 64 - 1)
      | _ => 2 ^ 64 - 1
    let len := dl * 8 % 2 ^ 64
    let m := (if len < 4096 then len else 4096) &&& 7168
    if m = 4096 then some "RS512" else if m = 3072 then some "RS384" else if m = 2048 then some "RS256" else none
  | _, _ => none

def familySug (name : String) (jwk : Json) : Option String :=
  match family name with
  | some (.hmac _) => hmacSug jwk
  | some (.ecdsa _ _) => ecSug jwk
  | some (.rsa _ _) => rsaSug jwk
  | none => none

/-- the loop over the registry in `find_alg`: first non-NULL suggestion in list order -/
def sigSug (jwk : Json) : Option String := signAlgs.findSome? (fun a => familySug a.name jwk)

/-! ### leaves: what `sign.ver` / `sign.sig` set up -/

/-- the "signature" member, decoded; `none` when absent or undecodable -/
def sigBytes (sig : Json) : Option Bs := bytesOfJson (sig.get? "signature")

/-- `jhmac`: key admitted iff its length is within [hash size, KEYMAX] -/
def hmacKey (h : String) (jwk : Json) : Option Bs :=
  match bytesOfJson (jwk.get? "k") with
  | some k => if k.length < hashLen h then none else if k.length > keymax then none else some k
  | none => none

/-- `hmac.c` verifier: constructor (`jhmac`) and `ver_done` -/
def hmacVer (P : Prims) (h : String) (sig jwk : Json) : Option (Bs → Bool) :=
  (hmacKey h jwk).map (fun k => fun msg =>
    match sigBytes sig with
    | some s => s.length == hashLen h && P.hmac h k msg == s
    | none => false)

/-- `jwk_on_alg_curve` of ecdsa.c: the key's "crv" is the curve the algorithm name stands for -/
def onAlgCurve (crv : String) (jwk : Json) : Bool := jwk.getStr? "crv" == some crv

/-- `ecdsa.c` verifier -/
def ecdsaVer (P : Prims) (crv h : String) (sig jwk : Json) : Option (Bs → Bool) :=
  if !onAlgCurve crv jwk then none else
  (P.hash h).bind fun hf =>
  (ecKeyOf P jwk).map fun key => fun msg =>
    match sigBytes sig with
    | some s => s.length == 2 * key.len &&
        P.ecdsaVerify key.crv key.x key.y (hf msg) (s.take key.len) (s.drop key.len)
    | none => false

/-- key import and size check of `setup()` in rsassa.c (RFC 7518 §3.3: at least 2048 bits) -/
def rsaSigKey (jwk : Json) : Option RsaKey :=
  match jwk.getStr? "kty" with
  | some "RSA" => (rsaKeyOf jwk).bind fun key => if (stripZeros key.n).length < 256 then none else some key
  | _ => none

/-- `rsassa.c` verifier -/
def rsaVer (P : Prims) (pss : Bool) (h : String) (sig jwk : Json) : Option (Bs → Bool) :=
  (rsaSigKey jwk).map fun key => fun msg =>
    match sigBytes sig with
    | some s => P.rsaVerify pss h key.n key.e msg s
    | none => false

/-- verification leaf: `none` = the constructor returned NULL; otherwise the verdict
    as a function of everything fed (protected '.' payload) -/
def verLeaf (P : Prims) (name : String) (sig jwk : Json) : Option (Bs → Bool) :=
  match family name with
  | some (.hmac h) => hmacVer P h sig jwk
  | some (.ecdsa crv h) => ecdsaVer P crv h sig jwk
  | some (.rsa pss h) => rsaVer P pss h sig jwk
  | none => none

/-- signing leaf: `none` = constructor NULL; else message → randomness → signature -/
def sigLeaf (P : Prims) (name : String) (jwk : Json) : Option (Bs → Bs → Option Bs) :=
  match family name with
  | some (.hmac h) => (hmacKey h jwk).map (fun k => fun msg _ => some (P.hmac h k msg))
  | some (.ecdsa crv h) =>
    if !onAlgCurve crv jwk then none else
    match P.hash h, ecKeyOf P jwk with
    | some hf, some key => some (fun msg rnd =>
        match key.d with
        | none => none
        | some d => (P.ecdsaSign key.crv d (hf msg) rnd).map (fun rs => rs.1 ++ rs.2))
    | _, _ => none
  | some (.rsa pss h) =>
    (rsaSigKey jwk).map fun key => fun msg rnd =>
      if key.hasPriv then P.rsaSign pss h key.priv msg rnd else none
  | none => none

/-- `prefix(io, sig)`: the protected text and a '.'; refuses a protected header that is not text -/
def prefixOf (sig : Json) : Option Bs :=
  match sig with
  | .obj kvs =>
    match lookup "protected" kvs with
    | none => some [46]
    | some (.str s) => some (B64.bytesOfString s ++ [46])
    | some _ => none
  | _ => none

/-! ### jose_jws_ver_io / jose_jws_ver -/

/-- the key list of a JWK array or JWKSet -/
def keyList (jwk : Json) : Option (List Json) :=
  match jwk with
  | .arr l => some l
  | .obj kvs => (match lookup "keys" kvs with | some (.arr l) => some l | _ => none)
  | _ => none

/-- how header and key algorithm are reconciled by the verifier: the name to use, or refusal -/
def verSelect (halg kalg : Option String) : Option String :=
  match halg, kalg with
  | none, none => none
  | none, some k => some k
  | some h, none => some h
  | some h, some k => if h = k then some h else none

/-- the stage a verification leaf is: everything fed is accumulated, `done` decides -/
def leafStage (f : Bs → Bool) (pre : Bs) : IO.Stage :=
  .xform { final := fun acc => if f (pre ++ acc) then some [] else none } .sink

/-- one signature object against one key -/
def verOne (P : Prims) (sig jwk : Json) : Option IO.Stage :=
  if !sig.isObject then none else
  (optStr jwk "alg").bind fun kalg =>
  (jwsHdr sig).bind fun hdr =>
  (optStr hdr "alg").bind fun halg =>
  (verSelect halg kalg).bind fun name =>
  (findSign name).bind fun a =>
  if !Jwk.prm (some jwk) false a.p2 then none else
  (verLeaf P name sig jwk).bind fun f =>
  (prefixOf sig).bind fun pre =>
  some (leafStage f pre)

def branchesOf : List IO.Stage → IO.Branches
  | [] => .nil
  | s :: r => .cons s (branchesOf r)

/-- `sig == NULL`, one key: every element of "signatures" (or the flattened object itself) -/
def verAllSigs (P : Prims) (jws jwk : Json) : Option IO.Stage :=
  match jws.get? "signatures" with
  | some (.arr sigs) => some (.plex false (branchesOf (sigs.filterMap (fun s => verOne P s jwk))))
  | _ => verOne P jws jwk

/-- `sig` given or not, one key -/
def verKey (P : Prims) (jws : Json) (sig : Option Json) (jwk : Json) : Option IO.Stage :=
  match sig with
  | none => verAllSigs P jws jwk
  | some s => verOne P s jwk

/-- the signature argument handed down for key number `i`: the object itself, the `i`-th
    element of an array, otherwise NULL -/
def sigFor (sig : Option Json) (i : Nat) : Option Json :=
  match sig with
  | some (.obj kvs) => some (.obj kvs)
  | some (.arr l) => l[i]?
  | _ => none

/-- sub-verifier for key number `i`; an element that is itself a key list (array or JWKSet) is handed to `nested`
    (the recursive call of `jose_jws_ver_io` on it) -/
def subFor (nested : Option Json → Json → Option IO.Stage) (P : Prims) (jws : Json) (sig : Option Json)
    (keys : List Json) (i : Nat) : Option IO.Stage :=
  match keys[i]? with
  | some k => (match keyList k with
      | some _ => nested (sigFor sig i) k
      | none => verKey P jws (sigFor sig i) k)
  | none => none

def sigSizeOk (sig : Option Json) (n : Nat) : Bool :=
  match sig with | some (.arr l) => l.length == n | _ => true

/-- keys array / JWKSet: one sub-verifier per key -/
def verKeys (nested : Option Json → Json → Option IO.Stage) (P : Prims) (jws : Json) (sig : Option Json)
    (keys : List Json) (all : Bool) : Option IO.Stage :=
  if !sigSizeOk sig keys.length then none
  else
    let subs := (List.range keys.length).map (subFor nested P jws sig keys)
    if all && subs.any Option.isNone then none
    else some (.plex all (branchesOf (subs.filterMap id)))

mutual
  /-- nesting depth of a JSON value (arrays and objects) -/
  def jdepth : Json → Nat
    | .arr l => 1 + jdepthList l
    | .obj kvs => 1 + jdepthObj kvs
    | _ => 0
  def jdepthList : List Json → Nat
    | [] => 0
    | j :: r => max (jdepth j) (jdepthList r)
  def jdepthObj : List (String × Json) → Nat
    | [] => 0
    | (_, v) :: r => max (jdepth v) (jdepthObj r)
end

/-- `jose_jws_ver_io` with the recursion on nested key lists unrolled `fuel` times.  A key list inside a key
    list is verified by the same function with the same `all` (after fix F29: before it the inner list was always
    verified in `any` mode, so that `all` could be satisfied without every key verifying) -/
def verIoF (P : Prims) (jws : Json) : Nat → Option Json → Json → Bool → Option IO.Stage
  | 0, sig, jwk, all =>
    (match keyList jwk with
     | some keys => verKeys (fun _ _ => none) P jws sig keys all
     | none => verKey P jws sig jwk)
  | f + 1, sig, jwk, all =>
    (match keyList jwk with
     | some keys => verKeys (fun s k => verIoF P jws f s k all) P jws sig keys all
     | none => verKey P jws sig jwk)

/-- `jose_jws_ver_io(cfg, jws, sig, jwk, all)`; `none` = NULL.  The C function recurses as deep as key lists are
    nested, which is at most the nesting depth of the key argument. -/
def verIo (P : Prims) (jws : Json) (sig : Option Json) (jwk : Json) (all : Bool) : Option IO.Stage :=
  verIoF P jws (jdepth jwk) sig jwk all

/-- the payload text of a JWS (`{s:s%}`) -/
def payloadOf (jws : Json) : Option Bs :=
  match jws.get? "payload" with
  | some (.str s) => some (B64.bytesOfString s)
  | _ => none

/-- `jose_jws_ver(cfg, jws, sig, jwk, all)` -/
def ver (P : Prims) (jws : Json) (sig : Option Json) (jwk : Json) (all : Bool) : Bool :=
  match payloadOf jws with
  | none => false
  | some pay =>
    match verIo P jws sig jwk all with
    | none => false
    | some sg => (IO.run sg [pay]).2

/-! ### jose_jws_sig_io / jose_jws_sig -/

/-- record an inferred algorithm in the protected header (created if absent; an
    already-encoded protected header cannot take it) -/
def recordAlg (s : Json) (name : String) : Option Json :=
  match s with
  | .obj kvs =>
    match lookup "protected" kvs with
    | none => some (.obj (setKV "protected" (.obj [("alg", .str name)]) kvs))
    | some (.obj p) => some (.obj (setKV "protected" (.obj (setKV "alg" (.str name) p)) kvs))
    | some _ => none
  | _ => none

/-- which algorithm: the merged header's, else the first suggestion over the registry,
    which is then recorded -/
def chooseAlg (s jwk hdr : Json) : Option (String × AlgRec × Json) :=
  match hdr.getStr? "alg" with
  | some halg => (findSign halg).map (fun a => (halg, a, s))
  | none =>
    (sigSug jwk).bind fun halg =>
    (findSign halg).bind fun a =>
    (recordAlg s a.name).map fun s' => (halg, a, s')

/-- a key that declares an algorithm is only used for that algorithm -/
def keyAlgOk (kalg : Option String) (halg : String) : Bool :=
  match kalg with
  | some k => k == halg
  | none => true

/-- `find_alg` of lib/jws.c: the algorithm and the signature object with `alg` recorded -/
def findAlgSig (s jwk : Json) : Option (AlgRec × Json) :=
  (jwsHdr s).bind fun hdr =>
  (chooseAlg s jwk hdr).bind fun r =>
  (optStr jwk "alg").bind fun kalg =>
  if !keyAlgOk kalg r.1 then none
  else if !Jwk.prm (some jwk) false r.2.1.p1 then none
  else some (r.2.1, r.2.2)

/-- the signature object as it is appended: algorithm found and recorded, protected
    header encoded, signature over protected '.' payload set -/
def sigEntryObj (P : Prims) (s jwk : Json) (payload rnd : Bs) : Option Json :=
  if !s.isObject then none else
  (findAlgSig s jwk).bind fun r =>
  (encodeProtected r.2).bind fun s2 =>
  (sigLeaf P r.1.name jwk).bind fun f =>
  (prefixOf s2).bind fun pre =>
  (f (pre ++ payload) rnd).bind fun sv =>
  match s2 with
  | .obj kvs => some (.obj (setKV "signature" (B64.enc sv) kvs))
  | _ => none

/-- one key; a NULL template is `{}` -/
def sigEntry (P : Prims) (sig : Option Json) (jwk : Json) (payload rnd : Bs) : Option Json :=
  sigEntryObj P (match sig with | some s => s | none => .obj []) jwk payload rnd

def SIGKEYS : List String := ["signature", "protected", "header"]

/-- `jose_jws_sig(cfg, jws, sig, jwk)` for one key or a list of keys (with per-key
    randomness); `none` = false -/
def sig (P : Prims) (jws : Json) (sigT : Option Json) (jwk : Json) (rnds : List Bs) : Option Json :=
  match payloadOf jws with
  | none => none
  | some pay =>
    match keyList jwk with
    | none =>
      (sigEntry P sigT jwk pay (rnds.headD [])).bind (fun e => addEntity jws (some e) "signatures" SIGKEYS)
    | some keys =>
      let sizeOk := match sigT with | some (.arr l) => l.length == keys.length | _ => true
      if !sizeOk then none
      else if keys.isEmpty then none       -- multiplexer without branches
      else
        let tmplFor (i : Nat) : Option Json :=
          match sigT with
          | some (.arr l) => l[i]?
          | other => other
        let entries := (List.range keys.length).map (fun i =>
          match keys[i]? with
          | some k => (match keyList k with
              | some _ => none
              | none => sigEntry P (tmplFor i) k pay (rnds.getD i []))
          | none => none)
        if entries.any Option.isNone then none
        else (entries.filterMap id).foldl (fun acc e => acc.bind (fun j => addEntity j (some e) "signatures" SIGKEYS)) (some jws)

end Jws
end Jose
