import Jose.Lemmas.IO
import Jose.Grid.C07
/-
  C07 — IO chains: result independent of chunking; failures and bounds propagate.
  Property theorems only (helpers in Jose/Lemmas/IO.lean).  Statements are about
  the chain model Jose/IO.lean.
-/
set_option linter.unusedSimpArgs false
set_option linter.unusedVariables false

namespace Jose.Props.C07
open Jose Jose.IO B64

/-! ### streaming base64 = one-shot base64, for every chunking -/

/-- state of an encoder stream that has absorbed `p ++ buf` (p block-aligned) -/
private theorem enc_feeds_inv (cs : List (List Nat)) (p buf : List Nat) (hp : p.length % 3 = 0) (hb : buf.length < 3) :
    ∃ p' buf', p'.length % 3 = 0 ∧ buf'.length < 3 ∧ p' ++ buf' = p ++ buf ++ cs.flatten ∧
      feeds (.b64enc .sink) (.b64 buf (.sink (encChars p))) cs = (.b64 buf' (.sink (encChars p')), true) := by
  induction cs generalizing p buf with
  | nil => exact ⟨p, buf, hp, hb, by simp, by simp [feeds, loopFeeds]⟩
  | cons c r ih =>
    obtain ⟨q, hq3, hq1, hq2, hq4⟩ := encBlocks_spec (c.length + 1) buf c hb (by omega)
    have hpq : (p ++ q).length % 3 = 0 := by simp only [List.length_append]; omega
    obtain ⟨p', buf', h1, h2, h3, h4⟩ := ih (p ++ q) _ hpq hq4
    refine ⟨p', buf', h1, h2, ?_, ?_⟩
    · rw [h3]; simp only [List.flatten_cons, List.append_assoc]; rw [← List.append_assoc q, hq1]
      simp [List.append_assoc]
    · simp only [feeds, loopFeeds, feed, loopFeeds_sink, hq2]
      rw [← encChars_append p q hp]
      simpa [feeds] using h4

/-- C07 (1a): whatever the split into feed calls (empty and single-byte feeds
    included), the streaming encoder delivers exactly the one-shot encoding of the
    concatenation, and reports success -/
theorem enc_stream_eq (cs : List (List Nat)) :
    run (.b64enc .sink) cs = (.b64 [] (.sink (encChars cs.flatten)), true) := by
  obtain ⟨p', buf', h1, h2, h3, h4⟩ := enc_feeds_inv cs [] [] (by simp) (by simp)
  have h0 : encChars [] = [] := by decide
  rw [h0] at h4
  rw [run_of_feeds _ cs _ _ (by simpa [init] using h4)]
  simp only [if_true, done, feed]
  simp only [List.nil_append] at h3
  rw [← h3, encChars_append p' buf' h1]

/-- chunking independence of the encoder stream, stated outright -/
theorem enc_stream_chunking (cs : List (List Nat)) : run (.b64enc .sink) cs = run (.b64enc .sink) [cs.flatten] := by
  rw [enc_stream_eq, enc_stream_eq]; simp

private theorem dec_feeds_inv (cs : List (List Nat)) (p buf d : List Nat) (hp : p.length % 4 = 0)
    (hb : buf.length < 4) (hd : decode p = some d) :
    (∃ p' buf' d', p'.length % 4 = 0 ∧ buf'.length < 4 ∧ p' ++ buf' = p ++ buf ++ cs.flatten ∧
        decode p' = some d' ∧
        feeds (.b64dec .sink) (.b64 buf (.sink d)) cs = (.b64 buf' (.sink d'), true)) ∨
    ((feeds (.b64dec .sink) (.b64 buf (.sink d)) cs).2 = false ∧
        ∃ p' r, p'.length % 4 = 0 ∧ p' ++ r = p ++ buf ++ cs.flatten ∧ decode p' = none) := by
  induction cs generalizing p buf d with
  | nil => exact Or.inl ⟨p, buf, d, hp, hb, by simp, hd, by simp [feeds, loopFeeds]⟩
  | cons c r ih =>
    obtain ⟨q, hq4, hok, hbad⟩ := decBlocks_spec (c.length + 1) buf c hb (by omega)
    have hpq : (p ++ q).length % 4 = 0 := by simp only [List.length_append]; omega
    cases hflag : (decBlocks (c.length + 1) buf c).2.2 with
    | true =>
      obtain ⟨h1, h2, h3⟩ := hok hflag
      have hdpq : decode (p ++ q) = some (d ++ (decBlocks (c.length + 1) buf c).1.flatten) := by
        rw [decode_append p q hp, hd]; simp [h3]
      have hstep : feed (.b64dec .sink) (.b64 buf (.sink d)) c =
          (.b64 (decBlocks (c.length + 1) buf c).2.1 (.sink (d ++ (decBlocks (c.length + 1) buf c).1.flatten)), true) := by
        simp [feed, loopFeeds_sink, hflag]
      rcases ih (p ++ q) _ _ hpq h2 hdpq with ⟨p', buf', d', g1, g2, g3, g4, g5⟩ | ⟨g1, p', r', g2, g3, g4⟩
      · refine Or.inl ⟨p', buf', d', g1, g2, ?_, g4, ?_⟩
        · rw [g3]; simp only [List.flatten_cons, List.append_assoc]; rw [← List.append_assoc q, h1]
          simp [List.append_assoc]
        · simp only [feeds, loopFeeds, hstep]; simpa [feeds] using g5
      · refine Or.inr ⟨?_, p', r', g2, ?_, g4⟩
        · simp only [feeds, loopFeeds, hstep]; simpa [feeds] using g1
        · rw [g3]; simp only [List.flatten_cons, List.append_assoc]; rw [← List.append_assoc q, h1]
          simp [List.append_assoc]
    | false =>
      obtain ⟨r', h1, h2⟩ := hbad hflag
      refine Or.inr ⟨?_, p ++ q, r' ++ r.flatten, hpq, ?_, ?_⟩
      · simp [feeds, loopFeeds, feed, loopFeeds_sink, hflag]
      · simp only [List.flatten_cons, List.append_assoc]; rw [← List.append_assoc q, h1]
        simp [List.append_assoc]
      · rw [decode_append p q hp, hd]; simp [h2]

/-- C07 (1b): for every chunking the streaming decoder's verdict is that of the
    one-shot decoder on the concatenation, and on success it has delivered exactly
    the one-shot result -/
theorem dec_stream_eq (cs : List (List Nat)) :
    (run (.b64dec .sink) cs).2 = (decode cs.flatten).isSome ∧
    (∀ b, decode cs.flatten = some b → run (.b64dec .sink) cs = (.b64 [] (.sink b), true)) := by
  rcases dec_feeds_inv cs [] [] [] (by simp) (by simp) decode_nil with
    ⟨p', buf', d', g1, g2, g3, g4, g5⟩ | ⟨g1, p', r', g2, g3, g4⟩
  · simp only [List.nil_append] at g3
    have hall : decode cs.flatten = (decode buf').map (d' ++ ·) := by
      rw [← g3, decode_append p' buf' g1, g4]; simp
    rw [run_of_feeds _ cs _ _ (by simpa [init] using g5)]
    cases hb : decode buf' with
    | none => simp [done, hb, hall]
    | some db => simp [done, feed, hb, hall]
  · simp only [List.nil_append] at g3
    have hall : decode cs.flatten = none := by
      rw [← g3, decode_append p' r' g2, g4]; simp
    cases hf : feeds (.b64dec .sink) (.b64 [] (.sink [])) cs with
    | mk s ok =>
      rw [hf] at g1; simp at g1; subst g1
      rw [run_of_feeds _ cs _ _ (by simpa [init] using hf)]
      simp [hall]

/-- verdict of the decoder stream does not depend on the chunking -/
theorem dec_stream_chunking (cs : List (List Nat)) :
    (run (.b64dec .sink) cs).2 = (run (.b64dec .sink) [cs.flatten]).2 := by
  rw [(dec_stream_eq cs).1, (dec_stream_eq [cs.flatten]).1]; simp

/-! ### fixed-size buffer sink -/

/-- C07 (4): a buffer sink never stores more than its capacity, over any sequence of
    feeds, and a feed that does not fit is refused without storing anything -/
theorem buffer_bound (cap : Nat) (d : List Nat) (hd : d.length ≤ cap) (cs : List (List Nat)) :
    ∃ d', (feeds (.buffer cap) (.buffer d) cs).1 = .buffer d' ∧ d'.length ≤ cap := by
  induction cs generalizing d with
  | nil => exact ⟨d, by simp [feeds, loopFeeds], hd⟩
  | cons c r ih =>
    simp only [feeds, loopFeeds, feed]
    by_cases h : c.length > cap - d.length
    · simp only [h, if_true]; exact ⟨d, rfl, hd⟩
    · simp only [h, if_false]
      have : (d ++ c).length ≤ cap := by simp only [List.length_append]; omega
      simpa [feeds] using ih (d ++ c) this

theorem buffer_overflow_refused (cap : Nat) (d x : List Nat) (h : d.length + x.length > cap) (hd : d.length ≤ cap) :
    feed (.buffer cap) (.buffer d) x = (.buffer d, false) := by
  have : x.length > cap - d.length := by omega
  simp [feed, this]

/-! ### multiplexer -/

/-- C07 (3c): a multiplexer without branches reports failure -/
theorem plex_empty (all : Bool) (x : List Nat) :
    (feed (.plex all .nil) (init (.plex all .nil)) x).2 = false ∧
    (done (.plex all .nil) (init (.plex all .nil))).2 = false := by
  simp [feed, feedL, done, doneL, init, initL]

/-- a dropped branch receives no further data: its state is returned unchanged by
    feed and by done -/
theorem plex_dropped_silent (all : Bool) (sg : Stage) (r : Branches) (s : St) (rs : StL) (x : List Nat) :
    (∃ rs' st, feedL all (.cons sg r) (.cons false s rs) x = (.cons false s rs', st)) ∧
    (∃ rs' st, doneL all (.cons sg r) (.cons false s rs) = (.cons false s rs', st)) := by
  constructor
  · exact ⟨(feedL all r rs x).1, (feedL all r rs x).2, by simp [feedL]⟩
  · exact ⟨(doneL all r rs).1, (doneL all r rs).2, by simp [doneL]⟩

/-- C07 (3a): with `all`, a branch that refuses makes the whole feed fail (and the
    branch is dropped) -/
theorem plex_all_fails (sg : Stage) (r : Branches) (s : St) (rs : StL) (x : List Nat)
    (h : (feed sg s x).2 = false) :
    (feed (.plex true (.cons sg r)) (.plex (.cons true s rs)) x).2 = false := by
  simp [feed, feedL, h]

/-- number of live branches -/
def live : StL → Nat
  | .nil => 0
  | .cons a _ r => (if a then 1 else 0) + live r

/-- C07 (3b): with `any`, a feed reports failure exactly when no branch is left alive
    after it, and success exactly when some branch accepted the data -/
theorem plex_any_verdict : ∀ (bs : Branches) (sl : StL) (x : List Nat),
    ((feedL false bs sl x).2 = some true → 0 < live (feedL false bs sl x).1) ∧
    ((feedL false bs sl x).2 = some false → live (feedL false bs sl x).1 = 0)
  | .nil, .nil, x => by simp [feedL, live]
  | .nil, .cons a s rs, x => by simp [feedL]
  | .cons sg r, .nil, x => by simp [feedL]
  | .cons sg r, .cons false s rs, x => by
    have ih := plex_any_verdict r rs x
    simp only [feedL, live]
    simpa using ih
  | .cons sg r, .cons true s rs, x => by
    have ih := plex_any_verdict r rs x
    simp only [feedL]
    cases hf : feed sg s x with
    | mk s' ok =>
      cases ok with
      | true =>
        simp only [if_true, live]
        constructor
        · intro _; omega
        · intro h; cases hst : (feedL false r rs x).2 <;> simp [hst] at h
      | false =>
        simp only [Bool.false_eq_true, if_false, live]
        simpa using ih

/-! ### failures propagate to the head of a chain -/

/-- a chain of codec / transformer stages over one probe sink that answers `false`
    on its call number `k` (counting feeds and done from 0) -/
inductive Linear (k : Nat) : Stage → Prop
  | probe : Linear k (.probe (some k))
  | b64enc {n : Stage} : Linear k n → Linear k (.b64enc n)
  | b64dec {n : Stage} : Linear k n → Linear k (.b64dec n)
  | xform (t : XF) {n : Stage} : Linear k n → Linear k (.xform t n)

/-- number of calls the probe at the end of a linear chain has received -/
def calls : St → Nat
  | .probe c _ => c
  | .b64 _ n => calls n
  | .xform _ n => calls n
  | _ => 0

private theorem loop_mono {n : Stage} (mono : ∀ s x, calls s ≤ calls (feed n s x).1) (s : St) (bs : List (List Nat)) :
    calls s ≤ calls (loopFeeds (feed n) s bs).1 := by
  induction bs generalizing s with
  | nil => simp [loopFeeds]
  | cons b r ih =>
    simp only [loopFeeds]
    cases hf : feed n s b with
    | mk s' ok =>
      have := mono s b; rw [hf] at this
      cases ok with
      | false => simpa using this
      | true => simp only [if_true]; exact Nat.le_trans this (ih s')

private theorem loop_calls {n : Stage} (k : Nat)
    (ihn : ∀ s x, calls s ≤ k → k < calls (feed n s x).1 → (feed n s x).2 = false)
    (s : St) (bs : List (List Nat)) (h0 : calls s ≤ k) (h1 : k < calls (loopFeeds (feed n) s bs).1) :
    (loopFeeds (feed n) s bs).2 = false := by
  induction bs generalizing s with
  | nil => simp [loopFeeds] at h1; omega
  | cons b r ih =>
    simp only [loopFeeds] at h1 ⊢
    cases hf : feed n s b with
    | mk s' ok =>
      simp only [hf] at h1 ⊢
      cases ok with
      | false => simp
      | true =>
        simp only [if_true] at h1 ⊢
        by_cases hk : calls s' ≤ k
        · exact ih s' hk h1
        · have := ihn s b h0 (by rw [hf]; simp only; omega)
          rw [hf] at this; simp at this

private theorem feed_mono {k : Nat} {sg : Stage} (hl : Linear k sg) : ∀ s x, calls s ≤ calls (feed sg s x).1 := by
  induction hl with
  | probe => intro s x; cases s <;> simp [feed, calls]
  | b64enc hn ih =>
    intro s x; cases s <;> simp [feed, calls]
    exact loop_mono ih _ _
  | b64dec hn ih =>
    intro s x; cases s <;> simp [feed, calls]
    exact loop_mono ih _ _
  | xform t hn ih =>
    intro s x; cases s <;> simp [feed, calls]
    cases t.maxFeed <;> simp [calls] <;> split <;> simp [calls]

/-- during one `feed`: if the probe's refusing call happened in it, the head answers false -/
private theorem feed_fail {k : Nat} {sg : Stage} (hl : Linear k sg) :
    ∀ s x, calls s ≤ k → k < calls (feed sg s x).1 → (feed sg s x).2 = false := by
  induction hl with
  | probe =>
    intro s x h0 h1
    cases s <;> simp [feed, calls] at h0 h1 ⊢
    omega
  | b64enc hn ih =>
    intro s x h0 h1
    cases s <;> simp [feed, calls] at h0 h1 ⊢
    exact loop_calls k ih _ _ h0 h1
  | b64dec hn ih =>
    intro s x h0 h1
    cases s <;> simp [feed, calls] at h0 h1 ⊢
    intro hok
    have := loop_calls k ih _ _ h0 h1
    simp [this] at hok
  | xform t hn ih =>
    intro s x h0 h1
    cases s <;> simp [feed, calls] at h0 h1 ⊢
    cases hm : t.maxFeed <;> simp [hm, calls] at h1 ⊢
    · omega
    · split at h1 <;> simp [calls] at h1 <;> omega

private theorem done_mono {k : Nat} {sg : Stage} (hl : Linear k sg) : ∀ s, calls s ≤ calls (done sg s).1 := by
  induction hl with
  | probe => intro s; cases s <;> simp [done, calls]
  | b64enc hn ih =>
    rename_i n
    intro s; cases s <;> simp [done, calls]
    rename_i buf ns
    have m1 := feed_mono hn ns (encChars buf)
    cases hf : feed n ns (encChars buf) with
    | mk s1 ok =>
      rw [hf] at m1
      cases ok <;> simp [calls]
      · exact m1
      · exact Nat.le_trans m1 (ih s1)
  | b64dec hn ih =>
    rename_i n
    intro s; cases s <;> simp [done, calls]
    rename_i buf ns
    cases hd : decode buf <;> simp [calls]
    rename_i d
    have m1 := feed_mono hn ns d
    cases hf : feed n ns d with
    | mk s1 ok =>
      rw [hf] at m1
      cases ok <;> simp [calls]
      · exact m1
      · exact Nat.le_trans m1 (ih s1)
  | xform t hn ih =>
    rename_i n
    intro s; cases s <;> simp [done, calls]
    rename_i acc ns
    cases hd : t.final acc <;> simp [calls]
    rename_i d
    have m1 := feed_mono hn ns d
    cases hf : feed n ns d with
    | mk s1 ok =>
      rw [hf] at m1
      cases ok <;> simp [calls]
      · exact m1
      · exact Nat.le_trans m1 (ih s1)

private theorem done_fail {k : Nat} {sg : Stage} (hl : Linear k sg) :
    ∀ s, calls s ≤ k → k < calls (done sg s).1 → (done sg s).2 = false := by
  induction hl with
  | probe =>
    intro s h0 h1
    cases s <;> simp [done, calls] at h0 h1 ⊢
    omega
  | b64enc hn ih =>
    rename_i n
    intro s h0 h1
    cases s <;> simp [done, calls] at h0 h1 ⊢
    rename_i buf ns
    have ff := feed_fail hn ns (encChars buf) h0
    cases hf : feed n ns (encChars buf) with
    | mk s1 ok =>
      rw [hf] at ff h1
      cases ok <;> simp [calls] at h1 ⊢
      by_cases hk : calls s1 ≤ k
      · exact ih s1 hk h1
      · have := ff (by simp only; omega); simp at this
  | b64dec hn ih =>
    rename_i n
    intro s h0 h1
    cases s <;> simp [done, calls] at h0 h1 ⊢
    rename_i buf ns
    cases hd : decode buf <;> simp [hd, calls] at h1 ⊢
    rename_i d
    have ff := feed_fail hn ns d h0
    cases hf : feed n ns d with
    | mk s1 ok =>
      rw [hf] at ff h1
      cases ok <;> simp [calls] at h1 ⊢
      by_cases hk : calls s1 ≤ k
      · exact ih s1 hk h1
      · have := ff (by simp only; omega); simp at this
  | xform t hn ih =>
    rename_i n
    intro s h0 h1
    cases s <;> simp [done, calls] at h0 h1 ⊢
    rename_i acc ns
    cases hd : t.final acc <;> simp [hd, calls] at h1 ⊢
    rename_i d
    have ff := feed_fail hn ns d h0
    cases hf : feed n ns d with
    | mk s1 ok =>
      rw [hf] at ff h1
      cases ok <;> simp [calls] at h1 ⊢
      by_cases hk : calls s1 ≤ k
      · exact ih s1 hk h1
      · have := ff (by simp only; omega); simp at this

theorem calls_init {k : Nat} {sg : Stage} (hl : Linear k sg) : calls (init sg) = 0 := by
  induction hl <;> simp_all [init, calls]

/-- C07 (2): failure propagates to the head.  For every chain of base64 codecs and
    transformers above a sink, and every chunking: if the sink refused a call (the
    probe received its call number `k`, on which it answers false), the run as a
    whole reports failure — whether the refusal hit a feed or the final done. -/
theorem fail_propagates {k : Nat} {sg : Stage} (hl : Linear k sg) (cs : List (List Nat))
    (h : k < calls (run sg cs).1) : (run sg cs).2 = false := by
  have h0 : calls (init sg) ≤ k := by rw [calls_init hl]; omega
  cases hf : feeds sg (init sg) cs with
  | mk s ok =>
    rw [run_of_feeds sg cs s ok hf] at h ⊢
    cases ok with
    | false => simp
    | true =>
      simp only [if_true] at h ⊢
      by_cases hk : calls s ≤ k
      · exact done_fail hl s hk h
      · have := loop_calls k (feed_fail hl) (init sg) cs h0 (by
          have : (loopFeeds (feed sg) (init sg) cs) = (s, true) := hf
          rw [this]; simp only; omega)
        have h2 : (loopFeeds (feed sg) (init sg) cs) = (s, true) := hf
        rw [h2] at this; simp at this

/-- non-vacuity: a probe failing on its second call under an encoder, fed two chunks -/
example : Linear 1 (.b64enc (.probe (some 1))) ∧
    1 < calls (run (.b64enc (.probe (some 1))) [[1, 2, 3], [4, 5, 6]]).1 ∧
    (run (.b64enc (.probe (some 1))) [[1, 2, 3], [4, 5, 6]]).2 = false := by
  refine ⟨.b64enc .probe, by decide, by decide⟩


/-! ### the model is the code, on a grid regenerated from the code on every run

  `Jose/Grid/C07.lean` is rewritten by the translator (tools/extract_tables.py) on every run: it holds what
  lib/io.c and lib/b64.c **built from the current working tree** did on chains built from the public constructors without OpenSSL/zlib stages (base64url encoder and decoder, any/all multiplexers incl. empty ones, malloc, file and fixed-size buffer sinks, failing probe sinks): every composition of every input length 0..5 into feed calls for two kinds of data over twelve chain shapes, and every failure position 0..3 of a probe under seven wrappers, byte-wise and in one feed — verdict of every feed and of done, bytes in every sink, calls seen by every probe.
  The theorem is checked by the kernel (`decide +kernel`: evaluation of the chain model, no axiom). -/
theorem model_is_code_on_grid : Jose.Grid.C07.chunks.all (fun c => c.all Jose.Driver.agrees) = true := by
  decide +kernel

end Jose.Props.C07
