import Jose.Jws
import Jose.Jwe
import Jose.Exc
import Jose.Props.C01
import Jose.Props.C14
import Jose.Crypto.Modes
/-
  C10 — weak or invalid key material is refused.

  For each family the operation's constructor succeeds only when the key-admission predicate of
  RFC 7518 holds, on the producing and on the consuming side, and the key bytes handed to the
  primitive are the decoded member itself (no truncation, padding or substitution).  Mathematical
  validity of EC keys is one primitive (`P.ecValid` = what EC_KEY_check_key decides: on curve, order,
  d·G = Q); the theorems say it was consulted on exactly the given members and said yes.
-/
namespace Jose.Props.C10
open Jose Jose.Jws Jose.Jwe Jose.Exc Tables

/-! ### HMAC: digest size ≤ key ≤ KEYMAX, both sides -/

theorem hmac_sign_key (P : Prims) (name h : String) (jwk : Json) (f : Bs → Bs → Option Bs)
    (hf : family name = some (.hmac h)) (hs : sigLeaf P name jwk = some f) :
    ∃ k, bytesOfJson (jwk.get? "k") = some k ∧ hashLen h ≤ k.length ∧ k.length ≤ keymax ∧
      ∀ msg rnd, f msg rnd = some (P.hmac h k msg) := by
  simp only [sigLeaf, hf, Option.map_eq_some_iff] at hs
  obtain ⟨k, hk, rfl⟩ := hs
  have hb := C14.hmac_key_bounds h jwk k hk
  refine ⟨k, ?_, hb.1, hb.2, fun _ _ => rfl⟩
  unfold hmacKey at hk
  split at hk
  · rename_i kb hkb
    split at hk
    · simp at hk
    · split at hk
      · simp at hk
      · simp only [Option.some.injEq] at hk; subst hk; exact hkb
  · simp at hk

theorem hmac_verify_key (P : Prims) (h : String) (s jwk : Json) (f : Bs → Bool) (hv : hmacVer P h s jwk = some f) :
    ∃ k, hmacKey h jwk = some k ∧ hashLen h ≤ k.length ∧ k.length ≤ keymax := by
  simp only [hmacVer, Option.map_eq_some_iff] at hv
  obtain ⟨k, hk, _⟩ := hv
  exact ⟨k, hk, C14.hmac_key_bounds h jwk k hk⟩

/-- the digest sizes are the RFC's (regenerated hash registry) -/
theorem hmac_min_lengths : hashLen "S256" = 32 ∧ hashLen "S384" = 48 ∧ hashLen "S512" = 64 := by decide

/-! ### RSA signatures: modulus of at least 2048 bits, both sides -/

theorem rsa_sig_key_size (jwk : Json) (key : RsaKey) (h : rsaSigKey jwk = some key) :
    256 ≤ (stripZeros key.n).length ∧ rsaKeyOf jwk = some key ∧ jwk.getStr? "kty" = some "RSA" := by
  unfold rsaSigKey at h
  split at h
  · rename_i hk
    simp only [Option.bind_eq_some_iff] at h
    obtain ⟨k, hk', hsz⟩ := h
    split at hsz
    · simp at hsz
    · simp only [Option.some.injEq] at hsz; subst hsz; exact ⟨by omega, hk', hk⟩
  · simp at h

theorem rsa_sign_key (P : Prims) (name h : String) (pss : Bool) (jwk : Json) (f : Bs → Bs → Option Bs)
    (hf : family name = some (.rsa pss h)) (hs : sigLeaf P name jwk = some f) :
    ∃ key, rsaSigKey jwk = some key ∧ 256 ≤ (stripZeros key.n).length := by
  simp only [sigLeaf, hf, Option.map_eq_some_iff] at hs
  obtain ⟨key, hk, _⟩ := hs
  exact ⟨key, hk, (rsa_sig_key_size jwk key hk).1⟩

theorem rsa_verify_key (P : Prims) (h : String) (pss : Bool) (s jwk : Json) (f : Bs → Bool)
    (hv : rsaVer P pss h s jwk = some f) :
    ∃ key, rsaSigKey jwk = some key ∧ 256 ≤ (stripZeros key.n).length := by
  simp only [rsaVer, Option.map_eq_some_iff] at hv
  obtain ⟨key, hk, _⟩ := hv
  exact ⟨key, hk, (rsa_sig_key_size jwk key hk).1⟩

/-! ### EC keys: named curve, point and private value checked — signing, verifying, exchanging -/

theorem ec_sign_key (P : Prims) (name crv h : String) (jwk : Json) (f : Bs → Bs → Option Bs)
    (hf : family name = some (.ecdsa crv h)) (hs : sigLeaf P name jwk = some f) :
    ∃ key, ecKeyOf P jwk = some key ∧ P.ecValid key.crv key.x key.y key.d = true ∧
      key.crv ∈ ["P-256", "P-384", "P-521", "secp256k1"] := by
  simp only [sigLeaf, hf] at hs
  split at hs
  · simp at hs
  split at hs
  · rename_i hfun key _ hk
    have := C01.ecKey_valid P jwk key hk
    exact ⟨key, hk, this.1, this.2.2⟩
  · simp at hs

theorem ec_verify_key (P : Prims) (crv h : String) (s jwk : Json) (f : Bs → Bool) (hv : ecdsaVer P crv h s jwk = some f) :
    ∃ key, ecKeyOf P jwk = some key ∧ P.ecValid key.crv key.x key.y key.d = true ∧
      key.crv ∈ ["P-256", "P-384", "P-521", "secp256k1"] := by
  simp only [ecdsaVer] at hv
  split at hv
  · simp at hv
  simp only [Option.bind_eq_some_iff, Option.map_eq_some_iff] at hv
  obtain ⟨_, _, key, hk, _⟩ := hv
  have := C01.ecKey_valid P jwk key hk
  exact ⟨key, hk, this.1, this.2.2⟩

/-- the validity primitive is consulted on the members as given: curve name, decoded x, y and
    (when present) d — not on defaults or on a re-derived point -/
theorem ec_key_members (P : Prims) (jwk : Json) (key : EcKey) (h : ecKeyOf P jwk = some key) :
    jwk.getStr? "kty" = some "EC" ∧ jwk.getStr? "crv" = some key.crv ∧
    bytesOfJson (jwk.get? "x") = some key.x ∧ bytesOfJson (jwk.get? "y") = some key.y ∧
    (match jwk.get? "d" with | none => key.d = none | some dj => ∃ d, bytesOfJson (some dj) = some d ∧ key.d = some d) := by
  simp only [ecKeyOf] at h
  split at h
  · rename_i crv xj yj hkty hcrv hx hy
    cases hc : crvLen crv with
    | none => simp [hc] at h
    | some len =>
      simp only [hc] at h
      split at h
      · rename_i d x y hd hxb hyb
        split at h
        · simp only [Option.some.injEq] at h
          subst h
          refine ⟨hkty, hcrv, by rw [hx]; exact hxb, by rw [hy]; exact hyb, ?_⟩
          cases hdj : jwk.get? "d" with
          | none => simp only [hdj] at hd ⊢; simpa using hd.symm
          | some dj =>
            simp only [hdj, Option.map_eq_some_iff] at hd ⊢
            obtain ⟨dd, hdd, rfl⟩ := hd
            exact ⟨dd, hdd, rfl⟩
        · simp at h
      · simp at h
  · simp at h

/-- exchange: both keys pass the validity check and lie on the same named curve -/
theorem exchange_keys (P : Prims) (name : String) (prv pub out : Json) (h : body P name prv pub = some out) :
    ∃ l r, ecKeyOf P prv = some l ∧ ecKeyOf P pub = some r ∧ l.crv = r.crv ∧
      P.ecValid l.crv l.x l.y l.d = true ∧ P.ecValid r.crv r.x r.y r.d = true := by
  simp only [body, Option.bind_eq_some_iff] at h
  obtain ⟨l, hl, r, hr, h⟩ := h
  split at h
  · simp at h
  · rename_i hc
    have : l.crv = r.crv := by simpa using hc
    exact ⟨l, r, hl, hr, this, (C01.ecKey_valid P prv l hl).1, (C01.ecKey_valid P pub r hr).1⟩

/-! ### content encryption and key wrapping: exactly the algorithm's key length -/

theorem content_key_exact_enc (P : Prims) (jwe cek out : Json) (pt rnd : Bs) (h : encCek P jwe cek pt rnd = some out) :
    ∃ a j fam key, encCekSetup jwe cek = some (a, j) ∧ encFamily a.name = some fam ∧
      exactKey cek "k" (cekLen fam) = some key ∧ key.length = cekLen fam := by
  simp only [encCek, Option.bind_eq_some_iff] at h
  obtain ⟨⟨a, j⟩, hs, fam, hfam, _, _, key, hkey, _⟩ := h
  exact ⟨a, j, fam, key, hs, hfam, hkey, C14.exact_key _ _ _ _ hkey⟩

theorem content_key_exact_dec (P : Prims) (jwe cek : Json) (f : Bs → Option Bs) (h : decBody P jwe cek = some f) :
    ∃ a z fam key iv, decCekSetup jwe cek = some (a, z) ∧ encFamily a.name = some fam ∧
      exactKey cek "k" (cekLen fam) = some key ∧ key.length = cekLen fam ∧
      exactKey jwe "iv" (ivLen fam) = some iv ∧ iv.length = ivLen fam := by
  simp only [decBody, Option.bind_eq_some_iff, Option.map_eq_some_iff] at h
  obtain ⟨⟨a, z⟩, hs, fam, hfam, iv, hiv, key, hkey, _⟩ := h
  exact ⟨a, z, fam, key, iv, hs, hfam, hkey, C14.exact_key _ _ _ _ hkey, hiv, C14.exact_key _ _ _ _ hiv⟩

/-- content key lengths per algorithm: 16/24/32 for GCM, twice that for CBC-HMAC -/
theorem content_key_lengths :
    (encFamily "A128GCM").map cekLen = some 16 ∧ (encFamily "A192GCM").map cekLen = some 24 ∧
    (encFamily "A256GCM").map cekLen = some 32 ∧ (encFamily "A128CBC-HS256").map cekLen = some 32 ∧
    (encFamily "A192CBC-HS384").map cekLen = some 48 ∧ (encFamily "A256CBC-HS512").map cekLen = some 64 := by decide

/-- AES key wrap, wrapping side: the key-encryption key has exactly 16/24/32 bytes -/
theorem kw_wrap_key_exact (P : Prims) (name : String) (klen fuel : Nat) (jwe rcp jwk cek : Json) (rnd : Bs) (out : Json × Json)
    (hf : wrapFamily name = some (.aeskw klen)) (h : wrp P (fuel + 1) name jwe rcp jwk cek rnd = some out) :
    ∃ kek, exactKey jwk "k" klen = some kek ∧ kek.length = klen := by
  simp only [wrp, hf] at h
  cases rcp with
  | obj rkvs =>
    simp only [Option.bind_eq_some_iff] at h
    obtain ⟨_, _, kek, hk, _⟩ := h
    exact ⟨kek, hk, C14.exact_key _ _ _ _ hk⟩
  | _ => simp at h

theorem kw_unwrap_key_exact (P : Prims) (name : String) (klen fuel : Nat) (jwe rcp jwk cek cek' : Json) (rnd : Bs)
    (hf : wrapFamily name = some (.aeskw klen)) (h : unw P (fuel + 1) name jwe rcp jwk cek rnd = some cek') :
    ∃ kek, exactKey jwk "k" klen = some kek ∧ kek.length = klen := by
  simp only [unw, hf] at h
  cases cek with
  | obj c =>
    simp only [Option.bind_eq_some_iff] at h
    obtain ⟨kek, hk, _⟩ := h
    exact ⟨kek, hk, C14.exact_key _ _ _ _ hk⟩
  | _ => simp at h

theorem kw_key_lengths :
    wrapFamily "A128KW" = some (.aeskw 16) ∧ wrapFamily "A192KW" = some (.aeskw 24) ∧ wrapFamily "A256KW" = some (.aeskw 32) ∧
    wrapFamily "A128GCMKW" = some (.gcmkw 16) ∧ wrapFamily "A192GCMKW" = some (.gcmkw 24) ∧
    wrapFamily "A256GCMKW" = some (.gcmkw 32) := by decide

/-- non-vacuity: a 31-byte HMAC key is refused for HS256, a 32-byte one admitted -/
example : hmacKey "S256" (.obj [("k", .str "AAAAAAAAAAAAAAAAAAAAAAAAAAAAAAAAAAAAAAAAAA")]) = none ∧
    (hmacKey "S256" (.obj [("k", .str "AAAAAAAAAAAAAAAAAAAAAAAAAAAAAAAAAAAAAAAAAAA")])).isSome = true := by decide


/-- **RSA key import takes no undecodable member for absent** (after fix `3408cb5`): a key is imported only if
    every one of `n e d p q dp dq qi` that is present is base64url text that decodes; in particular a present
    private exponent that does not decode makes the import fail — the key is not quietly used as a public key or
    through its CRT members. -/
theorem rsa_members_must_decode (jwk : Json) (key : RsaKey) (h : rsaKeyOf jwk = some key) :
    ∀ m ∈ ["n", "e", "d", "p", "q", "dp", "dq", "qi"], ∀ v, jwk.get? m = some v → (bytesOfJson (some v)).isSome = true := by
  simp only [rsaKeyOf] at h
  split at h
  · rename_i kty nj ej hk hn he
    split at h
    · rename_i n e dO p q dp dq qi hbn hbe hd hp hq hdp hdq hqi
      have opt_some : ∀ (m : String) (r : Option Bs),
          (match jwk.get? m with | none => some none | some v => (bytesOfJson (some v)).map some) = some r →
          ∀ v, jwk.get? m = some v → (bytesOfJson (some v)).isSome = true := by
        intro m r hm v hv
        simp only [hv, Option.map_eq_some_iff] at hm
        obtain ⟨b, hb, _⟩ := hm
        simp [hb]
      intro m hm v hv
      simp only [List.mem_cons, List.mem_nil_iff, or_false] at hm
      rcases hm with rfl | rfl | rfl | rfl | rfl | rfl | rfl | rfl
      · rw [hn] at hv; cases hv; simp [hbn]
      · rw [he] at hv; cases hv; simp [hbe]
      · exact opt_some "d" dO hd v hv
      · exact opt_some "p" p hp v hv
      · exact opt_some "q" q hq v hv
      · exact opt_some "dp" dp hdp v hv
      · exact opt_some "dq" dq hdq v hv
      · exact opt_some "qi" qi hqi v hv
    · simp at h
  · simp at h

/-- non-vacuity of the refusal: `d` present but not base64url -/
example : rsaKeyOf (.obj [("kty", .str "RSA"), ("n", .str "AQAB"), ("e", .str "AQAB"), ("d", .str "!!")]) = none := by
  decide +kernel

/-! ### RFC 3394 key data (after fix `44398cd`)

  The executable AES key wrap the driver instantiates `Prims.kwWrap` / `kwUnwrap` with (and which the correspondence
  compares with lib/openssl/aeskw.c on every run) has exactly the RFC 3394 domain: at least two 64-bit blocks of key
  data, a whole number of them; in particular nothing is wrapped from, or unwrapped to, an empty key. -/

theorem kw_wrap_domain (kek pt ct : ByteArray) (h : Jose.Crypto.aesKwWrap kek pt = some ct) :
    16 ≤ pt.size ∧ pt.size % 8 = 0 := by
  unfold Jose.Crypto.aesKwWrap at h
  split at h
  · simp at h
  · split at h
    · simp at h
    · rename_i hg
      simp only [bne_iff_ne, ne_eq, Bool.or_eq_true, decide_eq_true_eq, not_or, Decidable.not_not, Nat.not_lt] at hg
      omega

theorem kw_unwrap_domain (kek ct pt : ByteArray) (h : Jose.Crypto.aesKwUnwrap kek ct = some pt) :
    24 ≤ ct.size ∧ ct.size % 8 = 0 := by
  unfold Jose.Crypto.aesKwUnwrap at h
  split at h
  · simp at h
  · split at h
    · simp at h
    · rename_i hg
      simp only [bne_iff_ne, ne_eq, Bool.or_eq_true, decide_eq_true_eq, not_or, Decidable.not_not, Nat.not_lt] at hg
      omega

/-- in particular: the empty key is neither wrapped nor the result of unwrapping an empty `encrypted_key` -/
theorem kw_refuses_empty (kek : ByteArray) :
    Jose.Crypto.aesKwWrap kek ByteArray.empty = none ∧ Jose.Crypto.aesKwUnwrap kek ByteArray.empty = none := by
  constructor
  · cases h : Jose.Crypto.aesKwWrap kek ByteArray.empty with
    | none => rfl
    | some ct => have := (kw_wrap_domain _ _ _ h).1; simp at this
  · cases h : Jose.Crypto.aesKwUnwrap kek ByteArray.empty with
    | none => rfl
    | some pt => have := (kw_unwrap_domain _ _ _ h).1; simp at this

end Jose.Props.C10
