import Jose.Jwk
import Jose.Grid.C05
import Jose.Jws
import Jose.Jwe
import Jose.Exc
import Jose.Lemmas.Json
/-
  C05 — key restrictions: declared alg, use and key_ops.
  Part 1 (this section): the grant decision of `jose_jwk_prm`.
  Part 2 (algorithm mismatch at every entry point) is in the section below.
-/
set_option linter.unusedSimpArgs false
set_option linter.unusedVariables false

namespace Jose.Props.C05
open Jose Jose.Jwk Jose.Json Tables

/-- table fact: the operation table is exactly the five documented rows, i.e. `use`
    "sig" grants sign/verify, "enc" grants encrypt/decrypt/wrapKey/unwrapKey, and
    nothing else is granted through `use` -/
theorem oper_table (use op : String) :
    operGrants opers use op =
      ((use == "sig" && (op == "sign" || op == "verify")) ||
       (use == "enc" && (op == "encrypt" || op == "decrypt" || op == "wrapKey" || op == "unwrapKey"))) := by
  simp only [operGrants, opers, List.any_cons, List.any_nil]
  rw [Bool.eq_iff_iff]
  simp
  grind

/-- the operation is listed (as a string) in the key's `key_ops` array -/
def listed (ko : Option Json) (op : String) : Bool := (stringElems ko).contains op

/-- C05: the grant decision, for every object key, every requested operation and
    both `required` modes: listed in key_ops, or use=sig and sign/verify, or use=enc
    and encrypt/decrypt/wrapKey/unwrapKey; a key with neither member is granted
    unless metadata is required.  (A `use` member that is not a string makes the
    key unusable.) -/
theorem prm_spec (kvs : List (String × Json)) (req : Bool) (op : String) :
    prm (some (.obj kvs)) req (some op) =
      match lookup "use" kvs, lookup "key_ops" kvs with
      | none, none => !req
      | none, some ko => listed (some ko) op
      | some (.str use), ko =>
        listed ko op ||
        (use == "sig" && (op == "sign" || op == "verify")) ||
        (use == "enc" && (op == "encrypt" || op == "decrypt" || op == "wrapKey" || op == "unwrapKey"))
      | some _, _ => false := by
  simp only [prm, prmWith, listed]
  cases hu : lookup "use" kvs with
  | none => cases hk : lookup "key_ops" kvs <;> simp
  | some u =>
    cases u with
    | str use => simp only [oper_table, Bool.or_assoc]
    | _ => simp

/-- no operation is requested → refused; not an object (incl. NULL) → not restricted -/
theorem prm_edges (kvs : List (String × Json)) (req : Bool) :
    prm (some (.obj kvs)) req none = false ∧ prm none req (some "sign") = true ∧
    prm (some (.arr [])) req (some "sign") = true := by
  simp [prm, prmWith]

/-- junk in `key_ops` (non-strings) never grants anything -/
theorem listed_only_strings (l : List Json) (op : String) :
    listed (some (.arr l)) op = true ↔ Json.str op ∈ l := by
  simp only [listed, stringElems, List.contains_iff_mem, List.mem_filterMap]
  constructor
  · rintro ⟨j, hj, hs⟩
    cases j <;> simp [strVal?] at hs
    subst hs; exact hj
  · intro h; exact ⟨.str op, h, rfl⟩

/-- non-vacuity: a key restricted to verification is refused for signing and granted for verifying -/
example : prm (some (.obj [("use", .str "sig"), ("key_ops", .arr [.str "verify", .int 7])])) false (some "decrypt") = false ∧
    prm (some (.obj [("key_ops", .arr [.str "verify", .int 7])])) false (some "sign") = false ∧
    prm (some (.obj [("key_ops", .arr [.str "verify", .int 7])])) false (some "verify") = true := by
  decide

/-! ### Part 2 — a declared algorithm is refused for any other, at every entry point,
regardless of how the two names compare -/

/-- verifying (jose_jws_ver_io) -/
theorem ver_mismatch (h k : String) (hne : h ≠ k) : Jws.verSelect (some h) (some k) = none := by
  simp [Jws.verSelect, hne]

/-- signing (find_alg of lib/jws.c) -/
theorem sig_mismatch (h k : String) (hne : k ≠ h) : Jws.keyAlgOk (some k) h = false := by
  simp [Jws.keyAlgOk, hne]

/-- unwrapping (jose_jwe_dec_jwk): refused when neither the header's alg nor its enc equals the key's alg -/
theorem unwrap_mismatch (h k : String) (henc : Option String) (h1 : h ≠ k) (h2 : henc ≠ some k) :
    Jwe.decJwkSelect (some h) henc (some k) = none := by
  simp [Jwe.decJwkSelect, h1, h2]

theorem unwrap_match (h k : String) (henc : Option String) (hm : h = k ∨ henc = some k) :
    Jwe.decJwkSelect (some h) henc (some k) = some h := by
  rcases hm with hm | hm <;> simp [Jwe.decJwkSelect, hm]

/-- key exchange (jose_jwk_exc) -/
theorem exc_mismatch (a b : String) (s : Option String) (hne : a ≠ b) : Exc.excSelect (some a) (some b) s = none := by
  simp [Exc.excSelect, hne]

/-- content encryption (jose_jwe_enc_cek_io): a CEK declaring another algorithm than the header's is refused -/
theorem enc_cek_mismatch (kvs p : List (String × Json)) (cek : Json) (h k : String) (hne : k ≠ h)
    (hp : lookup "protected" kvs = some (.obj p)) (he : lookup "enc" p = some (.str h))
    (hu : lookup "unprotected" kvs = none) (hk : Jws.optStr cek "alg" = some (some k)) :
    Jwe.encCekSetup (.obj kvs) cek = none := by
  simp only [Jwe.encCekSetup, hp, hu, hk]
  simp [Jws.optStr, he, hne]

/-- every registered algorithm demands the documented operation of the key (table facts,
    re-proved on the regenerated registry) -/
theorem entry_point_operations :
    (∀ a ∈ Jws.signAlgs, a.p1 = some "sign" ∧ a.p2 = some "verify") ∧
    (∀ a ∈ Jwe.encrAlgs, a.p1 = some "encrypt" ∧ a.p2 = some "decrypt") ∧
    (∀ a ∈ Jwe.wrapAlgs, (a.name = "dir" → a.p1 = some "encrypt" ∧ a.p2 = some "decrypt") ∧
                         (a.name ≠ "dir" → a.p1 = some "wrapKey" ∧ a.p2 = some "unwrapKey")) ∧
    (∀ a ∈ Exc.exchAlgs, a.p1 = some "deriveKey") := by
  decide


/-! ### the model is the code, on a grid regenerated from the code on every run

  `Jose/Grid/C05.lean` is rewritten by the translator (tools/extract_tables.py) on every run: it holds
  what the library **built from the current working tree** answered, in-process, to a fixed grid of
  operations — the grant decision `jose_jwk_prm`: 5 `use` values × 17 `key_ops` shapes (absent, empty, junk, every single operation, typical sets) × 9 requested operations × both `required` modes, and non-object keys.
  `Driver.agrees` evaluates the model's handler for the row's operation (the same handler the
  correspondence run uses) and compares with the recorded answer by `json_equal`.  The theorem is
  checked by the kernel (`decide +kernel`: evaluation, no axiom); any edit of the C that changes one of
  these answers makes it false, and the check then reports a violation. -/
theorem model_is_code_on_grid : Jose.Grid.C05.chunks.all (fun c => c.all Jose.Driver.agrees) = true := by
  decide +kernel

end Jose.Props.C05
