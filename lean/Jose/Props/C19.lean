import Jose.Fmt
import Jose.Grid.C19
/-
  C19 — `jose fmt` executes its option string as the documented stack machine.
  Statements about the model Jose/Fmt.lean (mirror of jcmd_fmt and the cmd_* helpers).
-/
set_option linter.unusedSimpArgs false
set_option linter.unusedVariables false

namespace Jose.Props.C19
open Jose Jose.Fmt

/-- a single option never reports the "dangling -X" status, and blames itself or the pending -X -/
theorem step_error (st : State) (nt : Bool) (i : Nat) (o : Opt) (st' : State) (oc : Outcome)
    (h : step st nt i o = .error (st', oc)) : oc = .fail i ∨ oc = .fail (i + 1) := by
  simp only [step] at h
  repeat' (split at h)
  all_goals (simp at h; try (obtain ⟨_, h⟩ := h; subst h; simp))

/-- **Nothing after the first failure.**  Once an option has failed, whatever follows it on
    the command line is neither executed nor printed: the final state (stack, heap, all
    output written) and the status are those of the program cut after the failing option. -/
theorem nothing_after_failure (ops more : List Opt) (st : State) (nt : Bool) (i k : Nat)
    (h : (runFrom st nt i ops).2 = .fail k) : runFrom st nt i (ops ++ more) = runFrom st nt i ops := by
  induction ops generalizing st nt i with
  | nil => simp only [runFrom] at h; split at h <;> simp at h
  | cons o rest ih =>
    simp only [List.cons_append, runFrom] at h ⊢
    cases hs : step st nt i o with
    | error r => simp [hs]
    | ok r => simp only [hs] at h ⊢; exact ih _ _ _ h

/-- **The failure index.**  A failure reported as `k` is the 1-based index of an option of the
    program (counting from the options already executed), never beyond its end -/
theorem failure_index_in_range (ops : List Opt) (st : State) (nt : Bool) (i k : Nat)
    (h : (runFrom st nt i ops).2 = .fail k) : i ≤ k ∧ k ≤ i + ops.length := by
  induction ops generalizing st nt i with
  | nil => simp only [runFrom] at h; split at h <;> simp at h
  | cons o rest ih =>
    simp only [runFrom] at h
    cases hs : step st nt i o with
    | error r =>
      obtain ⟨st', oc⟩ := r
      simp only [hs] at h
      subst h
      rcases step_error st nt i o st' _ hs with h1 | h1 <;> simp at h1 <;> subst h1 <;> simp <;> omega
    | ok r =>
      simp only [hs] at h
      have := ih _ _ _ h
      simp only [List.length_cons]; omega

/-- **Success means every option succeeded**, and then the program can be continued: running
    `ops ++ more` is running `more` from the state `ops` left, with the option count advanced -/
theorem ok_continues (ops more : List Opt) (st st' : State) (nt : Bool) (i : Nat)
    (h : runFrom st nt i ops = (st', .ok)) :
    runFrom st nt i (ops ++ more) = runFrom st' false (i + ops.length) more := by
  induction ops generalizing st nt i with
  | nil =>
    simp only [runFrom] at h
    split at h
    · simp at h
    · rename_i hn
      simp only [Prod.mk.injEq, and_true] at h
      subst h
      simp at hn; subst hn; simp
  | cons o rest ih =>
    simp only [List.cons_append, runFrom] at h ⊢
    cases hs : step st nt i o with
    | error r =>
      obtain ⟨s2, oc⟩ := r
      simp only [hs] at h
      rcases step_error st nt i o s2 oc hs with h1 | h1 <;> simp_all
    | ok r =>
      simp only [hs] at h ⊢
      rw [ih _ _ _ h]
      simp only [List.length_cons]
      congr 1; omega

/-- exit status: 0 exactly on success, otherwise the index (mod 256, as the shell sees it) -/
theorem exit_status (oc : Outcome) : (exitStatus oc = 0 ↔ oc = .ok ∨ (∃ k, (oc = .fail k ∨ oc = .danglingNot k) ∧ k % 256 = 0)) := by
  cases oc <;> simp [exitStatus]

/-- `-X` only inverts an assertion: before any other option (or another `-X`) the run stops and
    blames the `-X` itself -/
theorem not_needs_assertion (st : State) (i : Nat) (o : Opt) (rest : List Opt)
    (ho : o.assertChar? = none) : (runFrom st true i (o :: rest)).2 = .fail i := by
  simp only [runFrom, step, ho]
  cases o.isNot <;> simp

/-- an inverted assertion succeeds exactly when the plain one fails, and the inversion is used up -/
theorem not_inverts (st : State) (i : Nat) (c : Char) (rest : List Opt) :
    runFrom st true i (.assert c :: rest) =
      (if typeAssert st.heap c st.stack.head? st.stack.tail.head? then (st, .fail (i + 1))
       else runFrom st false (i + 1) rest) := by
  simp only [runFrom, step, Opt.isNot, Opt.assertChar?]
  cases typeAssert st.heap c st.stack.head? st.stack.tail.head? <;> simp

/-! ### operands: missing or wrongly typed TOP / PREV make the option fail -/

/-- every option that operates on TOP fails on an empty stack -/
theorem needs_top (st : State) (h : st.stack = []) (o : Opt)
    (ho : o ∈ [Opt.move 0, .unwind, .copy, .output "-", .foreach "-", .unquote "-", .trunc 0, .insert 0, .append, .extend,
               .delete "a", .length, .empty, .get "a", .set "a", .b64dump, .b64load]) : exec st o = none := by
  simp only [List.mem_cons, List.mem_nil_iff, or_false] at ho
  rcases ho with rfl | rfl | rfl | rfl | rfl | rfl | rfl | rfl | rfl | rfl | rfl | rfl | rfl | rfl | rfl | rfl | rfl <;>
    simp [exec, h]

/-- a scalar TOP (null, boolean, number, string) is refused by every option that needs an array or object -/
theorem needs_container (st : State) (v : Val) (rest : List Val) (h : st.stack = v :: rest)
    (hv : ∀ id, v ≠ .ref id) (n : Int) (s f : String) :
    exec st (.trunc n) = none ∧ exec st (.delete s) = none ∧ exec st .empty = none ∧ exec st (.get s) = none ∧
    exec st (.foreach f) = none ∧ exec st .b64dump = none := by
  cases v <;> simp_all [exec, isContainerRef, toJson, B64.encDump, Json.isObject, Json.isArray]

/-- options that use PREV fail when there is no PREV or it is a scalar -/
theorem needs_prev (st : State) (v : Val) (h : st.stack = [v]) (n : Int) (s : String) :
    exec st (.insert n) = none ∧ exec st .append = none ∧ exec st .extend = none ∧ exec st (.set s) = none := by
  simp [exec, h]

/-- `-t`: TOP must be an array; `#` keeps the first # items, `-#` drops the last # (and fails if
    there are fewer) -/
theorem trunc_spec (st : State) (id : Nat) (l : List Val) (rest : List Val) (n : Int)
    (hs : st.stack = .ref id :: rest) (hh : st.heap.get? id = some (.arr l)) :
    exec st (.trunc n) =
      (let k : Int := if n < 0 then n + l.length else n
       if k < 0 then none else some { st with heap := st.heap.set id (.arr (l.take k.toNat)) }) := by
  simp [exec, hs, isContainerRef, hh]

/-! ### frame: the rest of the stack is untouched -/

/-- the options that modify TOP or PREV in place leave the stack itself exactly as it was -/
theorem in_place_ops_keep_stack (st st' : State) (n : Int) (s : String) :
    (exec st (.trunc n) = some st' → st'.stack = st.stack) ∧
    (exec st (.insert n) = some st' → st'.stack = st.stack) ∧
    (exec st .append = some st' → st'.stack = st.stack) ∧
    (exec st .extend = some st' → st'.stack = st.stack) ∧
    (exec st (.delete s) = some st' → st'.stack = st.stack) ∧
    (exec st .empty = some st' → st'.stack = st.stack) ∧
    (exec st (.set s) = some st' → st'.stack = st.stack) := by
  refine ⟨?_, ?_, ?_, ?_, ?_, ?_, ?_⟩ <;> intro h <;> simp only [exec] at h <;>
    (repeat' (split at h)) <;>
    first
      | (simp at h; done)
      | (simp only [Option.some.injEq] at h; subst h; rfl)
      | (simp only [Option.map_eq_some_iff, Option.bind_eq_some_iff] at h
         first
           | (obtain ⟨_, _, rfl⟩ := h; rfl)
           | (obtain ⟨_, _, h⟩ := h; split at h <;> first | (simp at h; done) | (simp only [Option.some.injEq] at h; subst h; rfl)))

/-- pushes put exactly one value on top of the unchanged stack; `-U` removes exactly TOP -/
theorem push_pop (st st' : State) (v : Json) (s : String) :
    (exec st (.json v) = some st' → ∃ x, st'.stack = x :: st.stack) ∧
    (exec st (.quote s) = some st' → st'.stack = .str s :: st.stack) ∧
    (exec st (.get s) = some st' → ∃ x, st'.stack = x :: st.stack ∧ st'.heap = st.heap) ∧
    (exec st .unwind = some st' → st'.stack = st.stack.tail ∧ st'.heap = st.heap) := by
  refine ⟨?_, ?_, ?_, ?_⟩ <;> intro h <;> simp only [exec] at h
  · simp only [Option.some.injEq] at h; subst h; exact ⟨_, rfl⟩
  · simp only [Option.some.injEq] at h; subst h; rfl
  · repeat' (split at h)
    all_goals first
      | (simp at h; done)
      | (simp only [Option.map_eq_some_iff, Option.bind_eq_some_iff] at h
         first
           | (obtain ⟨_, _, rfl⟩ := h; exact ⟨_, rfl, rfl⟩)
           | (obtain ⟨_, _, _, _, rfl⟩ := h; exact ⟨_, rfl, rfl⟩))
  · split at h
    · simp at h
    · simp only [Option.some.injEq] at h; subst h; simp_all

/-- non-vacuity: the manual's "build a JWE template" example, which relies on aliasing -/
example : (run [.json (.obj []), .copy, .set "unprotected", .quote "A128KW", .set "alg", .unwind, .unwind, .output "-"]).1.out
    = [("-", "{\"unprotected\":{\"alg\":\"A128KW\"}}")] := by decide


/-! ### the model is the code, on a grid regenerated from the code on every run

  `Jose/Grid/C19.lean` is rewritten by the translator (tools/extract_tables.py) on every run: it holds what
  the `jose fmt` **built from the current working tree** did (exit status, standard output, files) on a
  fixed grid — `jose fmt` option programs: every option with every argument of the check's small alphabet after each of seven stack prefixes, and every pair of 30 options after a prefix with an aliased child on the stack, each followed by `-o-` (rows whose failing option is an output option are left out: it has already written part of a circular value).
  The theorem is checked by the kernel (`decide +kernel`: evaluation of the stack-machine model, no axiom). -/
theorem model_is_code_on_grid : Jose.Grid.C19.chunks.all (fun c => c.all Jose.Driver.agrees) = true := by
  decide +kernel

end Jose.Props.C19
