import Jose.Jws
namespace Jose.Props.C01
theorem placeholder : (1 : Nat) = 1 := rfl
end Jose.Props.C01
