import Jose.Jws
import Jose.Lemmas.Tree
/-
  C01 — JWS verification is sound: only genuinely signed content verifies.
  Statements about `Jws.ver` / `Jws.verIo` (jose_jws_ver / jose_jws_ver_io and the
  `sign.ver` hooks), for every instance `P` of the primitives.
-/
set_option linter.unusedSimpArgs false
set_option linter.unusedVariables false

namespace Jose.Props.C01
open Jose Jose.Jws Jose.IO Jose.Json Jose.Entity Tables

/-! ### multiplexers over lists of verifiers -/

theorem V_any (ls : List Stage) (x : Bs) : V (.plex false (branchesOf ls)) x = ls.any (fun l => V l x) := by
  simp only [V]
  induction ls with
  | nil => simp [branchesOf, anyV]
  | cons l r ih => simp [branchesOf, anyV, ih]

theorem V_all (ls : List Stage) (x : Bs) :
    V (.plex true (branchesOf ls)) x = (!ls.isEmpty && ls.all (fun l => V l x)) := by
  simp only [V]
  have h : ∀ ls : List Stage, allV (branchesOf ls) x = ls.all (fun l => V l x) := by
    intro ls
    induction ls with
    | nil => simp [branchesOf, allV]
    | cons l r ih => simp [branchesOf, allV, ih]
  cases ls with
  | nil => simp [branchesOf, nonemptyB]
  | cons l r =>
    have := h (l :: r)
    simp only [branchesOf] at this
    simp [branchesOf, nonemptyB, this]

theorem accB_branchesOf (ls : List Stage) (h : ∀ l ∈ ls, AccT l) : AccB (branchesOf ls) := by
  induction ls with
  | nil => exact .nil
  | cons l r ih => exact .cons l _ (h l (by simp)) (ih (fun x hx => h x (by simp [hx])))

/-! ### one signature object against one key -/

/-- the decision for one (signature object, key) pair over the payload text `pay` -/
def pairOk (P : Prims) (s k : Json) (pay : Bs) : Bool :=
  match verOne P s k with
  | some sg => V sg pay
  | none => false

/-- unfolding of a successful `verOne` -/
theorem verOne_some (P : Prims) (s k : Json) (sg : Stage) (h : verOne P s k = some sg) :
    ∃ hdr halg kalg name a f pre,
      jwsHdr s = some hdr ∧ optStr hdr "alg" = some halg ∧ optStr k "alg" = some kalg ∧
      verSelect halg kalg = some name ∧ findSign name = some a ∧
      Jwk.prm (some k) false a.p2 = true ∧
      verLeaf P name s k = some f ∧ prefixOf s = some pre ∧ sg = leafStage f pre := by
  simp only [verOne] at h
  split at h
  · simp at h
  · simp only [Option.bind_eq_some_iff] at h
    obtain ⟨kalg, h1, hdr, h2, halg, h3, name, h4, a, h5, h6⟩ := h
    split at h6
    · simp at h6
    · rename_i hprm
      simp only [Option.bind_eq_some_iff, Option.some.injEq] at h6
      obtain ⟨f, h7, pre, h8, h9⟩ := h6
      exact ⟨hdr, halg, kalg, name, a, f, pre, h2, h3, h1, h4, h5, by simpa using hprm, h7, h8, h9.symm⟩

theorem verOne_acc (P : Prims) (s k : Json) (sg : Stage) (h : verOne P s k = some sg) : AccT sg := by
  obtain ⟨_, _, _, _, _, f, pre, _, _, _, _, _, _, _, _, rfl⟩ := verOne_some P s k sg h
  exact .leaf _ rfl

/-- C01 (core): what a successful pair check means.  The algorithm `name` is the one
    named by the signature's merged header (or, if the header names none, by the key),
    it is a registered signature algorithm, the key declares no other algorithm and is
    permitted to verify, and the algorithm's check `f` — see `leaf_*` below — holds on
    **exactly** the protected-header text, a '.', and the payload text. -/
theorem pairOk_spec (P : Prims) (s k : Json) (pay : Bs) (h : pairOk P s k pay = true) :
    ∃ hdr halg kalg name a f pre,
      jwsHdr s = some hdr ∧ optStr hdr "alg" = some halg ∧ optStr k "alg" = some kalg ∧
      verSelect halg kalg = some name ∧ findSign name = some a ∧
      Jwk.prm (some k) false a.p2 = true ∧
      verLeaf P name s k = some f ∧ prefixOf s = some pre ∧ f (pre ++ pay) = true := by
  simp only [pairOk] at h
  cases hv : verOne P s k with
  | none => simp [hv] at h
  | some sg =>
    simp only [hv] at h
    obtain ⟨hdr, halg, kalg, name, a, f, pre, h1, h2, h3, h4, h5, h6, h7, h8, rfl⟩ := verOne_some P s k sg hv
    refine ⟨hdr, halg, kalg, name, a, f, pre, h1, h2, h3, h4, h5, h6, h7, h8, ?_⟩
    simp only [leafStage, V] at h
    split at h
    · assumption
    · simp at h

/-- the name selected is the header's if it names one, and a key that declares an
    algorithm is refused for any other name — whatever the two names are (C05) -/
theorem verSelect_spec (halg kalg : Option String) (name : String) (h : verSelect halg kalg = some name) :
    (∀ a, halg = some a → name = a) ∧ (∀ b, kalg = some b → name = b) := by
  cases halg <;> cases kalg <;> simp [verSelect] at h
  · subst h; simp
  · subst h; simp
  · obtain ⟨h1, h2⟩ := h; subst h1; subst h2; simp

/-- an algorithm that is not a registered signature algorithm ("none", anything
    unknown) never verifies -/
theorem unsupported_alg_fails (P : Prims) (s k : Json) (pay : Bs)
    (h : ∀ hdr halg kalg name, jwsHdr s = some hdr → optStr hdr "alg" = some halg → optStr k "alg" = some kalg →
      verSelect halg kalg = some name → findSign name = none) : pairOk P s k pay = false := by
  cases hp : pairOk P s k pay with
  | false => rfl
  | true =>
    obtain ⟨hdr, halg, kalg, name, a, f, pre, h1, h2, h3, h4, h5, _⟩ := pairOk_spec P s k pay hp
    rw [h hdr halg kalg name h1 h2 h3 h4] at h5
    simp at h5

theorem none_not_registered : findSign "none" = none ∧ findSign "" = none := by decide

/-! ### what each family's leaf checks -/

/-- HMAC: the signature member decodes to exactly the MAC of the input under the key,
    whose length is within [hash size, KEYMAX] -/
theorem leaf_hmac (P : Prims) (h : String) (s k : Json) (f : Bs → Bool) (msg : Bs)
    (hl : hmacVer P h s k = some f) (hok : f msg = true) :
    ∃ key sv, bytesOfJson (k.get? "k") = some key ∧ hashLen h ≤ key.length ∧ key.length ≤ keymax ∧
      sigBytes s = some sv ∧ sv.length = hashLen h ∧ P.hmac h key msg = sv := by
  simp only [hmacVer, Option.map_eq_some_iff] at hl
  obtain ⟨key, hkey, rfl⟩ := hl
  simp only [hmacKey] at hkey
  cases hk : bytesOfJson (k.get? "k") with
  | none => simp [hk] at hkey
  | some kb =>
    simp only [hk] at hkey
    split at hkey
    · simp at hkey
    · rename_i h1
      split at hkey
      · simp at hkey
      · rename_i h2
        simp only [Option.some.injEq] at hkey
        subst hkey
        cases hs : sigBytes s with
        | none => simp [hs] at hok
        | some sv =>
          simp only [hs, Bool.and_eq_true, beq_iff_eq] at hok
          exact ⟨kb, sv, rfl, by omega, by omega, rfl, hok.1, hok.2⟩

/-- ECDSA: the key passed `EC_KEY_check_key`, the signature is r‖s of exactly twice the
    curve's width, and the primitive accepts them over the digest of the input -/
theorem leaf_ecdsa (P : Prims) (crv h : String) (s k : Json) (f : Bs → Bool) (msg : Bs)
    (hl : ecdsaVer P crv h s k = some f) (hok : f msg = true) :
    ∃ hfun key sv, P.hash h = some hfun ∧ ecKeyOf P k = some key ∧ sigBytes s = some sv ∧
      sv.length = 2 * key.len ∧
      P.ecdsaVerify key.crv key.x key.y (hfun msg) (sv.take key.len) (sv.drop key.len) = true := by
  simp only [ecdsaVer] at hl
  split at hl
  · simp at hl
  simp only [Option.bind_eq_some_iff, Option.map_eq_some_iff] at hl
  obtain ⟨hfun, hh, key, hk, rfl⟩ := hl
  cases hs : sigBytes s with
  | none => simp [hs] at hok
  | some sv =>
    simp only [hs, Bool.and_eq_true, beq_iff_eq] at hok
    exact ⟨hfun, key, sv, hh, hk, rfl, hok.1, hok.2⟩

/-- an imported EC key is one the curve check accepted, on one of the four named curves (C10) -/
theorem ecKey_valid (P : Prims) (k : Json) (key : EcKey) (h : ecKeyOf P k = some key) :
    P.ecValid key.crv key.x key.y key.d = true ∧ crvLen key.crv = some key.len ∧
    key.crv ∈ ["P-256", "P-384", "P-521", "secp256k1"] := by
  simp only [ecKeyOf] at h
  split at h
  · rename_i crv xj yj _ _ _ _
    cases hc : crvLen crv with
    | none => simp [hc] at h
    | some len =>
      simp only [hc] at h
      split at h
      · rename_i d x y _ _ _
        split at h
        · rename_i hv
          simp only [Option.some.injEq] at h
          subst h
          refine ⟨hv, hc, ?_⟩
          simp only [crvLen] at hc
          split at hc <;> simp_all
        · simp at h
      · simp at h
  · simp at h

/-- RSASSA: modulus of at least 256 bytes (2048 bits) and the primitive accepts the
    signature over the input -/
theorem leaf_rsa (P : Prims) (h : String) (pss : Bool) (s k : Json) (f : Bs → Bool) (msg : Bs)
    (hl : rsaVer P pss h s k = some f) (hok : f msg = true) :
    ∃ key sv, rsaKeyOf k = some key ∧ 256 ≤ (stripZeros key.n).length ∧ sigBytes s = some sv ∧
      P.rsaVerify pss h key.n key.e msg sv = true := by
  simp only [rsaVer, Option.map_eq_some_iff] at hl
  obtain ⟨key, hkey, rfl⟩ := hl
  simp only [rsaSigKey] at hkey
  split at hkey
  · simp only [Option.bind_eq_some_iff] at hkey
    obtain ⟨key', hk', hsz⟩ := hkey
    split at hsz
    · simp at hsz
    · rename_i hlen
      simp only [Option.some.injEq] at hsz
      subst hsz
      cases hs : sigBytes s with
      | none => simp [hs] at hok
      | some sv =>
        simp only [hs] at hok
        exact ⟨key', sv, hk', by omega, rfl, hok⟩
  · simp at hkey

/-- the leaf of a registered name is the leaf of its family -/
theorem verLeaf_family (P : Prims) (name : String) (s k : Json) (f : Bs → Bool) (h : verLeaf P name s k = some f) :
    (∃ hs, family name = some (.hmac hs) ∧ hmacVer P hs s k = some f) ∨
    (∃ crv hs, family name = some (.ecdsa crv hs) ∧ ecdsaVer P crv hs s k = some f) ∨
    (∃ pss hs, family name = some (.rsa pss hs) ∧ rsaVer P pss hs s k = some f) := by
  simp only [verLeaf] at h
  cases hf : family name with
  | none => simp [hf] at h
  | some fam =>
    cases fam with
    | hmac hs => simp only [hf] at h; exact Or.inl ⟨hs, rfl, h⟩
    | ecdsa crv hs => simp only [hf] at h; exact Or.inr (Or.inl ⟨crv, hs, rfl, h⟩)
    | rsa pss hs => simp only [hf] at h; exact Or.inr (Or.inr ⟨pss, hs, rfl, h⟩)

/-- every registered signature algorithm belongs to one of the three families the
    model knows (re-checked against the regenerated registry) -/
theorem families_cover_registry : ∀ a ∈ signAlgs, (family a.name).isSome = true := by decide

/-- every registered signature algorithm demands "verify" for verification and "sign"
    for signing -/
theorem sign_algs_permissions : ∀ a ∈ signAlgs, a.p1 = some "sign" ∧ a.p2 = some "verify" := by decide

/-- an absent signature value never verifies, for any algorithm -/
theorem absent_signature_fails (P : Prims) (name : String) (s k : Json) (f : Bs → Bool) (msg : Bs)
    (hl : verLeaf P name s k = some f) (hs : sigBytes s = none) : f msg = false := by
  rcases verLeaf_family P name s k f hl with ⟨h, _, hv⟩ | ⟨crv, h, _, hv⟩ | ⟨pss, h, _, hv⟩
  · simp only [hmacVer, Option.map_eq_some_iff] at hv
    obtain ⟨_, _, rfl⟩ := hv; simp [hs]
  · simp only [ecdsaVer] at hv
    split at hv
    · simp at hv
    simp only [Option.bind_eq_some_iff, Option.map_eq_some_iff] at hv
    obtain ⟨_, _, _, _, rfl⟩ := hv; simp [hs]
  · simp only [rsaVer, Option.map_eq_some_iff] at hv
    obtain ⟨_, _, rfl⟩ := hv; simp [hs]

/-- an empty signature value never verifies for HMAC and ECDSA algorithms (their
    signature sizes are positive: table fact) -/
theorem sizes_positive : (∀ h ∈ ["S256", "S384", "S512"], 0 < hashLen h) ∧
    (∀ c ∈ ["P-256", "P-384", "P-521", "secp256k1"], ∃ n, crvLen c = some n ∧ 0 < n) := by decide

/-! ### signature objects and keys: the verdict of `jose_jws_ver` -/

/-- the signature objects examined for one key -/
def sigObjs (jws : Json) (sig : Option Json) : List Json :=
  match sig with
  | some s => [s]
  | none =>
    match jws.get? "signatures" with
    | some (.arr l) => l
    | _ => [jws]

/-- verdict for one key: some signature object passes -/
def keyOk (P : Prims) (jws : Json) (sig : Option Json) (k : Json) (pay : Bs) : Bool :=
  (sigObjs jws sig).any (fun s => pairOk P s k pay)

theorem verKey_spec (P : Prims) (jws : Json) (sig : Option Json) (k : Json) (pay : Bs) :
    (match verKey P jws sig k with | some sg => V sg pay | none => false) = keyOk P jws sig k pay ∧
    (∀ sg, verKey P jws sig k = some sg → AccT sg) := by
  simp only [verKey, keyOk, sigObjs]
  cases sig with
  | some s =>
    simp only [List.any_cons, List.any_nil, Bool.or_false, pairOk]
    exact ⟨trivial, fun sg h => verOne_acc P s k sg h⟩
  | none =>
    simp only [verAllSigs]
    cases hs : jws.get? "signatures" with
    | none =>
      simp only [List.any_cons, List.any_nil, Bool.or_false, pairOk]
      exact ⟨trivial, fun sg h => verOne_acc P jws k sg h⟩
    | some sj =>
      cases sj with
      | arr l =>
        simp only
        constructor
        · rw [V_any]
          simp only [List.any_filterMap, pairOk]
          congr 1
          funext s
          cases verOne P s k <;> simp
        · intro sg h
          simp only [Option.some.injEq] at h
          subst h
          apply AccT.node
          apply accB_branchesOf
          intro l' hl'
          simp only [List.mem_filterMap] at hl'
          obtain ⟨s, _, hs⟩ := hl'
          exact verOne_acc P s k l' hs
      | _ =>
        simp only [List.any_cons, List.any_nil, Bool.or_false, pairOk]
        exact ⟨trivial, fun sg h => verOne_acc P jws k sg h⟩

/-- what `nested` is at recursion depth `f` -/
def nestedAt (P : Prims) (jws : Json) (all : Bool) : Nat → Option Json → Json → Option Stage
  | 0 => fun _ _ => none
  | f + 1 => fun s k => verIoF P jws f s k all

theorem verIoF_single (P : Prims) (jws : Json) (f : Nat) (sig : Option Json) (jwk : Json) (all : Bool)
    (hk : keyList jwk = none) : verIoF P jws f sig jwk all = verKey P jws sig jwk := by
  cases f <;> simp [verIoF, hk]

theorem verIoF_list (P : Prims) (jws : Json) (f : Nat) (sig : Option Json) (jwk : Json) (all : Bool) (keys : List Json)
    (hk : keyList jwk = some keys) :
    verIoF P jws f sig jwk all = verKeys (nestedAt P jws all f) P jws sig keys all := by
  cases f <;> simp [verIoF, hk, nestedAt]

/-- C01, single key.  `jose_jws_ver` reports success exactly when the JWS has a payload
    and some signature object passes the pair check under the key (see `pairOk_spec`).
    In particular an empty or absent signature list with no flattened signature fails. -/
theorem ver_single (P : Prims) (jws : Json) (sig : Option Json) (jwk : Json) (all : Bool)
    (hk : keyList jwk = none) :
    ver P jws sig jwk all = (match payloadOf jws with | some pay => keyOk P jws sig jwk pay | none => false) := by
  simp only [ver]
  cases hp : payloadOf jws with
  | none => rfl
  | some pay =>
    simp only [verIo, verIoF_single P jws _ sig jwk all hk]
    obtain ⟨h1, h2⟩ := verKey_spec P jws sig jwk pay
    cases hv : verKey P jws sig jwk with
    | none => simp [hv] at h1; simp [h1]
    | some sg =>
      simp only [hv] at h1
      have := run_V (h2 sg hv) [pay]
      simp only [List.flatten_cons, List.flatten_nil, List.append_nil] at this
      simp only [this, h1]

/-- C01, streaming: for every split of the payload into feeds the verdict of the final
    `done` is the one-shot verdict -/
theorem ver_stream (P : Prims) (jws : Json) (sig : Option Json) (jwk : Json) (all : Bool)
    (hk : keyList jwk = none) (sg : Stage) (hio : verIo P jws sig jwk all = some sg) (cs : List Bs) :
    (run sg cs).2 = keyOk P jws sig jwk cs.flatten := by
  simp only [verIo, verIoF_single P jws _ sig jwk all hk] at hio
  obtain ⟨h1, h2⟩ := verKey_spec P jws sig jwk cs.flatten
  rw [run_V (h2 sg hio) cs]
  simp only [hio] at h1
  exact h1

/-! ### several keys: `any` and `all` -/

/-- value of an optional sub-verifier on the payload: a NULL one counts as failed -/
def subVal (pay : Bs) : Option Stage → Bool
  | some sg => V sg pay
  | none => false

/-- the multiplexer over the non-NULL sub-verifiers, as `jose_jws_ver_io` builds it for a key list -/
theorem plex_subs (all : Bool) (subs : List (Option Stage)) (pay : Bs)
    (hacc : ∀ sg, some sg ∈ subs → AccT sg) :
    (if all && subs.any Option.isNone then false
     else (run (.plex all (branchesOf (subs.filterMap id))) [pay]).2) =
    (if all then !subs.isEmpty && subs.all (subVal pay) else subs.any (subVal pay)) := by
  have hA : AccT (.plex all (branchesOf (subs.filterMap id))) := by
    apply AccT.node
    apply accB_branchesOf
    intro l hl
    simp only [List.mem_filterMap, id] at hl
    obtain ⟨o, ho, rfl⟩ := hl
    exact hacc l ho
  have hrun := run_V hA [pay]
  simp only [List.flatten_cons, List.flatten_nil, List.append_nil] at hrun
  rw [hrun]
  cases all with
  | false =>
    simp only [Bool.false_and, Bool.false_eq_true, if_false, V_any]
    induction subs with
    | nil => simp
    | cons o r ih =>
      have ihr := ih (fun sg h => hacc sg (by simp [h])) (by
        apply AccT.node; apply accB_branchesOf
        intro l hl
        simp only [List.mem_filterMap, id] at hl
        obtain ⟨o', ho', rfl⟩ := hl
        exact hacc l (by simp [ho'])) (by
        have := run_V (sg := .plex false (branchesOf (r.filterMap id))) (by
          apply AccT.node; apply accB_branchesOf
          intro l hl
          simp only [List.mem_filterMap, id] at hl
          obtain ⟨o', ho', rfl⟩ := hl
          exact hacc l (by simp [ho'])) [pay]
        simpa using this)
      cases o with
      | none => simpa [subVal] using ihr
      | some sg => simp [subVal, List.filterMap_cons, ihr]
  | true =>
    simp only [Bool.true_and, if_true, V_all]
    by_cases hn : subs.any Option.isNone = true
    · simp only [hn, if_true]
      -- a NULL sub-verifier has value false
      have : subs.all (subVal pay) = false := by
        simp only [List.any_eq_true] at hn
        obtain ⟨o, ho, hnone⟩ := hn
        cases o with
        | some _ => simp at hnone
        | none =>
          apply Bool.eq_false_iff.mpr
          intro hall
          have := (List.all_eq_true.mp hall) none ho
          simp [subVal] at this
      simp [this]
    · simp only [hn, Bool.false_eq_true, if_false]
      -- no NULLs: filterMap id is the list of stages
      have hall : ∀ o ∈ subs, o.isSome = true := by
        intro o ho
        cases o with
        | some _ => rfl
        | none => exact absurd (List.any_eq_true.mpr ⟨none, ho, rfl⟩) hn
      clear hn hrun hA
      induction subs with
      | nil => simp
      | cons o r ih =>
        cases o with
        | none => exact absurd (hall none (by simp)) (by simp)
        | some sg =>
          have ihr := ih (fun sg h => hacc sg (by simp [h])) (fun o ho => hall o (by simp [ho]))
          simp only [List.filterMap_cons, id, List.isEmpty_cons, Bool.not_false, Bool.true_and, List.all_cons, subVal]
          cases r with
          | nil => simp
          | cons o2 r2 =>
            simp only [List.isEmpty_cons, Bool.not_false, Bool.true_and] at ihr
            have hne : (List.filterMap id (o2 :: r2)).isEmpty = false := by
              cases o2 with
              | none => exact absurd (hall none (by simp)) (by simp)
              | some _ => simp
            simp only [hne, Bool.not_false, Bool.true_and] at ihr
            rw [ihr]

theorem all_congr_mem {α : Type} (l : List α) (f g : α → Bool) (h : ∀ a ∈ l, f a = g a) : l.all f = l.all g := by
  induction l with
  | nil => rfl
  | cons a r ih => simp [h a (by simp), ih (fun x hx => h x (by simp [hx]))]

theorem any_congr_mem {α : Type} (l : List α) (f g : α → Bool) (h : ∀ a ∈ l, f a = g a) : l.any f = l.any g := by
  induction l with
  | nil => rfl
  | cons a r ih => simp [h a (by simp), ih (fun x hx => h x (by simp [hx]))]

/-- verdict for key number `i` of a key list -/
def keyOkAt (P : Prims) (jws : Json) (sig : Option Json) (keys : List Json) (pay : Bs) (i : Nat) : Bool :=
  match keys[i]? with
  | some k => keyOk P jws (sigFor sig i) k pay
  | none => false

/-- C01, key lists (JWK array or JWKSet of plain keys).  With `all`, verification
    succeeds exactly when the list is non-empty and **every** key has a signature
    object that passes under it; without `all`, exactly when **some** key has one.
    An empty key set therefore never verifies, in either mode. -/
theorem ver_keys (P : Prims) (jws : Json) (sig : Option Json) (jwk : Json) (all : Bool) (keys : List Json) (pay : Bs)
    (hk : keyList jwk = some keys) (hflat : ∀ k ∈ keys, keyList k = none)
    (hp : payloadOf jws = some pay) (hsz : sigSizeOk sig keys.length = true) :
    ver P jws sig jwk all =
      (if all then !keys.isEmpty && (List.range keys.length).all (keyOkAt P jws sig keys pay)
       else (List.range keys.length).any (keyOkAt P jws sig keys pay)) := by
  simp only [ver, hp, verIo, verIoF_list P jws _ sig jwk all keys hk, verKeys, hsz, Bool.not_true, Bool.false_eq_true, if_false]
  generalize nestedAt P jws all (jdepth jwk) = nested
  -- value and accumulation property of every sub-verifier
  have hval : ∀ i, i < keys.length → subVal pay (subFor nested P jws sig keys i) = keyOkAt P jws sig keys pay i := by
    intro i hi
    simp only [subFor, keyOkAt]
    have hget : keys[i]? = some keys[i] := List.getElem?_eq_getElem hi
    simp only [hget, hflat keys[i] (List.getElem_mem hi)]
    have := (verKey_spec P jws (sigFor sig i) keys[i] pay).1
    cases hv : verKey P jws (sigFor sig i) keys[i] with
    | none => simp [hv, subVal] at this ⊢; exact this
    | some sg => simp [hv, subVal] at this ⊢; exact this
  have hacc : ∀ sg, some sg ∈ (List.range keys.length).map (subFor nested P jws sig keys) → AccT sg := by
    intro sg hsg
    simp only [List.mem_map, List.mem_range] at hsg
    obtain ⟨i, hi, hs⟩ := hsg
    simp only [subFor] at hs
    have hget : keys[i]? = some keys[i] := List.getElem?_eq_getElem hi
    simp only [hget, hflat keys[i] (List.getElem_mem hi)] at hs
    exact (verKey_spec P jws (sigFor sig i) keys[i] pay).2 sg hs
  have hmain := plex_subs all ((List.range keys.length).map (subFor nested P jws sig keys)) pay hacc
  have hall : ((List.range keys.length).map (subFor nested P jws sig keys)).all (subVal pay) =
      (List.range keys.length).all (keyOkAt P jws sig keys pay) := by
    rw [List.all_map]
    exact all_congr_mem _ _ _ (fun i hi => hval i (List.mem_range.mp hi))
  have hany : ((List.range keys.length).map (subFor nested P jws sig keys)).any (subVal pay) =
      (List.range keys.length).any (keyOkAt P jws sig keys pay) := by
    rw [List.any_map]
    exact any_congr_mem _ _ _ (fun i hi => hval i (List.mem_range.mp hi))
  have hemp : ((List.range keys.length).map (subFor nested P jws sig keys)).isEmpty = keys.isEmpty := by
    cases keys <;> simp [List.range_succ]
  rw [hall, hany, hemp] at hmain
  rw [← hmain]
  by_cases hc : (all && ((List.range keys.length).map (subFor nested P jws sig keys)).any Option.isNone) = true
  · simp only [hc, if_true]
  · simp only [hc, Bool.false_eq_true, if_false]

/-! ### key lists inside key lists (after fix F29 the inner list inherits `all`) -/

/-- verdict for element `i` of a key list whose elements may themselves be key lists: `nv` judges those -/
def elemOk (nv : Option Json → Json → Bool) (P : Prims) (jws : Json) (sig : Option Json) (keys : List Json) (pay : Bs)
    (i : Nat) : Bool :=
  match keys[i]? with
  | some k => (match keyList k with
      | some _ => nv (sigFor sig i) k
      | none => keyOk P jws (sigFor sig i) k pay)
  | none => false

/-- the specification of verification with a key list, one level: with `all` every element, else some element -/
def listOk (nv : Option Json → Json → Bool) (P : Prims) (jws : Json) (sig : Option Json) (keys : List Json) (pay : Bs)
    (all : Bool) : Bool :=
  sigSizeOk sig keys.length &&
    (if all then !keys.isEmpty && (List.range keys.length).all (elemOk nv P jws sig keys pay)
     else (List.range keys.length).any (elemOk nv P jws sig keys pay))

/-- one level of `jose_jws_ver_io` on a key list, given what the recursive calls on nested lists do -/
theorem verKeys_val (nested : Option Json → Json → Option Stage) (nv : Option Json → Json → Bool)
    (P : Prims) (jws : Json) (sig : Option Json) (keys : List Json) (pay : Bs) (all : Bool)
    (hnA : ∀ s k sg, nested s k = some sg → AccT sg) (hnV : ∀ s k, subVal pay (nested s k) = nv s k) :
    subVal pay (verKeys nested P jws sig keys all) = listOk nv P jws sig keys pay all ∧
    (∀ sg, verKeys nested P jws sig keys all = some sg → AccT sg) := by
  have hval : ∀ i, i < keys.length → subVal pay (subFor nested P jws sig keys i) = elemOk nv P jws sig keys pay i := by
    intro i hi
    simp only [subFor, elemOk]
    have hget : keys[i]? = some keys[i] := List.getElem?_eq_getElem hi
    simp only [hget]
    cases hkl : keyList keys[i] with
    | some l => simp only [hnV]
    | none =>
      simp only
      have := (verKey_spec P jws (sigFor sig i) keys[i] pay).1
      cases hv : verKey P jws (sigFor sig i) keys[i] with
      | none => simp [hv, subVal] at this ⊢; exact this
      | some sg => simp [hv, subVal] at this ⊢; exact this
  have hacc : ∀ sg, some sg ∈ (List.range keys.length).map (subFor nested P jws sig keys) → AccT sg := by
    intro sg hsg
    simp only [List.mem_map, List.mem_range] at hsg
    obtain ⟨i, hi, hs⟩ := hsg
    simp only [subFor] at hs
    have hget : keys[i]? = some keys[i] := List.getElem?_eq_getElem hi
    simp only [hget] at hs
    cases hkl : keyList keys[i] with
    | some l => simp only [hkl] at hs; exact hnA _ _ sg hs
    | none => simp only [hkl] at hs; exact (verKey_spec P jws (sigFor sig i) keys[i] pay).2 sg hs
  constructor
  · simp only [verKeys, listOk]
    cases hsz : sigSizeOk sig keys.length with
    | false => simp [subVal]
    | true =>
      simp only [Bool.not_true, Bool.false_eq_true, if_false, Bool.true_and]
      have hmain := plex_subs all ((List.range keys.length).map (subFor nested P jws sig keys)) pay hacc
      have hall : ((List.range keys.length).map (subFor nested P jws sig keys)).all (subVal pay) =
          (List.range keys.length).all (elemOk nv P jws sig keys pay) := by
        rw [List.all_map]
        exact all_congr_mem _ _ _ (fun i hi => hval i (List.mem_range.mp hi))
      have hany : ((List.range keys.length).map (subFor nested P jws sig keys)).any (subVal pay) =
          (List.range keys.length).any (elemOk nv P jws sig keys pay) := by
        rw [List.any_map]
        exact any_congr_mem _ _ _ (fun i hi => hval i (List.mem_range.mp hi))
      have hemp : ((List.range keys.length).map (subFor nested P jws sig keys)).isEmpty = keys.isEmpty := by
        cases keys <;> simp [List.range_succ]
      rw [hall, hany, hemp] at hmain
      rw [← hmain]
      by_cases hc : (all && ((List.range keys.length).map (subFor nested P jws sig keys)).any Option.isNone) = true
      · simp only [hc, if_true, subVal]
      · simp only [hc, Bool.false_eq_true, if_false, subVal]
        have hA : AccT (.plex all (branchesOf (((List.range keys.length).map (subFor nested P jws sig keys)).filterMap id))) := by
          apply AccT.node
          apply accB_branchesOf
          intro l hl
          simp only [List.mem_filterMap, id] at hl
          obtain ⟨o, ho, rfl⟩ := hl
          exact hacc l ho
        have := run_V hA [pay]
        simp only [List.flatten_cons, List.flatten_nil, List.append_nil] at this
        rw [this]
  · intro sg hsg
    simp only [verKeys] at hsg
    split at hsg
    · simp at hsg
    · split at hsg
      · simp at hsg
      · simp only [Option.some.injEq] at hsg
        subst hsg
        apply AccT.node
        apply accB_branchesOf
        intro l hl
        simp only [List.mem_filterMap, id] at hl
        obtain ⟨o, ho, rfl⟩ := hl
        exact hacc l ho

/-- the specification of `jose_jws_ver_io` on an arbitrarily nested key argument, `f` levels deep: a single key
    must have a signature object that passes under it; a key list demands, with `all`, EVERY element (and is not
    empty), else SOME element — and an element that is itself a key list is judged by the same rule with the same
    `all` -/
def specF (P : Prims) (jws : Json) (pay : Bs) : Nat → Option Json → Json → Bool → Bool
  | 0, sig, jwk, all =>
    (match keyList jwk with
     | some keys => listOk (fun _ _ => false) P jws sig keys pay all
     | none => keyOk P jws sig jwk pay)
  | f + 1, sig, jwk, all =>
    (match keyList jwk with
     | some keys => listOk (fun s k => specF P jws pay f s k all) P jws sig keys pay all
     | none => keyOk P jws sig jwk pay)

/-- **C01 for every shape of the key argument** (single key, array, JWKSet, lists nested in lists to any
    depth): the verifier the model builds accumulates the payload and its verdict is `specF` -/
theorem verIoF_spec (P : Prims) (jws : Json) (pay : Bs) (f : Nat) :
    ∀ (sig : Option Json) (jwk : Json) (all : Bool),
      subVal pay (verIoF P jws f sig jwk all) = specF P jws pay f sig jwk all ∧
      (∀ sg, verIoF P jws f sig jwk all = some sg → AccT sg) := by
  induction f with
  | zero =>
    intro sig jwk all
    simp only [verIoF, specF]
    cases hk : keyList jwk with
    | none =>
      simp only
      obtain ⟨h1, h2⟩ := verKey_spec P jws sig jwk pay
      refine ⟨?_, h2⟩
      cases hv : verKey P jws sig jwk with
      | none => simp [hv, subVal] at h1 ⊢; exact h1
      | some sg => simp [hv, subVal] at h1 ⊢; exact h1
    | some keys =>
      simp only
      exact verKeys_val (fun _ _ => none) (fun _ _ => false) P jws sig keys pay all
        (fun _ _ sg h => by simp at h) (fun _ _ => by simp [subVal])
  | succ f ih =>
    intro sig jwk all
    simp only [verIoF, specF]
    cases hk : keyList jwk with
    | none =>
      simp only
      obtain ⟨h1, h2⟩ := verKey_spec P jws sig jwk pay
      refine ⟨?_, h2⟩
      cases hv : verKey P jws sig jwk with
      | none => simp [hv, subVal] at h1 ⊢; exact h1
      | some sg => simp [hv, subVal] at h1 ⊢; exact h1
    | some keys =>
      simp only
      exact verKeys_val (fun s k => verIoF P jws f s k all) (fun s k => specF P jws pay f s k all) P jws sig keys pay all
        (fun s k sg h => (ih s k all).2 sg h) (fun s k => (ih s k all).1)

/-- one-shot verification of any key argument: exactly the specification -/
theorem ver_spec (P : Prims) (jws : Json) (sig : Option Json) (jwk : Json) (all : Bool) (pay : Bs)
    (hp : payloadOf jws = some pay) :
    ver P jws sig jwk all = specF P jws pay (jdepth jwk) sig jwk all := by
  obtain ⟨h1, h2⟩ := verIoF_spec P jws pay (jdepth jwk) sig jwk all
  simp only [ver, hp, verIo]
  cases hv : verIoF P jws (jdepth jwk) sig jwk all with
  | none => simp [hv, subVal] at h1; simp [h1]
  | some sg =>
    simp only [hv, subVal] at h1
    have := run_V (h2 sg hv) [pay]
    simp only [List.flatten_cons, List.flatten_nil, List.append_nil] at this
    simp only [this, h1]

/-- streaming verification of any key argument: the verdict of `done` is the specification on the concatenated
    feeds, for every chunking -/
theorem ver_stream_spec (P : Prims) (jws : Json) (sig : Option Json) (jwk : Json) (all : Bool) (sg : Stage)
    (hio : verIo P jws sig jwk all = some sg) (cs : List Bs) :
    (run sg cs).2 = specF P jws cs.flatten (jdepth jwk) sig jwk all := by
  obtain ⟨h1, h2⟩ := verIoF_spec P jws cs.flatten (jdepth jwk) sig jwk all
  simp only [verIo] at hio
  rw [run_V (h2 sg hio) cs]
  simp only [hio, subVal] at h1
  exact h1

/-- **F29 stated outright**: a key list nested in a key list does not weaken `all` — if verification with `all`
    succeeds on `[.., inner, ..]` where `inner` is a list of plain keys, every key of `inner` has a signature object
    that passes under it -/
theorem nested_all_demands_every_key (P : Prims) (jws : Json) (f : Nat) (outer inner : List Json) (pay : Bs) (i : Nat)
    (jwk innerJ : Json) (hk : keyList jwk = some outer) (hi : outer[i]? = some innerJ) (hki : keyList innerJ = some inner)
    (hflat : ∀ k ∈ inner, keyList k = none)
    (h : specF P jws pay (f + 1) none jwk true = true) :
    ∀ j, j < inner.length → keyOk P jws none inner[j]! pay = true := by
  simp only [specF, hk, listOk, if_true, Bool.and_eq_true, List.all_eq_true, List.mem_range] at h
  obtain ⟨_, _, hall⟩ := h
  have hlt : i < outer.length := by
    rcases Nat.lt_or_ge i outer.length with h | h
    · exact h
    · simp [List.getElem?_eq_none h] at hi
  have he := hall i hlt
  simp only [elemOk, hi, hki, sigFor] at he
  intro j hj
  cases f with
  | zero =>
    simp only [specF, hki, listOk, if_true, Bool.and_eq_true, List.all_eq_true, List.mem_range] at he
    obtain ⟨_, _, hall2⟩ := he
    have := hall2 j hj
    have hget : inner[j]? = some inner[j] := List.getElem?_eq_getElem hj
    simp only [elemOk, hget, hflat inner[j] (List.getElem_mem hj), sigFor] at this
    simpa [getElem!_pos inner j hj] using this
  | succ f =>
    simp only [specF, hki, listOk, if_true, Bool.and_eq_true, List.all_eq_true, List.mem_range] at he
    obtain ⟨_, _, hall2⟩ := he
    have := hall2 j hj
    have hget : inner[j]? = some inner[j] := List.getElem?_eq_getElem hj
    simp only [elemOk, hget, hflat inner[j] (List.getElem_mem hj), sigFor] at this
    simpa [getElem!_pos inner j hj] using this

/-- the empty key set never verifies -/
theorem empty_keys_fail (P : Prims) (jws : Json) (sig : Option Json) (jwk : Json) (all : Bool)
    (hk : keyList jwk = some []) : ver P jws sig jwk all = false := by
  cases hp : payloadOf jws with
  | none => simp [ver, hp]
  | some pay =>
    have hs : sigSizeOk sig 0 = true ∨ sigSizeOk sig 0 = false := by cases sigSizeOk sig 0 <;> simp
    rcases hs with hs | hs
    · rw [ver_keys P jws sig jwk all [] pay hk (by simp) hp (by simpa using hs)]
      cases all <;> simp
    · simp [ver, hp, verIo, verIoF_list P jws _ sig jwk all [] hk, verKeys, hs]

/-- the empty signature list never verifies -/
theorem empty_signatures_fail (P : Prims) (jws jwk : Json) (pay : Bs)
    (h : jws.get? "signatures" = some (.arr [])) : keyOk P jws none jwk pay = false := by
  simp [keyOk, sigObjs, h]

end Jose.Props.C01
