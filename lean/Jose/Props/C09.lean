import Jose.Own
import Jose.Rc
import Jose.B64
import Jose.Props.C08
import Jose.Props.C14
/-
  C09 — no memory-safety violation and no leak for any JSON input (partial, as stated in DESIGN).

  What is logic is proved here: (1) every decode into a fixed buffer stays within the buffer for
  every input text, and the guards the code relies on bound every size that feeds one; (2) the
  reference-count discipline of the header functions and IO stages is balanced on every path, for
  every JSON type of every member read.  That the compiled C has no other out-of-bounds access,
  use-after-free or leak is a property of the runtime: it is decided by the sanitizer-instrumented
  correspondence run (validation), and said so in the evidence.
-/
namespace Jose.Props.C09
open Jose Jose.Own Jose.B64 Tables

/-! ### (1) fixed buffers -/

/-- the fixed buffers of the library that receive decoded base64url text, with their capacities -/
inductive Site where
  | hmacKey | kwPlain | kwCipher | ecdhesApu | ecdhesApv | ecdhesZ | pbes2Password | pbes2Salt
  | gcmKey (n : Nat) | cbcKey (n : Nat) | iv (n : Nat) | tag (n : Nat) | thumbprint (n : Nat)
  deriving Repr

def Site.cap : Site → Nat
  | .hmacKey | .kwPlain | .ecdhesApu | .ecdhesApv | .ecdhesZ | .pbes2Password | .pbes2Salt => keymax
  | .kwCipher => keymax + 16
  | .gcmKey n | .cbcKey n | .iv n | .tag n | .thumbprint n => n

/-- **No write beyond a fixed buffer, no read beyond the text.**  Whatever JSON value is decoded
    into whichever buffer — any type, any length, any characters — at most `cap` bytes are written
    and no character beyond the text is read; when the text would decode to more, nothing is written
    and the call reports failure -/
theorem fixed_buffers (site : Site) (j : Option Json) :
    (B64.dec j (some site.cap)).written.length ≤ site.cap ∧ (B64.dec j (some site.cap)).oob = false := by
  unfold B64.dec
  split
  · rename_i s
    have := C08.dec_bounds (bytesOfString s) site.cap
    exact ⟨this.1, this.2.1⟩
  · simp

theorem fixed_buffers_refuse (site : Site) (s : String) (need : Nat)
    (h : dlen (bytesOfString s).length = some need) (hbig : site.cap < need) :
    B64.dec (some (.str s)) (some site.cap) = ⟨none, [], false⟩ :=
  (C08.dec_bounds (bytesOfString s) site.cap).2.2 need h hbig

/-- the size query the guards use never under-reports what a decode would write -/
theorem size_query_sound (s : String) (b : List Nat) (h : decode (bytesOfString s) = some b) :
    (B64.dec (some (.str s)) none).ret = some b.length :=
  C08.size_query_dec _ _ h

/-! ### (2) reference counts -/

/-- **Header merging is balanced on every path**: for every JSON type of `protected` (or its
    absence), every outcome of decoding a textual one, presence/absence and success/failure of each
    merge — the caller's reference counts are unchanged and nothing created by the call survives
    it, whether it returns a header or NULL -/
theorem jws_hdr_balanced : ∀ (prot : Option Kind) (load : Load) (hp ho : Bool),
    (hdrScript prot load [(hp, ho)]).balanced = true := by
  intro prot load hp ho
  cases prot with
  | none => cases load <;> cases hp <;> cases ho <;> rfl
  | some k => cases k <;> cases load <;> cases hp <;> cases ho <;> rfl

theorem jwe_hdr_balanced : ∀ (prot : Option Kind) (load : Load) (up uo hp ho : Bool),
    (hdrScript prot load [(up, uo), (hp, ho)]).balanced = true := by
  intro prot load up uo hp ho
  cases prot with
  | none => cases load <;> cases up <;> cases uo <;> cases hp <;> cases ho <;> rfl
  | some k => cases k <;> cases load <;> cases up <;> cases uo <;> cases hp <;> cases ho <;> rfl

/-- a header is returned exactly when `protected` is absent, an object, or text that decodes to an
    object, and no present merge source fails -/
theorem jws_hdr_returns : ∀ (prot : Option Kind) (load : Load) (hp ho : Bool),
    (hdrScript prot load [(hp, ho)]).returned =
      ((prot = none || prot = some .obj || (prot = some .str && load = .obj)) && (!hp || ho)) := by
  intro prot load hp ho
  cases prot with
  | none => cases load <;> cases hp <;> cases ho <;> rfl
  | some k => cases k <;> cases load <;> cases hp <;> cases ho <;> rfl

/-- the defect this replaced (a scope-bound release applied to the borrowed `protected` of a wrong
    type) is exactly an unbalanced script: releasing without the matching incref -/
example : (autoRelease {} .callerRef).balanced = false := by decide

/-- IO chains: building any number of stages over a sink and releasing the head leaves the sink's
    reference count where it was -/
theorem io_next_balanced (sink n : Nat) : sinkAfterFree (sinkAfterBuild sink n) n = sink := by
  cases n <;> simp [sinkAfterBuild, sinkAfterFree]

/-! ### (3) reference counts of an IO chain, operationally (`Jose/Rc.lean`)

  `io_next_balanced` above counts; the theorems below run the cascade.  For a chain of any length,
  with the caller holding a handle on any subset of its stages, releasing handles in **any order**
  never decrements a freed stage (no use-after-free, no double free), keeps every count equal to
  "handles held + one if the stage above is alive", and frees everything once the last handle is gone. -/
open Jose.Rc

/-- the stage above dies: its reference to the chain below is released, cascading exactly as far as
    stages are held by nothing else -/
theorem decHead_parent_dies (hs : List Bool) : decHead (rcOf true hs) = some (rcOf false hs) := by
  induction hs with
  | nil => rfl
  | cons h r ih =>
    cases h
    · simp [rcOf, decHead, ih]
    · simp [rcOf, decHead]

/-- releasing a held handle: the heap ends in exactly the state the specification names -/
theorem decAt_release (pa : Bool) (i : Nat) (hs : List Bool) (h : hs[i]? = some true) :
    decAt i (rcOf pa hs) = some (rcOf pa (hs.set i false)) := by
  induction i generalizing pa hs with
  | zero =>
    cases hs with
    | nil => simp at h
    | cons x r =>
      simp at h; subst h
      cases pa
      · simp [decAt, rcOf, decHead, decHead_parent_dies]
      · simp [decAt, rcOf, decHead]
  | succ i ih =>
    cases hs with
    | nil => simp at h
    | cons x r =>
      simp at h
      simp [decAt, rcOf, ih _ r h]

/-- the order of releases on the handle table alone -/
def relAbs : List Nat → List Bool → Option (List Bool)
  | [], hs => some hs
  | i :: is, hs => if hs[i]? = some true then relAbs is (hs.set i false) else none

/-- **No memory error in any release order, counts always as specified**: the operational heap and
    the handle table agree step for step; the run stops only where the *caller* releases a handle it
    does not hold -/
theorem releaseAll_refines (order : List Nat) (hs : List Bool) :
    releaseAll order (hs, rcOf false hs) = (relAbs order hs).map (fun hs' => (hs', rcOf false hs')) := by
  induction order generalizing hs with
  | nil => rfl
  | cons i is ih =>
    simp only [releaseAll, relAbs]
    split
    · rename_i h
      rw [decAt_release false i hs h]
      exact ih _
    · rfl

/-- once no handle is held, every stage has been freed -/
theorem no_handles_all_freed (pa : Bool) (hs : List Bool) (h : ∀ b ∈ hs, b = false) (hpa : pa = false) :
    ∀ c ∈ rcOf pa hs, c = 0 := by
  subst hpa
  induction hs with
  | nil => simp [rcOf]
  | cons x r ih =>
    have hx : x = false := h x (by simp)
    subst hx
    intro c hc
    simp [rcOf] at hc
    rcases hc with rfl | hc
    · rfl
    · exact ih (fun b hb => h b (by simp [hb])) c hc

/-- **No leak**: whatever order the handles of a freshly built chain are released in, if the run
    ends with no handle held then every reference count is zero -/
theorem built_released_freed (n : Nat) (order : List Nat) (hs' : List Bool) (rc' : List Nat)
    (h : releaseAll order (built n) = some (hs', rc')) (hall : ∀ b ∈ hs', b = false) :
    ∀ c ∈ rc', c = 0 := by
  unfold built at h
  rw [releaseAll_refines] at h
  cases hr : relAbs order (List.replicate n true) with
  | none => simp [hr] at h
  | some x =>
    simp [hr] at h
    obtain ⟨h1, h2⟩ := h
    subst h1; subst h2
    exact no_handles_all_freed false _ hall rfl

/-- the three handles of `hsh()` (`_hsh`, `enc`, `buf`): scope exit releases them in reverse
    declaration order, the head last; every other order is as good -/
example : releaseAll [2, 1, 0] (built 3) = some ([false, false, false], [0, 0, 0]) ∧
    releaseAll [0, 1, 2] (built 3) = some ([false, false, false], [0, 0, 0]) ∧
    releaseAll [1, 0, 2] (built 3) = some ([false, false, false], [0, 0, 0]) ∧
    releaseAll [0] (built 3) = some ([false, true, true], [0, 1, 2]) := by decide

/-- a decref without the matching reference (the shape of the defect repaired in `jose_jws_hdr`, and
    of a stage that forgets `jose_io_incref(next)`) is reported by the heap: the sink is freed twice -/
example : decAt 1 [1, 1] = some [1, 0] ∧ (decAt 1 [1, 1]).bind (decAt 0) = none := by decide

/-- on the handle table: releasing distinct held handles always succeeds, clears exactly those -/
theorem relAbs_nodup (order : List Nat) (hs : List Bool) (hnd : order.Nodup)
    (hheld : ∀ i ∈ order, hs[i]? = some true) :
    ∃ hs', relAbs order hs = some hs' ∧ hs'.length = hs.length ∧
      (∀ j, j ∈ order → hs'[j]? = some false) ∧ (∀ j, j ∉ order → hs'[j]? = hs[j]?) := by
  induction order generalizing hs with
  | nil => exact ⟨hs, rfl, rfl, by simp, by simp⟩
  | cons i is ih =>
    have hi : hs[i]? = some true := hheld i (by simp)
    have hnd' := List.nodup_cons.mp hnd
    have hheld' : ∀ j ∈ is, (hs.set i false)[j]? = some true := by
      intro j hj
      have hne : i ≠ j := fun e => hnd'.1 (e ▸ hj)
      rw [List.getElem?_set_ne hne]
      exact hheld j (by simp [hj])
    obtain ⟨hs', h1, h2, h3, h4⟩ := ih (hs.set i false) hnd'.2 hheld'
    refine ⟨hs', by simp [relAbs, hi, h1], by simpa using h2, ?_, ?_⟩
    · intro j hj
      rcases List.mem_cons.mp hj with rfl | hj
      · rw [h4 j hnd'.1]
        have hlt : j < hs.length := by
          rcases Nat.lt_or_ge j hs.length with h | h
          · exact h
          · rw [List.getElem?_eq_none h] at hi; cases hi
        simp [List.getElem?_set_self hlt]
      · exact h3 j hj
    · intro j hj
      have hji : i ≠ j := fun e => hj (by simp [e])
      have hjs : j ∉ is := fun e => hj (by simp [e])
      rw [h4 j hjs, List.getElem?_set_ne hji]

/-- **Every release order of all the handles frees the whole chain without a memory error**: for a
    chain of any length `n` and any permutation of its `n` handles -/
theorem any_order_frees_all (n : Nat) (order : List Nat) (hp : order.Perm (List.range n)) :
    ∃ hs' rc', releaseAll order (built n) = some (hs', rc') ∧ (∀ b ∈ hs', b = false) ∧ (∀ c ∈ rc', c = 0) := by
  have hnd : order.Nodup := (List.Perm.nodup_iff hp).mpr List.nodup_range
  have hmem : ∀ i, i ∈ order ↔ i < n := fun i => by rw [List.Perm.mem_iff hp, List.mem_range]
  have hheld : ∀ i ∈ order, (List.replicate n true)[i]? = some true := by
    intro i hi
    have : i < n := (hmem i).mp hi
    simp [this]
  obtain ⟨hs', h1, h2, h3, _⟩ := relAbs_nodup order _ hnd hheld
  have hall : ∀ b ∈ hs', b = false := by
    intro b hb
    obtain ⟨j, hj⟩ := List.mem_iff_getElem?.mp hb
    have hlt : j < n := by
      rcases Nat.lt_or_ge j hs'.length with h | h
      · rw [h2] at h; simpa using h
      · rw [List.getElem?_eq_none h] at hj; cases hj
    have := h3 j ((hmem j).mpr hlt)
    rw [this] at hj
    exact (Option.some.inj hj).symm
  have hrun : releaseAll order (built n) = some (hs', rcOf false hs') := by
    unfold built
    rw [releaseAll_refines, h1]
    rfl
  exact ⟨hs', _, hrun, hall, no_handles_all_freed false hs' hall rfl⟩

end Jose.Props.C09
