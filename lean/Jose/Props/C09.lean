import Jose.Own
import Jose.B64
import Jose.Props.C08
import Jose.Props.C14
/-
  C09 — no memory-safety violation and no leak for any JSON input (partial, as stated in DESIGN).

  What is logic is proved here: (1) every decode into a fixed buffer stays within the buffer for
  every input text, and the guards the code relies on bound every size that feeds one; (2) the
  reference-count discipline of the header functions and IO stages is balanced on every path, for
  every JSON type of every member read.  That the compiled C has no other out-of-bounds access,
  use-after-free or leak is a property of the runtime: it is decided by the sanitizer-instrumented
  correspondence run (validation), and said so in the evidence.
-/
namespace Jose.Props.C09
open Jose Jose.Own Jose.B64 Tables

/-! ### (1) fixed buffers -/

/-- the fixed buffers of the library that receive decoded base64url text, with their capacities -/
inductive Site where
  | hmacKey | kwPlain | kwCipher | ecdhesApu | ecdhesApv | ecdhesZ | pbes2Password | pbes2Salt
  | gcmKey (n : Nat) | cbcKey (n : Nat) | iv (n : Nat) | tag (n : Nat) | thumbprint (n : Nat)
  deriving Repr

def Site.cap : Site → Nat
  | .hmacKey | .kwPlain | .ecdhesApu | .ecdhesApv | .ecdhesZ | .pbes2Password | .pbes2Salt => keymax
  | .kwCipher => keymax + 16
  | .gcmKey n | .cbcKey n | .iv n | .tag n | .thumbprint n => n

/-- **No write beyond a fixed buffer, no read beyond the text.**  Whatever JSON value is decoded
    into whichever buffer — any type, any length, any characters — at most `cap` bytes are written
    and no character beyond the text is read; when the text would decode to more, nothing is written
    and the call reports failure -/
theorem fixed_buffers (site : Site) (j : Option Json) :
    (B64.dec j (some site.cap)).written.length ≤ site.cap ∧ (B64.dec j (some site.cap)).oob = false := by
  unfold B64.dec
  split
  · rename_i s
    have := C08.dec_bounds (bytesOfString s) site.cap
    exact ⟨this.1, this.2.1⟩
  · simp

theorem fixed_buffers_refuse (site : Site) (s : String) (need : Nat)
    (h : dlen (bytesOfString s).length = some need) (hbig : site.cap < need) :
    B64.dec (some (.str s)) (some site.cap) = ⟨none, [], false⟩ :=
  (C08.dec_bounds (bytesOfString s) site.cap).2.2 need h hbig

/-- the size query the guards use never under-reports what a decode would write -/
theorem size_query_sound (s : String) (b : List Nat) (h : decode (bytesOfString s) = some b) :
    (B64.dec (some (.str s)) none).ret = some b.length :=
  C08.size_query_dec _ _ h

/-! ### (2) reference counts -/

/-- **Header merging is balanced on every path**: for every JSON type of `protected` (or its
    absence), every outcome of decoding a textual one, presence/absence and success/failure of each
    merge — the caller's reference counts are unchanged and nothing created by the call survives
    it, whether it returns a header or NULL -/
theorem jws_hdr_balanced : ∀ (prot : Option Kind) (load : Load) (hp ho : Bool),
    (hdrScript prot load [(hp, ho)]).balanced = true := by
  intro prot load hp ho
  cases prot with
  | none => cases load <;> cases hp <;> cases ho <;> rfl
  | some k => cases k <;> cases load <;> cases hp <;> cases ho <;> rfl

theorem jwe_hdr_balanced : ∀ (prot : Option Kind) (load : Load) (up uo hp ho : Bool),
    (hdrScript prot load [(up, uo), (hp, ho)]).balanced = true := by
  intro prot load up uo hp ho
  cases prot with
  | none => cases load <;> cases up <;> cases uo <;> cases hp <;> cases ho <;> rfl
  | some k => cases k <;> cases load <;> cases up <;> cases uo <;> cases hp <;> cases ho <;> rfl

/-- a header is returned exactly when `protected` is absent, an object, or text that decodes to an
    object, and no present merge source fails -/
theorem jws_hdr_returns : ∀ (prot : Option Kind) (load : Load) (hp ho : Bool),
    (hdrScript prot load [(hp, ho)]).returned =
      ((prot = none || prot = some .obj || (prot = some .str && load = .obj)) && (!hp || ho)) := by
  intro prot load hp ho
  cases prot with
  | none => cases load <;> cases hp <;> cases ho <;> rfl
  | some k => cases k <;> cases load <;> cases hp <;> cases ho <;> rfl

/-- the defect this replaced (a scope-bound release applied to the borrowed `protected` of a wrong
    type) is exactly an unbalanced script: releasing without the matching incref -/
example : (autoRelease {} .callerRef).balanced = false := by decide

/-- IO chains: building any number of stages over a sink and releasing the head leaves the sink's
    reference count where it was -/
theorem io_next_balanced (sink n : Nat) : sinkAfterFree (sinkAfterBuild sink n) n = sink := by
  cases n <;> simp [sinkAfterBuild, sinkAfterFree]

end Jose.Props.C09
