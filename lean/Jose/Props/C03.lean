import Jose.Jws
namespace Jose.Props.C03
theorem placeholder : (1 : Nat) = 1 := rfl
end Jose.Props.C03
