import Jose.Jws
import Jose.Lemmas.ParseDump
import Jose.Lemmas.B64
import Jose.Lemmas.Json
import Jose.Props.C01
/-
  C03 — JWS sign/verify round trip; the signing input; the algorithm recorded.
  Statements about `Jws.sigEntry` / `Jws.sig` (jose_jws_sig_io, find_alg,
  encode_protected, the `sign.sig` hooks) and `Jws.verOne`.
-/
set_option linter.unusedSimpArgs false
set_option linter.unusedVariables false

namespace Jose.Props.C03
open Jose Jose.Jws Jose.IO Jose.Json Jose.Entity Jose.B64 Tables
open Jose.Props.C01

/-! ### hypotheses on the primitives (laws, not axioms) -/

/-- outputs of the primitives are byte strings of the expected sizes -/
structure WfPrims (P : Prims) : Prop where
  hmacBytes : ∀ h k m, Bytes (P.hmac h k m)
  hmacLen : ∀ h k m, h ∈ ["S256", "S384", "S512"] → (P.hmac h k m).length = hashLen h
  ecBytes : ∀ crv d dig rnd r s, P.ecdsaSign crv d dig rnd = some (r, s) → Bytes r ∧ Bytes s
  rsaBytes : ∀ pss h k m salt sg, P.rsaSign pss h k m salt = some sg → Bytes sg

/-- ECDSA correctness for one key pair: what is signed verifies, r and s have the curve's width -/
def EcGood (P : Prims) (crv : String) (x y d : Bs) : Prop :=
  ∀ dig rnd r s, P.ecdsaSign crv d dig rnd = some (r, s) →
    (∀ len, crvLen crv = some len → r.length = len ∧ s.length = len) ∧ P.ecdsaVerify crv x y dig r s = true

/-- RSASSA correctness for one key -/
def RsaGood (P : Prims) (k : RsaPriv) : Prop :=
  ∀ pss h m salt sg, P.rsaSign pss h k m salt = some sg → P.rsaVerify pss h k.n k.e m sg = true

/-- the JSON layer's law for one protected header: what is dumped, encoded, decoded and
    parsed again is the same object (checked on jansson by the b64.enc_dump/dec_load operations) -/
def LoadDump (p : List (String × Json)) : Prop :=
  B64.decLoad (some (B64.enc (B64.bytesOfString (Json.dump (.obj p))))) = some (.obj p)

/-! ### what depends on which member -/

theorem protectedObj_congr (a b : Json) (h : a.get? "protected" = b.get? "protected") :
    protectedObj a = protectedObj b := by simp only [protectedObj, h]

theorem jwsHdr_congr (a b : Json) (hp : a.get? "protected" = b.get? "protected")
    (hh : a.get? "header" = b.get? "header") : jwsHdr a = jwsHdr b := by
  simp only [jwsHdr, protectedObj_congr a b hp, hh]

theorem prefixOf_set_other (kvs : List (String × Json)) (k : String) (v : Json) (hk : k ≠ "protected") :
    prefixOf (.obj (setKV k v kvs)) = prefixOf (.obj kvs) := by
  simp only [prefixOf, lookup_setKV_other k "protected" v kvs (Ne.symm hk)]

/-- the decoded signature member of an object that was just given `enc sv` -/
theorem sigBytes_set (kvs : List (String × Json)) (sv : Bs) (hb : Bytes sv) :
    sigBytes (.obj (setKV "signature" (B64.enc sv) kvs)) = some sv := by
  simp only [sigBytes, get?, lookup_setKV_same, bytesOfJson]
  have := dec_enc_json sv hb
  simp only [B64.enc] at this ⊢
  exact this

/-! ### find_alg: the algorithm chosen is the one the result names -/

theorem findSign_name (halg : String) (a : AlgRec) (h : findSign halg = some a) : a.name = halg := by
  simp only [findSign] at h
  have := List.find?_some h
  simpa using this

/-- the merged header's `alg`, when `getStr?` finds a string there -/
theorem optStr_of_getStr (hdr : Json) (n : String) (h : hdr.getStr? "alg" = some n) : optStr hdr "alg" = some (some n) := by
  cases hdr with
  | obj hk =>
    simp only [getStr?, get?] at h
    cases hl : lookup "alg" hk with
    | none => simp [hl] at h
    | some v =>
      cases v <;> simp [hl, strVal?] at h
      subst h
      simp [optStr, hl]
  | _ => simp [getStr?, get?] at h

/-- recording an algorithm puts it where the merged header finds it first -/
theorem recordAlg_spec (s s' : Json) (name : String) (hdr : Json) (hh : jwsHdr s = some hdr)
    (h : recordAlg s name = some s') :
    (∃ hdr1, jwsHdr s' = some hdr1 ∧ optStr hdr1 "alg" = some (some name)) ∧
    s'.get? "header" = s.get? "header" ∧ (∀ t, s.get? "protected" ≠ some (.str t)) ∧ (∃ kvs1, s' = .obj kvs1) := by
  cases s with
  | obj kvs =>
    simp only [recordAlg] at h
    cases hp : lookup "protected" kvs with
    | none =>
      simp only [hp, Option.some.injEq] at h
      subst h
      refine ⟨?_, by simp [get?, lookup_setKV_other "protected" "header" _ kvs (by decide)], by simp [get?, hp], ⟨_, rfl⟩⟩
      simp only [jwsHdr, protectedObj, get?, lookup_setKV_same]
      rw [lookup_setKV_other "protected" "header" _ kvs (by decide)]
      simp only [jwsHdr, protectedObj, get?, hp] at hh
      cases hhd : lookup "header" kvs with
      | none => exact ⟨_, rfl, by simp [optStr, lookup]⟩
      | some hv =>
        cases hv with
        | obj hk' => exact ⟨_, rfl, by simp [optStr, lookup_updateMissingKV, lookup]⟩
        | _ => simp [hhd] at hh
    | some pv =>
      cases pv with
      | obj p =>
        simp only [hp, Option.some.injEq] at h
        subst h
        refine ⟨?_, by simp [get?, lookup_setKV_other "protected" "header" _ kvs (by decide)], by simp [get?, hp], ⟨_, rfl⟩⟩
        simp only [jwsHdr, protectedObj, get?, lookup_setKV_same]
        rw [lookup_setKV_other "protected" "header" _ kvs (by decide)]
        simp only [jwsHdr, protectedObj, get?, hp] at hh
        cases hhd : lookup "header" kvs with
        | none => exact ⟨_, rfl, by simp [optStr, lookup_setKV_same]⟩
        | some hv =>
          cases hv with
          | obj hk' => exact ⟨_, rfl, by simp [optStr, lookup_updateMissingKV, lookup_setKV_same]⟩
          | _ => simp [hhd] at hh
      | _ => simp [hp] at h
  | _ => simp [recordAlg] at h

/-- C03/C15: after `find_alg` the merged header of the signature object names exactly
    the algorithm that will be applied (taken from the header if it names one, otherwise
    suggested from the key and then *recorded in the protected header*), the key declares
    no other algorithm and is permitted to sign; an already-encoded protected header is
    left alone -/
theorem findAlgSig_spec (s jwk : Json) (a : AlgRec) (s1 : Json) (hobj : s.isObject = true)
    (h : findAlgSig s jwk = some (a, s1)) :
    findSign a.name = some a ∧
    (∃ hdr1, jwsHdr s1 = some hdr1 ∧ optStr hdr1 "alg" = some (some a.name)) ∧
    (∃ kalg, optStr jwk "alg" = some kalg ∧ keyAlgOk kalg a.name = true) ∧
    Jwk.prm (some jwk) false a.p1 = true ∧
    s1.get? "header" = s.get? "header" ∧
    (∀ t, s.get? "protected" = some (.str t) → s1 = s) ∧
    (∃ kvs1, s1 = .obj kvs1) := by
  simp only [findAlgSig, Option.bind_eq_some_iff] at h
  obtain ⟨hdr, hh, r, hr, kalg, hk, hrest⟩ := h
  obtain ⟨halg, a', s'⟩ := r
  split at hrest
  · simp at hrest
  · rename_i hka
    split at hrest
    · simp at hrest
    · rename_i hprm
      simp only [Option.some.injEq, Prod.mk.injEq] at hrest
      obtain ⟨rfl, rfl⟩ := hrest
      have hka' : keyAlgOk kalg halg = true := by simpa using hka
      have hprm' : Jwk.prm (some jwk) false a'.p1 = true := by simpa using hprm
      simp only [chooseAlg] at hr
      cases hga : hdr.getStr? "alg" with
      | some ha =>
        simp only [hga, Option.map_eq_some_iff, Prod.mk.injEq] at hr
        obtain ⟨a2, hf, rfl, rfl, rfl⟩ := hr
        have hn := findSign_name ha a2 hf
        cases s with
        | obj kvs =>
          exact ⟨by rw [hn]; exact hf, ⟨hdr, hh, by rw [hn]; exact optStr_of_getStr hdr ha hga⟩,
            ⟨kalg, hk, by rw [hn]; exact hka'⟩, hprm', rfl, fun _ _ => rfl, ⟨kvs, rfl⟩⟩
        | _ => simp [Json.isObject] at hobj
      | none =>
        simp only [hga, Option.bind_eq_some_iff, Option.map_eq_some_iff, Prod.mk.injEq] at hr
        obtain ⟨sname, hs, a2, hf, s2, hrec, rfl, rfl, rfl⟩ := hr
        have hn := findSign_name sname a2 hf
        obtain ⟨g1, g2, g3, g4⟩ := recordAlg_spec s s2 a2.name hdr hh hrec
        exact ⟨by rw [hn]; exact hf, g1, ⟨kalg, hk, by rw [hn]; exact hka'⟩, hprm', g2,
          fun t ht => absurd ht (g3 t), g4⟩

/-! ### the signing input and what is stored -/

/-- C03 (signing input, RFC 7515 §5.1).  The bytes handed to the signing primitive are
    exactly ASCII(protected') '.' payload, where protected' is the `protected` member of
    the entry that is stored; the stored signature is the base64url of the primitive's output. -/
theorem sigEntry_spec (P : Prims) (s jwk : Json) (pay rnd : Bs) (e : Json)
    (h : sigEntryObj P s jwk pay rnd = some e) :
    s.isObject = true ∧ ∃ a s1 kvs2 f pre sv,
      findAlgSig s jwk = some (a, s1) ∧
      encodeProtected s1 = some (.obj kvs2) ∧
      sigLeaf P a.name jwk = some f ∧ prefixOf (.obj kvs2) = some pre ∧
      f (pre ++ pay) rnd = some sv ∧
      e = .obj (setKV "signature" (B64.enc sv) kvs2) ∧ prefixOf e = some pre := by
  simp only [sigEntryObj] at h
  split at h
  · simp at h
  · rename_i hobj
    simp only [Option.bind_eq_some_iff] at h
    obtain ⟨r, hf, s2, he, f, hl, pre, hp, sv, hsv, hfin⟩ := h
    obtain ⟨a, s1⟩ := r
    cases s2 with
    | obj kvs2 =>
      simp only [Option.some.injEq] at hfin
      subst hfin
      refine ⟨by simpa using hobj, a, s1, kvs2, f, pre, sv, hf, he, hl, hp, hsv, rfl, ?_⟩
      rw [prefixOf_set_other kvs2 "signature" _ (by decide)]; exact hp
    | _ => simp at hfin

/-- C03 (protected verbatim): an already-encoded protected header is used and stored as it is -/
theorem protected_verbatim (P : Prims) (kvs : List (String × Json)) (t : String) (jwk : Json) (pay rnd : Bs) (e : Json)
    (hp : lookup "protected" kvs = some (.str t))
    (h : sigEntry P (some (.obj kvs)) jwk pay rnd = some e) :
    e.get? "protected" = some (.str t) ∧ prefixOf e = some (B64.bytesOfString t ++ [46]) := by
  obtain ⟨_, a, s1, kvs2, f, pre, sv, h1, h2, h3, h4, h5, rfl, h7⟩ := sigEntry_spec P _ jwk pay rnd e h
  obtain ⟨_, _, _, _, _, hsame, _⟩ := findAlgSig_spec (.obj kvs) jwk a s1 rfl h1
  have hs1 : s1 = .obj kvs := hsame t (by simp [get?, hp])
  subst hs1
  simp only [encodeProtected, hp, Option.some.injEq] at h2
  have : kvs2 = kvs := by injection h2 with h2; exact h2.symm
  subst this
  refine ⟨by simp [get?, lookup_setKV_other "signature" "protected" _ kvs2 (by decide), hp], ?_⟩
  rw [prefixOf_set_other kvs2 "signature" _ (by decide)]
  simp [prefixOf, hp]

/-! ### round trip -/

theorem family_hmac_hash (n h : String) (hf : family n = some (.hmac h)) : h ∈ ["S256", "S384", "S512"] := by
  simp only [family] at hf
  split at hf <;> simp_all

theorem findSign_mem (n : String) (a : AlgRec) (h : findSign n = some a) : a ∈ signAlgs := by
  simp only [findSign] at h
  exact List.mem_of_find?_eq_some h

/-- the merged header is not affected by encoding the protected header (given the JSON
    layer's load∘dump law for that header) nor by setting the signature -/
theorem jwsHdr_after_encode (s1 : Json) (kvs2 : List (String × Json)) (v : Json)
    (he : encodeProtected s1 = some (.obj kvs2))
    (hload : ∀ p, s1.get? "protected" = some (.obj p) → LoadDump p) :
    jwsHdr (.obj (setKV "signature" v kvs2)) = jwsHdr s1 := by
  have h1 : jwsHdr (.obj (setKV "signature" v kvs2)) = jwsHdr (.obj kvs2) := by
    apply jwsHdr_congr
    · simp [get?, lookup_setKV_other "signature" "protected" v kvs2 (by decide)]
    · simp [get?, lookup_setKV_other "signature" "header" v kvs2 (by decide)]
  rw [h1]
  cases s1 with
  | obj kvs1 =>
    simp only [encodeProtected] at he
    cases hp : lookup "protected" kvs1 with
    | none => simp only [hp, Option.some.injEq] at he; injection he with he; subst he; rfl
    | some pv =>
      cases pv with
      | str t => simp only [hp, Option.some.injEq] at he; injection he with he; subst he; rfl
      | obj p =>
        simp only [hp, Option.some.injEq] at he
        injection he with he
        subst he
        have hl := hload p (by simp [get?, hp])
        simp only [LoadDump, B64.enc] at hl
        simp only [jwsHdr, protectedObj, get?, lookup_setKV_same, B64.enc, hl, hp,
          lookup_setKV_other "protected" "header" _ kvs1 (by decide)]
      | _ => simp [hp] at he
  | _ => simp [encodeProtected] at he

/-- **C03 (round trip, core).**  Whatever `jose_jws_sig` appends verifies, as a signature
    object over the same payload under the same key — for every algorithm family, every
    template form and every source of the algorithm — provided the key is also
    permitted to verify, the primitives are correct for this key (`EcGood`/`RsaGood`; HMAC
    needs no law) and the JSON layer re-reads the protected header it wrote. -/
theorem sign_then_verify (P : Prims) (hwf : WfPrims P) (s jwk : Json) (pay rnd : Bs) (e : Json)
    (h : sigEntryObj P s jwk pay rnd = some e)
    (hmay : ∀ a ∈ signAlgs, Jwk.prm (some jwk) false a.p2 = true)
    (hload : ∀ a s1 p, findAlgSig s jwk = some (a, s1) → s1.get? "protected" = some (.obj p) → LoadDump p)
    (hec : ∀ key d, ecKeyOf P jwk = some key → key.d = some d → EcGood P key.crv key.x key.y d)
    (hrsa : ∀ key, rsaSigKey jwk = some key → RsaGood P key.priv) :
    pairOk P e jwk pay = true := by
  obtain ⟨hobj, a, s1, kvs2, f, pre, sv, h1, h2, h3, h4, h5, rfl, h7⟩ := sigEntry_spec P s jwk pay rnd e h
  obtain ⟨g1, ⟨hdr1, g2, g3⟩, ⟨kalg, g4, g5⟩, g6, _, _, _⟩ := findAlgSig_spec s jwk a s1 hobj h1
  have hhdr := jwsHdr_after_encode s1 kvs2 (B64.enc sv) h2 (fun p hp => hload a s1 p h1 hp)
  have hsel : verSelect (some a.name) kalg = some a.name := by
    cases kalg with
    | none => rfl
    | some k => simp only [keyAlgOk, beq_iff_eq] at g5; subst g5; simp [verSelect]
  -- the verification leaf accepts what the signing leaf produced
  have hleaf : ∃ f', verLeaf P a.name (.obj (setKV "signature" (B64.enc sv) kvs2)) jwk = some f' ∧
      f' (pre ++ pay) = true := by
    simp only [sigLeaf] at h3
    simp only [verLeaf]
    cases hfam : family a.name with
    | none => simp [hfam] at h3
    | some fam =>
      cases fam with
      | hmac hs =>
        simp only [hfam, Option.map_eq_some_iff] at h3
        obtain ⟨k, hk, rfl⟩ := h3
        simp only [Option.some.injEq] at h5
        subst h5
        simp only [hmacVer, hk, Option.map_some]
        refine ⟨_, rfl, ?_⟩
        simp only [sigBytes_set kvs2 _ (hwf.hmacBytes hs k (pre ++ pay)),
          hwf.hmacLen hs k (pre ++ pay) (family_hmac_hash a.name hs hfam), beq_self_eq_true, Bool.and_self]
      | ecdsa crv hs =>
        simp only [hfam] at h3
        cases hcrv : onAlgCurve crv jwk with
        | false => simp [hcrv] at h3
        | true =>
        simp only [hcrv, Bool.not_true, Bool.false_eq_true, if_false] at h3
        cases hh : P.hash hs with
        | none => simp [hh] at h3
        | some hfun =>
          cases hk : ecKeyOf P jwk with
          | none => simp [hh, hk] at h3
          | some key =>
            simp only [hh, hk, Option.some.injEq] at h3
            subst h3
            cases hd : key.d with
            | none => simp [hd] at h5
            | some d =>
              simp only [hd, Option.map_eq_some_iff] at h5
              obtain ⟨⟨r, sg⟩, hsign, rfl⟩ := h5
              obtain ⟨hlen, hver⟩ := hec key d hk hd (hfun (pre ++ pay)) rnd r sg hsign
              obtain ⟨_, hcl, _⟩ := ecKey_valid P jwk key hk
              obtain ⟨hr, hsl⟩ := hlen key.len hcl
              obtain ⟨hbr, hbs⟩ := hwf.ecBytes key.crv d _ rnd r sg hsign
              have hb : Bytes (r ++ sg) := by
                intro x hx
                rcases List.mem_append.mp hx with hx | hx
                · exact hbr x hx
                · exact hbs x hx
              simp only [ecdsaVer, hcrv, Bool.not_true, Bool.false_eq_true, if_false, hh, hk, Option.bind_some, Option.map_some]
              refine ⟨_, rfl, ?_⟩
              simp only [sigBytes_set kvs2 _ hb, List.length_append, hr, hsl]
              have h2l : key.len + key.len = 2 * key.len := by omega
              simp only [h2l, beq_self_eq_true, Bool.true_and]
              rw [← hr, List.take_left', List.drop_left'] <;> first | rfl | exact hver
      | rsa pss hs =>
        simp only [hfam, Option.map_eq_some_iff] at h3
        obtain ⟨key, hk, rfl⟩ := h3
        cases hd : key.hasPriv with
        | false => simp [hd] at h5
        | true =>
          simp only [hd, if_true] at h5
          have hver := hrsa key hk pss hs (pre ++ pay) rnd sv h5
          simp only [RsaKey.priv] at hver
          simp only [rsaVer, hk, Option.map_some]
          refine ⟨_, rfl, ?_⟩
          simp only [sigBytes_set kvs2 _ (hwf.rsaBytes pss hs key.priv _ rnd sv h5), hver]
  obtain ⟨f', hf', hok⟩ := hleaf
  have hprm := hmay a (findSign_mem a.name a g1)
  simp only [pairOk, verOne, Json.isObject, Bool.not_true, Bool.false_eq_true, if_false, g4, hhdr, g2, g3, hsel, g1,
    hprm, hf', h7, Option.bind_some, leafStage, V, hok, if_true, Option.isSome_some]


/-! ### the JSON-layer hypothesis discharged

  `LoadDump p` ("decoding and parsing the encoded dump of `p` gives `p` back") was a hypothesis of the round trip.
  `Jose/Lemmas/ParseDump.lean` proves it — `parse ∘ dump = id` on the model of jansson's reader and writer, UTF-8
  and base64url included — for every object made of null, booleans, 64-bit integers, strings the dumper writes
  without escapes, arrays, and objects in sorted key order (`Json.Plain`). -/

section
open Jose.B64 Jose.Props.C01
/-- **The JSON layer re-reads what it wrote** — no longer a hypothesis for headers made of null, booleans,
    64-bit integers, strings the dumper writes without escapes, arrays, and objects whose members are in
    sorted key order: `jose_b64_dec_load(jose_b64_enc_dump(p)) = p`. -/
theorem loadDump_of_plain (p : List (String × Json)) (hp : Plain (.obj p)) : LoadDump p := by
  unfold LoadDump
  have hb := bytesOfString_bytes (Json.dump (.obj p))
  have hdec := dec_enc_json (bytesOfString (Json.dump (.obj p))) hb
  simp only [decLoad]
  cases he : B64.enc (bytesOfString (Json.dump (.obj p))) with
  | str s =>
    simp only [he] at hdec
    simp only [hdec, loadBytes_bytesOfString]
    exact loadString_dump { decodeAny := true } (.obj p) hp (Or.inl rfl)
  | _ => simp [B64.enc] at he

instance : DecidablePred PlainChar := fun c => by unfold PlainChar; infer_instance
instance (s : String) : Decidable (plainStr s) := by unfold plainStr; infer_instance

/-- every registered algorithm name is made of characters the dumper writes as themselves (table fact,
    re-checked against the regenerated registry) -/
theorem alg_names_plain : ∀ a ∈ algs, plainStr a.name := by decide

/-- **C03 (round trip) without the JSON-layer hypothesis**: as `sign_then_verify`, for signature objects whose
    protected header (after the algorithm was recorded) is plain in the sense of `Json.Plain` -/
theorem sign_then_verify_plain (P : Prims) (hwf : WfPrims P) (s jwk : Json) (pay rnd : Bs) (e : Json)
    (h : sigEntryObj P s jwk pay rnd = some e)
    (hmay : ∀ a ∈ signAlgs, Jwk.prm (some jwk) false a.p2 = true)
    (hplain : ∀ a s1 p, findAlgSig s jwk = some (a, s1) → s1.get? "protected" = some (.obj p) → Plain (.obj p))
    (hec : ∀ key d, ecKeyOf P jwk = some key → key.d = some d → EcGood P key.crv key.x key.y d)
    (hrsa : ∀ key, rsaSigKey jwk = some key → RsaGood P key.priv) :
    pairOk P e jwk pay = true :=
  sign_then_verify P hwf s jwk pay rnd e h hmay (fun a s1 p h1 h2 => loadDump_of_plain p (hplain a s1 p h1 h2)) hec hrsa

/-- a template without a protected header: after `find_alg` it still has none (the header named the
    algorithm) or exactly `{"alg": <the algorithm applied>}` (it was inferred and recorded) -/
theorem findAlgSig_no_protected (kvs : List (String × Json)) (jwk : Json) (a : AlgRec) (s1 : Json)
    (hnp : lookup "protected" kvs = none) (h : findAlgSig (.obj kvs) jwk = some (a, s1)) :
    s1.get? "protected" = none ∨ s1.get? "protected" = some (.obj [("alg", .str a.name)]) := by
  simp only [findAlgSig, Option.bind_eq_some_iff] at h
  obtain ⟨hdr, hh, r, hr, kalg, hk, hrest⟩ := h
  obtain ⟨halg, a', s'⟩ := r
  split at hrest
  · simp at hrest
  · split at hrest
    · simp at hrest
    · simp only [Option.some.injEq, Prod.mk.injEq] at hrest
      obtain ⟨rfl, rfl⟩ := hrest
      simp only [chooseAlg] at hr
      cases hga : hdr.getStr? "alg" with
      | some ha =>
        simp only [hga, Option.map_eq_some_iff, Prod.mk.injEq] at hr
        obtain ⟨a2, _, _, _, rfl⟩ := hr
        exact Or.inl (by simp [get?, hnp])
      | none =>
        simp only [hga, Option.bind_eq_some_iff, Option.map_eq_some_iff, Prod.mk.injEq] at hr
        obtain ⟨sname, _, a2, _, s2, hrec, _, rfl, rfl⟩ := hr
        simp only [recordAlg, hnp, Option.some.injEq] at hrec
        subst hrec
        exact Or.inr (by simp [get?, lookup_setKV_same])

/-- **C03 (round trip), fully discharged for templates without a protected header** (none at all, `{}`, or only
    an unprotected `header`): whatever `jose_jws_sig` appends verifies under the same key — no hypothesis about
    the JSON layer is left; the algorithm may be given in the unprotected header, by the key, or be inferred. -/
theorem sign_then_verify_no_protected (P : Prims) (hwf : WfPrims P) (kvs : List (String × Json)) (jwk : Json) (pay rnd : Bs) (e : Json)
    (hnp : lookup "protected" kvs = none)
    (h : sigEntryObj P (.obj kvs) jwk pay rnd = some e)
    (hmay : ∀ a ∈ signAlgs, Jwk.prm (some jwk) false a.p2 = true)
    (hec : ∀ key d, ecKeyOf P jwk = some key → key.d = some d → EcGood P key.crv key.x key.y d)
    (hrsa : ∀ key, rsaSigKey jwk = some key → RsaGood P key.priv) :
    pairOk P e jwk pay = true := by
  refine sign_then_verify_plain P hwf (.obj kvs) jwk pay rnd e h hmay ?_ hec hrsa
  intro a s1 p h1 h2
  rcases findAlgSig_no_protected kvs jwk a s1 hnp h1 with hn | hs
  · rw [hn] at h2; cases h2
  · rw [hs] at h2
    injection h2 with h2; injection h2 with h2; subst h2
    have hmem : a ∈ algs := by
      obtain ⟨g1, _⟩ := findAlgSig_spec (.obj kvs) jwk a s1 rfl h1
      exact (List.mem_filter.mp (findSign_mem a.name a g1)).1
    refine ⟨⟨by decide, alg_names_plain a hmem, trivial⟩, ?_⟩
    simp [SortedKeys]
end

end Jose.Props.C03
