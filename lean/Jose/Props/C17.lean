import Jose.Cfg
import Jose.Grid.C17
import Jose.Jws
import Jose.Jwe
/-
  C17 — no hidden state: configuration contexts are isolated cells.

  Part (a) of the property is proved here for every history of context operations: a context's
  next state and everything observed through it depend only on that context's own state and the
  operation addressed to it.  Part (c)'s logical premise — the library has no writable static
  storage beyond its load-time registries — is a fact about the table regenerated from the
  object files on every run.  What Lean cannot exhibit (data races in the compiled code,
  arguments modified through pointers) is decided by the instrumented correspondence runs and is
  labelled as such in the evidence.
-/
namespace Jose.Props.C17
open Jose Jose.Cfg

/-- the transition of one context under an operation, looking at nothing but that context -/
def ctxAfter (i : Nat) (c : Ctx) : Op → Option Ctx
  | .incref j => if j = i then some { c with refs := c.refs + 1 } else some c
  | .decref j => if j = i then (if c.refs = 1 then none else some { c with refs := c.refs - 1 }) else some c
  | .set j h m => if j = i then some { c with handler := h, misc := m } else some c
  | _ => some c

theorem live_lt {s : State} {i : Nat} {c : Ctx} (h : live s i = some c) : i < s.length := by
  unfold live at h
  cases hs : s[i]? with
  | none => simp [hs] at h
  | some _ => exact (List.getElem?_eq_some_iff.mp hs).1

theorem live_put_same (s : State) (i : Nat) (v : Option Ctx) (h : i < s.length) : live (put s i v) i = v := by
  simp [live, put, h]

theorem live_put_other (s : State) (i j : Nat) (v : Option Ctx) (h : j ≠ i) : live (put s j v) i = live s i := by
  simp [live, put, List.getElem?_set_ne h]

theorem live_append (s : State) (i : Nat) (x : Option Ctx) (h : i < s.length) : live (s ++ [x]) i = live s i := by
  simp [live, List.getElem?_append_left h]

/-- **Isolation, one step.**  Whatever else the state holds, context `i` after an operation is
    `ctxAfter` of its own previous state: operations addressed to other contexts, creations, and
    error reports leave it exactly as it was. -/
theorem step_local (s : State) (i : Nat) (c : Ctx) (o : Op) (h : live s i = some c) :
    live (step s o).1 i = ctxAfter i c o := by
  have hlt := live_lt h
  cases o with
  | new => simp [step, ctxAfter, live_append s i _ hlt, h]
  | incref j =>
    by_cases hj : j = i
    · subst hj; simp [step, h, ctxAfter, live_put_same _ _ _ hlt]
    · simp only [step, ctxAfter, hj, if_false]
      cases hl : live s j <;> simp [live_put_other _ _ _ _ hj, h]
  | decref j =>
    by_cases hj : j = i
    · subst hj; simp [step, h, ctxAfter, live_put_same _ _ _ hlt]
    · simp only [step, ctxAfter, hj, if_false]
      cases hl : live s j <;> simp [live_put_other _ _ _ _ hj, h]
  | set j hh m =>
    by_cases hj : j = i
    · subst hj; simp [step, h, ctxAfter, live_put_same _ _ _ hlt]
    · simp only [step, ctxAfter, hj, if_false]
      cases hl : live s j <;> simp [live_put_other _ _ _ _ hj, h]
  | get j => simp only [step, ctxAfter]; cases hl : live s j <;> simp [h]
  | err cx code msg =>
    cases cx with
    | none => simp [step, ctxAfter, h]
    | some j => simp only [step, ctxAfter]; cases hl : live s j <;> simp [h]

theorem step_length_le (s : State) (o : Op) : s.length ≤ (step s o).1.length := by
  cases o with
  | new => simp [step]
  | incref j => simp only [step]; cases live s j <;> simp [put]
  | decref j => simp only [step]; cases live s j <;> simp [put]
  | set j h m => simp only [step]; cases live s j <;> simp [put]
  | get j => simp only [step]; cases live s j <;> simp
  | err cx code msg =>
    cases cx with
    | none => simp [step]
    | some j => simp only [step]; cases live s j <;> simp

/-- a released context is never revived (new contexts get new slots) -/
theorem dead_stays_dead (s : State) (i : Nat) (o : Op) (hlt : i < s.length) (h : live s i = none) :
    live (step s o).1 i = none ∧ i < (step s o).1.length := by
  cases o with
  | new => simp [step, live_append s i _ hlt, h]; omega
  | incref j =>
    simp only [step]
    cases hl : live s j with
    | none => exact ⟨h, hlt⟩
    | some c =>
      have : j ≠ i := by intro e; subst e; simp [h] at hl
      exact ⟨by rw [live_put_other _ _ _ _ this]; exact h, by simp [put, hlt]⟩
  | decref j =>
    simp only [step]
    cases hl : live s j with
    | none => exact ⟨h, hlt⟩
    | some c =>
      have : j ≠ i := by intro e; subst e; simp [h] at hl
      exact ⟨by rw [live_put_other _ _ _ _ this]; exact h, by simp [put, hlt]⟩
  | set j hh m =>
    simp only [step]
    cases hl : live s j with
    | none => exact ⟨h, hlt⟩
    | some c =>
      have : j ≠ i := by intro e; subst e; simp [h] at hl
      exact ⟨by rw [live_put_other _ _ _ _ this]; exact h, by simp [put, hlt]⟩
  | get j => simp only [step]; cases hl : live s j <;> exact ⟨h, hlt⟩
  | err cx code msg =>
    cases cx with
    | none => exact ⟨h, hlt⟩
    | some j => simp only [step]; cases hl : live s j <;> exact ⟨h, hlt⟩

/-- the history of one context, looking at nothing but that context -/
def ctxRun (i : Nat) : Option Ctx → List Op → Option Ctx
  | c, [] => c
  | none, _ :: _ => none
  | some c, o :: r => ctxRun i (ctxAfter i c o) r

theorem ctxRun_none (i : Nat) (ops : List Op) : ctxRun i none ops = none := by
  cases ops <;> rfl

theorem run_fst_cons (s : State) (o : Op) (r : List Op) : (run s (o :: r)).1 = (run (step s o).1 r).1 := by
  simp [run]

theorem run_dead (ops : List Op) : ∀ (s : State) (i : Nat), i < s.length → live s i = none →
    live (run s ops).1 i = none := by
  induction ops with
  | nil => intro s i _ h; simpa [run] using h
  | cons o r ih =>
    intro s i hlt h
    rw [run_fst_cons]
    have := dead_stays_dead s i o hlt h
    exact ih _ i this.2 this.1

/-- **Isolation over histories.**  After any sequence of operations on any number of contexts,
    context `i` is what its own operations made of it: no other context, and no error report,
    has any influence. -/
theorem run_local (ops : List Op) : ∀ (s : State) (i : Nat) (c : Ctx), live s i = some c →
    live (run s ops).1 i = ctxRun i (some c) ops := by
  induction ops with
  | nil => intro s i c h; simpa [run, ctxRun] using h
  | cons o r ih =>
    intro s i c h
    rw [run_fst_cons]
    have h1 := step_local s i c o h
    cases hc : ctxAfter i c o with
    | none =>
      rw [hc] at h1
      have hlen : i < (step s o).1.length := Nat.lt_of_lt_of_le (live_lt h) (step_length_le s o)
      simp [ctxRun, hc, ctxRun_none, run_dead r _ i hlen h1]
    | some c' =>
      rw [hc] at h1
      simp [ctxRun, hc, ih _ i c' h1]

/-- the user pointer / handler most recently registered on context `i` in a history -/
def lastSet (i : Nat) : Nat × Nat → List Op → Nat × Nat
  | hm, [] => hm
  | hm, .set j h m :: r => lastSet i (if j = i then (h, m) else hm) r
  | hm, _ :: r => lastSet i hm r

theorem ctxRun_lastSet (i : Nat) (ops : List Op) : ∀ (c c' : Ctx), ctxRun i (some c) ops = some c' →
    (c'.handler, c'.misc) = lastSet i (c.handler, c.misc) ops := by
  induction ops with
  | nil => intro c c' h; simp [ctxRun] at h; subst h; rfl
  | cons o r ih =>
    intro c c' h
    simp only [ctxRun] at h
    cases o with
    | set j hh m =>
      by_cases hj : j = i
      · simp only [ctxAfter, hj, if_true] at h
        simpa [lastSet, hj] using ih _ _ h
      · simp only [ctxAfter, hj, if_false] at h
        simpa [lastSet, hj] using ih _ _ h
    | incref j =>
      by_cases hj : j = i
      · simp only [ctxAfter, hj, if_true] at h; simpa [lastSet] using ih _ _ h
      · simp only [ctxAfter, hj, if_false] at h; simpa [lastSet] using ih _ _ h
    | decref j =>
      by_cases hj : j = i
      · simp only [ctxAfter, hj, if_true] at h
        split at h
        · simp [ctxRun_none] at h
        · simpa [lastSet] using ih _ _ h
      · simp only [ctxAfter, hj, if_false] at h; simpa [lastSet] using ih _ _ h
    | new => simp only [ctxAfter] at h; simpa [lastSet] using ih _ _ h
    | get j => simp only [ctxAfter] at h; simpa [lastSet] using ih _ _ h
    | err a b d => simp only [ctxAfter] at h; simpa [lastSet] using ih _ _ h

/-- **`get` returns the registered user pointer.**  After any history, asking a still-live
    context for its user pointer yields the one given to the most recent registration on that
    context (NULL for a context on which none was made), never anything else — in particular not
    another context's pointer and not the handler. -/
theorem get_returns_last_set (ops : List Op) (s : State) (i : Nat) (c c' : Ctx)
    (h : live s i = some c) (hl : live (run s ops).1 i = some c') :
    (step (run s ops).1 (.get i)).2 = .misc (lastSet i (c.handler, c.misc) ops).2 := by
  rw [run_local ops s i c h] at hl
  have := ctxRun_lastSet i ops c c' hl
  simp only [step]
  rw [run_local ops s i c h, hl]
  simp [← this]

/-- **Delivery.**  An error reported through a live context reaches exactly that context's
    current handler, once, with that context's current user pointer, the code and the text; a
    cleared handler (or the NULL context) means the default handler, which prints
    `file:line:NAME:text`; contexts are not modified by reports. -/
theorem delivery (ops : List Op) (s : State) (i : Nat) (c c' : Ctx) (code : Nat) (msg : String)
    (h : live s i = some c) (hl : live (run s ops).1 i = some c') :
    step (run s ops).1 (.err (some i) code msg) =
      ((run s ops).1,
       let hm := lastSet i (c.handler, c.misc) ops
       if hm.1 = 0 then .dflt (dfltText errFile errLine code msg) else .delivered hm.1 hm.2 code msg) := by
  have hl' := hl
  rw [run_local ops s i c h] at hl'
  have := ctxRun_lastSet i ops c c' hl'
  simp only [step, hl]
  simp [← this]

theorem null_context_default (s : State) (code : Nat) (msg : String) :
    step s (.err none code msg) = (s, .dflt (dfltText errFile errLine code msg)) := rfl

/-- clearing the handler restores the default one, whatever was registered before -/
theorem clear_restores_default (s : State) (i : Nat) (c : Ctx) (m code : Nat) (msg : String)
    (h : live s i = some c) :
    (step (step s (.set i 0 m)).1 (.err (some i) code msg)).2 = .dflt (dfltText errFile errLine code msg) := by
  have := step_local s i c (.set i 0 m) h
  simp only [ctxAfter, if_true] at this
  generalize (step s (.set i 0 m)).1 = s' at this
  simp [step, this]

/-- a new context: one reference, default handler, NULL user pointer, in a slot of its own -/
theorem new_context (s : State) :
    live (step s .new).1 s.length = some { refs := 1, handler := 0, misc := 0 } ∧
    (step s .new).2 = .created s.length := by
  simp [step, live]

/-- reads and reports change nothing at all -/
theorem get_err_pure (s : State) (i : Nat) (cx : Option Nat) (code : Nat) (msg : String) :
    (step s (.get i)).1 = s ∧ (step s (.err cx code msg)).1 = s := by
  constructor
  · simp only [step]; cases live s i <;> rfl
  · cases cx with
    | none => rfl
    | some j => simp only [step]; cases live s j <;> rfl

/-- reference counting: a context lives exactly until its releases outnumber its acquisitions -/
def balance (i : Nat) : Int → List Op → Int
  | b, [] => b
  | b, .incref j :: r => balance i (if j = i then b + 1 else b) r
  | b, .decref j :: r => balance i (if j = i then b - 1 else b) r
  | b, _ :: r => balance i b r

theorem refs_balance (i : Nat) (ops : List Op) : ∀ (c c' : Ctx), 0 < c.refs → ctxRun i (some c) ops = some c' →
    (c'.refs : Int) = balance i c.refs ops ∧ 0 < c'.refs := by
  induction ops with
  | nil => intro c c' hp h; simp [ctxRun] at h; subst h; exact ⟨rfl, hp⟩
  | cons o r ih =>
    intro c c' hp h
    simp only [ctxRun] at h
    cases o with
    | incref j =>
      by_cases hj : j = i
      · simp only [ctxAfter, hj, if_true] at h
        have := ih _ _ (by simp) h
        simpa [balance, hj] using this
      · simp only [ctxAfter, hj, if_false] at h; simpa [balance, hj] using ih _ _ hp h
    | decref j =>
      by_cases hj : j = i
      · simp only [ctxAfter, hj, if_true] at h
        split at h
        · simp [ctxRun_none] at h
        · have := ih _ _ (by simp; omega) h
          simp only [balance, hj, if_true]
          have e : ((c.refs - 1 : Nat) : Int) = (c.refs : Int) - 1 := by omega
          simpa [e] using this
      · simp only [ctxAfter, hj, if_false] at h; simpa [balance, hj] using ih _ _ hp h
    | set j hh m =>
      by_cases hj : j = i
      · simp only [ctxAfter, hj, if_true] at h; simpa [balance] using ih _ _ (by simpa using hp) h
      · simp only [ctxAfter, hj, if_false] at h; simpa [balance] using ih _ _ hp h
    | new => simp only [ctxAfter] at h; simpa [balance] using ih _ _ hp h
    | get j => simp only [ctxAfter] at h; simpa [balance] using ih _ _ hp h
    | err a b d => simp only [ctxAfter] at h; simpa [balance] using ih _ _ hp h

/-! ### the default handler's names (regenerated table) -/

theorem errnames_table :
    getname (Tables.cfgErrBase + 1) = "JOSE_CFG_ERR_JWK_INVALID" ∧
    getname (Tables.cfgErrBase + 2) = "JOSE_CFG_ERR_JWK_MISMATCH" ∧
    getname (Tables.cfgErrBase + 3) = "JOSE_CFG_ERR_JWK_DENIED" ∧
    getname (Tables.cfgErrBase + 4) = "JOSE_CFG_ERR_ALG_NOTSUP" ∧
    getname (Tables.cfgErrBase + 5) = "JOSE_CFG_ERR_ALG_NOINFER" ∧
    getname (Tables.cfgErrBase + 6) = "JOSE_CFG_ERR_JWS_INVALID" ∧
    getname Tables.cfgErrBase = "UNKNOWN" ∧ getname (Tables.cfgErrBase + 7) = "UNKNOWN" := by decide

/-! ### no hidden state: the library's static storage (regenerated from the object files) -/

/-- the registries (written by load-time constructors only), the registration records they
    link, and constant tables that live in relocatable data -/
def allowedGlobal (g : String × String) : Bool :=
  (g.1 = "hooks.c" && (g.2 = "algs" || g.2 = "jwks")) ||
  (g.1 = "cfg.c" && (g.2 = "dflt" || g.2 = "errnames")) ||
  (g.1 = "jwk.c" && ["hooks", "oct_req", "oct_prv", "rsa_req", "rsa_pub", "rsa_prv", "ec_req", "ec_pub", "ec_prv"].contains g.2) ||
  ((g.1.toList.take 8 = "openssl/".toList || g.1 = "zlib/deflate.c") && ["algs", "alg", "jwk", "ecdh"].contains g.2)

/-- every object with static storage in a writable section of the library is a registry, a
    registration record or a constant table: there is no cache, counter or scratch buffer that an
    API call could write -/
theorem globals_allowed : Tables.mutableGlobals.all allowedGlobal = true := by decide

/-! ### shared templates -/

/-- a template shared by several keys in one signing call is read, never updated: every key's
    entry is computed from the caller's template itself, not from what earlier keys made of it -/
theorem shared_template (P : Prims) (jws t : Json) (keys : List Json) (rnds : List Bs) (pay : Bs)
    (hp : Jws.payloadOf jws = some pay) (hk : Jws.keyList (.arr keys) = some keys) (hne : keys ≠ [])
    (ht : ∀ l, t ≠ .arr l) :
    Jws.sig P jws (some t) (.arr keys) rnds =
      (let entries := (List.range keys.length).map (fun i =>
          match keys[i]? with
          | some k => (match Jws.keyList k with
              | some _ => none
              | none => Jws.sigEntry P (some t) k pay (rnds.getD i []))
          | none => none)
       if entries.any Option.isNone then none
       else (entries.filterMap id).foldl
              (fun acc e => acc.bind (fun j => Entity.addEntity j (some e) "signatures" Jws.SIGKEYS)) (some jws)) := by
  have hne' : keys.isEmpty = false := by cases keys <;> simp_all
  unfold Jws.sig
  simp only [hp, hk, hne']
  cases t with
  | arr l => exact absurd rfl (ht l)
  | _ => first | rfl | (simp; done) | (simp; congr)

/-- the same for key wrapping: with a shared (non-array) recipient template every key of the list is
    wrapped from the caller's template itself, whatever position it has and whatever earlier keys
    added to their copies -/
theorem shared_template_wrap (P : Prims) (t k jwe cek : Json) (ks : List Json) (i : Nat) (rnd : Bs)
    (ht : ∀ l, t ≠ .arr l) (hk : Jws.keyList k = none) :
    Jwe.encJwkKeys P (some t) (k :: ks) i jwe cek rnd =
      (Jwe.encJwkOne P jwe (some t) k cek rnd).bind fun (jwe1, cek1) =>
        Jwe.encJwkKeys P (some t) ks (i + 1) jwe1 cek1
          (rnd.drop (Jwe.wrapRandUse ((Jwe.encJwkName jwe (some t) k).getD "") (cek.get? "k").isSome (cek1.getStr? "alg"))) := by
  cases t with
  | arr l => exact absurd rfl (ht l)
  | _ => simp [Jwe.encJwkKeys, hk]

/-- non-vacuity: a two-context history in which both contexts are live at the end -/
example :
    let ops := [Op.new, .new, .set 0 1 2, .set 1 2 3, .incref 0, .decref 0, .get 0, .err (some 1) 0 "m"]
    (run [] ops).2 = [.created 0, .created 1, .unit, .unit, .unit, .unit, .misc 2, .delivered 2 3 0 "m"] := by
  decide


/-! ### the model is the code, on a grid regenerated from the code on every run

  `Jose/Grid/C17.lean` is rewritten by the translator (tools/extract_tables.py) on every run: it holds what
  lib/cfg.c **built from the current working tree** did on configuration-context histories: every sequence of at most two of the 25 context operations (create, share, release, register / clear / read back handler and pointer, report an error with and without a context, library error codes) after two contexts were created — including what the default handler prints.
  The theorem is checked by the kernel (`decide +kernel`: evaluation of the context model, no axiom). -/
theorem model_is_code_on_grid : Jose.Grid.C17.chunks.all (fun c => c.all Jose.Driver.agrees) = true := by
  decide +kernel

end Jose.Props.C17
