import Jose.Lemmas.Entity
import Jose.Grid.C16
import Jose.Props.C01
import Jose.Jwe
/-
  C16 — serialization shape stays well-formed across any history of additions.
  Statements about `Entity.addEntity` (add_entity in lib/openssl/misc.c) and
  `Entity.encodeProtected`.
-/
set_option linter.unusedSimpArgs false
set_option linter.unusedVariables false

namespace Jose.Props.C16
open Jose Jose.Entity Jose.Json Jose.Jws Jose.Jwe Jose.Props.C01

/-- the entry a flattened object shows for an added object: its listed members -/
def flatEntries (keys : List String) (okvs : List (String × Json)) : List Json :=
  if topMembers keys okvs = [] then [] else [.obj (topMembers keys okvs)]

/-- top-level view after merging `o` into an object that has none of the listed members -/
private theorem top_after_update (keys : List String) (kvs okvs : List (String × Json))
    (hnd : (okvs.map Prod.fst).Nodup) (htop : topMembers keys kvs = []) :
    topMembers keys (updateKV kvs okvs) = topMembers keys okvs := by
  apply topMembers_congr
  intro k hk
  rw [lookup_updateKV kvs okvs k hnd, (topMembers_eq_nil keys kvs).mp htop k hk]
  cases lookup k okvs <;> rfl

/-- adding to an object that holds no entry and no list: flattened form -/
private theorem step_empty (plural : String) (keys : List String) (kvs okvs : List (String × Json))
    (hpl : lookup plural kvs = none) (htop : topMembers keys kvs = [])
    (hnd : (okvs.map Prod.fst).Nodup) (hnp : lookup plural okvs = none) :
    ∃ root', addEntity (.obj kvs) (some (.obj okvs)) plural keys = some root' ∧
      entriesOf plural keys root' = some (flatEntries keys okvs) := by
  have hpres := (present_nil_iff keys kvs).mpr htop
  refine ⟨.obj (updateKV kvs okvs), ?_, ?_⟩
  · simp only [addEntity, hpl, hpres, if_true]
  · have hl : lookup plural (updateKV kvs okvs) = none := by
      rw [lookup_updateKV kvs okvs plural hnd, hnp, hpl]; rfl
    simp only [entriesOf, hl, top_after_update keys kvs okvs hnd htop, flatEntries]
    split <;> rfl

/-- adding to a flattened object (no list): the existing entry moves, unchanged, into
    a new list, followed by the new object; nothing listed stays at top level -/
private theorem step_flat (plural : String) (keys : List String) (hpk : plural ∉ keys)
    (kvs : List (String × Json)) (o : Json)
    (hpl : lookup plural kvs = none) (htop : topMembers keys kvs ≠ []) :
    ∃ root', addEntity (.obj kvs) (some o) plural keys = some root' ∧
      entriesOf plural keys root' = some ([.obj (topMembers keys kvs)] ++ [o]) := by
  have hpres : (keys.filter (fun k => (lookup k kvs).isSome)).isEmpty = false := by
    cases h : (keys.filter (fun k => (lookup k kvs).isSome)).isEmpty with
    | false => rfl
    | true => exact absurd ((present_nil_iff keys kvs).mp h) htop
  refine ⟨.obj (setKV plural (.arr ([Json.obj (topMembers keys kvs)] ++ [o]))
          (delAll (keys.filter (fun k => (lookup k kvs).isSome)) (setKV plural (.arr []) kvs))), ?_, ?_⟩
  · simp only [addEntity, hpl, hpres, Bool.false_eq_true, if_false, moved_eq_topMembers, List.nil_append]
  · simp only [entriesOf, lookup_setKV_same, List.nil_append]
    have hnone : topMembers keys
        (setKV plural (.arr ([Json.obj (topMembers keys kvs)] ++ [o]))
          (delAll (keys.filter (fun k => (lookup k kvs).isSome)) (setKV plural (.arr []) kvs))) = [] := by
      rw [topMembers_eq_nil]
      intro k hk
      have hne : k ≠ plural := fun h => hpk (h ▸ hk)
      rw [lookup_setKV_other _ _ _ _ hne]
      by_cases hp : k ∈ keys.filter (fun k => (lookup k kvs).isSome)
      · exact lookup_delAll_mem _ _ k hp
      · rw [lookup_delAll_not_mem _ _ k hp, lookup_setKV_other _ _ _ _ hne]
        simp only [List.mem_filter, hk, true_and] at hp
        cases hl : lookup k kvs <;> simp_all
    simp only [List.cons_append, List.nil_append] at hnone
    simp [hnone]

/-- adding to an object in general form: appended at the end -/
private theorem step_general (plural : String) (keys : List String) (hpk : plural ∉ keys)
    (kvs : List (String × Json)) (o : Json) (e : Json) (l : List Json)
    (hpl : lookup plural kvs = some (.arr (e :: l))) (htop : topMembers keys kvs = []) :
    ∃ root', addEntity (.obj kvs) (some o) plural keys = some root' ∧
      entriesOf plural keys root' = some ((e :: l) ++ [o]) := by
  have hpres := (present_nil_iff keys kvs).mpr htop
  refine ⟨.obj (setKV plural (.arr ((e :: l) ++ [o])) kvs), ?_, ?_⟩
  · simp only [addEntity, hpl, hpres, if_true]
  · have hnone : topMembers keys (setKV plural (.arr ((e :: l) ++ [o])) kvs) = [] := by
      rw [topMembers_eq_nil]
      intro k hk
      have hne : k ≠ plural := fun h => hpk (h ▸ hk)
      rw [lookup_setKV_other _ _ _ _ hne]
      exact (topMembers_eq_nil keys kvs).mp htop k hk
    simp only [List.cons_append] at hnone
    simp [entriesOf, lookup_setKV_same, hnone]

/-- an empty list left by the caller is treated as absent -/
private theorem addEntity_empty_list (plural : String) (keys : List String) (kvs : List (String × Json)) (o : Option Json)
    (hpl : lookup plural kvs = some (.arr [])) :
    addEntity (.obj kvs) o plural keys = addEntity (.obj (delKV plural kvs)) o plural keys := by
  simp only [addEntity, hpl, lookup_delKV_same]

/-- C16 (one step).  From an object in a legal form holding the entries `es`, adding a
    well-formed object (key-unique, not itself carrying the list) always succeeds and
    gives an object in a legal form again: flattened — showing the object's listed
    members — if it held nothing, otherwise general with the new object appended after
    the existing entries (a flattened entry having been moved unchanged into the list).
    Never both forms, never a listed member at top level next to the list. -/
theorem add_step (plural : String) (keys : List String) (hpk : plural ∉ keys) (root : Json) (es : List Json)
    (okvs : List (String × Json)) (hes : entriesOf plural keys root = some es)
    (hnd : (okvs.map Prod.fst).Nodup) (hnp : lookup plural okvs = none) :
    ∃ root', addEntity root (some (.obj okvs)) plural keys = some root' ∧
      entriesOf plural keys root' = some (if es = [] then flatEntries keys okvs else es ++ [.obj okvs]) := by
  cases root with
  | obj kvs =>
    -- reduce the empty-list start to the list-free one
    have main : ∀ kvs', lookup plural kvs' = none →
        entriesOf plural keys (.obj kvs') = some es →
        ∃ root', addEntity (.obj kvs') (some (.obj okvs)) plural keys = some root' ∧
          entriesOf plural keys root' = some (if es = [] then flatEntries keys okvs else es ++ [.obj okvs]) := by
      intro kvs' hpl hes'
      simp only [entriesOf, hpl] at hes'
      by_cases htop : topMembers keys kvs' = []
      · simp only [htop, if_true, Option.some.injEq] at hes'
        subst hes'
        simpa using step_empty plural keys kvs' okvs hpl htop hnd hnp
      · simp only [htop, if_false, Option.some.injEq] at hes'
        subst hes'
        simpa using step_flat plural keys hpk kvs' (.obj okvs) hpl htop
    cases hpl : lookup plural kvs with
    | none => exact main kvs hpl hes
    | some pl =>
      cases pl with
      | arr l =>
        cases l with
        | nil =>
          rw [addEntity_empty_list plural keys kvs _ hpl]
          apply main (delKV plural kvs) (lookup_delKV_same plural kvs)
          simp only [entriesOf, hpl] at hes
          simp only [entriesOf, lookup_delKV_same]
          exact hes
        | cons e l =>
          simp only [entriesOf, hpl] at hes
          by_cases htop : topMembers keys kvs = []
          · simp only [htop, if_true, Option.some.injEq] at hes
            subst hes
            simpa using step_general plural keys hpk kvs (.obj okvs) e l hpl htop
          · simp [htop] at hes
      | _ => simp [entriesOf, hpl] at hes
  | _ => simp [entriesOf] at hes

/-- the listed members of a list of already-extracted members are themselves -/
theorem topMembers_idem (keys : List String) (hk : keys.Nodup) (kvs : List (String × Json)) :
    topMembers keys (topMembers keys kvs) = topMembers keys kvs := by
  apply topMembers_congr_self
  where
    topMembers_congr_self : topMembers keys (topMembers keys kvs) = topMembers keys kvs := by
      have key : ∀ (ks : List String), ks.Nodup → ∀ k, lookup k (topMembers ks kvs) = if k ∈ ks then lookup k kvs else none := by
        intro ks
        induction ks with
        | nil => intro _ k; simp [topMembers]
        | cons a r ih =>
          intro hnd k
          simp only [List.nodup_cons] at hnd
          simp only [topMembers, List.filterMap_cons]
          cases ha : lookup a kvs with
          | none =>
            have := ih hnd.2 k
            simp only [topMembers] at this
            simp only [Option.map_none, this, List.mem_cons]
            by_cases hka : k = a
            · subst hka; simp [hnd.1, ha]
            · simp [hka]
          | some v =>
            have := ih hnd.2 k
            simp only [topMembers] at this
            simp only [Option.map_some, lookup, List.mem_cons]
            by_cases hka : a = k
            · subst hka; simp [ha]
            · have hka' : k ≠ a := fun h => hka h.symm
              simp [hka, hka', this]
      apply topMembers_congr
      intro k hkm
      rw [key keys hk k]
      simp [hkm]

/-- successive additions -/
def addAll (plural : String) (keys : List String) : Json → List (List (String × Json)) → Option Json
  | root, [] => some root
  | root, o :: r =>
    match addEntity root (some (.obj o)) plural keys with
    | some root' => addAll plural keys root' r
    | none => none

/-- an addition as signing / wrapping makes it: key-unique, without the list member,
    and carrying at least one of the listed members -/
def Normal (plural : String) (keys : List String) (o : List (String × Json)) : Prop :=
  (o.map Prod.fst).Nodup ∧ lookup plural o = none ∧ topMembers keys o ≠ []

/-- C16 (any history).  Starting from an object in a legal form (empty, flattened,
    general, or with an empty list), any sequence of additions succeeds and leaves the
    object in exactly one legal form holding the entries it started with followed by
    the added ones **in order**, each showing the same listed members as when it was
    added (`view`), however many additions follow. -/
theorem history (plural : String) (keys : List String) (hpk : plural ∉ keys) (hk : keys.Nodup)
    (os : List (List (String × Json))) (hn : ∀ o ∈ os, Normal plural keys o)
    (root : Json) (es : List Json) (hes : entriesOf plural keys root = some es) :
    ∃ root' es', addAll plural keys root os = some root' ∧ entriesOf plural keys root' = some es' ∧
      es'.map (view keys) = (es ++ os.map Json.obj).map (view keys) := by
  induction os generalizing root es with
  | nil => exact ⟨root, es, rfl, hes, by simp⟩
  | cons o r ih =>
    obtain ⟨hnd, hnp, hmem⟩ := hn o (by simp)
    obtain ⟨root1, h1, h2⟩ := add_step plural keys hpk root es o hes hnd hnp
    obtain ⟨root', es', g1, g2, g3⟩ := ih (fun o' ho' => hn o' (by simp [ho'])) root1 _ h2
    refine ⟨root', es', by simp [addAll, h1, g1], g2, ?_⟩
    rw [g3]
    by_cases he : es = []
    · subst he
      simp [flatEntries, hmem, view, topMembers_idem keys hk]
    · simp [he]

/-- consequence: the number of entries is the number it started with plus the number added -/
theorem history_count (plural : String) (keys : List String) (hpk : plural ∉ keys) (hk : keys.Nodup)
    (os : List (List (String × Json))) (hn : ∀ o ∈ os, Normal plural keys o)
    (root : Json) (es : List Json) (hes : entriesOf plural keys root = some es) :
    ∃ root' es', addAll plural keys root os = some root' ∧ entriesOf plural keys root' = some es' ∧
      es'.length = es.length + os.length := by
  obtain ⟨root', es', h1, h2, h3⟩ := history plural keys hpk hk os hn root es hes
  refine ⟨root', es', h1, h2, ?_⟩
  have := congrArg List.length h3
  simpa using this

/-- the two member sets jose uses satisfy the side conditions -/
theorem member_sets :
    ("signatures" ∉ ["signature", "protected", "header"] ∧ ["signature", "protected", "header"].Nodup) ∧
    ("recipients" ∉ ["header", "encrypted_key"] ∧ ["header", "encrypted_key"].Nodup) := by
  decide

/-- C16 (protected header stability): an already-encoded (or absent) protected header is
    never re-encoded or altered, and encoding is idempotent -/
theorem protected_stable (kvs : List (String × Json)) :
    (∀ s, lookup "protected" kvs = some (.str s) → encodeProtected (.obj kvs) = some (.obj kvs)) ∧
    (lookup "protected" kvs = none → encodeProtected (.obj kvs) = some (.obj kvs)) ∧
    (∀ o', encodeProtected (.obj kvs) = some o' → encodeProtected o' = some o') := by
  refine ⟨?_, ?_, ?_⟩
  · intro s h; simp [encodeProtected, h]
  · intro h; simp [encodeProtected, h]
  · intro o' h
    simp only [encodeProtected] at h
    cases hp : lookup "protected" kvs with
    | none => simp [hp] at h; subst h; simp [encodeProtected, hp]
    | some p =>
      cases p with
      | str s => simp [hp] at h; subst h; simp [encodeProtected, hp]
      | obj pk =>
        simp [hp] at h; subst h
        simp [encodeProtected, lookup_setKV_same, B64.enc]
      | _ => simp [hp] at h

/-! ### earlier entries remain valid / usable

  `history` says every entry keeps its listed members and its position through any number of later
  additions.  What follows ties that to verification and unwrapping: both look at an entry through
  its listed members only (and, for a JWE, at the protected and shared unprotected headers, which
  additions do not touch), so whatever verified or unwrapped before still does afterwards. -/

theorem topMembers_keys (keys : List String) (kvs : List (String × Json)) :
    ∀ p ∈ topMembers keys kvs, p.1 ∈ keys := by
  intro p hp
  simp only [topMembers, List.mem_filterMap] at hp
  obtain ⟨k, hk, hv⟩ := hp
  cases hl : lookup k kvs with
  | none => simp [hl] at hv
  | some v => simp [hl] at hv; subst hv; exact hk

theorem topMembers_cons (k : String) (ks : List String) (kvs : List (String × Json)) :
    topMembers (k :: ks) kvs = (match lookup k kvs with | some v => [(k, v)] | none => []) ++ topMembers ks kvs := by
  simp only [topMembers, List.filterMap_cons]
  cases lookup k kvs <;> simp

/-- equal views mean equal listed members -/
theorem lookup_of_topMembers_eq (keys : List String) (hnd : keys.Nodup) (kvs kvs' : List (String × Json))
    (h : topMembers keys kvs = topMembers keys kvs') : ∀ k ∈ keys, lookup k kvs = lookup k kvs' := by
  induction keys with
  | nil => intro k hk; simp at hk
  | cons k0 ks ih =>
    rw [topMembers_cons, topMembers_cons] at h
    have hk0 : k0 ∉ ks := (List.nodup_cons.mp hnd).1
    have hnd' := (List.nodup_cons.mp hnd).2
    have nohead : ∀ (v : Json) (l : List (String × Json)) (kv : List (String × Json)), (k0, v) :: l = topMembers ks kv → False := by
      intro v l kv he
      have := topMembers_keys ks kv (k0, v) (by rw [← he]; simp)
      exact hk0 this
    cases h1 : lookup k0 kvs with
    | none =>
      cases h2 : lookup k0 kvs' with
      | none =>
        simp only [h1, h2, List.nil_append] at h
        intro k hk
        rcases List.mem_cons.mp hk with rfl | hk
        · rw [h1, h2]
        · exact ih hnd' h k hk
      | some v2 =>
        simp only [h1, h2, List.nil_append, List.singleton_append] at h
        exact absurd (nohead v2 _ kvs h.symm) id
    | some v1 =>
      cases h2 : lookup k0 kvs' with
      | none =>
        simp only [h1, h2, List.nil_append, List.singleton_append] at h
        exact absurd (nohead v1 _ kvs' h) id
      | some v2 =>
        simp only [h1, h2, List.singleton_append, List.cons.injEq, Prod.mk.injEq, true_and] at h
        intro k hk
        rcases List.mem_cons.mp hk with rfl | hk
        · rw [h1, h2, h.1]
        · exact ih hnd' h.2 k hk

/-- the verdict on one signature object depends on its three listed members only -/
theorem verOne_members (P : Prims) (kvs kvs' : List (String × Json)) (jwk : Json)
    (h : ∀ k ∈ SIGKEYS, lookup k kvs = lookup k kvs') :
    verOne P (.obj kvs) jwk = verOne P (.obj kvs') jwk := by
  have hs : lookup "signature" kvs = lookup "signature" kvs' := h _ (by simp [SIGKEYS])
  have hp : lookup "protected" kvs = lookup "protected" kvs' := h _ (by simp [SIGKEYS])
  have hh : lookup "header" kvs = lookup "header" kvs' := h _ (by simp [SIGKEYS])
  have hhdr : jwsHdr (.obj kvs) = jwsHdr (.obj kvs') := by
    simp only [jwsHdr, protectedObj, get?, hp, hh]
  have hpre : prefixOf (.obj kvs) = prefixOf (.obj kvs') := by simp only [prefixOf, hp]
  have hsb : sigBytes (.obj kvs) = sigBytes (.obj kvs') := by simp only [sigBytes, get?, hs]
  have hleaf : ∀ name, verLeaf P name (.obj kvs) jwk = verLeaf P name (.obj kvs') jwk := by
    intro name
    simp only [verLeaf, hmacVer, ecdsaVer, rsaVer, hsb]
  simp only [verOne, hhdr, hpre, hleaf, Json.isObject]; rfl

/-- **C16 (earlier entries stay valid).**  Two signature objects showing the same listed members
    (`view`) get the same verdict from every key over every payload.  Together with `history`
    (every entry keeps its view through any number of later additions, in order) this is:
    a signature that verified when it was added verifies after every later addition. -/
theorem verdict_of_view (P : Prims) (e e' jwk : Json) (pay : Bs)
    (hv : view SIGKEYS e = view SIGKEYS e') (ho : e.isObject = true) (ho' : e'.isObject = true) :
    pairOk P e jwk pay = pairOk P e' jwk pay := by
  cases e with
  | obj kvs =>
    cases e' with
    | obj kvs' =>
      simp only [view] at hv
      injection hv with hv
      have hl := lookup_of_topMembers_eq SIGKEYS (by decide) kvs kvs' hv
      simp only [pairOk, verOne_members P kvs kvs' jwk hl]
    | _ => simp [Json.isObject] at ho'
  | _ => simp [Json.isObject] at ho

/-- **C16 (every signature added earlier remains valid after every later addition).**  Start from a
    JWS in a legal form holding the signature objects `es`; perform any sequence `os` of additions
    as signing makes them.  Then the object is again in exactly one legal form, holds as many entries
    as were there plus those added, in order, and the entry at every position gets, from every key
    and over every payload, the verdict the object originally at that position gets. -/
theorem earlier_signatures_survive (P : Prims) (os : List (List (String × Json)))
    (hn : ∀ o ∈ os, Normal "signatures" SIGKEYS o) (root : Json) (es : List Json)
    (hes : entriesOf "signatures" SIGKEYS root = some es) :
    ∃ root' es', addAll "signatures" SIGKEYS root os = some root' ∧
      entriesOf "signatures" SIGKEYS root' = some es' ∧
      es'.length = es.length + os.length ∧
      ∀ (i : Nat) (e e' : Json), es'[i]? = some e' → (es ++ os.map Json.obj)[i]? = some e → e.isObject = true →
        ∀ jwk pay, pairOk P e' jwk pay = pairOk P e jwk pay := by
  obtain ⟨root', es', h1, h2, h3⟩ := history "signatures" SIGKEYS (by decide) (by decide) os hn root es hes
  refine ⟨root', es', h1, h2, ?_, ?_⟩
  · have := congrArg List.length h3
    simpa using this
  · intro i e e' he' he ho jwk pay
    have hv : (es'.map (view SIGKEYS))[i]? = ((es ++ os.map Json.obj).map (view SIGKEYS))[i]? := by rw [h3]
    simp only [List.getElem?_map, he', he, Option.map_some, Option.some.injEq] at hv
    have ho' : e'.isObject = true := by
      cases e with
      | obj kvs =>
        cases e' with
        | obj kvs' => rfl
        | _ => simp [view] at hv
      | _ => simp [Json.isObject] at ho
    exact verdict_of_view P e' e jwk pay hv ho' ho

/-- unwrapping looks at the JWE only through the merged header and at the recipient object only
    through its `encrypted_key` (and, via the merged header, its `header`) -/
theorem unw_congr (P : Prims) (jwe jwe' rcp rcp' : Json)
    (hr1 : rcp.get? "encrypted_key" = rcp'.get? "encrypted_key")
    (hr2 : jweHdr jwe (some rcp) = jweHdr jwe' (some rcp')) :
    ∀ fuel name jwk cek rnd, unw P fuel name jwe rcp jwk cek rnd = unw P fuel name jwe' rcp' jwk cek rnd := by
  intro fuel
  induction fuel with
  | zero => intros; rfl
  | succ n ih =>
    intro name jwk cek rnd
    have hne : noEncryptedKey rcp = noEncryptedKey rcp' := by simp only [noEncryptedKey, hr1]
    simp only [unw, hne, hr1, hr2, ih]

theorem jweHdr_members (a b : Json) (r r' : Option Json) (hp : a.get? "protected" = b.get? "protected")
    (hu : a.get? "unprotected" = b.get? "unprotected") (hh : r.bind (·.get? "header") = r'.bind (·.get? "header")) :
    jweHdr a r = jweHdr b r' := by
  simp only [jweHdr, protectedObj, hp, hu, hh]

/-- **C16 (earlier recipients stay usable).**  Whether, and to which CEK, a key unwraps a recipient
    depends on the recipient object's two listed members and on the JWE's protected and shared
    unprotected headers only — not on where in the object the recipient sits, nor on how many
    recipients were added after it. -/
theorem recipient_usable_of_view (P : Prims) (jwe jwe' rcp rcp' jwk : Json) (rnd : Bs)
    (hv : view RCPKEYS rcp = view RCPKEYS rcp') (ho : rcp.isObject = true) (ho' : rcp'.isObject = true)
    (hp : jwe.get? "protected" = jwe'.get? "protected") (hu : jwe.get? "unprotected" = jwe'.get? "unprotected") :
    decJwkOne P jwe rcp jwk rnd = decJwkOne P jwe' rcp' jwk rnd := by
  cases rcp with
  | obj kvs =>
    cases rcp' with
    | obj kvs' =>
      simp only [view] at hv
      injection hv with hv
      have hl := lookup_of_topMembers_eq RCPKEYS (by decide) kvs kvs' hv
      have hh : lookup "header" kvs = lookup "header" kvs' := hl _ (by simp [RCPKEYS])
      have he : lookup "encrypted_key" kvs = lookup "encrypted_key" kvs' := hl _ (by simp [RCPKEYS])
      have hhdr : jweHdr jwe (some (.obj kvs)) = jweHdr jwe' (some (.obj kvs')) :=
        jweHdr_members jwe jwe' _ _ hp hu (by simp [get?, hh])
      have hu' := unw_congr P jwe jwe' (.obj kvs) (.obj kvs') (by simp [get?, he]) hhdr
      simp only [decJwkOne, hhdr, hu']
    | _ => simp [Json.isObject] at ho'
  | _ => simp [Json.isObject] at ho

/-- **C16 (frame).**  Adding an entry that carries only listed members leaves every other top-level
    member of the object (payload, protected and unprotected headers of a JWE, iv, ciphertext, tag, aad,
    anything the caller put there) exactly as it was. -/
theorem addEntity_frame (plural : String) (keys : List String) (root root' : Json) (okvs : List (String × Json))
    (hnd : (okvs.map Prod.fst).Nodup) (honly : ∀ k, k ∉ keys → lookup k okvs = none)
    (k : String) (hk : k ∉ keys) (hkp : k ≠ plural)
    (h : addEntity root (some (.obj okvs)) plural keys = some root') : root'.get? k = root.get? k := by
  cases root with
  | obj kvs =>
    simp only [addEntity] at h
    have hko : lookup k okvs = none := honly k hk
    -- the state after looking at the list
    have key : ∀ (kvs1 : List (String × Json)) (pl : Option (List Json)), lookup k kvs1 = lookup k kvs →
        (let present := keys.filter (fun k => (lookup k kvs1).isSome)
         let r :=
          if present.isEmpty then (kvs1, pl)
          else
            let moved : List (String × Json) := present.filterMap (fun k => (lookup k kvs1).map (fun v => (k, v)))
            let base := match pl with | some l => l | none => []
            let kvsA := match pl with | some _ => kvs1 | none => setKV plural (.arr []) kvs1
            (delAll present kvsA, some (base ++ [.obj moved]))
         (match r.2 with
          | some l => some (Json.obj (setKV plural (.arr (l ++ [Json.obj okvs])) r.1))
          | none => some (Json.obj (updateKV r.1 okvs))) = some root') → root'.get? k = lookup k kvs := by
      intro kvs1 pl hk1 hh
      simp only at hh
      have hnp : k ∉ keys.filter (fun k => (lookup k kvs1).isSome) := fun hm => hk (List.mem_filter.mp hm).1
      by_cases hemp : (keys.filter (fun k => (lookup k kvs1).isSome)).isEmpty = true
      · simp only [hemp, if_true] at hh
        cases pl with
        | some l =>
          simp only [Option.some.injEq] at hh; subst hh
          simp [get?, lookup_setKV_other plural k _ _ hkp, hk1]
        | none =>
          simp only [Option.some.injEq] at hh; subst hh
          simp [get?, lookup_updateKV kvs1 okvs k hnd, hko, hk1]
      · simp only [hemp, Bool.false_eq_true, if_false, Option.some.injEq] at hh
        subst hh
        cases pl with
        | some l => simp [get?, lookup_setKV_other plural k _ _ hkp, lookup_delAll_not_mem _ _ k hnp, hk1]
        | none => simp [get?, lookup_setKV_other plural k _ _ hkp, lookup_delAll_not_mem _ _ k hnp, hk1]
    cases hpl : lookup plural kvs with
    | none => simp only [hpl] at h; exact key kvs none rfl h
    | some pv =>
      cases pv with
      | arr l =>
        cases l with
        | nil => simp only [hpl] at h; exact key (delKV plural kvs) none (lookup_delKV_other plural k kvs hkp) h
        | cons e l => simp only [hpl] at h; exact key kvs (some (e :: l)) rfl h
      | _ => simp [hpl] at h
  | _ => simp [addEntity] at h

/-- an addition that carries listed members only (what signing and wrapping append) -/
def OnlyListed (keys : List String) (o : List (String × Json)) : Prop := ∀ k, k ∉ keys → lookup k o = none

theorem addAll_frame (plural : String) (keys : List String) (os : List (List (String × Json)))
    (hn : ∀ o ∈ os, Normal plural keys o ∧ OnlyListed keys o) (k : String) (hk : k ∉ keys) (hkp : k ≠ plural) :
    ∀ root root', addAll plural keys root os = some root' → root'.get? k = root.get? k := by
  induction os with
  | nil => intro root root' h; simp only [addAll, Option.some.injEq] at h; subst h; rfl
  | cons o r ih =>
    intro root root' h
    simp only [addAll] at h
    cases h1 : addEntity root (some (.obj o)) plural keys with
    | none => simp [h1] at h
    | some root1 =>
      simp only [h1] at h
      obtain ⟨⟨hnd, _, _⟩, honly⟩ := hn o (by simp)
      rw [ih (fun o' ho' => hn o' (by simp [ho'])) root1 root' h]
      exact addEntity_frame plural keys root root1 o hnd honly k hk hkp h1

/-- **C16 (every recipient added earlier remains usable after every later addition).**  As
    `earlier_signatures_survive`, for the recipients of a JWE: after any sequence of additions the
    recipient at every position unwraps, for every key, exactly as the object originally at that
    position did in the JWE before the additions (same CEK or same refusal). -/
theorem earlier_recipients_survive (P : Prims) (os : List (List (String × Json)))
    (hn : ∀ o ∈ os, Normal "recipients" RCPKEYS o ∧ OnlyListed RCPKEYS o) (root : Json) (es : List Json)
    (hes : entriesOf "recipients" RCPKEYS root = some es) :
    ∃ root' es', addAll "recipients" RCPKEYS root os = some root' ∧
      entriesOf "recipients" RCPKEYS root' = some es' ∧
      es'.length = es.length + os.length ∧
      ∀ (i : Nat) (e e' : Json), es'[i]? = some e' → (es ++ os.map Json.obj)[i]? = some e → e.isObject = true →
        ∀ jwk rnd, decJwkOne P root' e' jwk rnd = decJwkOne P root e jwk rnd := by
  obtain ⟨root', es', h1, h2, h3⟩ := history "recipients" RCPKEYS (by decide) (by decide) os (fun o ho => (hn o ho).1) root es hes
  refine ⟨root', es', h1, h2, ?_, ?_⟩
  · have := congrArg List.length h3
    simpa using this
  · intro i e e' he' he ho jwk rnd
    have hv : (es'.map (view RCPKEYS))[i]? = ((es ++ os.map Json.obj).map (view RCPKEYS))[i]? := by rw [h3]
    simp only [List.getElem?_map, he', he, Option.map_some, Option.some.injEq] at hv
    have ho' : e'.isObject = true := by
      cases e with
      | obj kvs =>
        cases e' with
        | obj kvs' => rfl
        | _ => simp [view] at hv
      | _ => simp [Json.isObject] at ho
    have hp := addAll_frame "recipients" RCPKEYS os hn "protected" (by decide) (by decide) root root' h1
    have hu := addAll_frame "recipients" RCPKEYS os hn "unprotected" (by decide) (by decide) root root' h1
    exact recipient_usable_of_view P root' root e' e jwk rnd hv ho' ho hp hu

/-- non-vacuity: three signatures added to an empty JWS (second one with an encoded protected header) -/
example :
    addAll "signatures" ["signature", "protected", "header"] (.obj [("payload", .str "cA")])
      [[("signature", .str "s1")], [("protected", .str "cDI"), ("signature", .str "s2")], [("signature", .str "s3")]]
    = some (.obj [("payload", .str "cA"),
        ("signatures", .arr [.obj [("signature", .str "s1")], .obj [("protected", .str "cDI"), ("signature", .str "s2")],
                             .obj [("signature", .str "s3")]])]) := by
  rfl


/-! ### the model is the code, on a grid regenerated from the code on every run

  `Jose/Grid/C16.lean` is rewritten by the translator (tools/extract_tables.py) on every run: it holds
  what the library **built from the current working tree** answered, in-process, to a fixed grid of
  operations — `add_entity` histories of length ≤ 2 over five kinds of additions from all fifteen start objects, for the JWS and the JWE member set, and `encode_protected` on seven objects.
  `Driver.agrees` evaluates the model's handler for the row's operation (the same handler the
  correspondence run uses) and compares with the recorded answer by `json_equal`.  The theorem is
  checked by the kernel (`decide +kernel`: evaluation, no axiom); any edit of the C that changes one of
  these answers makes it false, and the check then reports a violation. -/
theorem model_is_code_on_grid : Jose.Grid.C16.chunks.all (fun c => c.all Jose.Driver.agrees) = true := by
  decide +kernel

end Jose.Props.C16
