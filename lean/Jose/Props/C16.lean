import Jose.Lemmas.Entity
/-
  C16 — serialization shape stays well-formed across any history of additions.
  Statements about `Entity.addEntity` (add_entity in lib/openssl/misc.c) and
  `Entity.encodeProtected`.
-/
set_option linter.unusedSimpArgs false
set_option linter.unusedVariables false

namespace Jose.Props.C16
open Jose Jose.Entity Jose.Json

/-- the entry a flattened object shows for an added object: its listed members -/
def flatEntries (keys : List String) (okvs : List (String × Json)) : List Json :=
  if topMembers keys okvs = [] then [] else [.obj (topMembers keys okvs)]

/-- top-level view after merging `o` into an object that has none of the listed members -/
private theorem top_after_update (keys : List String) (kvs okvs : List (String × Json))
    (hnd : (okvs.map Prod.fst).Nodup) (htop : topMembers keys kvs = []) :
    topMembers keys (updateKV kvs okvs) = topMembers keys okvs := by
  apply topMembers_congr
  intro k hk
  rw [lookup_updateKV kvs okvs k hnd, (topMembers_eq_nil keys kvs).mp htop k hk]
  cases lookup k okvs <;> rfl

/-- adding to an object that holds no entry and no list: flattened form -/
private theorem step_empty (plural : String) (keys : List String) (kvs okvs : List (String × Json))
    (hpl : lookup plural kvs = none) (htop : topMembers keys kvs = [])
    (hnd : (okvs.map Prod.fst).Nodup) (hnp : lookup plural okvs = none) :
    ∃ root', addEntity (.obj kvs) (some (.obj okvs)) plural keys = some root' ∧
      entriesOf plural keys root' = some (flatEntries keys okvs) := by
  have hpres := (present_nil_iff keys kvs).mpr htop
  refine ⟨.obj (updateKV kvs okvs), ?_, ?_⟩
  · simp only [addEntity, hpl, hpres, if_true]
  · have hl : lookup plural (updateKV kvs okvs) = none := by
      rw [lookup_updateKV kvs okvs plural hnd, hnp, hpl]; rfl
    simp only [entriesOf, hl, top_after_update keys kvs okvs hnd htop, flatEntries]
    split <;> rfl

/-- adding to a flattened object (no list): the existing entry moves, unchanged, into
    a new list, followed by the new object; nothing listed stays at top level -/
private theorem step_flat (plural : String) (keys : List String) (hpk : plural ∉ keys)
    (kvs : List (String × Json)) (o : Json)
    (hpl : lookup plural kvs = none) (htop : topMembers keys kvs ≠ []) :
    ∃ root', addEntity (.obj kvs) (some o) plural keys = some root' ∧
      entriesOf plural keys root' = some ([.obj (topMembers keys kvs)] ++ [o]) := by
  have hpres : (keys.filter (fun k => (lookup k kvs).isSome)).isEmpty = false := by
    cases h : (keys.filter (fun k => (lookup k kvs).isSome)).isEmpty with
    | false => rfl
    | true => exact absurd ((present_nil_iff keys kvs).mp h) htop
  refine ⟨.obj (setKV plural (.arr ([Json.obj (topMembers keys kvs)] ++ [o]))
          (delAll (keys.filter (fun k => (lookup k kvs).isSome)) (setKV plural (.arr []) kvs))), ?_, ?_⟩
  · simp only [addEntity, hpl, hpres, Bool.false_eq_true, if_false, moved_eq_topMembers, List.nil_append]
  · simp only [entriesOf, lookup_setKV_same, List.nil_append]
    have hnone : topMembers keys
        (setKV plural (.arr ([Json.obj (topMembers keys kvs)] ++ [o]))
          (delAll (keys.filter (fun k => (lookup k kvs).isSome)) (setKV plural (.arr []) kvs))) = [] := by
      rw [topMembers_eq_nil]
      intro k hk
      have hne : k ≠ plural := fun h => hpk (h ▸ hk)
      rw [lookup_setKV_other _ _ _ _ hne]
      by_cases hp : k ∈ keys.filter (fun k => (lookup k kvs).isSome)
      · exact lookup_delAll_mem _ _ k hp
      · rw [lookup_delAll_not_mem _ _ k hp, lookup_setKV_other _ _ _ _ hne]
        simp only [List.mem_filter, hk, true_and] at hp
        cases hl : lookup k kvs <;> simp_all
    simp only [List.cons_append, List.nil_append] at hnone
    simp [hnone]

/-- adding to an object in general form: appended at the end -/
private theorem step_general (plural : String) (keys : List String) (hpk : plural ∉ keys)
    (kvs : List (String × Json)) (o : Json) (e : Json) (l : List Json)
    (hpl : lookup plural kvs = some (.arr (e :: l))) (htop : topMembers keys kvs = []) :
    ∃ root', addEntity (.obj kvs) (some o) plural keys = some root' ∧
      entriesOf plural keys root' = some ((e :: l) ++ [o]) := by
  have hpres := (present_nil_iff keys kvs).mpr htop
  refine ⟨.obj (setKV plural (.arr ((e :: l) ++ [o])) kvs), ?_, ?_⟩
  · simp only [addEntity, hpl, hpres, if_true]
  · have hnone : topMembers keys (setKV plural (.arr ((e :: l) ++ [o])) kvs) = [] := by
      rw [topMembers_eq_nil]
      intro k hk
      have hne : k ≠ plural := fun h => hpk (h ▸ hk)
      rw [lookup_setKV_other _ _ _ _ hne]
      exact (topMembers_eq_nil keys kvs).mp htop k hk
    simp only [List.cons_append] at hnone
    simp [entriesOf, lookup_setKV_same, hnone]

/-- an empty list left by the caller is treated as absent -/
private theorem addEntity_empty_list (plural : String) (keys : List String) (kvs : List (String × Json)) (o : Option Json)
    (hpl : lookup plural kvs = some (.arr [])) :
    addEntity (.obj kvs) o plural keys = addEntity (.obj (delKV plural kvs)) o plural keys := by
  simp only [addEntity, hpl, lookup_delKV_same]

/-- C16 (one step).  From an object in a legal form holding the entries `es`, adding a
    well-formed object (key-unique, not itself carrying the list) always succeeds and
    gives an object in a legal form again: flattened — showing the object's listed
    members — if it held nothing, otherwise general with the new object appended after
    the existing entries (a flattened entry having been moved unchanged into the list).
    Never both forms, never a listed member at top level next to the list. -/
theorem add_step (plural : String) (keys : List String) (hpk : plural ∉ keys) (root : Json) (es : List Json)
    (okvs : List (String × Json)) (hes : entriesOf plural keys root = some es)
    (hnd : (okvs.map Prod.fst).Nodup) (hnp : lookup plural okvs = none) :
    ∃ root', addEntity root (some (.obj okvs)) plural keys = some root' ∧
      entriesOf plural keys root' = some (if es = [] then flatEntries keys okvs else es ++ [.obj okvs]) := by
  cases root with
  | obj kvs =>
    -- reduce the empty-list start to the list-free one
    have main : ∀ kvs', lookup plural kvs' = none →
        entriesOf plural keys (.obj kvs') = some es →
        ∃ root', addEntity (.obj kvs') (some (.obj okvs)) plural keys = some root' ∧
          entriesOf plural keys root' = some (if es = [] then flatEntries keys okvs else es ++ [.obj okvs]) := by
      intro kvs' hpl hes'
      simp only [entriesOf, hpl] at hes'
      by_cases htop : topMembers keys kvs' = []
      · simp only [htop, if_true, Option.some.injEq] at hes'
        subst hes'
        simpa using step_empty plural keys kvs' okvs hpl htop hnd hnp
      · simp only [htop, if_false, Option.some.injEq] at hes'
        subst hes'
        simpa using step_flat plural keys hpk kvs' (.obj okvs) hpl htop
    cases hpl : lookup plural kvs with
    | none => exact main kvs hpl hes
    | some pl =>
      cases pl with
      | arr l =>
        cases l with
        | nil =>
          rw [addEntity_empty_list plural keys kvs _ hpl]
          apply main (delKV plural kvs) (lookup_delKV_same plural kvs)
          simp only [entriesOf, hpl] at hes
          simp only [entriesOf, lookup_delKV_same]
          exact hes
        | cons e l =>
          simp only [entriesOf, hpl] at hes
          by_cases htop : topMembers keys kvs = []
          · simp only [htop, if_true, Option.some.injEq] at hes
            subst hes
            simpa using step_general plural keys hpk kvs (.obj okvs) e l hpl htop
          · simp [htop] at hes
      | _ => simp [entriesOf, hpl] at hes
  | _ => simp [entriesOf] at hes

/-- the listed members of a list of already-extracted members are themselves -/
theorem topMembers_idem (keys : List String) (hk : keys.Nodup) (kvs : List (String × Json)) :
    topMembers keys (topMembers keys kvs) = topMembers keys kvs := by
  apply topMembers_congr_self
  where
    topMembers_congr_self : topMembers keys (topMembers keys kvs) = topMembers keys kvs := by
      have key : ∀ (ks : List String), ks.Nodup → ∀ k, lookup k (topMembers ks kvs) = if k ∈ ks then lookup k kvs else none := by
        intro ks
        induction ks with
        | nil => intro _ k; simp [topMembers]
        | cons a r ih =>
          intro hnd k
          simp only [List.nodup_cons] at hnd
          simp only [topMembers, List.filterMap_cons]
          cases ha : lookup a kvs with
          | none =>
            have := ih hnd.2 k
            simp only [topMembers] at this
            simp only [Option.map_none, this, List.mem_cons]
            by_cases hka : k = a
            · subst hka; simp [hnd.1, ha]
            · simp [hka]
          | some v =>
            have := ih hnd.2 k
            simp only [topMembers] at this
            simp only [Option.map_some, lookup, List.mem_cons]
            by_cases hka : a = k
            · subst hka; simp [ha]
            · have hka' : k ≠ a := fun h => hka h.symm
              simp [hka, hka', this]
      apply topMembers_congr
      intro k hkm
      rw [key keys hk k]
      simp [hkm]

/-- successive additions -/
def addAll (plural : String) (keys : List String) : Json → List (List (String × Json)) → Option Json
  | root, [] => some root
  | root, o :: r =>
    match addEntity root (some (.obj o)) plural keys with
    | some root' => addAll plural keys root' r
    | none => none

/-- an addition as signing / wrapping makes it: key-unique, without the list member,
    and carrying at least one of the listed members -/
def Normal (plural : String) (keys : List String) (o : List (String × Json)) : Prop :=
  (o.map Prod.fst).Nodup ∧ lookup plural o = none ∧ topMembers keys o ≠ []

/-- C16 (any history).  Starting from an object in a legal form (empty, flattened,
    general, or with an empty list), any sequence of additions succeeds and leaves the
    object in exactly one legal form holding the entries it started with followed by
    the added ones **in order**, each showing the same listed members as when it was
    added (`view`), however many additions follow. -/
theorem history (plural : String) (keys : List String) (hpk : plural ∉ keys) (hk : keys.Nodup)
    (os : List (List (String × Json))) (hn : ∀ o ∈ os, Normal plural keys o)
    (root : Json) (es : List Json) (hes : entriesOf plural keys root = some es) :
    ∃ root' es', addAll plural keys root os = some root' ∧ entriesOf plural keys root' = some es' ∧
      es'.map (view keys) = (es ++ os.map Json.obj).map (view keys) := by
  induction os generalizing root es with
  | nil => exact ⟨root, es, rfl, hes, by simp⟩
  | cons o r ih =>
    obtain ⟨hnd, hnp, hmem⟩ := hn o (by simp)
    obtain ⟨root1, h1, h2⟩ := add_step plural keys hpk root es o hes hnd hnp
    obtain ⟨root', es', g1, g2, g3⟩ := ih (fun o' ho' => hn o' (by simp [ho'])) root1 _ h2
    refine ⟨root', es', by simp [addAll, h1, g1], g2, ?_⟩
    rw [g3]
    by_cases he : es = []
    · subst he
      simp [flatEntries, hmem, view, topMembers_idem keys hk]
    · simp [he]

/-- consequence: the number of entries is the number it started with plus the number added -/
theorem history_count (plural : String) (keys : List String) (hpk : plural ∉ keys) (hk : keys.Nodup)
    (os : List (List (String × Json))) (hn : ∀ o ∈ os, Normal plural keys o)
    (root : Json) (es : List Json) (hes : entriesOf plural keys root = some es) :
    ∃ root' es', addAll plural keys root os = some root' ∧ entriesOf plural keys root' = some es' ∧
      es'.length = es.length + os.length := by
  obtain ⟨root', es', h1, h2, h3⟩ := history plural keys hpk hk os hn root es hes
  refine ⟨root', es', h1, h2, ?_⟩
  have := congrArg List.length h3
  simpa using this

/-- the two member sets jose uses satisfy the side conditions -/
theorem member_sets :
    ("signatures" ∉ ["signature", "protected", "header"] ∧ ["signature", "protected", "header"].Nodup) ∧
    ("recipients" ∉ ["header", "encrypted_key"] ∧ ["header", "encrypted_key"].Nodup) := by
  decide

/-- C16 (protected header stability): an already-encoded (or absent) protected header is
    never re-encoded or altered, and encoding is idempotent -/
theorem protected_stable (kvs : List (String × Json)) :
    (∀ s, lookup "protected" kvs = some (.str s) → encodeProtected (.obj kvs) = some (.obj kvs)) ∧
    (lookup "protected" kvs = none → encodeProtected (.obj kvs) = some (.obj kvs)) ∧
    (∀ o', encodeProtected (.obj kvs) = some o' → encodeProtected o' = some o') := by
  refine ⟨?_, ?_, ?_⟩
  · intro s h; simp [encodeProtected, h]
  · intro h; simp [encodeProtected, h]
  · intro o' h
    simp only [encodeProtected] at h
    cases hp : lookup "protected" kvs with
    | none => simp [hp] at h; subst h; simp [encodeProtected, hp]
    | some p =>
      cases p with
      | str s => simp [hp] at h; subst h; simp [encodeProtected, hp]
      | obj pk =>
        simp [hp] at h; subst h
        simp [encodeProtected, lookup_setKV_same, B64.enc]
      | _ => simp [hp] at h

/-- non-vacuity: three signatures added to an empty JWS (second one with an encoded protected header) -/
example :
    addAll "signatures" ["signature", "protected", "header"] (.obj [("payload", .str "cA")])
      [[("signature", .str "s1")], [("protected", .str "cDI"), ("signature", .str "s2")], [("signature", .str "s3")]]
    = some (.obj [("payload", .str "cA"),
        ("signatures", .arr [.obj [("signature", .str "s1")], .obj [("protected", .str "cDI"), ("signature", .str "s2")],
                             .obj [("signature", .str "s3")]])]) := by
  rfl

end Jose.Props.C16
