import Jose.Jwe
namespace Jose.Props.C02
theorem placeholder : (1 : Nat) = 1 := rfl
end Jose.Props.C02
