import Jose.Jwe
import Jose.Lemmas.Pbes2
import Jose.Lemmas.Tree
/-
  C02 — JWE decryption is authenticated over protected, aad, iv, ciphertext, tag.
  Statements about `Jwe.decCek` / `Jwe.decCekIo` / `Jwe.decJwk` (jose_jwe_dec_cek(_io),
  jose_jwe_dec_jwk and the encr.dec / wrap.unw hooks), for every instance of the primitives.
-/
set_option linter.unusedSimpArgs false
set_option linter.unusedVariables false

namespace Jose.Props.C02
open Jose Jose.Jwe Jose.Jws Jose.IO Jose.Json Jose.Entity Tables

/-- the associated data is the protected-header text, followed — when an `aad` member is
    present — by '.' and the aad text **in full** -/
theorem aad_in_full (kvs : List (String × Json)) (p a : String)
    (hp : lookup "protected" kvs = some (.str p)) (ha : lookup "aad" kvs = some (.str a)) :
    aadOf (.obj kvs) = some (B64.bytesOfString p ++ [46] ++ B64.bytesOfString a) := by
  simp [aadOf, optStr, hp, ha]

theorem aad_absent (kvs : List (String × Json)) (p : String)
    (hp : lookup "protected" kvs = some (.str p)) (ha : lookup "aad" kvs = none) :
    aadOf (.obj kvs) = some (B64.bytesOfString p) := by
  simp [aadOf, optStr, hp, ha]

/-- an `aad` or `protected` member that is not text makes the operation fail -/
theorem aad_wrong_type (kvs : List (String × Json)) (v : Json) (hv : v.isString = false)
    (h : lookup "aad" kvs = some v ∨ lookup "protected" kvs = some v) : aadOf (.obj kvs) = none := by
  rcases h with h | h
  · cases v <;> simp_all [aadOf, optStr, Json.isString]
    all_goals (cases lookup "protected" kvs <;> simp) 
    all_goals (rename_i x; cases x <;> simp)
  · cases v <;> simp_all [aadOf, optStr, Json.isString]

/-- what the content decryptor accepts, GCM: a 16-byte tag that the primitive accepts for
    exactly (key, iv, aad, ciphertext) -/
theorem open_gcm (P : Prims) (k : Nat) (key iv aad ct tag body : Bs)
    (h : openWith P (.gcm k) key iv aad ct tag = some body) :
    tag.length = 16 ∧ P.gcmDec key iv aad ct tag = some body := by
  simp only [openWith] at h
  split at h
  · exact ⟨by assumption, h⟩
  · simp at h

/-- CBC-HMAC (RFC 7518 §5.2): the tag equals the first half of
    HMAC(mac key, aad ‖ iv ‖ ciphertext ‖ 64-bit big-endian bit length of aad), the mac key
    being the first half of the content key and the cipher key the second half; only then is
    the ciphertext decrypted -/
theorem open_cbc (P : Prims) (k : Nat) (hs : String) (key iv aad ct tag body : Bs)
    (h : openWith P (.cbc k hs) key iv aad ct tag = some body) :
    tag.length = k ∧
    (P.hmac hs (key.take k) (aad ++ iv ++ ct ++ be 8 (aad.length * 8))).take k = tag ∧
    P.cbcDec (key.drop k) iv ct = some body := by
  simp only [openWith] at h
  split at h
  · rename_i hc; exact ⟨hc.1, hc.2, h⟩
  · simp at h

/-- **C02 (content authentication).**  One-shot decryption succeeds only if: the
    ciphertext text is canonical base64url, the content-encryption algorithm is the one
    named by the merged header (and the CEK declares no other), the CEK has exactly the
    algorithm's key length and the IV its IV length, the tag member decodes, and
    `openWith` accepts (key, iv, aad-in-full, ciphertext, tag) — see `open_gcm` / `open_cbc`. -/
theorem dec_authenticated (P : Prims) (jwe cek : Json) (pt : Bs) (h : decCek P jwe cek = some pt) :
    ∃ cts a zip fam iv key aad ct tag body,
      jwe.get? "ciphertext" = some (.str cts) ∧ B64.decode (B64.bytesOfString cts) = some ct ∧
      decCekSetup jwe cek = some (a, zip) ∧ encFamily a.name = some fam ∧
      exactKey jwe "iv" (ivLen fam) = some iv ∧ exactKey cek "k" (cekLen fam) = some key ∧
      aadOf jwe = some aad ∧ bytesOfJson (jwe.get? "tag") = some tag ∧
      openWith P fam key iv aad ct tag = some body ∧
      (if zip then P.inflate body else some body) = some pt := by
  simp only [decCek] at h
  cases hc : jwe.get? "ciphertext" with
  | none => simp [hc] at h
  | some cj =>
    cases cj with
    | str cts =>
      simp only [hc] at h
      split at h
      · simp at h
      · simp only [decBody, Option.bind_eq_some_iff, Option.map_eq_some_iff] at h
        obtain ⟨f, ⟨⟨a, zip⟩, hs, fam, hf, iv, hiv, key, hk, aad, haad, rfl⟩, ct, hct, hfin⟩ := h
        cases htag : bytesOfJson (jwe.get? "tag") with
        | none => simp [htag] at hfin
        | some tag =>
          simp only [htag, Option.bind_eq_some_iff] at hfin
          obtain ⟨body, hopen, hz⟩ := hfin
          exact ⟨cts, a, zip, fam, iv, key, aad, ct, tag, body, rfl, hct, hs, hf, hiv, hk, haad, rfl, hopen, hz⟩
    | _ => simp [hc] at h

/-- the algorithm applied is the one the merged header names, and a CEK that declares an
    algorithm is refused for any other, whatever the two names (C05) -/
theorem dec_alg_select (jwe cek : Json) (a : AlgRec) (zip : Bool) (h : decCekSetup jwe cek = some (a, zip)) :
    ∃ hdr halg kalg, jweHdr jwe none = some hdr ∧ optStr hdr "enc" = some halg ∧ optStr cek "alg" = some kalg ∧
      findEncr a.name = some a ∧ (∀ x, halg = some x → a.name = x) ∧ (∀ y, kalg = some y → a.name = y) ∧
      Jwk.prm (some cek) false a.p2 = true := by
  simp only [decCekSetup, Option.bind_eq_some_iff] at h
  obtain ⟨hdr, h1, halg, h2, kalg, h3, n, h4, a', h5, h6⟩ := h
  split at h6
  · simp at h6
  · rename_i hprm
    have ha : a' = a := by
      split at h6
      · split at h6 <;> simp at h6 <;> exact h6.1
      · simp at h6; exact h6.1
    subst ha
    have hname : a'.name = n := by
      simp only [findEncr] at h5
      simpa using List.find?_some h5
    refine ⟨hdr, halg, kalg, h1, h2, h3, by rw [hname]; exact h5, ?_, ?_, by simpa using hprm⟩
    · intro x hx; subst hx
      cases kalg <;> simp at h4
      · rw [hname]; exact h4.symm
      · rw [hname]; exact h4.2.symm
    · intro y hy; subst hy
      cases halg <;> simp at h4
      · rw [hname]; exact h4.symm
      · rw [hname, ← h4.2]; exact h4.1

/-- compression is honoured only when `zip` is in the *protected* header (C15) -/
theorem zip_only_protected (jwe cek : Json) (a : AlgRec) (h : decCekSetup jwe cek = some (a, true)) :
    ∃ z, (B64.decLoad (jwe.get? "protected")).bind (·.getStr? "zip") = some z ∧ findComp z = true := by
  simp only [decCekSetup, Option.bind_eq_some_iff] at h
  obtain ⟨hdr, h1, halg, h2, kalg, h3, n, h4, a', h5, h6⟩ := h
  split at h6
  · simp at h6
  · split at h6
    · rename_i z hz
      split at h6
      · rename_i hc; exact ⟨z, hz, hc⟩
      · simp at h6
    · simp at h6

/-- **C02 (streaming).**  In streaming mode the verdict is that of the final `done`, and it
    is the one-shot verdict on the concatenation of everything fed, for every chunking -/
theorem dec_stream (P : Prims) (jwe cek : Json) (sg : Stage) (h : decCekIo P jwe cek .sink = some sg) (cs : List Bs) :
    ∃ f, decBody P jwe cek = some f ∧ (run sg cs).2 = (f cs.flatten).isSome := by
  simp only [decCekIo, Option.map_eq_some_iff] at h
  obtain ⟨f, hf, rfl⟩ := h
  refine ⟨f, hf, ?_⟩
  rw [run_V (AccT.leaf _ rfl) cs]
  simp [V]

/-- key management, AES key wrap: the CEK is what RFC 3394 unwrapping of exactly the
    recipient's `encrypted_key` under exactly the key's `k` (of the algorithm's length) yields;
    an integrity failure there is a failure of the whole operation -/
theorem unw_aeskw (P : Prims) (name : String) (klen : Nat) (jwe rcp jwk cek cek' : Json) (rnd : Bs) (fuel : Nat)
    (hf : wrapFamily name = some (.aeskw klen)) (h : unw P (fuel + 1) name jwe rcp jwk cek rnd = some cek') :
    ∃ kek ct pt c, exactKey jwk "k" klen = some kek ∧ bytesOfJson (rcp.get? "encrypted_key") = some ct ∧
      ct.length ≤ keymax + 16 ∧ P.kwUnwrap kek ct = some pt ∧ cek = .obj c ∧
      cek' = .obj (setKV "k" (B64.enc pt) c) := by
  simp only [unw, hf] at h
  cases cek with
  | obj c =>
    simp only [Option.bind_eq_some_iff] at h
    obtain ⟨kek, hk, ct, hct, hrest⟩ := h
    split at hrest
    · simp at hrest
    · rename_i hlen
      simp only [Option.map_eq_some_iff] at hrest
      obtain ⟨pt, hpt, rfl⟩ := hrest
      exact ⟨kek, ct, pt, c, hk, hct, by omega, hpt, rfl, rfl⟩
  | _ => simp at h

/-- key management, PBES2: an iteration count outside 1..max is refused before any key
    derivation; the salt is `alg ‖ 0x00 ‖ p2s` with 8 ≤ |p2s| ≤ KEYMAX (C14) -/
theorem unw_pbes2_bounds (P : Prims) (name hs aes : String) (klen : Nat) (jwe rcp jwk cek cek' : Json) (rnd : Bs) (fuel : Nat)
    (hf : wrapFamily name = some (.pbes2 hs aes klen)) (h : unw P (fuel + 1) name jwe rcp jwk cek rnd = some cek') :
    ∃ hdr p2c st, jweHdr jwe (some rcp) = some hdr ∧ hdr.get? "p2c" = some (.int p2c) ∧ 1 ≤ p2c ∧ p2c ≤ p2cMax ∧
      bytesOfJson (hdr.get? "p2s") = some st ∧ 8 ≤ st.length ∧ st.length ≤ keymax := by
  simp only [unw, hf] at h
  cases cek with
  | obj c =>
    simp only [Option.bind_eq_some_iff] at h
    obtain ⟨hdr, hh, ⟨it, st⟩, hpar, _⟩ := h
    obtain ⟨p2c, hp, h1, h2, _, hst, hl1, hl2⟩ := pbes2UnwParams_some hdr it st hpar
    exact ⟨hdr, p2c, st, hh, hp, h1, h2, hst, hl1, hl2⟩
  | _ => simp at h

/-- table facts: every registered content-encryption / key-management name belongs to a
    family the model knows; permissions are the documented ones -/
theorem families_cover_registry :
    (∀ a ∈ encrAlgs, (encFamily a.name).isSome = true ∧ a.p1 = some "encrypt" ∧ a.p2 = some "decrypt") ∧
    (∀ a ∈ wrapAlgs, (wrapFamily a.name).isSome = true) ∧
    (∀ a ∈ wrapAlgs, a.name ≠ "dir" → a.p1 = some "wrapKey" ∧ a.p2 = some "unwrapKey") := by
  decide

/-- **Direct encryption and direct key agreement have no encrypted key** (after fix F30; RFC 7516 5.2 step 10): a
    recipient whose `encrypted_key` is anything but absent or the empty string is not unwrapped — so that "any change
    to the recipient's encrypted key makes decryption fail" holds for `dir` and `ECDH-ES` too, where the member takes
    no part in the computation -/
theorem direct_refuses_encrypted_key (P : Prims) (name : String) (fuel : Nat) (jwe rcp jwk cek : Json) (rnd : Bs)
    (hf : wrapFamily name = some .dir ∨ ∃ d, wrapFamily name = some (.ecdhes none d))
    (hne : noEncryptedKey rcp = false) :
    unw P (fuel + 1) name jwe rcp jwk cek rnd = none := by
  rcases hf with hf | ⟨d, hf⟩
  · cases cek <;> simp [unw, hf, hne]
  · cases cek with
    | obj c =>
      simp only [unw, hf, hne]
      simp only [Option.bind_eq_none_iff]
      intro hdr _ epk _ exc _ der _
      simp
    | _ => simp [unw, hf]

/-- the guard is not vacuous either way -/
example : noEncryptedKey (.obj [("encrypted_key", .str "AAAA")]) = false ∧ noEncryptedKey (.obj [("encrypted_key", .str "")]) = true ∧
    noEncryptedKey (.obj []) = true ∧ noEncryptedKey (.obj [("encrypted_key", .int 0)]) = false := by decide

end Jose.Props.C02
