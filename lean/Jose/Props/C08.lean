import Jose.Lemmas.B64
import Jose.Grid.C08
/-
  C08 — base64url codec is a canonical bijection and respects output bounds.
  Property theorems only; helper lemmas are in Jose/Lemmas/B64.lean.
  All statements are about the model in Jose/B64.lean (mirror of lib/b64.c) with
  the alphabet regenerated from include/jose/b64.h (Jose/Tables.lean).
-/
namespace Jose.Props.C08
open Jose B64 Tables

/-- bytes as the model sees them -/
def bytesOf (b : List UInt8) : List Nat := b.map (·.toNat)

theorem bytesOf_bytes (b : List UInt8) : Bytes (bytesOf b) := by
  intro x hx
  simp only [bytesOf, List.mem_map] at hx
  obtain ⟨u, _, rfl⟩ := hx
  exact u.toNat_lt

/-- the alphabet has 64 pairwise distinct characters and excludes
    NUL '=' '+' '/' space TAB LF CR -/
theorem alphabet : b64Map.length = 64 ∧ b64Map.Nodup ∧ ∀ c ∈ [0, 61, 43, 47, 32, 9, 10, 13], c ∉ b64Map := by
  decide

/-- C08 (1): decoding the encoding of any byte string gives the bytes back -/
theorem dec_enc (b : List UInt8) : decode (encChars (bytesOf b)) = some (bytesOf b) := by
  have hb := bytesOf_bytes b
  rw [decode_eq_decRef, encChars_eq, decRef, idxAll_map_mapChar _ (encS_sextets _ hb)]
  exact decS_encS _ hb

/-- C08 (2): the decoder accepts only canonical encodings — whatever it accepts is
    exactly the encoding of what it returns (so decode∘encode and encode∘decode are
    identities: a bijection between byte strings and accepted texts) -/
theorem enc_dec (e b : List Nat) (h : decode e = some b) : encChars b = e := by
  rw [decode_eq_decRef, decRef] at h
  cases hi : idxAll e with
  | none => simp [hi] at h
  | some s =>
    simp [hi] at h
    rw [encChars_eq, encS_decS s b (idxAll_sextets e s hi) h]
    exact map_mapChar_idxAll e s hi

/-- accepted text decodes to genuine bytes -/
theorem dec_is_bytes (e b : List Nat) (h : decode e = some b) : ∀ x ∈ b, x < 256 := by
  rw [decode_eq_decRef, decRef] at h
  cases hi : idxAll e with
  | none => simp [hi] at h
  | some s =>
    simp [hi] at h
    exact decS_bytes s b (idxAll_sextets e s hi) h

/-- encoded text consists of alphabet characters only -/
theorem enc_in_alphabet (b : List UInt8) : ∀ c ∈ encChars (bytesOf b), c ∈ b64Map := by
  intro c hc
  rw [encChars_eq] at hc
  simp only [List.mem_map] at hc
  obtain ⟨v, hv, rfl⟩ := hc
  have hlt := encS_sextets _ (bytesOf_bytes b) v hv
  have := mapIdx_mapChar v hlt
  apply Classical.byContradiction
  intro hn
  have := (mapIdx_none_iff _).mpr hn
  simp_all

/-- non-zero unused bits in the final character -/
def BadTail (e : List Nat) : Prop :=
  ∃ c v, e.getLast? = some c ∧ mapIdx c = some v ∧
    ((e.length % 4 = 2 ∧ v % 16 ≠ 0) ∨ (e.length % 4 = 3 ∧ v % 4 ≠ 0))

theorem idxAll_getLast (e s : List Nat) (h : idxAll e = some s) (x : Nat) :
    s.getLast? = some x ↔ ∃ c, e.getLast? = some c ∧ mapIdx c = some x := by
  induction e generalizing s with
  | nil => simp [idxAll] at h; subst h; simp
  | cons c r ih =>
    simp only [idxAll] at h
    cases hc : mapIdx c with
    | none => simp [hc] at h
    | some v =>
      cases hr : idxAll r with
      | none => simp [hc, hr] at h
      | some t =>
        simp [hc, hr] at h; subst h
        cases r with
        | nil => simp [idxAll] at hr; subst hr; simp [hc]
        | cons c2 r2 =>
          have hl : t ≠ [] := by
            have := idxAll_length _ _ hr
            intro ht; subst ht; simp at this
          obtain ⟨y, ys, rfl⟩ := List.exists_cons_of_ne_nil hl
          simp only [List.getLast?_cons_cons]
          exact ih (y :: ys) hr

/-- C08 (3): exactly what is rejected — length ≡ 1 (mod 4), a character outside the
    URL-safe alphabet, or non-zero unused bits in the last character -/
theorem reject_iff (e : List Nat) :
    decode e = none ↔ e.length % 4 = 1 ∨ (∃ c ∈ e, c ∉ b64Map) ∨ BadTail e := by
  rw [decode_eq_decRef, decRef]
  cases hi : idxAll e with
  | none =>
    have := (idxAll_none_iff e).mp hi
    simp [this]
  | some s =>
    have hlen := idxAll_length e s hi
    have hno : ¬ ∃ c ∈ e, c ∉ b64Map := by
      intro hh
      have := (idxAll_none_iff e).mpr hh
      simp [hi] at this
    simp only [Option.bind_some, decS_none_iff, hlen, hno, false_or]
    constructor
    · intro h
      rcases h with h | ⟨hm, x, hx, hb⟩ | ⟨hm, x, hx, hb⟩
      · exact Or.inl h
      · obtain ⟨c, hc1, hc2⟩ := (idxAll_getLast e s hi x).mp hx
        exact Or.inr ⟨c, x, hc1, hc2, Or.inl ⟨hm, hb⟩⟩
      · obtain ⟨c, hc1, hc2⟩ := (idxAll_getLast e s hi x).mp hx
        exact Or.inr ⟨c, x, hc1, hc2, Or.inr ⟨hm, hb⟩⟩
    · intro h
      rcases h with h | ⟨c, v, hc1, hc2, hh⟩
      · exact Or.inl h
      · have hx := (idxAll_getLast e s hi v).mpr ⟨c, hc1, hc2⟩
        rcases hh with ⟨hm, hb⟩ | ⟨hm, hb⟩
        · exact Or.inr (Or.inl ⟨hm, v, hx, hb⟩)
        · exact Or.inr (Or.inr ⟨hm, v, hx, hb⟩)

/-- any text containing '=', '+', '/', whitespace or NUL is rejected -/
theorem rejects_specials (e : List Nat) (c : Nat) (hc : c ∈ [0, 61, 43, 47, 32, 9, 10, 13]) (hm : c ∈ e) :
    decode e = none :=
  (reject_iff e).mpr (Or.inr (Or.inl ⟨c, hm, specials_not_in_map c hc⟩))

/-- C08 (4): the size query (NULL output) returns exactly the number of bytes a real
    call writes, for decoding … -/
theorem size_query_dec (e b : List Nat) (h : decode e = some b) : (decBuf e none).ret = some b.length := by
  rw [decode_eq_decRef, decRef] at h
  cases hi : idxAll e with
  | none => simp [hi] at h
  | some s =>
    simp [hi] at h
    have := decS_length s b h
    rw [idxAll_length e s hi] at this
    simpa [decBuf] using this

/-- … and for encoding -/
theorem size_query_enc (b : List Nat) : (encBuf b none).ret = some (encChars b).length := by
  simp [encBuf, encChars_eq, encS_length]

/-- C08 (5): a real decode call never writes beyond the stated output size, never
    reads beyond its input, and reports an error when the buffer is too small —
    for every input text, valid or not -/
theorem dec_bounds (e : List Nat) (ol : Nat) :
    (decBuf e (some ol)).written.length ≤ ol ∧ (decBuf e (some ol)).oob = false ∧
    (∀ need, dlen e.length = some need → ol < need → decBuf e (some ol) = ⟨none, [], false⟩) := by
  refine ⟨?_, ?_, ?_⟩
  · simp only [decBuf]
    cases hd : dlen e.length with
    | none => simp
    | some need =>
      simp only
      split
      · simp
      · rename_i hge
        have hw := decLoop_writes e 0 0
        simp at hw
        have := dlen_bound e.length need _ hd hw
        simp only
        omega
  · simp only [decBuf]
    cases hd : dlen e.length with
    | none => simp
    | some need =>
      simp only
      split
      · simp
      · have := decLoop_no_oob e 0 0 (by simpa using dlen_some_mod _ _ hd)
        simpa using this
  · intro need hd hlt
    simp [decBuf, hd, hlt]

/-- when the buffer is large enough the buffer form returns exactly `decode` -/
theorem dec_buf_agrees (e b : List Nat) (ol : Nat) (h : decode e = some b) (hol : b.length ≤ ol) :
    decBuf e (some ol) = ⟨some b.length, b, false⟩ := by
  have hsz := size_query_dec e b h
  simp only [decBuf] at hsz
  have hoob := (dec_bounds e ol).2.1
  simp only [decode, hsz] at h
  simp only [decBuf, hsz] at hoob ⊢
  have hnlt : ¬ ol < b.length := by omega
  simp only [hnlt, if_false] at hoob ⊢
  split at h
  · simp at h; subst h; simp_all
  · simp at h

/-- the encoder writes exactly `elen` characters, never more than `ol`, and refuses a
    buffer that is too small without writing -/
theorem enc_bounds (b : List Nat) (ol : Nat) :
    (encBuf b (some ol)).written.length ≤ ol ∧
    (ol < elen b.length → encBuf b (some ol) = ⟨none, [], false⟩) ∧
    (elen b.length ≤ ol → encBuf b (some ol) = ⟨some (elen b.length), encChars b, false⟩) := by
  have hl : (encChars b).length = elen b.length := by simp [encChars_eq, encS_length]
  refine ⟨?_, ?_, ?_⟩
  · simp only [encBuf]; split
    · simp
    · simp only [hl]; omega
  · intro h; simp [encBuf, h]
  · intro h
    have : ¬ ol < elen b.length := by omega
    simp [encBuf, this, hl]

/-- C08 (6): the JSON-string form is the raw-buffer form applied to the string's
    bytes, and anything that is not a JSON string is refused -/
theorem json_form_agrees (s : String) (o : Option Nat) : dec (some (.str s)) o = decBuf (bytesOfString s) o := rfl

theorem json_form_refuses (j : Json) (o : Option Nat) (h : j.isString = false) :
    (dec (some j) o).ret = none ∧ (dec none o).ret = none := by
  cases j <;> simp_all [dec, Json.isString]

/-- non-vacuity: a concrete text is accepted and a non-canonical sibling is rejected
    ("QUI" decodes to "AB"; "QUJ" has non-zero unused bits) -/
example : decode [81, 85, 73] = some [65, 66] ∧ decode [81, 85, 74] = none ∧ BadTail [81, 85, 74] := by
  refine ⟨by decide, by decide, 74, 9, by decide, by decide, Or.inr (by decide)⟩


/-! ### the model is the code, on a grid regenerated from the code on every run

  `Jose/Grid/C08.lean` is rewritten by the translator (tools/extract_tables.py) on every run: it holds
  what the library **built from the current working tree** answered, in-process, to a fixed grid of
  operations — the buffer and JSON-string forms of the codec: every text of length ≤ 2 over a 12-character alphabet (valid characters, `=`, `+`, `/`, space, NUL, 0xFF) and longer texts of every length class, every byte string of length ≤ 2 over 4 values and longer ones, each with the size query, the exact, a too small and a larger output size.
  `Driver.agrees` evaluates the model's handler for the row's operation (the same handler the
  correspondence run uses) and compares with the recorded answer by `json_equal`.  The theorem is
  checked by the kernel (`decide +kernel`: evaluation, no axiom); any edit of the C that changes one of
  these answers makes it false, and the check then reports a violation. -/
theorem model_is_code_on_grid : Jose.Grid.C08.chunks.all (fun c => c.all Jose.Driver.agrees) = true := by
  decide +kernel

end Jose.Props.C08
