import Jose.IO
import Jose.Own
import Jose.Props.C07
import Jose.Props.C09
/-
  C20 — a failed allocation makes the operation fail, never lie (partial: the logic part).

  In the chain model an allocation failure is a call on which a stage or the sink answers false
  (`probe (some k)`: the sink's `k`-th call fails — `malloc_feed`'s realloc, a buffer's limit, a
  JSON builder returning NULL).  Theorems: such a refusal, wherever it falls (feed or done), makes
  the head report failure; hence a reported success means the refusing call never took place, i.e.
  the run was the fault-free one.  A transformer whose own computation fails (no digest, no
  plaintext) fails the run.  The header functions are balanced on their allocation-failure paths.
  That every allocation site of the C code checks its result is established by exhaustive fault
  enumeration on the working tree (validation), not here.
-/
namespace Jose.Props.C20
open Jose Jose.IO Jose.Own Jose.Props.C07

/-- **A failing sink call fails the operation**: for every chain of codecs/transformers over a sink
    whose call number `k` fails, and every way of feeding it -/
theorem sink_fault_fails {k : Nat} {sg : Stage} (hl : Linear k sg) (cs : List (List Nat))
    (h : k < calls (run sg cs).1) : (run sg cs).2 = false :=
  fail_propagates hl cs h

/-- **Success is never reported over a fault**: if the run reports success, the failing call was
    never issued — the sink received at most `k` calls, all of them answered as in the fault-free
    run -/
theorem success_means_no_fault {k : Nat} {sg : Stage} (hl : Linear k sg) (cs : List (List Nat))
    (h : (run sg cs).2 = true) : calls (run sg cs).1 ≤ k := by
  by_cases hk : calls (run sg cs).1 ≤ k
  · exact hk
  · have := fail_propagates hl cs (by omega)
    rw [h] at this
    cases this

/-- a sink that refuses its very first call: nothing can succeed above it unless nothing is ever
    handed down -/
example : (run (.b64enc (.probe (some 0))) [[1, 2, 3]]).2 = false := by decide

/-- the stage that failed to produce its output (a hash without digest, a cipher without
    plaintext) fails `done`, whatever is below it -/
theorem xform_failure_fails (t : XF) (n : Stage) (acc : List Nat) (ns : IO.St) (h : t.final acc = none) :
    (done (.xform t n) (.xform acc ns)).2 = false := by
  simp [done, h]

/-- header merging when the allocation inside decoding fails (`Load.null`) or a merge fails: no
    header is returned, the caller's counts are unchanged, nothing is retained -/
theorem hdr_alloc_failure (prot : Option Kind) (hp : Bool) :
    (hdrScript (some .str) .null [(hp, true)]).returned = false ∧
    (hdrScript (some .str) .null [(hp, true)]).balanced = true ∧
    (hdrScript prot .obj [(true, false)]).returned = false ∧
    (hdrScript prot .obj [(true, false)]).balanced = true := by
  refine ⟨?_, ?_, ?_, ?_⟩
  · cases hp <;> rfl
  · cases hp <;> rfl
  · cases prot with
    | none => rfl
    | some k => cases k <;> rfl
  · cases prot with
    | none => rfl
    | some k => cases k <;> rfl

end Jose.Props.C20
