import Jose.IO
import Jose.Own
import Jose.Alloc
import Jose.Props.C07
import Jose.Props.C09
/-
  C20 — a failed allocation makes the operation fail, never lie (partial: the logic part).

  In the chain model an allocation failure is a call on which a stage or the sink answers false
  (`probe (some k)`: the sink's `k`-th call fails — `malloc_feed`'s realloc, a buffer's limit, a
  JSON builder returning NULL).  Theorems: such a refusal, wherever it falls (feed or done), makes
  the head report failure; hence a reported success means the refusing call never took place, i.e.
  the run was the fault-free one.  A transformer whose own computation fails (no digest, no
  plaintext) fails the run.  The header functions are balanced on their allocation-failure paths.
  That every allocation site of the C code checks its result is established by exhaustive fault
  enumeration on the working tree (validation), not here.
-/
namespace Jose.Props.C20
open Jose Jose.IO Jose.Own Jose.Props.C07

/-- **A failing sink call fails the operation**: for every chain of codecs/transformers over a sink
    whose call number `k` fails, and every way of feeding it -/
theorem sink_fault_fails {k : Nat} {sg : Stage} (hl : Linear k sg) (cs : List (List Nat))
    (h : k < calls (run sg cs).1) : (run sg cs).2 = false :=
  fail_propagates hl cs h

/-- **Success is never reported over a fault**: if the run reports success, the failing call was
    never issued — the sink received at most `k` calls, all of them answered as in the fault-free
    run -/
theorem success_means_no_fault {k : Nat} {sg : Stage} (hl : Linear k sg) (cs : List (List Nat))
    (h : (run sg cs).2 = true) : calls (run sg cs).1 ≤ k := by
  by_cases hk : calls (run sg cs).1 ≤ k
  · exact hk
  · have := fail_propagates hl cs (by omega)
    rw [h] at this
    cases this

/-- a sink that refuses its very first call: nothing can succeed above it unless nothing is ever
    handed down -/
example : (run (.b64enc (.probe (some 0))) [[1, 2, 3]]).2 = false := by decide

/-- the stage that failed to produce its output (a hash without digest, a cipher without
    plaintext) fails `done`, whatever is below it -/
theorem xform_failure_fails (t : XF) (n : Stage) (acc : List Nat) (ns : IO.St) (h : t.final acc = none) :
    (done (.xform t n) (.xform acc ns)).2 = false := by
  simp [done, h]

/-- header merging when the allocation inside decoding fails (`Load.null`) or a merge fails: no
    header is returned, the caller's counts are unchanged, nothing is retained -/
theorem hdr_alloc_failure (prot : Option Kind) (hp : Bool) :
    (hdrScript (some .str) .null [(hp, true)]).returned = false ∧
    (hdrScript (some .str) .null [(hp, true)]).balanced = true ∧
    (hdrScript prot .obj [(true, false)]).returned = false ∧
    (hdrScript prot .obj [(true, false)]).balanced = true := by
  refine ⟨?_, ?_, ?_, ?_⟩
  · cases hp <;> rfl
  · cases hp <;> rfl
  · cases prot with
    | none => rfl
    | some k => cases k <;> rfl
  · cases prot with
    | none => rfl
    | some k => cases k <;> rfl

/-! ### allocation-fault schedules over a whole call (the statement the fault enumeration samples)

  The harness measures `N = count p` on the fault-free run and then fails allocation `k` for every
  `k < N`.  For every call that follows the library's discipline (`Checked`: after a NULL, only a
  reported failure can be reached) the outcome of *every* schedule is determined: -/
open Jose.Alloc

theorem allFail_exec {α : Type} (p : Prog α) (h : AllFail p) (n : Nat) (f : Option Nat) :
    exec p n f = .failed := by
  induction p generalizing n with
  | ret a => exact h.elim
  | fail => rfl
  | crash => exact h.elim
  | alloc k ih =>
    simp only [exec]
    cases hb : (f != some n)
    · exact ih false h.2 (n + 1)
    · exact ih true h.1 (n + 1)

/-- **A fault that fires makes the call fail** — for every checked call, every starting counter and
    every fault index that falls on one of the allocations the fault-free run performs -/
theorem fault_fires_fails {α : Type} (p : Prog α) (h : Checked p) (n k : Nat)
    (hlo : n ≤ k) (hhi : k < n + count p) : exec p n (some k) = .failed := by
  induction p generalizing n with
  | ret a => simp [count] at hhi; omega
  | fail => rfl
  | crash => exact h.elim
  | alloc c ih =>
    simp only [exec]
    by_cases hk : k = n
    · subst hk
      have : (some k != some k) = false := by simp
      rw [this]
      exact allFail_exec _ h.2 _ _
    · have : (some k != some n) = true := by simp [hk]
      rw [this]
      exact ih true h.1 (n + 1) (by omega) (by simp [count] at hhi; omega)

/-- **A fault that does not fire changes nothing** (no hypothesis on the program) -/
theorem fault_beyond_same {α : Type} (p : Prog α) (n k : Nat) (h : k < n ∨ n + count p ≤ k) :
    exec p n (some k) = exec p n none := by
  induction p generalizing n with
  | ret a => rfl
  | fail => rfl
  | crash => rfl
  | alloc c ih =>
    simp only [exec]
    have hk : k ≠ n := by
      rcases h with h | h
      · omega
      · simp [count] at h; omega
    have h1 : (some k != some n) = true := by simp [hk]
    have h2 : ((none : Option Nat) != some n) = true := by simp
    rw [h1, h2]
    refine ih true (n + 1) ?_
    rcases h with h | h
    · left; omega
    · right; simp [count] at h; omega

/-- **Never lie, never crash**: under any single failed allocation a checked call either reports
    failure or returns exactly what the fault-free call returns -/
theorem never_lies {α : Type} (p : Prog α) (h : Checked p) (k : Nat) :
    exec p 0 (some k) = .failed ∨ exec p 0 (some k) = exec p 0 none := by
  by_cases hk : k < count p
  · exact .inl (fault_fires_fails p h 0 k (by omega) (by omega))
  · exact .inr (fault_beyond_same p 0 k (.inr (by omega)))

/-- the fault-free run of a checked call does not crash either -/
theorem checked_no_crash {α : Type} (p : Prog α) (h : Checked p) (n : Nat) (f : Option Nat) :
    exec p n f ≠ .crashed := by
  induction p generalizing n with
  | ret a => simp [exec]
  | fail => simp [exec]
  | crash => exact h.elim
  | alloc c ih =>
    simp only [exec]
    cases hb : (f != some n)
    · rw [allFail_exec _ h.2]; simp
    · exact ih true h.1 (n + 1)

/-- the two calls of lib/hsh.c follow the discipline although they test their three constructors
    together, for either outcome of the digest computation -/
theorem hsh_checked (okRun : Bool) : Checked (hshProg okRun) ∧ Checked (hshBufProg okRun) := by
  constructor <;> (rw [← checkedB_iff]; cases okRun <;> decide)

/-- hence `jose_jwk_thp` / `jose_jwk_thp_buf`'s hashing step never lies under any fault -/
theorem hsh_never_lies (okRun : Bool) (k : Nat) :
    exec (hshProg okRun) 0 (some k) = .failed ∨ exec (hshProg okRun) 0 (some k) = exec (hshProg okRun) 0 none :=
  never_lies _ (hsh_checked okRun).1 k

/-- any number of individually tested allocations is checked -/
theorem steps_checked {α : Type} (a : α) (n : Nat) : Checked (steps a n) := by
  induction n with
  | zero => trivial
  | succ n ih => exact ⟨by simpa [steps, step] using ih, by simp [AllFail]⟩

/-- non-vacuity: the hypotheses are met by a call that does return a result, the fault fires for
    k = 0..3 and not for k = 4 -/
example : exec (hshProg true) 0 none = .ok () ∧ count (hshProg true) = 4 ∧
    exec (hshProg true) 0 (some 3) = .failed ∧ exec (hshProg true) 0 (some 4) = .ok () := by decide

/-- the discipline is what carries the theorem: testing only the head of the chain (seeded change
    C20-7) is not checked, and the schedule "first allocation fails" crashes -/
example : checkedB (hshProgHeadOnly true) = false ∧ exec (hshProgHeadOnly true) 0 (some 0) = .crashed := by decide

/-! ### the discipline composes -/

theorem allFail_bind {α β : Type} (p : Prog α) (f : α → Prog β) (h : AllFail p) : AllFail (Alloc.bind p f) := by
  induction p with
  | ret a => exact h.elim
  | fail => trivial
  | crash => exact h.elim
  | alloc k ih => exact ⟨ih true h.1, ih false h.2⟩

/-- **Sequencing checked calls gives a checked call**: a call built from calls that each follow the
    discipline follows it — so `never_lies` holds for the composite with no further work -/
theorem checked_bind {α β : Type} (p : Prog α) (f : α → Prog β) (hp : Checked p) (hf : ∀ a, Checked (f a)) :
    Checked (Alloc.bind p f) := by
  induction p with
  | ret a => exact hf a
  | fail => trivial
  | crash => exact hp.elim
  | alloc k ih => exact ⟨ih true hp.1, allFail_bind _ f hp.2⟩

/-- the allocation count of a composite whose first part returns: the sum -/
theorem count_bind_steps {β : Type} (n : Nat) (q : Prog β) :
    count (Alloc.bind (steps () n) fun _ => q) = n + count q := by
  induction n with
  | zero => simp [steps, Alloc.bind]
  | succ n ih =>
    have h : count (Alloc.bind (steps () (n + 1)) fun _ => q) = count (Alloc.bind (steps () n) fun _ => q) + 1 := by
      simp [steps, step, Alloc.bind, count]
    rw [h, ih]; omega

theorem b64Enc_checked (sizeOk : Bool) : Checked (b64EncProg sizeOk) := by
  rw [← checkedB_iff]; cases sizeOk <;> decide

/-- the JSON wrappers of lib/b64.c, for any number of allocations inside the JSON layer's dump / parse -/
theorem b64_wrappers_checked (dump parse : Nat) (sizeOk decOk parseOk : Bool) :
    Checked (b64EncDumpProg dump sizeOk) ∧ Checked (b64DecLoadProg sizeOk decOk parseOk parse) := by
  constructor
  · exact checked_bind _ _ (steps_checked () dump) (fun _ => b64Enc_checked sizeOk)
  · unfold b64DecLoadProg
    cases sizeOk
    · trivial
    · refine ⟨?_, trivial⟩
      cases decOk
      · trivial
      · exact checked_bind _ _ (steps_checked () parse) (fun _ => by cases parseOk <;> trivial)

/-- hence: under any single failed allocation `jose_b64_enc_dump` fails or returns what it returns
    without the fault, however many allocations the dump makes -/
theorem b64_enc_dump_never_lies (dump k : Nat) (sizeOk : Bool) :
    exec (b64EncDumpProg dump sizeOk) 0 (some k) = .failed ∨
    exec (b64EncDumpProg dump sizeOk) 0 (some k) = exec (b64EncDumpProg dump sizeOk) 0 none :=
  never_lies _ (b64_wrappers_checked dump 0 sizeOk true true).1 k

example : count (b64EncDumpProg 5 true) = 7 ∧ exec (b64EncDumpProg 5 true) 0 none = .ok () ∧
    exec (b64EncDumpProg 5 true) 0 (some 6) = .failed := by decide

end Jose.Props.C20
