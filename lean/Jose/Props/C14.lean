import Jose.Jwe
import Jose.Lemmas.Pbes2
/-
  C14 — hostile parameters cannot force unbounded work or oversized buffers.

  Work is bounded because every guard sits *before* the primitive it protects: the theorems below
  hold for every instance `P` of the primitives, so a refusal cannot depend on (hence cannot have
  run) key derivation, decryption or decompression; and whenever derivation does run, its
  iteration count is within the table constants.  "Promptly" in wall-clock terms is measured by the
  correspondence run (watchdog), not proved.
-/
namespace Jose.Props.C14
open Jose Jose.Jwe Jose.Jws Jose.Entity Tables

/-! ### PBES2 iteration count and salt, consuming side -/

/-- an iteration count above the maximum — or below one — is refused for every instance of the
    primitives: before, and independently of, any key derivation -/
theorem p2c_unwrap_refused (P : Prims) (name hs aes : String) (klen fuel : Nat) (jwe rcp jwk cek hdr : Json) (rnd : Bs)
    (p2c : Int) (hf : wrapFamily name = some (.pbes2 hs aes klen)) (hh : jweHdr jwe (some rcp) = some hdr)
    (hp : hdr.get? "p2c" = some (.int p2c)) (hbad : p2c > p2cMax ∨ p2c < 1) :
    unw P (fuel + 1) name jwe rcp jwk cek rnd = none := by
  simp only [unw, hf]
  cases cek with
  | obj c => simp [hh, pbes2UnwParams_refuses_large hdr p2c hp hbad]
  | _ => rfl

/-- a count that is not a JSON integer (absent, string, real, …) is refused likewise -/
theorem p2c_unwrap_not_integer (P : Prims) (name hs aes : String) (klen fuel : Nat) (jwe rcp jwk cek hdr : Json) (rnd : Bs)
    (hf : wrapFamily name = some (.pbes2 hs aes klen)) (hh : jweHdr jwe (some rcp) = some hdr)
    (hp : ∀ v, hdr.get? "p2c" ≠ some (.int v)) :
    unw P (fuel + 1) name jwe rcp jwk cek rnd = none := by
  have : pbes2UnwParams hdr = none := by
    unfold pbes2UnwParams
    cases h : hdr.get? "p2c" with
    | none => rfl
    | some j => cases j <;> first | rfl | exact absurd h (hp _)
  simp only [unw, hf]
  cases cek with
  | obj c => simp [hh, this]
  | _ => rfl

/-- **Bounded work on unwrap.**  Whenever PBES2 unwrapping succeeds, the one key derivation it
    performed ran with the header's own count, 1 ≤ count ≤ 32768 (table constant), over a salt of
    8..KEYMAX bytes and a password of at most KEYMAX bytes -/
theorem p2c_unwrap_work_bounded (P : Prims) (name hs aes : String) (klen fuel : Nat) (jwe rcp jwk cek cek' : Json) (rnd : Bs)
    (hf : wrapFamily name = some (.pbes2 hs aes klen))
    (h : unw P (fuel + 1) name jwe rcp jwk cek rnd = some cek') :
    ∃ hdr p2c st pw dk, jweHdr jwe (some rcp) = some hdr ∧ hdr.get? "p2c" = some (.int p2c) ∧
      1 ≤ p2c ∧ p2c ≤ p2cMax ∧ bytesOfJson (hdr.get? "p2s") = some st ∧ 8 ≤ st.length ∧ st.length ≤ keymax ∧
      pbes2Password jwk = some pw ∧
      P.pbkdf2 hs pw (B64.bytesOfString name ++ [0] ++ st) p2c klen = some dk := by
  simp only [unw, hf] at h
  cases cek with
  | obj c =>
    simp only [Option.bind_eq_some_iff] at h
    obtain ⟨hdr, hh, ⟨it, st⟩, hpar, key, hkey, _⟩ := h
    obtain ⟨p2c, hp, h1, h2, rfl, hst, hl1, hl2⟩ := pbes2UnwParams_some hdr it st hpar
    unfold pbes2Key at hkey
    simp only [Option.bind_eq_some_iff, Option.map_eq_some_iff] at hkey
    obtain ⟨pw, hpw, dk, hdk, _⟩ := hkey
    exact ⟨hdr, it, st, pw, dk, hh, hp, h1, h2, hst, hl1, hl2, hpw, hdk⟩
  | _ => simp at h

theorem password_bounded (jwk : Json) (pw : Bs) (h : pbes2Password jwk = some pw) : pw.length ≤ keymax := by
  unfold pbes2Password at h
  cases jwk with
  | str s =>
    simp only at h
    split at h
    · simp at h
    · simp only [Option.some.injEq] at h; subst h; omega
  | _ =>
    simp only at h
    split at h
    · split at h
      · simp at h
      · simp only [Option.some.injEq] at h; subst h; omega
    · simp at h

/-! ### PBES2 iteration count, producing side -/

/-- the count a wrap uses is the header's own 64-bit integer (the maximum when absent) and lies
    within 1000..32768; everything else is refused — for every 64-bit value, none narrowed -/
theorem p2c_wrap_bounds (hdr : Json) (n : Int) (h : pbes2WrpIter hdr = some n) :
    p2cMin ≤ n ∧ n ≤ p2cMax ∧
    ((hdr.get? "p2c" = some (.int n)) ∨ (Gen.optInt hdr "p2c" = some none ∧ n = p2cMax)) :=
  pbes2WrpIter_some hdr n h

theorem p2c_wrap_refused (kvs : List (String × Json)) (v : Int) (hp : Json.lookup "p2c" kvs = some (.int v))
    (hbad : v < p2cMin ∨ v > p2cMax) : pbes2WrpIter (.obj kvs) = none := by
  unfold pbes2WrpIter Gen.optInt
  simp only [hp, Option.bind_some]
  split
  · rfl
  · rename_i hr
    simp only [Bool.or_eq_true, decide_eq_true_eq, not_or, Int.not_lt] at hr
    omega

/-- the bounds are the documented ones (regenerated from lib/openssl/pbes2.c on every run) -/
theorem p2c_constants : p2cMin = 1000 ∧ p2cMax = 32768 ∧ keymax = 1024 ∧ maxCompressed = 262144 := by decide

/-- the default count is acceptable -/
example : pbes2WrpIter (.obj []) = some 32768 := by decide

/-- counts that only look small after 32-bit narrowing are refused -/
example : pbes2WrpIter (.obj [("p2c", .int (4294967296 + 1000))]) = none ∧
    pbes2UnwParams (.obj [("p2c", .int (-2147483649)), ("p2s", .str "AAAAAAAAAAAA")]) = none ∧
    pbes2UnwParams (.obj [("p2c", .int (-4294966296)), ("p2s", .str "AAAAAAAAAAAA")]) = none := by decide

/-! ### compressed input -/

/-- one-shot decryption refuses a compressed JWE (zip named in the *protected* header) whose
    ciphertext text is longer than 256 KiB — for every instance of the primitives, i.e. before
    any decryption or decompression -/
theorem zip_limit (P : Prims) (jwe cek : Json) (ct : String)
    (hct : jwe.get? "ciphertext" = some (.str ct))
    (hz : zipInProtected jwe = true)
    (hlen : (B64.bytesOfString ct).length > maxCompressed) :
    decCek P jwe cek = none := by
  simp [decCek, hct, hz, hlen]

/-- **the limit cannot be skipped by a protected header that cannot be read** (fix F35): above the limit, a JWE whose
    protected header is text that does not decode to JSON is refused like a compressed one -/
theorem zip_limit_unreadable_header (P : Prims) (jwe cek : Json) (ct s : String)
    (hct : jwe.get? "ciphertext" = some (.str ct)) (hp : jwe.get? "protected" = some (.str s))
    (hd : B64.decLoad (some (.str s)) = none)
    (hlen : (B64.bytesOfString ct).length > maxCompressed) :
    decCek P jwe cek = none :=
  zip_limit P jwe cek ct hct (by simp [zipInProtected, hp, hd]) hlen

/-- a protected header that names a registered compression, in either form, is "compressed" for the guard -/
theorem zipInProtected_of_named (jwe prt : Json) (s z : String) (hp : jwe.get? "protected" = some (.str s))
    (hd : B64.decLoad (some (.str s)) = some prt) (hz : prt.getStr? "zip" = some z) (hf : findComp z = true) :
    zipInProtected jwe = true := by
  simp [zipInProtected, hp, hd, hz, hf]

/-- within the limit (or without compression) the guard plays no role -/
theorem zip_limit_exact (P : Prims) (jwe cek : Json) (ct : String)
    (hct : jwe.get? "ciphertext" = some (.str ct))
    (hok : zipInProtected jwe = false ∨ (B64.bytesOfString ct).length ≤ maxCompressed) :
    decCek P jwe cek = (decBody P jwe cek).bind fun f => (B64.decode (B64.bytesOfString ct)).bind f := by
  simp only [decCek, hct]
  rcases hok with h | h
  · simp [h]
  · have : ¬ (B64.bytesOfString ct).length > maxCompressed := by omega
    simp [this]

/-- non-vacuity: an unreadable protected header counts as compressed, `{"zip":"DEF"}` too, `{}` does not -/
example : zipInProtected (.obj [("protected", .str "!!")]) = true ∧ zipInProtected (.obj [("protected", .str "eyJ6aXAiOiJERUYifQ")]) = true ∧
    zipInProtected (.obj [("protected", .str "e30")]) = false := by decide +kernel

/-! ### sizes that feed fixed KEYMAX buffers -/

/-- HMAC keys: between the digest size and KEYMAX bytes -/
theorem hmac_key_bounds (h : String) (jwk : Json) (k : Bs) (hk : hmacKey h jwk = some k) :
    hashLen h ≤ k.length ∧ k.length ≤ keymax := by
  unfold hmacKey at hk
  split at hk
  · split at hk
    · simp at hk
    · split at hk
      · simp at hk
      · simp only [Option.some.injEq] at hk; subst hk; omega
  · simp at hk

/-- apu / apv / exchanged coordinate: at most KEYMAX bytes, else the derivation is refused -/
theorem opt_bytes_bound (o : Json) (m : String) (b : Bs) (h : optBytesMax o m = some b) : b.length ≤ keymax := by
  unfold optBytesMax at h
  split at h
  · split at h
    · simp only [Option.some.injEq] at h; subst h; simp
    · split at h
      · split at h
        · simp at h
        · simp only [Option.some.injEq] at h; subst h; omega
      · simp at h
    · simp at h
  · simp at h

theorem ecdhes_sizes (P : Prims) (name : String) (kw : Option String) (dklFix : Option Nat) (hdr cek exc key : Json)
    (h : ecdhesDerive P name kw dklFix hdr cek exc = some key) :
    ∃ pu pv z, optBytesMax hdr "apu" = some pu ∧ optBytesMax hdr "apv" = some pv ∧ optBytesMax exc "x" = some z ∧
      pu.length ≤ keymax ∧ pv.length ≤ keymax ∧ z.length ≤ keymax := by
  unfold ecdhesDerive at h
  simp only [Option.bind_eq_some_iff] at h
  obtain ⟨_, _, _, _, _, _, h⟩ := h
  split at h
  · simp at h
  · simp only [Option.bind_eq_some_iff, Option.map_eq_some_iff] at h
    obtain ⟨pu, hpu, pv, hpv, z, hz, _⟩ := h
    exact ⟨pu, pv, z, hpu, hpv, hz, opt_bytes_bound _ _ _ hpu, opt_bytes_bound _ _ _ hpv, opt_bytes_bound _ _ _ hz⟩

/-- exact-length keys: nothing longer (or shorter) than the algorithm's key is ever accepted -/
theorem exact_key (o : Json) (m : String) (n : Nat) (k : Bs) (h : exactKey o m n = some k) : k.length = n := by
  unfold exactKey at h
  split at h
  · split at h
    · simp only [Option.some.injEq] at h; subst h; assumption
    · simp at h
  · simp at h

/-- non-vacuity of the unwrap theorem's premises: a header the guards let through -/
example : pbes2UnwParams (.obj [("p2c", .int 1000), ("p2s", .str "AAAAAAAAAAAA")]) =
    some (1000, [0, 0, 0, 0, 0, 0, 0, 0, 0]) := by decide

end Jose.Props.C14
