import Jose.Gen
import Jose.Jwe
import Jose.Lemmas.Json
import Jose.Lemmas.B64
/-
  C11 — generated keys are valid, sized as requested, and are the random generator's output.

  `jose_jwk_gen` = PREP hooks (what "alg" implies; conflicts refused) ; MAKE hook of the key type ;
  key_ops inference ; required-member check.  The theorems characterise each stage for every
  template and every instance of the primitives.  "Fresh" is not a property a theorem about a
  deterministic model can state; what is proved is that the key material / IV / salt *is* the
  generator's output (no constant, no reuse of earlier output), so distinct generator outputs give
  distinct values; that OpenSSL's generator does not repeat is validated by the distinctness runs.
-/
namespace Jose.Props.C11
open Jose Jose.Gen Jose.Json Jose.Jws Tables

/-! ### symmetric keys -/

/-- an oct key is made only for 1 ≤ bytes ≤ KEYMAX; "k" is exactly the next `bytes` bytes of the
    random generator, "bytes" is removed, nothing else changes -/
theorem make_oct (P : Prims) (kvs : List (String × Json)) (rnd : Bs) (out : Json)
    (hk : (Json.obj kvs).getStr? "kty" = some "oct") (h : make P (.obj kvs) rnd = some out) :
    ∃ n : Int, lookup "bytes" kvs = some (.int n) ∧ 1 ≤ n ∧ n ≤ keymax ∧
      out = .obj (setKV "k" (B64.enc (rnd.take n.toNat)) (delKV "bytes" kvs)) := by
  simp only [make, hk, makeOct] at h
  split at h
  · rename_i len hl
    split at h
    · simp at h
    · rename_i hr
      simp only [Bool.or_eq_true, decide_eq_true_eq, not_or, Int.not_le, Int.not_lt] at hr
      simp only [Option.some.injEq] at h
      exact ⟨len, hl, by omega, hr.2, h.symm⟩
  · simp at h

theorem make_oct_members (P : Prims) (kvs : List (String × Json)) (rnd : Bs) (out : Json)
    (hk : (Json.obj kvs).getStr? "kty" = some "oct") (h : make P (.obj kvs) rnd = some out) :
    out.get? "bytes" = none ∧ out.getStr? "kty" = some "oct" ∧
    ∃ n : Int, 1 ≤ n ∧ n ≤ keymax ∧ out.get? "k" = some (B64.enc (rnd.take n.toNat)) := by
  obtain ⟨n, _, h1, h2, rfl⟩ := make_oct P kvs rnd out hk h
  refine ⟨?_, ?_, n, h1, h2, ?_⟩
  · simp [Json.get?, lookup_setKV_other, lookup_delKV_same]
  · simp only [Json.getStr?, Json.get?] at hk ⊢
    rw [lookup_setKV_other _ _ _ _ (by decide), lookup_delKV_other _ _ _ (by decide)]
    exact hk
  · simp [Json.get?, lookup_setKV_same]

/-- distinct generator outputs give distinct keys: base64url text determines the bytes -/
theorem oct_key_injective (a b : Bs) (ha : ∀ x ∈ a, x < 256) (hb : ∀ x ∈ b, x < 256) (h : B64.enc a = B64.enc b) : a = b := by
  have h1 := B64.dec_enc_json a ha
  have h2 := B64.dec_enc_json b hb
  rw [h] at h1
  rw [h1] at h2
  exact Option.some.inj h2

/-! ### RSA -/

/-- an RSA key is made only for bits ≥ 2048 (default 2048) and an admissible public exponent
    (default 65537; 3, or odd with 17..256 bits); its members are the generator's for exactly those
    parameters -/
theorem make_rsa (P : Prims) (kvs : List (String × Json)) (rnd : Bs) (out : Json)
    (hk : (Json.obj kvs).getStr? "kty" = some "RSA") (h : make P (.obj kvs) rnd = some out) :
    ∃ (bits : Int) (e : Nat) (ms : List (String × Bs)) (okvs : List (String × Json)),
      2048 ≤ bits ∧ expOk e = true ∧ P.rsaGen bits.toNat e rnd = some ms ∧ out = .obj okvs ∧
      copyVal (ms.map (fun (n, b) => (n, B64.enc b))) (delKV "e" (delKV "bits" kvs))
        ["n", "e", "p", "d", "q", "dp", "dq", "qi"] = some okvs ∧
      rsaBits kvs = some bits := by
  simp only [make, hk, makeRsa] at h
  cases hb : rsaBits kvs with
  | none => simp [hb] at h
  | some bits =>
    simp only [hb, Option.bind_some] at h
    split at h
    · simp at h
    · rename_i hbits
      cases hev : rsaExp kvs with
      | none => simp [hev] at h
      | some ev =>
        simp only [hev, Option.bind_some] at h
        split at h
        · simp at h
        · rename_i hexp
          cases hms : P.rsaGen bits.toNat ev rnd with
          | none => simp [hms] at h
          | some ms =>
            simp only [hms, Option.bind_some, Option.map_eq_some_iff] at h
            obtain ⟨okvs, hc, rfl⟩ := h
            exact ⟨bits, ev, ms, okvs, by omega, by simpa using hexp, hms, rfl, hc, rfl⟩

/-- the size used is the requested one, 2048 when none is given; there is no narrowing: a request
    beyond INT_MAX is refused, not wrapped -/
theorem rsa_bits_spec (kvs : List (String × Json)) :
    rsaBits kvs = (match optInt (.obj kvs) "bits" with
      | some (some b) => if b > 2147483647 then none else some b | some none => some 2048 | none => none) := by
  unfold rsaBits
  cases optInt (.obj kvs) "bits" with
  | none => rfl
  | some o => cases o <;> rfl

/-- the exponent used is the requested one: absent = 65537, a non-negative integer, or the number a
    base64url string encodes; any other JSON type and negative integers are refused -/
theorem rsa_exp_spec (kvs : List (String × Json)) (e : Nat) (h : rsaExp kvs = some e) :
    (lookup "e" kvs = none ∧ e = 65537) ∨ (∃ i : Int, lookup "e" kvs = some (.int i) ∧ 0 ≤ i ∧ e = i.toNat) ∨
    (∃ s b, lookup "e" kvs = some (.str s) ∧ B64.decode (B64.bytesOfString s) = some b ∧ e = natOfBytes b) := by
  unfold rsaExp at h
  split at h
  · left; simp_all
  · right; right
    rename_i s hs
    simp only [Option.map_eq_some_iff] at h
    obtain ⟨b, hb, rfl⟩ := h
    exact ⟨s, b, hs, hb, rfl⟩
  · right; left
    rename_i i hi
    split at h
    · simp at h
    · rename_i hneg
      simp only [Option.some.injEq] at h
      exact ⟨i, hi, by omega, h.symm⟩
  · simp at h

/-- `copy_val` touches only the names it is given -/
theorem lookup_copyVal_other (src : List (String × Json)) (names : List String) :
    ∀ (into out : List (String × Json)) (m : String), m ∉ names → copyVal src into names = some out →
      lookup m out = lookup m into := by
  induction names with
  | nil => intro into out m _ h; simp only [copyVal, Option.some.injEq] at h; subst h; rfl
  | cons n r ih =>
    intro into out m hm h
    simp only [List.mem_cons, not_or] at hm
    simp only [copyVal] at h
    split at h
    · simp at h
    · split at h
      · split at h
        · exact ih _ _ _ hm.2 h
        · simp at h
      · rw [ih _ _ _ hm.2 h, lookup_setKV_other _ _ _ _ hm.1]

/-- the size request is consumed: no "bits" member in a generated RSA key -/
theorem make_rsa_no_bits (P : Prims) (kvs : List (String × Json)) (rnd : Bs) (out : Json)
    (hk : (Json.obj kvs).getStr? "kty" = some "RSA") (h : make P (.obj kvs) rnd = some out) :
    out.get? "bits" = none := by
  obtain ⟨_, _, _, okvs, _, _, _, rfl, hc, _⟩ := make_rsa P kvs rnd out hk h
  simp only [Json.get?]
  rw [lookup_copyVal_other _ _ _ _ "bits" (by decide) hc, lookup_delKV_other _ _ _ (by decide), lookup_delKV_same]

/-- exponents: the rule of `check_public_exponent` on concrete values -/
example : expOk 3 = true ∧ expOk 65537 = true ∧ expOk 1 = false ∧ expOk 65536 = false ∧ expOk 5 = false ∧
    expOk 65539 = true ∧ expOk (2 ^ 256 + 1) = false := by decide

/-- sizes below 2048 bits are refused -/
theorem rsa_small_refused (P : Prims) (kvs : List (String × Json)) (rnd : Bs) (bits : Int)
    (hb : rsaBits kvs = some bits) (hs : bits < 2048) : makeRsa P kvs rnd = none := by
  simp [makeRsa, hb, hs]

example : rsaBits [("bits", .int 2047)] = some 2047 ∧ rsaBits [("bits", .int (4294967296 + 2048))] = none ∧
    rsaBits [] = some 2048 ∧ rsaBits [("bits", .str "4096")] = none ∧
    rsaExp [("e", .int (-1))] = none ∧ rsaExp [("e", .bool true)] = none ∧ rsaExp [("e", .int 3)] = some 3 := by decide

/-! ### EC -/

/-- an EC key is made only on one of the four named curves (default P-256) and consists of the
    generator's (d, x, y) for that curve -/
theorem make_ec (P : Prims) (kvs : List (String × Json)) (rnd : Bs) (out : Json)
    (hk : (Json.obj kvs).getStr? "kty" = some "EC") (h : make P (.obj kvs) rnd = some out) :
    ∃ crv d x y okvs, crv ∈ ["P-256", "P-384", "P-521", "secp256k1"] ∧ P.ecGen crv rnd = some (d, x, y) ∧
      out = .obj okvs ∧
      copyVal [("crv", .str crv), ("x", B64.enc x), ("y", B64.enc y), ("d", B64.enc d)] kvs ["crv", "x", "y", "d"] = some okvs ∧
      (match optStr (.obj kvs) "crv" with | some (some c) => crv = c | some none => crv = "P-256" | none => False) := by
  simp only [make, hk, makeEc, Option.bind_eq_some_iff, Option.map_eq_some_iff] at h
  obtain ⟨crvO, hc, len, hlen, ⟨d, x, y⟩, hgen, okvs, hcv, rfl⟩ := h
  refine ⟨_, d, x, y, okvs, ?_, hgen, rfl, hcv, ?_⟩
  · generalize (match crvO with | some c => c | none => "P-256") = crv at hlen
    simp only [crvLen] at hlen
    split at hlen <;> simp_all
  · rw [hc]
    cases crvO <;> simp

/-- what `copy_val` leaves under a copied name equals (json_equal) the generated value -/
theorem lookup_copyVal_mem (src : List (String × Json)) (names : List String) :
    ∀ (into out : List (String × Json)) (m : String), m ∈ names → copyVal src into names = some out →
      ∃ f v, lookup m src = some f ∧ lookup m out = some v ∧ (v = f ∨ Json.equal v f = true) := by
  induction names with
  | nil => intro _ _ m hm; simp at hm
  | cons n r ih =>
    intro into out m hm h
    simp only [copyVal] at h
    split at h
    · simp at h
    · rename_i f hf
      by_cases hin : m ∈ r
      · split at h
        · split at h
          · exact ih _ _ _ hin h
          · simp at h
        · exact ih _ _ _ hin h
      · have hmn : m = n := by
          simp only [List.mem_cons] at hm
          exact hm.resolve_right hin
        subst hmn
        split at h
        · rename_i i hi
          split at h
          · rename_i heq
            exact ⟨f, i, hf, by rw [lookup_copyVal_other _ _ _ _ m hin h]; exact hi, Or.inr heq⟩
          · simp at h
        · exact ⟨f, f, hf, by rw [lookup_copyVal_other _ _ _ _ m hin h, lookup_setKV_same], Or.inl rfl⟩

/-! ### what the algorithm implies; contradictions are refused -/

theorem prep_conflict_kty (jwk : Json) (r : PrepRec) (k : String) (hr : prepRow jwk = some r)
    (hk : optStr jwk "kty" = some (some k)) (hne : k ≠ r.kty) : prep jwk = none := by
  unfold prep
  simp only [hr]
  cases jwk with
  | obj kvs => simp [hk, hne]
  | _ => rfl

theorem prep_conflict_bytes (kvs : List (String × Json)) (r : PrepRec) (b : Int) (len : Nat)
    (hr : prepRow (.obj kvs) = some r) (hoct : r.kty = "oct") (hlen : r.bytes = some len)
    (hkty : optStr (.obj kvs) "kty" = some none ∨ optStr (.obj kvs) "kty" = some (some "oct"))
    (hb : optInt (.obj kvs) "bytes" = some (some b)) (h0 : b ≠ 0) (hne : b ≠ len) : prep (.obj kvs) = none := by
  unfold prep
  simp only [hr]
  rcases hkty with hk | hk <;> simp [hk, hoct, hb, hlen, h0, hne]

theorem prep_conflict_crv (kvs : List (String × Json)) (r : PrepRec) (c grp : String)
    (hr : prepRow (.obj kvs) = some r) (hec : r.kty = "EC") (hg : r.crv = some grp) (hs : r.crvStrict = true)
    (hkty : optStr (.obj kvs) "kty" = some none ∨ optStr (.obj kvs) "kty" = some (some "EC"))
    (hc : optStr (.obj kvs) "crv" = some (some c)) (hne : c ≠ grp) : prep (.obj kvs) = none := by
  unfold prep
  simp only [hr]
  have : r.kty ≠ "oct" := by rw [hec]; decide
  rcases hkty with hk | hk <;> simp [hk, hec, hc, hg, hs, hne]

/-- without "alg" (or with an unknown one) the template goes to the MAKE hook untouched -/
theorem prep_no_alg (jwk : Json) (h : prepRow jwk = none) : prep jwk = some jwk := by
  unfold prep; simp [h]

/-- the regenerated table of what each algorithm implies: symmetric sizes and curves -/
theorem prep_table_facts :
    (prepTable.find? (fun r => r.alg == "HS256")).map (fun r => (r.kty, r.bytes)) = some ("oct", some 32) ∧
    (prepTable.find? (fun r => r.alg == "HS384")).map (fun r => (r.kty, r.bytes)) = some ("oct", some 48) ∧
    (prepTable.find? (fun r => r.alg == "HS512")).map (fun r => (r.kty, r.bytes)) = some ("oct", some 64) ∧
    (prepTable.find? (fun r => r.alg == "A128GCM")).map (fun r => (r.kty, r.bytes)) = some ("oct", some 16) ∧
    (prepTable.find? (fun r => r.alg == "A256CBC-HS512")).map (fun r => (r.kty, r.bytes)) = some ("oct", some 64) ∧
    (prepTable.find? (fun r => r.alg == "A192KW")).map (fun r => (r.kty, r.bytes)) = some ("oct", some 24) ∧
    (prepTable.find? (fun r => r.alg == "ES256")).map (fun r => (r.kty, r.crv)) = some ("EC", some "P-256") ∧
    (prepTable.find? (fun r => r.alg == "ES384")).map (fun r => (r.kty, r.crv)) = some ("EC", some "P-384") ∧
    (prepTable.find? (fun r => r.alg == "ES512")).map (fun r => (r.kty, r.crv)) = some ("EC", some "P-521") ∧
    (prepTable.find? (fun r => r.alg == "ES256")).map (fun r => r.crvStrict) = some true ∧
    (prepTable.find? (fun r => r.alg == "ES384")).map (fun r => r.crvStrict) = some true ∧
    (prepTable.find? (fun r => r.alg == "ES512")).map (fun r => r.crvStrict) = some true ∧
    (prepTable.find? (fun r => r.alg == "ES256K")).map (fun r => (r.crv, r.crvStrict)) = some (some "secp256k1", true) ∧
    (prepTable.find? (fun r => r.alg == "RS256")).map (fun r => r.kty) = some "RSA" ∧
    (prepTable.find? (fun r => r.alg == "RSA-OAEP")).map (fun r => r.kty) = some "RSA" := by decide

/-! ### the whole call -/

/-- `jose_jwk_gen` is PREP, then MAKE, then key_ops inference, and succeeds only if every required
    member of the key type is there -/
theorem gen_stages (P : Prims) (jwk out : Json) (rnd : Bs) (h : gen P jwk rnd = some out) :
    ∃ j1 kvs alg kty use, prep jwk = some j1 ∧ make P j1 rnd = some (.obj kvs) ∧
      optStr (.obj kvs) "alg" = some alg ∧ (Json.obj kvs).getStr? "kty" = some kty ∧ optStr (.obj kvs) "use" = some use ∧
      out = .obj (inferOps kvs alg use) ∧ complete kty (inferOps kvs alg use) = true := by
  simp only [gen, Option.bind_eq_some_iff] at h
  obtain ⟨j1, h1, j2, h2, h⟩ := h
  cases j2 with
  | obj kvs =>
    simp only [Option.bind_eq_some_iff] at h
    obtain ⟨alg, halg, kty, hkty, use, huse, h⟩ := h
    split at h
    · rename_i hc
      simp only [Option.some.injEq] at h
      exact ⟨j1, kvs, alg, kty, use, h1, h2, halg, hkty, huse, h.symm, hc⟩
    · simp at h
  | _ => simp at h

/-- inference happens exactly when "alg" names a registered algorithm and the template says nothing
    about usage; it only adds "key_ops" -/
theorem inferOps_spec (kvs : List (String × Json)) (alg use : Option String) :
    (∃ a ops, alg = some a ∧ use = none ∧ lookup "key_ops" kvs = none ∧ opsFor a = some ops ∧
        inferOps kvs alg use = setKV "key_ops" (.arr (ops.map .str)) kvs) ∨
    inferOps kvs alg use = kvs := by
  unfold inferOps
  split
  · rename_i a hk
    split
    · rename_i ops hops
      left; exact ⟨a, ops, rfl, rfl, hk, hops, rfl⟩
    · right; rfl
  · right; rfl

theorem complete_spec (kty : String) (kvs : List (String × Json)) (h : complete kty kvs = true) :
    ∃ t, ktys.find? (fun t => t.kty == kty) = some t ∧ ∀ m ∈ t.req, (lookup m kvs).isSome = true := by
  unfold complete at h
  split at h
  · rename_i t ht
    exact ⟨t, ht, by simpa [List.all_eq_true] using h⟩
  · simp at h

/-- the inferred operations per algorithm kind -/
theorem ops_inferred :
    opsFor "HS256" = some ["sign", "verify"] ∧ opsFor "ES512" = some ["sign", "verify"] ∧
    opsFor "PS384" = some ["sign", "verify"] ∧ opsFor "A128KW" = some ["wrapKey", "unwrapKey"] ∧
    opsFor "RSA-OAEP" = some ["wrapKey", "unwrapKey"] ∧ opsFor "ECDH-ES" = some ["wrapKey", "unwrapKey"] ∧
    opsFor "A128GCM" = some ["encrypt", "decrypt"] ∧ opsFor "ECDH" = some ["deriveKey"] ∧
    opsFor "ECMR" = some ["deriveKey"] ∧ opsFor "nope" = none := by decide

/-! ### IVs and salts are generator output -/

/-- the content IV of an encryption is the next `ivLen` bytes of the generator -/
theorem iv_is_rng_output (P : Prims) (jwe cek out : Json) (pt rnd : Bs) (h : Jwe.encCek P jwe cek pt rnd = some out) :
    ∃ fam, out.get? "iv" = some (B64.enc (rnd.take (Jwe.ivLen fam))) := by
  simp only [Jwe.encCek, Option.bind_eq_some_iff] at h
  obtain ⟨⟨a, j⟩, _, fam, _, aad, _, key, _, zip, _, h⟩ := h
  cases j with
  | obj kvs =>
    simp only [Option.some.injEq] at h
    subst h
    refine ⟨fam, ?_⟩
    simp only [Json.get?]
    rw [lookup_setKV_other _ _ _ _ (by decide), lookup_setKV_other _ _ _ _ (by decide), lookup_setKV_same]
  | _ => simp at h

/-- non-vacuity: a 16-byte oct key from the template {"kty":"oct","bytes":16} -/
example (P : Prims) : (make P (.obj [("kty", .str "oct"), ("bytes", .int 16)]) (List.range 40)).isSome = true := by
  simp [make, makeOct, Json.getStr?, Json.get?, lookup, Json.strVal?, keymax]

end Jose.Props.C11
