import Jose.Jwk
import Jose.Grid.C12
import Jose.Lemmas.Json
/-
  C12 — thumbprints follow RFC 7638 and agree with key equality.
  Statements about `Jwk.thpInput` (jwk_str), `Jwk.thp`, `Jwk.thpBuf`, `Jwk.eql`
  over the regenerated key-type table.
-/
set_option linter.unusedSimpArgs false
set_option linter.unusedVariables false

namespace Jose.Props.C12
open Jose Jose.Jwk Jose.Json Tables

/-- table fact: the required members are exactly those of RFC 7638 §3.2
    (oct: k; RSA: e, n; EC: crv, x, y) and the five hash names have the SHA sizes -/
theorem required_members_rfc7638 :
    (ktys.map (fun t => (t.kty, t.req))).Perm [("oct", ["k"]), ("RSA", ["e", "n"]), ("EC", ["crv", "x", "y"])] ∧
    hashSize "S1" = some 20 ∧ hashSize "S224" = some 28 ∧ hashSize "S256" = some 32 ∧
    hashSize "S384" = some 48 ∧ hashSize "S512" = some 64 := by
  decide

/-- the value looked up for each required member, `none` if one is missing -/
theorem reqMembers_eq (a b : Json) (ms : List String) (h : ∀ m ∈ ms, a.get? m = b.get? m) :
    reqMembers a ms = reqMembers b ms := by
  induction ms with
  | nil => rfl
  | cons m r ih =>
    simp only [reqMembers]
    rw [h m (by simp), ih (fun x hx => h x (by simp [hx]))]

/-- C12 (ignores every other member): the hash input depends only on `kty` and the
    type's required members — any change to, addition or removal of another member
    leaves it unchanged (in particular a private key and its public half, see C06) -/
theorem thpInput_ignores_others (a b : Json) (hk : a.get? "kty" = b.get? "kty")
    (h : ∀ t ∈ ktys, ∀ m ∈ t.req, a.get? m = b.get? m) : thpInput a = thpInput b := by
  have hft : findType a = findType b := by simp only [findType, getStr?, hk]
  simp only [thpInput, hft, hk]
  cases ht : findType b with
  | none => rfl
  | some t =>
    have htm : t ∈ ktys := by
      simp only [findType] at ht
      cases hs : b.getStr? "kty" with
      | none => simp [hs] at ht
      | some s =>
        simp only [hs, findTypeIn] at ht
        exact List.mem_of_find?_eq_some ht
    simp only [reqMembers_eq a b t.req (h t htm)]

theorem reqMembers_none (j : Json) (ms : List String) (m : String) (hm : m ∈ ms) (hn : j.get? m = none) :
    reqMembers j ms = none := by
  induction ms with
  | nil => simp at hm
  | cons x r ih =>
    simp only [reqMembers]
    rcases List.mem_cons.mp hm with rfl | hr
    · simp [hn]
    · cases j.get? x <;> simp [ih hr]

theorem reqMembers_some (j : Json) (ms : List String) (h : ∀ m ∈ ms, ∃ x, j.get? m = some x) :
    ∃ r, reqMembers j ms = some r := by
  induction ms with
  | nil => exact ⟨[], rfl⟩
  | cons m r ih =>
    obtain ⟨x, hx⟩ := h m (by simp)
    obtain ⟨ms', hms⟩ := ih (fun m' hm' => h m' (by simp [hm']))
    exact ⟨(m, x) :: ms', by simp [reqMembers, hx, hms]⟩

/-- a key of unknown type or lacking a required member has no thumbprint -/
theorem thpInput_none (j : Json) :
    (findType j = none → thpInput j = none) ∧
    (∀ t, findType j = some t → (∃ m ∈ t.req, j.get? m = none) → thpInput j = none) := by
  constructor
  · intro h; simp [thpInput, h]
  · intro t ht ⟨m, hm, hnone⟩
    simp only [thpInput, ht]
    have := reqMembers_none j t.req m hm hnone
    cases j.get? "kty" <;> simp [this]

/-- RFC 7638 §3.3 shape of the hash input, EC key: exactly crv, kty, x, y in
    lexicographic order, no whitespace -/
theorem thpInput_ec (kvs : List (String × Json)) (c k x y : Json)
    (hk : lookup "kty" kvs = some k) (hc : lookup "crv" kvs = some c) (hx : lookup "x" kvs = some x)
    (hy : lookup "y" kvs = some y) (ht : findType (.obj kvs) = some { kty := "EC", req := ["crv", "x", "y"], pub := ["x", "y"], prv := ["d"] }) :
    thpInput (.obj kvs) = some (String.ofList
      ("{\"crv\":".toList ++ dumpChars c ++ ",\"kty\":".toList ++ dumpChars k ++ ",\"x\":".toList ++ dumpChars x ++
       ",\"y\":".toList ++ dumpChars y ++ "}".toList)) := by
  simp [thpInput, ht, reqMembers, get?, hk, hc, hx, hy, setKV, dump, dumpChars, dumpMembers, sortKV, insertSorted,
    joinComma, quote, escapeChars, escapeChar]

theorem thpInput_rsa (kvs : List (String × Json)) (k e n : Json)
    (hk : lookup "kty" kvs = some k) (he : lookup "e" kvs = some e) (hn : lookup "n" kvs = some n)
    (ht : findType (.obj kvs) = some { kty := "RSA", req := ["e", "n"], pub := ["e", "n"], prv := ["p", "d", "q", "dp", "dq", "qi", "oth"] }) :
    thpInput (.obj kvs) = some (String.ofList
      ("{\"e\":".toList ++ dumpChars e ++ ",\"kty\":".toList ++ dumpChars k ++ ",\"n\":".toList ++ dumpChars n ++ "}".toList)) := by
  simp [thpInput, ht, reqMembers, get?, hk, he, hn, setKV, dump, dumpChars, dumpMembers, sortKV, insertSorted,
    joinComma, quote, escapeChars, escapeChar]

theorem thpInput_oct (kvs : List (String × Json)) (k v : Json)
    (hk : lookup "kty" kvs = some k) (hv : lookup "k" kvs = some v)
    (ht : findType (.obj kvs) = some { kty := "oct", req := ["k"], pub := [], prv := ["k"] }) :
    thpInput (.obj kvs) = some (String.ofList
      ("{\"k\":".toList ++ dumpChars v ++ ",\"kty\":".toList ++ dumpChars k ++ "}".toList)) := by
  simp [thpInput, ht, reqMembers, get?, hk, hv, setKV, dump, dumpChars, dumpMembers, sortKV, insertSorted,
    joinComma, quote, escapeChars, escapeChar]

/-- C12 (forms agree): the buffer-filling form writes exactly the digest the
    string-returning form encodes, its size query returns the digest length, and a
    buffer shorter than the digest is refused without a write -/
theorem forms_agree (P : Prims) (j : Json) (alg : String) (h : Bs → Bs) (sz : Nat) (s : String)
    (hs : thpInput j = some s) (hh : P.hash alg = some h) (hz : hashSize alg = some sz) :
    thp P j alg = some (B64.enc (h (B64.bytesOfString s))) ∧
    (thpBuf P j alg none).ret = some sz ∧ (thpBuf P j alg (some 0)).ret = some sz ∧
    (∀ n, 0 < n → n < sz → thpBuf P j alg (some n) = ⟨none, [], false⟩) ∧
    (∀ n, 0 < n → sz ≤ n → (thpBuf P j alg (some n)).written = h (B64.bytesOfString s)) := by
  refine ⟨by simp [thp, hs, hh], by simp [thpBuf, hz], by simp [thpBuf, hz], ?_, ?_⟩
  · intro n h0 hlt
    cases n with
    | zero => omega
    | succ n => simp [thpBuf, hs, hh, hz, hlt]
  · intro n h0 hge
    cases n with
    | zero => omega
    | succ n =>
      have : ¬ n + 1 < sz := by omega
      simp [thpBuf, hs, hh, hz, this]

/-- a key that has no thumbprint input has no thumbprint in either form, and equals nothing -/
theorem no_thumbprint (P : Prims) (j : Json) (alg : String) (h : thpInput j = none) :
    thp P j alg = none ∧ (∀ n, 0 < n → (thpBuf P j alg (some n)).ret = none) := by
  refine ⟨by simp [thp, h], ?_⟩
  intro n hn
  cases n with
  | zero => omega
  | succ n => simp [thpBuf, h]

/-- C12 (equality): two keys are equal exactly when the first has a registered type,
    `kty` is present in both and equal, and every required member is present in both
    and equal (`Json.equal` = `json_equal`) -/
theorem eql_spec (a b : Json) :
    eql a b = true ↔ ∃ t, findType a = some t ∧
      (∃ x y, a.get? "kty" = some x ∧ b.get? "kty" = some y ∧ Json.equal x y = true) ∧
      ∀ m ∈ t.req, ∃ x y, a.get? m = some x ∧ b.get? m = some y ∧ Json.equal x y = true := by
  simp only [eql]
  cases ht : findType a with
  | none => simp
  | some t =>
    simp only [Bool.and_eq_true, List.all_eq_true, Option.some.injEq, exists_eq_left']
    constructor
    · rintro ⟨h1, h2⟩
      refine ⟨?_, ?_⟩
      · cases ha : a.get? "kty" <;> cases hb : b.get? "kty" <;> simp [ha, hb] at h1
        exact ⟨_, _, rfl, rfl, h1⟩
      · intro m hm
        have := h2 m hm
        cases ha : a.get? m <;> cases hb : b.get? m <;> simp [ha, hb] at this
        exact ⟨_, _, rfl, rfl, this⟩
    · rintro ⟨⟨x, y, hx, hy, hxy⟩, h2⟩
      refine ⟨by simp [hx, hy, hxy], ?_⟩
      intro m hm
      obtain ⟨x, y, hx, hy, hxy⟩ := h2 m hm
      simp [hx, hy, hxy]

/-- a key lacking a required member, or of unknown type, equals nothing (not even itself) -/
theorem eql_needs_thumbprint (a b : Json) (h : thpInput a = none) (hk : ∃ k, a.get? "kty" = some k) : eql a b = false := by
  cases hb : eql a b with
  | false => rfl
  | true =>
    obtain ⟨t, ht, _, hreq⟩ := (eql_spec a b).mp hb
    obtain ⟨k, hk⟩ := hk
    obtain ⟨ms, hms⟩ := reqMembers_some a t.req (fun m hm => by
      obtain ⟨x, y, hx, _, _⟩ := hreq m hm
      exact ⟨x, hx⟩)
    simp [thpInput, ht, hk, hms] at h

/-- non-vacuity: RFC 7638-style input of a concrete EC key, ignoring `d` and `kid` -/
example : thpInput (.obj [("kty", .str "EC"), ("d", .str "Zg"), ("crv", .str "P-256"), ("x", .str "AQ"), ("kid", .int 1), ("y", .str "Ag")])
    = some "{\"crv\":\"P-256\",\"kty\":\"EC\",\"x\":\"AQ\",\"y\":\"Ag\"}" := by decide


/-! ### the model is the code, on a grid regenerated from the code on every run

  `Jose/Grid/C12.lean` is rewritten by the translator (tools/extract_tables.py) on every run: it holds
  what the library **built from the current working tree** answered, in-process, to a fixed grid of
  operations — key equality `jose_jwk_eql` on all 196 ordered pairs of 14 keys (same material with other metadata, other case of `kty`, missing required members, unknown types, non-objects).
  `Driver.agrees` evaluates the model's handler for the row's operation (the same handler the
  correspondence run uses) and compares with the recorded answer by `json_equal`.  The theorem is
  checked by the kernel (`decide +kernel`: evaluation, no axiom); any edit of the C that changes one of
  these answers makes it false, and the check then reports a violation. -/
theorem model_is_code_on_grid : Jose.Grid.C12.chunks.all (fun c => c.all Jose.Driver.agrees) = true := by
  decide +kernel

end Jose.Props.C12
