import Jose.Jwk
import Jose.Grid.C06
import Jose.Lemmas.Json
/-
  C06 — private key material never leaves (public-export half).
  Statements about `Jwk.clean` / `Jwk.pub` (mirror of jwk_clean / jose_jwk_pub in
  lib/jwk.c) over the key-type and key-operation tables regenerated from the
  library's constructor (Jose/Tables.lean).
-/
set_option linter.unusedSimpArgs false
set_option linter.unusedVariables false

namespace Jose.Props.C06
open Jose Jose.Jwk Jose.Json Tables

/-! ### table facts (re-checked on every run against the regenerated tables) -/

/-- the private-member lists contain everything the property names -/
theorem private_members_complete :
    (∀ t ∈ ktys, t.kty = "oct" → "k" ∈ t.prv) ∧
    (∀ t ∈ ktys, t.kty = "RSA" → ∀ m ∈ ["d", "p", "q", "dp", "dq", "qi", "oth"], m ∈ t.prv) ∧
    (∀ t ∈ ktys, t.kty = "EC" → "d" ∈ t.prv) ∧
    (∃ t ∈ ktys, t.kty = "oct") ∧ (∃ t ∈ ktys, t.kty = "RSA") ∧ (∃ t ∈ ktys, t.kty = "EC") := by
  decide

/-- no private-member list mentions "kty" or "key_ops", none overlaps the type's
    required public members (RSA: e, n; EC: crv, x, y), and type names are distinct
    even ignoring letter case -/
theorem tables_sane :
    (∀ t ∈ ktys, "kty" ∉ t.prv ∧ "key_ops" ∉ t.prv) ∧
    (∀ t ∈ ktys, t.pub ≠ [] → ∀ m ∈ t.req, m ∉ t.prv) ∧
    (∀ t ∈ ktys, ∀ t' ∈ ktys, lower t.kty = lower t'.kty → t = t') := by
  decide

/-- the operations removed from `key_ops`: sign, decrypt, unwrapKey are private
    operations of some row -/
theorem private_ops_listed : ∀ op ∈ ["sign", "decrypt", "unwrapKey"], ∃ o ∈ opers, o.prv = some op := by
  decide

/-- every one of the eight registered operation names is the public or private
    operation of some row (so a symmetric key keeps none of them) -/
theorem all_ops_listed :
    ∀ op ∈ ["sign", "verify", "encrypt", "decrypt", "wrapKey", "unwrapKey", "deriveKey", "deriveBits"],
      ∃ o ∈ opers, o.prv = some op ∨ o.pub = some op := by
  decide

/-! ### generic theorems (hold for any tables) -/

theorem findTypeIn_mem (ts : List KtyRec) (kty : String) (t : KtyRec) (h : findTypeIn ts kty = some t) :
    t ∈ ts ∧ caseEq kty t.kty = true := by
  simp only [findTypeIn] at h
  exact ⟨List.mem_of_find?_eq_some h, by simpa using List.find?_some h⟩

/-- shape of a successful clean -/
theorem clean_shape (ts : List KtyRec) (os : List OperRec) (j j' : Json) (h : cleanWith ts os j = some j') :
    ∃ kvs kty t, j = .obj kvs ∧ lookup "kty" kvs = some (.str kty) ∧ findTypeIn ts kty = some t ∧
      ((∃ l, lookup "key_ops" (delAll t.prv kvs) = some (.arr l) ∧
          j' = .obj (setKV "key_ops" (.arr (os.foldl (fun a o => filterOps t.pub.isEmpty o a) l)) (delAll t.prv kvs))) ∨
       ((∀ l, lookup "key_ops" (delAll t.prv kvs) ≠ some (.arr l)) ∧ j' = .obj (delAll t.prv kvs))) := by
  cases j with
  | obj kvs =>
    simp only [cleanWith] at h
    cases hk : lookup "kty" kvs with
    | none => simp [hk] at h
    | some kj =>
      cases kj with
      | str kty =>
        simp only [hk] at h
        cases ht : findTypeIn ts kty with
        | none => simp [ht] at h
        | some t =>
          simp only [ht] at h
          refine ⟨kvs, kty, t, rfl, hk, ht, ?_⟩
          cases hko : lookup "key_ops" (delAll t.prv kvs) with
          | none =>
            right
            simp [hko] at h
            exact ⟨by simp, h.symm⟩
          | some ko =>
            cases ko with
            | arr l => left; simp [hko] at h; exact ⟨l, rfl, h.symm⟩
            | _ => right; simp [hko] at h; exact ⟨by simp, h.symm⟩
      | _ => simp [hk] at h
  | _ => simp [cleanWith] at h

/-- C06 (1): after a successful clean no private member of the key's type is left -/
theorem clean_no_private (ts : List KtyRec) (os : List OperRec) (j j' : Json) (h : cleanWith ts os j = some j')
    (hko : ∀ t ∈ ts, "key_ops" ∉ t.prv) :
    ∃ kty t, j.getStr? "kty" = some kty ∧ findTypeIn ts kty = some t ∧ ∀ m ∈ t.prv, j'.get? m = none := by
  obtain ⟨kvs, kty, t, rfl, hk, ht, hc⟩ := clean_shape ts os j j' h
  refine ⟨kty, t, by simp [getStr?, get?, hk, strVal?], ht, ?_⟩
  intro m hm
  have hne : m ≠ "key_ops" := by
    intro he; subst he; exact hko t (findTypeIn_mem ts kty t ht).1 hm
  rcases hc with ⟨l, _, rfl⟩ | ⟨_, rfl⟩
  · simp only [get?]
    rw [lookup_setKV_other _ _ _ _ hne]
    exact lookup_delAll_mem t.prv kvs m hm
  · simp only [get?]
    exact lookup_delAll_mem t.prv kvs m hm

/-- C06 (2): every member that is not private and not `key_ops` is unchanged -/
theorem clean_public_unchanged (ts : List KtyRec) (os : List OperRec) (j j' : Json) (h : cleanWith ts os j = some j') :
    ∃ kty t, j.getStr? "kty" = some kty ∧ findTypeIn ts kty = some t ∧
      ∀ m, m ∉ t.prv → m ≠ "key_ops" → j'.get? m = j.get? m := by
  obtain ⟨kvs, kty, t, rfl, hk, ht, hc⟩ := clean_shape ts os j j' h
  refine ⟨kty, t, by simp [getStr?, get?, hk, strVal?], ht, ?_⟩
  intro m hm hne
  rcases hc with ⟨l, _, rfl⟩ | ⟨_, rfl⟩
  · simp only [get?]
    rw [lookup_setKV_other _ _ _ _ hne]
    exact lookup_delAll_not_mem t.prv kvs m hm
  · simp only [get?]
    exact lookup_delAll_not_mem t.prv kvs m hm

theorem filterOps_sub (sym : Bool) (o : OperRec) (arr : List Json) : ∀ e ∈ filterOps sym o arr, e ∈ arr := by
  intro e he
  exact (List.mem_filter.mp he).1

theorem foldl_filterOps_sub (sym : Bool) (os : List OperRec) (arr : List Json) :
    ∀ e ∈ os.foldl (fun a o => filterOps sym o a) arr, e ∈ arr := by
  induction os generalizing arr with
  | nil => intro e he; simpa using he
  | cons o r ih =>
    intro e he
    simp only [List.foldl_cons] at he
    exact filterOps_sub sym o arr e (ih _ e he)

theorem filterOps_removes_prv (sym : Bool) (o : OperRec) (arr : List Json) (op : String) (h : o.prv = some op) :
    Json.str op ∉ filterOps sym o arr := by
  intro he
  have := (List.mem_filter.mp he).2
  simp [keeps, h] at this

theorem filterOps_removes_pub (o : OperRec) (arr : List Json) (op : String) (h : o.pub = some op) :
    Json.str op ∉ filterOps true o arr := by
  intro he
  have := (List.mem_filter.mp he).2
  simp [keeps, h] at this

theorem foldl_filterOps_removes (sym : Bool) (os : List OperRec) (arr : List Json) (op : String)
    (h : ∃ o ∈ os, o.prv = some op ∨ (sym = true ∧ o.pub = some op)) :
    Json.str op ∉ os.foldl (fun a o => filterOps sym o a) arr := by
  induction os generalizing arr with
  | nil => obtain ⟨o, ho, _⟩ := h; simp at ho
  | cons o r ih =>
    simp only [List.foldl_cons]
    obtain ⟨o', ho', hp⟩ := h
    rcases List.mem_cons.mp ho' with rfl | hr
    · intro he
      have hsub := foldl_filterOps_sub sym r (filterOps sym o' arr) _ he
      rcases hp with hp | ⟨hs, hp⟩
      · exact filterOps_removes_prv sym o' arr op hp hsub
      · subst hs; exact filterOps_removes_pub o' arr op hp hsub
    · exact ih _ ⟨o', hr, hp⟩

/-- C06 (3): `key_ops` of the result lists no private operation of any row, and for a
    symmetric key (no public members) no public operation either; nothing else is
    removed from it -/
theorem clean_key_ops (ts : List KtyRec) (os : List OperRec) (j j' : Json) (h : cleanWith ts os j = some j')
    (l' : List Json) (hl : j'.get? "key_ops" = some (.arr l')) :
    ∃ kty t, j.getStr? "kty" = some kty ∧ findTypeIn ts kty = some t ∧
      (∀ op, (∃ o ∈ os, o.prv = some op) → Json.str op ∉ l') ∧
      (t.pub = [] → ∀ op, (∃ o ∈ os, o.pub = some op) → Json.str op ∉ l') ∧
      (∃ l, j.get? "key_ops" = some (.arr l) ∧ ∀ e ∈ l', e ∈ l) := by
  obtain ⟨kvs, kty, t, rfl, hk, ht, hc⟩ := clean_shape ts os j j' h
  refine ⟨kty, t, by simp [getStr?, get?, hk, strVal?], ht, ?_⟩
  rcases hc with ⟨l, hlk, rfl⟩ | ⟨hno, rfl⟩
  · simp only [get?, lookup_setKV_same] at hl
    have hl' : l' = os.foldl (fun a o => filterOps t.pub.isEmpty o a) l := by
      simpa using hl.symm
    subst hl'
    refine ⟨?_, ?_, ?_⟩
    · intro op ⟨o, ho, hp⟩
      exact foldl_filterOps_removes _ os l op ⟨o, ho, Or.inl hp⟩
    · intro hsym op ⟨o, ho, hp⟩
      exact foldl_filterOps_removes _ os l op ⟨o, ho, Or.inr ⟨by simp [hsym], hp⟩⟩
    · by_cases hmem : "key_ops" ∈ t.prv
      · rw [lookup_delAll_mem t.prv kvs _ hmem] at hlk; simp at hlk
      · rw [lookup_delAll_not_mem t.prv kvs _ hmem] at hlk
        exact ⟨l, by simpa [get?] using hlk, foldl_filterOps_sub _ os l⟩
  · simp only [get?] at hl
    exact absurd hl (hno l')

/-! ### the property, with the real tables -/

/-- names of the members the property calls private, by key type -/
def documentedPrivate : String → List String
  | "oct" => ["k"]
  | "RSA" => ["d", "p", "q", "dp", "dq", "qi", "oth"]
  | "EC" => ["d"]
  | _ => []

/-- C06: after a successful public export of a single JWK whose `kty` is oct, RSA
    or EC in any letter case, none of the documented private members is left -/
theorem export_no_private (j j' : Json) (h : clean j = some j') (name : String)
    (hname : name ∈ ["oct", "RSA", "EC"])
    (hk : (j.getStr? "kty").any (fun k => caseEq k name) = true) :
    ∀ m ∈ documentedPrivate name, j'.get? m = none := by
  obtain ⟨kty, t, h1, h2, h3⟩ := clean_no_private ktys opers j j' h (fun t ht => (tables_sane.1 t ht).2)
  obtain ⟨htm, hce⟩ := findTypeIn_mem ktys kty t h2
  rw [h1] at hk
  simp only [Option.any_some] at hk
  -- the record found is the one named `name`
  have hlow : lower t.kty = lower name := by
    simp only [caseEq, beq_iff_eq] at hce hk
    rw [← hce, hk]
  obtain ⟨c1, c2, c3, ⟨to, hto, hton⟩, ⟨tr, htr, htrn⟩, ⟨te, hte, hten⟩⟩ := private_members_complete
  intro m hm
  apply h3
  simp only [List.mem_cons, List.mem_nil_iff, or_false] at hname
  rcases hname with rfl | rfl | rfl
  · have : t = to := tables_sane.2.2 t htm to hto (by rw [hlow, hton])
    subst this
    simp only [documentedPrivate, List.mem_cons, List.mem_nil_iff, or_false] at hm
    subst hm; exact c1 t htm hton
  · have : t = tr := tables_sane.2.2 t htm tr htr (by rw [hlow, htrn])
    subst this
    exact c2 t htm htrn m hm
  · have : t = te := tables_sane.2.2 t htm te hte (by rw [hlow, hten])
    subst this
    simp only [documentedPrivate, List.mem_cons, List.mem_nil_iff, or_false] at hm
    subst hm; exact c3 t htm hten

/-- C06: the result's `key_ops` no longer lists sign, decrypt or unwrapKey -/
theorem export_key_ops_no_private (j j' : Json) (h : clean j = some j') (l' : List Json)
    (hl : j'.get? "key_ops" = some (.arr l')) :
    ∀ op ∈ ["sign", "decrypt", "unwrapKey"], Json.str op ∉ l' := by
  obtain ⟨kty, t, _, _, h3, _, _⟩ := clean_key_ops ktys opers j j' h l' hl
  intro op hop
  exact h3 op (private_ops_listed op hop)

/-! ### idempotence and containers -/

theorem foldl_filterOps_eq (sym : Bool) (os : List OperRec) (arr : List Json) :
    os.foldl (fun a o => filterOps sym o a) arr = arr.filter (fun e => os.all (fun o => keeps sym o e)) := by
  induction os generalizing arr with
  | nil =>
    simp only [List.foldl_nil, List.all_nil]
    exact (List.filter_eq_self.mpr (by simp)).symm
  | cons o r ih =>
    simp only [List.foldl_cons]
    rw [ih]
    simp only [filterOps, List.filter_filter, List.all_cons]
    congr 1
    funext e
    exact Bool.and_comm _ _

theorem setKV_same_value (k : String) (v : Json) (l : List (String × Json)) (h : lookup k l = some v) :
    setKV k v l = l := by
  induction l with
  | nil => simp [lookup] at h
  | cons x r ih =>
    obtain ⟨k', v'⟩ := x
    simp only [lookup] at h
    simp only [setKV]
    split
    · rename_i hk; subst hk; simp at h; subst h; rfl
    · rename_i hk; simp [hk] at h; rw [ih h]

/-- C06 (4): exporting again changes nothing -/
theorem clean_idempotent (ts : List KtyRec) (os : List OperRec) (j j' : Json) (h : cleanWith ts os j = some j')
    (hsane : ∀ t ∈ ts, "kty" ∉ t.prv ∧ "key_ops" ∉ t.prv) : cleanWith ts os j' = some j' := by
  obtain ⟨kvs, kty, t, rfl, hk, ht, hc⟩ := clean_shape ts os j j' h
  have htm := (findTypeIn_mem ts kty t ht).1
  obtain ⟨hkty, hkops⟩ := hsane t htm
  have hk' : lookup "kty" (delAll t.prv kvs) = some (.str kty) := by
    rw [lookup_delAll_not_mem t.prv kvs _ hkty]; exact hk
  rcases hc with ⟨l, hlk, rfl⟩ | ⟨hno, rfl⟩
  · have hk2 : lookup "kty" (setKV "key_ops" (.arr (os.foldl (fun a o => filterOps t.pub.isEmpty o a) l)) (delAll t.prv kvs))
        = some (.str kty) := by
      rw [lookup_setKV_other _ _ _ _ (by decide)]; exact hk'
    have habs : ∀ m ∈ t.prv, lookup m (setKV "key_ops" (.arr (os.foldl (fun a o => filterOps t.pub.isEmpty o a) l))
        (delAll t.prv kvs)) = none := by
      intro m hm
      have hne : m ≠ "key_ops" := by intro he; subst he; exact hkops hm
      rw [lookup_setKV_other _ _ _ _ hne]; exact lookup_delAll_mem t.prv kvs m hm
    simp only [cleanWith, hk2, ht]
    rw [delAll_absent t.prv _ habs]
    simp only [lookup_setKV_same]
    congr 2
    have hidem : os.foldl (fun a o => filterOps t.pub.isEmpty o a) (os.foldl (fun a o => filterOps t.pub.isEmpty o a) l)
        = os.foldl (fun a o => filterOps t.pub.isEmpty o a) l := by
      rw [foldl_filterOps_eq, foldl_filterOps_eq, List.filter_filter]
      congr 1; funext e; simp
    rw [hidem]
    exact setKV_same_value _ _ _ (lookup_setKV_same _ _ _)
  · have habs : ∀ m ∈ t.prv, lookup m (delAll t.prv kvs) = none :=
      fun m hm => lookup_delAll_mem t.prv kvs m hm
    simp only [cleanWith, hk', ht]
    rw [delAll_absent t.prv _ habs]
    cases hko : lookup "key_ops" (delAll t.prv kvs) with
    | none => rfl
    | some ko =>
      cases ko with
      | arr l => exact absurd hko (hno l)
      | _ => rfl

theorem export_idempotent (j j' : Json) (h : clean j = some j') : clean j' = some j' :=
  clean_idempotent ktys opers j j' h (fun t ht => tables_sane.1 t ht)

/-- the keys of a successfully exported array are the element-wise clean results -/
theorem cleanList_spec (f : Json → Option Json) (l l' : List Json) (h : cleanList f l = (l', true)) :
    l.map f = l'.map some := by
  induction l generalizing l' with
  | nil => simp [cleanList] at h; subst h; rfl
  | cons x r ih =>
    simp only [cleanList] at h
    cases hx : f x with
    | none => simp [hx] at h
    | some x' =>
      simp only [hx] at h
      cases hr : cleanList f r with
      | mk r' ok =>
        simp only [hr] at h
        obtain ⟨h1, h2⟩ := Prod.mk.inj h
        subst h1; subst h2
        simp [hx, ih r' hr]

/-- C06: a successful export of an array of JWKs or of a JWKSet cleans every key in it
    (`l.map clean = l'.map some`: element by element, so the single-key theorems above
    apply to each), and a JWKSet's other members stay -/
theorem export_containers (j j' : Json) (h : pub j = (j', true)) :
    (∀ l, j = .arr l → ∃ l', j' = .arr l' ∧ l.map clean = l'.map some) ∧
    (∀ kvs l, j = .obj kvs → lookup "keys" kvs = some (.arr l) →
        ∃ l', j' = .obj (setKV "keys" (.arr l') kvs) ∧ l.map clean = l'.map some) ∧
    (∀ kvs, j = .obj kvs → (∀ l, lookup "keys" kvs ≠ some (.arr l)) → clean j = some j') := by
  refine ⟨?_, ?_, ?_⟩
  · intro l hj; subst hj
    simp only [pub, pubWith] at h
    cases hc : cleanList clean l with
    | mk l' ok =>
      simp only [hc] at h
      obtain ⟨h1, h2⟩ := Prod.mk.inj h
      subst h1; subst h2
      exact ⟨l', rfl, cleanList_spec clean l l' hc⟩
  · intro kvs l hj hk; subst hj
    simp only [pub, pubWith, hk] at h
    cases hc : cleanList clean l with
    | mk l' ok =>
      simp only [hc] at h
      obtain ⟨h1, h2⟩ := Prod.mk.inj h
      subst h1; subst h2
      exact ⟨l', rfl, cleanList_spec clean l l' hc⟩
  · intro kvs hj hno; subst hj
    simp only [pub, pubWith] at h
    have hgen : (match clean (.obj kvs) with
        | some j => (j, true)
        | none => (Json.obj kvs, false)) = (j', true) := by
      cases hk : lookup "keys" kvs with
      | none => exact h
      | some kj =>
        cases kj with
        | arr l => exact absurd hk (hno l)
        | _ => exact h
    cases hc : clean (.obj kvs) with
    | none => rw [hc] at hgen; simp at hgen
    | some c => rw [hc] at hgen; rw [(Prod.mk.inj hgen).1]

/-- non-vacuity: a concrete RSA private key (lower-case kty, with key_ops) is exported -/
example :
    clean (.obj [("kty", .str "rsa"), ("n", .str "AQ"), ("e", .str "AQAB"), ("d", .str "Ag"), ("oth", .arr []),
                 ("key_ops", .arr [.str "sign", .str "verify", .int 7])]) =
      some (.obj [("kty", .str "rsa"), ("n", .str "AQ"), ("e", .str "AQAB"),
                  ("key_ops", .arr [.str "verify", .int 7])]) := by
  rfl


/-! ### the model is the code, on a grid regenerated from the code on every run

  `Jose/Grid/C06.lean` is rewritten by the translator (tools/extract_tables.py) on every run: it holds
  what the library **built from the current working tree** answered, in-process, to a fixed grid of
  operations — public export `jose_jwk_pub`: every key type in three spellings of `kty`, with every single private member and typical subsets removed, six `key_ops` shapes, unknown types, arrays, JWKSets, nested and malformed containers (each answer includes the idempotence flag).
  `Driver.agrees` evaluates the model's handler for the row's operation (the same handler the
  correspondence run uses) and compares with the recorded answer by `json_equal`.  The theorem is
  checked by the kernel (`decide +kernel`: evaluation, no axiom); any edit of the C that changes one of
  these answers makes it false, and the check then reports a violation. -/
theorem model_is_code_on_grid : Jose.Grid.C06.chunks.all (fun c => c.all Jose.Driver.agrees) = true := by
  decide +kernel

end Jose.Props.C06
