import Jose.Lemmas.Entity
import Jose.Jws
import Jose.Props.C10
/-
  C15 — header merge precedence (part 1: the merge itself; part 2, "the algorithm used
  is the one recorded", is stated over the JWS/JWE producing models below).
-/
set_option linter.unusedSimpArgs false
set_option linter.unusedVariables false

namespace Jose.Props.C15
open Jose Jose.Entity Jose.Json Jose.Jws Jose.Tables

/-- C15 (JWS): a protected parameter hides an unprotected one of the same name -/
theorem precedence_jws (sig h : Json) (hh : jwsHdr sig = some h) (name : String) :
    ∃ p, protectedObj sig = some p ∧
      h.get? name = (lookup name p).orElse (fun _ => (sig.get? "header").bind (·.get? name)) := by
  simp only [jwsHdr] at hh
  cases hp : protectedObj sig with
  | none => simp [hp] at hh
  | some p =>
    refine ⟨p, rfl, ?_⟩
    simp only [hp] at hh
    cases hhd : sig.get? "header" with
    | none => simp [hhd] at hh; subst hh; simp [get?]
    | some hd =>
      cases hd with
      | obj hk =>
        simp [hhd] at hh; subst hh
        simp [get?, lookup_updateMissingKV]
      | _ => simp [hhd] at hh

/-- C15 (JWE): protected hides shared-unprotected, which hides per-recipient -/
theorem precedence_jwe (jwe : Json) (rcp : Option Json) (h : Json) (hh : jweHdr jwe rcp = some h) (name : String) :
    ∃ p, protectedObj jwe = some p ∧
      h.get? name = ((lookup name p).orElse (fun _ => (jwe.get? "unprotected").bind (·.get? name))).orElse
        (fun _ => (rcp.bind (·.get? "header")).bind (·.get? name)) := by
  simp only [jweHdr] at hh
  cases hp : protectedObj jwe with
  | none => simp [hp] at hh
  | some p =>
    refine ⟨p, rfl, ?_⟩
    simp only [hp] at hh
    cases hu : jwe.get? "unprotected" with
    | none =>
      simp only [hu] at hh
      cases hr : rcp.bind (·.get? "header") with
      | none => simp [hr] at hh; subst hh; simp [get?]
      | some rh =>
        cases rh with
        | obj rk => simp [hr] at hh; subst hh; simp [get?, lookup_updateMissingKV]
        | _ => simp [hr] at hh
    | some u =>
      cases u with
      | obj uk =>
        simp only [hu] at hh
        cases hr : rcp.bind (·.get? "header") with
        | none => simp [hr] at hh; subst hh; simp [get?, lookup_updateMissingKV]
        | some rh =>
          cases rh with
          | obj rk =>
            simp [hr] at hh; subst hh
            simp only [get?, lookup_updateMissingKV, Option.bind_some]
          | _ => simp [hr] at hh
      | _ => simp [hu] at hh

/-- the merge is the same whether the protected header is still an object or already
    base64url text that decodes to that object -/
theorem protected_form_irrelevant (kvs : List (String × Json)) (s : String) (p : List (String × Json))
    (hdec : B64.decLoad (some (.str s)) = some (.obj p)) :
    protectedObj (.obj (setKV "protected" (.str s) kvs)) = protectedObj (.obj (setKV "protected" (.obj p) kvs)) := by
  simp [protectedObj, get?, lookup_setKV_same, hdec]

/-- a header that is present but unusable (not an object / not decodable to one) makes
    the merge fail rather than being skipped -/
theorem unusable_header_fails (sig : Json) :
    (protectedObj sig = none → jwsHdr sig = none) ∧
    (∀ v, sig.get? "header" = some v → v.isObject = false → jwsHdr sig = none) := by
  constructor
  · intro h; simp [jwsHdr, h]
  · intro v hv hno
    simp only [jwsHdr]
    cases protectedObj sig with
    | none => rfl
    | some p => cases v <;> simp_all [Json.isObject]


/-! ### the algorithm applied is the one recorded: ECDSA names bind the curve

  RFC 7518 §3.4: ES256 / ES384 / ES512 / ES256K are ECDSA over P-256 / P-384 / P-521 /
  secp256k1 with the matching hash.  A signature produced (or accepted) under one of these
  names with a key on another curve is *not* that algorithm, whatever the header says. -/

/-- signing under an ECDSA name happens only with a key on the curve the name stands for,
    and the primitive is run on that curve -/
theorem ecdsa_sign_on_named_curve (P : Prims) (name crv h : String) (jwk : Json) (f : Bs → Bs → Option Bs)
    (hf : family name = some (.ecdsa crv h)) (hs : sigLeaf P name jwk = some f) :
    ∃ key, ecKeyOf P jwk = some key ∧ key.crv = crv := by
  simp only [sigLeaf, hf] at hs
  split at hs
  · simp at hs
  · rename_i hcrv
    split at hs
    · rename_i hfun key _ hk
      have hm := (C10.ec_key_members P jwk key hk).2.1
      simp only [onAlgCurve, Bool.not_eq_true, Bool.not_eq_false', beq_iff_eq] at hcrv
      refine ⟨key, hk, ?_⟩
      rw [hm] at hcrv
      exact Option.some.inj hcrv
    · simp at hs

/-- verification under an ECDSA name likewise -/
theorem ecdsa_verify_on_named_curve (P : Prims) (crv h : String) (s jwk : Json) (f : Bs → Bool)
    (hv : ecdsaVer P crv h s jwk = some f) :
    ∃ key, ecKeyOf P jwk = some key ∧ key.crv = crv := by
  simp only [ecdsaVer] at hv
  split at hv
  · simp at hv
  · rename_i hcrv
    simp only [Option.bind_eq_some_iff, Option.map_eq_some_iff] at hv
    obtain ⟨_, _, key, hk, _⟩ := hv
    have hm := (C10.ec_key_members P jwk key hk).2.1
    simp only [onAlgCurve, Bool.not_eq_true, Bool.not_eq_false', beq_iff_eq] at hcrv
    refine ⟨key, hk, ?_⟩
    rw [hm] at hcrv
    exact Option.some.inj hcrv

/-- the curve the model attaches to each registered ECDSA name is the curve the key
    generator (PREP hook, regenerated table) produces for that name, and the hash is the
    RFC's: ES256→(P-256,S256), ES384→(P-384,S384), ES512→(P-521,S512), ES256K→(secp256k1,S256) -/
theorem ecdsa_names_table :
    (∀ a ∈ signAlgs, ∀ crv h, family a.name = some (.ecdsa crv h) →
      ((prepTable.find? (fun r => r.alg == a.name)).bind (·.crv)) = some crv) ∧
    family "ES256" = some (.ecdsa "P-256" "S256") ∧ family "ES384" = some (.ecdsa "P-384" "S384") ∧
    family "ES512" = some (.ecdsa "P-521" "S512") ∧ family "ES256K" = some (.ecdsa "secp256k1" "S256") := by
  refine ⟨?_, rfl, rfl, rfl, rfl⟩
  intro a ha crv h hfam
  have hall : (signAlgs.all fun a => match family a.name with
      | some (.ecdsa crv _) => ((prepTable.find? (fun r => r.alg == a.name)).bind (·.crv)) == some crv
      | _ => true) = true := by decide
  have := List.all_eq_true.mp hall a ha
  simp only [hfam, beq_iff_eq] at this
  exact this

/-- non-vacuity: a P-384 key is refused under ES256 whatever the primitives say -/
example (P : Prims) : sigLeaf P "ES256" (.obj [("kty", .str "EC"), ("crv", .str "P-384"), ("x", .str "AA"), ("y", .str "AA")]) = none := by
  simp [sigLeaf, family, onAlgCurve, Json.getStr?, Json.get?, Json.strVal?, lookup]

/-- non-vacuity -/
example : jwsHdr (.obj [("protected", .obj [("alg", .str "P")]), ("header", .obj [("alg", .str "H"), ("kid", .int 1)])])
    = some (.obj [("alg", .str "P"), ("kid", .int 1)]) := by rfl

end Jose.Props.C15
