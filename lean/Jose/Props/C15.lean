import Jose.Lemmas.Entity
import Jose.Grid.C15
import Jose.Jws
import Jose.Props.C10
import Jose.Props.C03
import Jose.Jwe
import Jose.SugTable
/-
  C15 — header merge precedence (part 1: the merge itself; part 2, "the algorithm used
  is the one recorded", is stated over the JWS/JWE producing models below).
-/
set_option linter.unusedSimpArgs false
set_option linter.unusedVariables false

namespace Jose.Props.C15
open Jose Jose.Entity Jose.Json Jose.Jws Jose.Jwe Jose.Tables Jose.Props.C03

/-- C15 (JWS): a protected parameter hides an unprotected one of the same name -/
theorem precedence_jws (sig h : Json) (hh : jwsHdr sig = some h) (name : String) :
    ∃ p, protectedObj sig = some p ∧
      h.get? name = (lookup name p).orElse (fun _ => (sig.get? "header").bind (·.get? name)) := by
  simp only [jwsHdr] at hh
  cases hp : protectedObj sig with
  | none => simp [hp] at hh
  | some p =>
    refine ⟨p, rfl, ?_⟩
    simp only [hp] at hh
    cases hhd : sig.get? "header" with
    | none => simp [hhd] at hh; subst hh; simp [get?]
    | some hd =>
      cases hd with
      | obj hk =>
        simp [hhd] at hh; subst hh
        simp [get?, lookup_updateMissingKV]
      | _ => simp [hhd] at hh

/-- C15 (JWE): protected hides shared-unprotected, which hides per-recipient -/
theorem precedence_jwe (jwe : Json) (rcp : Option Json) (h : Json) (hh : jweHdr jwe rcp = some h) (name : String) :
    ∃ p, protectedObj jwe = some p ∧
      h.get? name = ((lookup name p).orElse (fun _ => (jwe.get? "unprotected").bind (·.get? name))).orElse
        (fun _ => (rcp.bind (·.get? "header")).bind (·.get? name)) := by
  simp only [jweHdr] at hh
  cases hp : protectedObj jwe with
  | none => simp [hp] at hh
  | some p =>
    refine ⟨p, rfl, ?_⟩
    simp only [hp] at hh
    cases hu : jwe.get? "unprotected" with
    | none =>
      simp only [hu] at hh
      cases hr : rcp.bind (·.get? "header") with
      | none => simp [hr] at hh; subst hh; simp [get?]
      | some rh =>
        cases rh with
        | obj rk => simp [hr] at hh; subst hh; simp [get?, lookup_updateMissingKV]
        | _ => simp [hr] at hh
    | some u =>
      cases u with
      | obj uk =>
        simp only [hu] at hh
        cases hr : rcp.bind (·.get? "header") with
        | none => simp [hr] at hh; subst hh; simp [get?, lookup_updateMissingKV]
        | some rh =>
          cases rh with
          | obj rk =>
            simp [hr] at hh; subst hh
            simp only [get?, lookup_updateMissingKV, Option.bind_some]
          | _ => simp [hr] at hh
      | _ => simp [hu] at hh

/-- the merge is the same whether the protected header is still an object or already
    base64url text that decodes to that object -/
theorem protected_form_irrelevant (kvs : List (String × Json)) (s : String) (p : List (String × Json))
    (hdec : B64.decLoad (some (.str s)) = some (.obj p)) :
    protectedObj (.obj (setKV "protected" (.str s) kvs)) = protectedObj (.obj (setKV "protected" (.obj p) kvs)) := by
  simp [protectedObj, get?, lookup_setKV_same, hdec]

/-- a header that is present but unusable (not an object / not decodable to one) makes
    the merge fail rather than being skipped -/
theorem unusable_header_fails (sig : Json) :
    (protectedObj sig = none → jwsHdr sig = none) ∧
    (∀ v, sig.get? "header" = some v → v.isObject = false → jwsHdr sig = none) := by
  constructor
  · intro h; simp [jwsHdr, h]
  · intro v hv hno
    simp only [jwsHdr]
    cases protectedObj sig with
    | none => rfl
    | some p => cases v <;> simp_all [Json.isObject]


/-! ### the algorithm applied is the one recorded: ECDSA names bind the curve

  RFC 7518 §3.4: ES256 / ES384 / ES512 / ES256K are ECDSA over P-256 / P-384 / P-521 /
  secp256k1 with the matching hash.  A signature produced (or accepted) under one of these
  names with a key on another curve is *not* that algorithm, whatever the header says. -/

/-- signing under an ECDSA name happens only with a key on the curve the name stands for,
    and the primitive is run on that curve -/
theorem ecdsa_sign_on_named_curve (P : Prims) (name crv h : String) (jwk : Json) (f : Bs → Bs → Option Bs)
    (hf : family name = some (.ecdsa crv h)) (hs : sigLeaf P name jwk = some f) :
    ∃ key, ecKeyOf P jwk = some key ∧ key.crv = crv := by
  simp only [sigLeaf, hf] at hs
  split at hs
  · simp at hs
  · rename_i hcrv
    split at hs
    · rename_i hfun key _ hk
      have hm := (C10.ec_key_members P jwk key hk).2.1
      simp only [onAlgCurve, Bool.not_eq_true, Bool.not_eq_false', beq_iff_eq] at hcrv
      refine ⟨key, hk, ?_⟩
      rw [hm] at hcrv
      exact Option.some.inj hcrv
    · simp at hs

/-- verification under an ECDSA name likewise -/
theorem ecdsa_verify_on_named_curve (P : Prims) (crv h : String) (s jwk : Json) (f : Bs → Bool)
    (hv : ecdsaVer P crv h s jwk = some f) :
    ∃ key, ecKeyOf P jwk = some key ∧ key.crv = crv := by
  simp only [ecdsaVer] at hv
  split at hv
  · simp at hv
  · rename_i hcrv
    simp only [Option.bind_eq_some_iff, Option.map_eq_some_iff] at hv
    obtain ⟨_, _, key, hk, _⟩ := hv
    have hm := (C10.ec_key_members P jwk key hk).2.1
    simp only [onAlgCurve, Bool.not_eq_true, Bool.not_eq_false', beq_iff_eq] at hcrv
    refine ⟨key, hk, ?_⟩
    rw [hm] at hcrv
    exact Option.some.inj hcrv

/-- the curve the model attaches to each registered ECDSA name is the curve the key
    generator (PREP hook, regenerated table) produces for that name, and the hash is the
    RFC's: ES256→(P-256,S256), ES384→(P-384,S384), ES512→(P-521,S512), ES256K→(secp256k1,S256) -/
theorem ecdsa_names_table :
    (∀ a ∈ signAlgs, ∀ crv h, family a.name = some (.ecdsa crv h) →
      ((prepTable.find? (fun r => r.alg == a.name)).bind (·.crv)) = some crv) ∧
    family "ES256" = some (.ecdsa "P-256" "S256") ∧ family "ES384" = some (.ecdsa "P-384" "S384") ∧
    family "ES512" = some (.ecdsa "P-521" "S512") ∧ family "ES256K" = some (.ecdsa "secp256k1" "S256") := by
  refine ⟨?_, rfl, rfl, rfl, rfl⟩
  intro a ha crv h hfam
  have hall : (signAlgs.all fun a => match family a.name with
      | some (.ecdsa crv _) => ((prepTable.find? (fun r => r.alg == a.name)).bind (·.crv)) == some crv
      | _ => true) = true := by decide
  have := List.all_eq_true.mp hall a ha
  simp only [hfam, beq_iff_eq] at this
  exact this

/-- non-vacuity: a P-384 key is refused under ES256 whatever the primitives say -/
example (P : Prims) : sigLeaf P "ES256" (.obj [("kty", .str "EC"), ("crv", .str "P-384"), ("x", .str "AA"), ("y", .str "AA")]) = none := by
  simp [sigLeaf, family, onAlgCurve, Json.getStr?, Json.get?, Json.strVal?, lookup]


/-! ### inference: the model's suggestion functions are the code's hooks

  `SugTable.rows` is regenerated on every run by calling the suggestion hooks of the library built
  from the working tree (`sign.sug`, `wrap.alg`, `encr.sug`: first non-NULL answer in registry
  order, exactly what `find_alg` / `jose_jwe_enc_cek_io` consult; `wrap.enc` per algorithm) on a
  fixed grid of probe keys: oct keys of 18 lengths around every threshold, undecodable / missing /
  wrongly typed members, every curve name and junk, RSA moduli around the size classes, keys naming
  every kind of algorithm (valid, of another kind, junk, wrong case), passwords of every length
  class, non-object keys.  The four theorems say the model computes the same answers on the whole
  grid; an edit of a threshold, of a name list or of the registry order in the C breaks them. -/

theorem sug_sign_is_code : SugTable.rows.all (fun r => Jws.sigSug r.key == r.sign) = true := by decide +kernel

theorem sug_wrap_alg_is_code : SugTable.rows.all (fun r => Jwe.wrapAlgSug r.key == r.walg) = true := by decide +kernel

theorem sug_encr_is_code :
    SugTable.rows.all (fun r => !r.key.isObject || Jwe.encrSug r.key == r.encr) = true := by decide +kernel

theorem sug_wrap_enc_is_code :
    SugTable.rows.all (fun r => r.wenc.all (fun ne => Jwe.wrapEncOf ne.1 r.key == ne.2)) = true := by decide +kernel

/-- the grid is not trivial: it contains keys for which each hook answers, and keys for which it does not -/
example : (SugTable.rows.any (fun r => r.sign.isSome) && SugTable.rows.any (fun r => r.sign.isNone) &&
           SugTable.rows.any (fun r => r.walg.isSome) && SugTable.rows.any (fun r => r.encr.isSome) &&
           decide (SugTable.rows.length ≥ 100)) = true := by decide +kernel

/-- **C15 (JWS, applied = recorded).**  Whatever `jose_jws_sig` appends: the merged header of the
    appended entry names an algorithm `a`, and the signature stored in it is the output of the
    signing leaf *of that very algorithm* over protected '.' payload — whether the caller named
    it in either header, the key did, or it was inferred (and then written to the protected header). -/
theorem jws_applied_is_recorded (P : Prims) (s jwk : Json) (pay rnd : Bs) (e : Json)
    (h : sigEntryObj P s jwk pay rnd = some e)
    (hload : ∀ a s1 p, findAlgSig s jwk = some (a, s1) → s1.get? "protected" = some (.obj p) → LoadDump p) :
    ∃ a hdr f pre sv, jwsHdr e = some hdr ∧ optStr hdr "alg" = some (some a.name) ∧
      findSign a.name = some a ∧ sigLeaf P a.name jwk = some f ∧ prefixOf e = some pre ∧
      f (pre ++ pay) rnd = some sv ∧ e.get? "signature" = some (B64.enc sv) := by
  obtain ⟨hobj, a, s1, kvs2, f, pre, sv, h1, h2, h3, h4, h5, rfl, h7⟩ := sigEntry_spec P s jwk pay rnd e h
  obtain ⟨g1, ⟨hdr1, g2, g3⟩, _, _, _, _, _⟩ := findAlgSig_spec s jwk a s1 hobj h1
  have hhdr := jwsHdr_after_encode s1 kvs2 (B64.enc sv) h2 (fun p hp => hload a s1 p h1 hp)
  exact ⟨a, hdr1, f, pre, sv, by rw [hhdr]; exact g2, g3, g1, h3, h7, h5, by simp [get?, lookup_setKV_same]⟩

/-- a caller-supplied algorithm is never silently replaced: if the template's merged header names
    `n`, the entry is produced with `n` or not at all -/
theorem jws_supplied_alg_kept (s jwk : Json) (a : AlgRec) (s1 hdr : Json) (n : String) (hobj : s.isObject = true)
    (hh : jwsHdr s = some hdr) (hn : hdr.getStr? "alg" = some n)
    (h : findAlgSig s jwk = some (a, s1)) : a.name = n ∧ s1 = s := by
  simp only [findAlgSig, hh, Option.bind_some, chooseAlg, hn, Option.bind_eq_some_iff, Option.map_eq_some_iff] at h
  obtain ⟨r, ⟨a2, hf, rfl⟩, kalg, _, hrest⟩ := h
  split at hrest
  · simp at hrest
  · split at hrest
    · simp at hrest
    · simp only [Option.some.injEq, Prod.mk.injEq] at hrest
      obtain ⟨rfl, rfl⟩ := hrest
      exact ⟨findSign_name n _ hf, rfl⟩

open Jose.Jwe in
/-- **C15 (zip, decryption).**  Whether the decryptor inserts an inflate stage is a function of the
    *protected* header alone: `zip` in the shared or per-recipient header has no effect -/
theorem dec_zip_only_protected (jwe cek : Json) (a : AlgRec) (z : Bool) (h : decCekSetup jwe cek = some (a, z)) :
    z = ((B64.decLoad (jwe.get? "protected")).bind (·.getStr? "zip")).isSome := by
  simp only [decCekSetup, Option.bind_eq_some_iff] at h
  obtain ⟨hdr, _, halg, _, kalg, _, n, _, a', _, hrest⟩ := h
  split at hrest
  · simp at hrest
  · split at hrest
    · rename_i zz hz
      split at hrest
      · simp only [Option.some.injEq, Prod.mk.injEq] at hrest; rw [← hrest.2, hz]; rfl
      · simp at hrest
    · rename_i hz
      simp only [Option.some.injEq, Prod.mk.injEq] at hrest; rw [← hrest.2, hz]; rfl

open Jose.Jwe in
/-- **C15 (zip, encryption).**  Likewise for the encryptor: two objects with the same protected
    header are compressed alike, whatever their other headers say -/
theorem enc_zip_only_protected (j j' : Json) (h : j.get? "protected" = j'.get? "protected") : zipOf j = zipOf j' := by
  simp only [zipOf, h]

/-- the shared merged header (no recipient) names `n` as content encryption -/
def NamesEnc (j : Json) (n : String) : Prop := ∃ hdr, jweHdr j none = some hdr ∧ hdr.getStr? "enc" = some n

theorem jweHdr_congr (a b : Json) (hp : a.get? "protected" = b.get? "protected")
    (hu : a.get? "unprotected" = b.get? "unprotected") (r : Option Json) : jweHdr a r = jweHdr b r := by
  simp only [jweHdr, protectedObj, hp, hu]

/-- encoding the protected header does not change the merged header (JSON layer's load∘dump law) -/
theorem jweHdr_after_encode (j0 j : Json) (he : encodeProtected j0 = some j)
    (hload : ∀ p, j0.get? "protected" = some (.obj p) → LoadDump p) (r : Option Json) :
    jweHdr j r = jweHdr j0 r := by
  cases j0 with
  | obj kvs =>
    simp only [encodeProtected] at he
    cases hp : lookup "protected" kvs with
    | none => simp only [hp, Option.some.injEq] at he; subst he; rfl
    | some pv =>
      cases pv with
      | str t => simp only [hp, Option.some.injEq] at he; subst he; rfl
      | obj p =>
        simp only [hp, Option.some.injEq] at he
        subst he
        have hl := hload p (by simp [get?, hp])
        simp only [LoadDump, B64.enc] at hl
        simp only [jweHdr, protectedObj, get?, lookup_setKV_same, B64.enc, hl, hp,
          lookup_setKV_other "protected" "unprotected" _ kvs (by decide)]
      | _ => simp [hp] at he
  | _ => simp [encodeProtected] at he


theorem findEncr_name (n : String) (a : AlgRec) (h : findEncr n = some a) : a.name = n := by
  simp only [findEncr] at h
  have := List.find?_some h
  simpa using this

/-- what `{s?{s?s}}` on a header member yields -/
def subEnc (kvs : List (String × Json)) (m : String) : Option (Option String) :=
  match lookup m kvs with
  | none => some none
  | some (.obj o) => optStr (.obj o) "enc"
  | some _ => none

theorem names_enc_of_sub (kvs : List (String × Json)) (hu hp : Option String) (name : String)
    (hn : (match hp with | some x => some x | none => hu) = some name)
    (hsu : subEnc kvs "unprotected" = some hu) (hsp : subEnc kvs "protected" = some hp) : NamesEnc (.obj kvs) name := by
  simp only [subEnc] at hsu hsp
  simp only [NamesEnc, jweHdr, protectedObj, get?, Option.bind_none]
  cases hpl : lookup "protected" kvs with
  | none =>
    simp only [hpl, Option.some.injEq] at hsp
    subst hsp
    simp only at hn
    subst hn
    cases hul : lookup "unprotected" kvs with
    | none => simp [hul] at hsu
    | some uv =>
      cases uv with
      | obj u =>
        simp only [hul, optStr] at hsu
        cases hue : lookup "enc" u with
        | none => simp [hue] at hsu
        | some ev =>
          cases ev with
          | str sv =>
            simp only [hue, Option.some.injEq] at hsu
            exact ⟨_, rfl, by simp [getStr?, get?, lookup_updateMissingKV, lookup, hue, strVal?, hsu]⟩
          | _ => simp [hue] at hsu
      | _ => simp [hul] at hsu
  | some pv =>
    cases pv with
    | obj p =>
      simp only [hpl, optStr] at hsp
      cases hpe : lookup "enc" p with
      | none =>
        simp only [hpe, Option.some.injEq] at hsp
        subst hsp
        simp only at hn
        subst hn
        cases hul : lookup "unprotected" kvs with
        | none => simp [hul] at hsu
        | some uv =>
          cases uv with
          | obj u =>
            simp only [hul, optStr] at hsu
            cases hue : lookup "enc" u with
            | none => simp [hue] at hsu
            | some ev =>
              cases ev with
              | str sv =>
                simp only [hue, Option.some.injEq] at hsu
                exact ⟨_, rfl, by simp [getStr?, get?, lookup_updateMissingKV, hpe, hue, strVal?, hsu]⟩
              | _ => simp [hue] at hsu
          | _ => simp [hul] at hsu
      | some ev =>
        cases ev with
        | str sv =>
          simp only [hpe, Option.some.injEq] at hsp
          subst hsp
          simp only [Option.some.injEq] at hn
          subst hn
          cases hul : lookup "unprotected" kvs with
          | none => exact ⟨_, rfl, by simp [getStr?, get?, hpe, strVal?]⟩
          | some uv =>
            cases uv with
            | obj u => exact ⟨_, rfl, by simp [getStr?, get?, lookup_updateMissingKV, hpe, strVal?]⟩
            | _ => simp [hul] at hsu
        | _ => simp [hpe] at hsp
    | _ => simp [hpl] at hsp

theorem names_enc_after_set (kvs : List (String × Json)) (hu hp : Option String) (n : String) (j0 : Json)
    (hsu : subEnc kvs "unprotected" = some hu) (hsp : subEnc kvs "protected" = some hp)
    (hs : jweHdrSetNew (.obj kvs) "enc" (some (.str n)) = some j0) : NamesEnc j0 n := by
  simp only [subEnc] at hsu hsp
  simp only [jweHdrSetNew] at hs
  cases hpl : lookup "protected" kvs with
  | none =>
    cases hul : lookup "unprotected" kvs with
    | none =>
      simp only [hpl, hul, Bool.not_true, Bool.or_self, Bool.false_eq_true, if_false, Option.some.injEq] at hs
      subst hs
      exact ⟨_, by simp [jweHdr, protectedObj, get?, lookup_setKV_same, lookup_setKV_other "protected" "unprotected" _ kvs (by decide), hul]; rfl,
        by simp [getStr?, get?, lookup, strVal?]⟩
    | some uv =>
      cases uv with
      | obj u =>
        simp only [hpl, hul, Bool.not_true, Bool.or_self, Bool.false_eq_true, if_false, Option.some.injEq] at hs
        subst hs
        refine ⟨.obj (updateMissingKV [] (setKV "enc" (.str n) u)), ?_, ?_⟩
        · simp [jweHdr, protectedObj, get?, lookup_setKV_same, lookup_setKV_other "unprotected" "protected" _ kvs (by decide), hpl]
        · simp [getStr?, get?, lookup_updateMissingKV, lookup, lookup_setKV_same, strVal?]
      | _ => simp [hul] at hsu
  | some pv =>
    cases pv with
    | obj p =>
      cases hul : lookup "unprotected" kvs with
      | none =>
        simp only [hpl, hul, Bool.not_true, Bool.or_self, Bool.false_eq_true, if_false, Option.some.injEq] at hs
        subst hs
        exact ⟨_, by simp [jweHdr, protectedObj, get?, lookup_setKV_same, lookup_setKV_other "protected" "unprotected" _ kvs (by decide), hul]; rfl,
          by simp [getStr?, get?, lookup_setKV_same, strVal?]⟩
      | some uv =>
        cases uv with
        | obj u =>
          simp only [hpl, hul, Bool.not_true, Bool.or_self, Bool.false_eq_true, if_false, Option.some.injEq] at hs
          subst hs
          refine ⟨.obj (updateMissingKV (setKV "enc" (.str n) p) u), ?_, ?_⟩
          · simp [jweHdr, protectedObj, get?, lookup_setKV_same, lookup_setKV_other "protected" "unprotected" _ kvs (by decide), hul]
          · simp [getStr?, get?, lookup_updateMissingKV, lookup_setKV_same, strVal?]
        | _ => simp [hul] at hsu
    | _ => simp [hpl] at hsp

/-- the merged shared header names `name` when the protected header (as an object: given so, or decoded from its text)
    and the shared unprotected header say so, protected first -/
theorem names_enc_core (kvs p : List (String × Json)) (hu hp : Option String) (name : String)
    (hn : (match hp with | some x => some x | none => hu) = some name)
    (hpo : protectedObj (.obj kvs) = some p) (hpe : optStr (.obj p) "enc" = some hp)
    (hsu : subEnc kvs "unprotected" = some hu) : NamesEnc (.obj kvs) name := by
  simp only [subEnc] at hsu
  simp only [optStr] at hpe
  simp only [NamesEnc, jweHdr, hpo, get?, Option.bind_none]
  cases hul : lookup "unprotected" kvs with
  | none =>
    simp only [hul, Option.some.injEq] at hsu
    subst hsu
    cases hpl : lookup "enc" p with
    | none => simp [hpl] at hpe; subst hpe; simp at hn
    | some ev =>
      cases ev with
      | str sv =>
        simp only [hpl, Option.some.injEq] at hpe
        subst hpe
        simp only [Option.some.injEq] at hn
        subst hn
        exact ⟨_, rfl, by simp [getStr?, get?, hpl, strVal?]⟩
      | _ => simp [hpl] at hpe
  | some uv =>
    cases uv with
    | obj u =>
      simp only [hul, optStr] at hsu
      cases hpl : lookup "enc" p with
      | none =>
        simp only [hpl, Option.some.injEq] at hpe
        subst hpe
        simp only at hn
        subst hn
        cases hue : lookup "enc" u with
        | none => simp [hue] at hsu
        | some ev =>
          cases ev with
          | str sv =>
            simp only [hue, Option.some.injEq] at hsu
            exact ⟨_, rfl, by simp [getStr?, get?, lookup_updateMissingKV, hpl, hue, strVal?, hsu]⟩
          | _ => simp [hue] at hsu
      | some ev =>
        cases ev with
        | str sv =>
          simp only [hpl, Option.some.injEq] at hpe
          subst hpe
          simp only [Option.some.injEq] at hn
          subst hn
          exact ⟨_, rfl, by simp [getStr?, get?, lookup_updateMissingKV, hpl, strVal?]⟩
        | _ => simp [hpl] at hpe
    | _ => simp [hul] at hsu

/-- an inferred `enc` recorded while the protected header is already ENCODED goes to the shared unprotected header;
    the merged header then names it, provided the encoded header does not name one itself -/
theorem names_enc_after_set_str (kvs d : List (String × Json)) (t n : String) (j0 : Json)
    (hpl : lookup "protected" kvs = some (.str t)) (hd : B64.decLoad (some (.str t)) = some (.obj d))
    (hpe : lookup "enc" d = none)
    (hs : jweHdrSetNew (.obj kvs) "enc" (some (.str n)) = some j0) : NamesEnc j0 n := by
  simp only [jweHdrSetNew, hpl] at hs
  cases hul : lookup "unprotected" kvs with
  | none =>
    simp only [hul, Bool.not_true, Bool.or_self, Bool.false_eq_true, if_false, Option.some.injEq] at hs
    subst hs
    refine ⟨.obj (updateMissingKV d [("enc", .str n)]), ?_, ?_⟩
    · simp [jweHdr, protectedObj, get?, lookup_setKV_same, lookup_setKV_other "unprotected" "protected" _ kvs (by decide), hpl, hd]
    · simp [getStr?, get?, lookup_updateMissingKV, hpe, lookup, strVal?]
  | some uv =>
    cases uv with
    | obj u =>
      simp only [hul, Bool.not_true, Bool.or_self, Bool.false_eq_true, if_false, Option.some.injEq] at hs
      subst hs
      refine ⟨.obj (updateMissingKV d (setKV "enc" (.str n) u)), ?_, ?_⟩
      · simp [jweHdr, protectedObj, get?, lookup_setKV_same, lookup_setKV_other "unprotected" "protected" _ kvs (by decide), hpl, hd]
      · simp [getStr?, get?, lookup_updateMissingKV, hpe, lookup_setKV_same, strVal?]
    | _ => simp [hul] at hs

/-- **C15 (JWE, applied = recorded).**  When `jose_jwe_enc_cek_io` goes ahead with content encryption
    `a`, the merged header of the object it leaves behind names exactly `a`: taken from the protected
    header if that names one, else from the shared unprotected header, else from the CEK's `alg`, else
    suggested from the CEK — and in the last two cases *written* into the protected header (or, if there
    is only a shared header, into that) before the protected header is encoded. -/
theorem jwe_enc_applied_is_recorded (jwe cek : Json) (a : AlgRec) (j : Json)
    (h : encCekSetup jwe cek = some (a, j))
    (hload : ∀ j0 p, encodeProtected j0 = some j → j0.get? "protected" = some (.obj p) → LoadDump p) :
    NamesEnc j a.name ∧ findEncr a.name = some a := by
  cases jwe with
  | obj kvs =>
    simp only [encCekSetup] at h
    split at h
    · rename_i hu hp k hsu hsp hk
      simp only [Option.bind_eq_some_iff] at h
      obtain ⟨⟨a0, j0⟩, hr, hrest⟩ := h
      have hsu' : subEnc kvs "unprotected" = some hu := hsu
      -- the protected header as an object (given so, absent, or decoded from its text) and what it says about `enc`
      have hcore : ∃ p, protectedObj (.obj kvs) = some p ∧ optStr (.obj p) "enc" = some hp := by
        cases hpl : lookup "protected" kvs with
        | none => exact ⟨[], by simp [protectedObj, get?, hpl], by simpa [hpl, optStr, lookup] using hsp⟩
        | some pv =>
          cases pv with
          | obj o => exact ⟨o, by simp [protectedObj, get?, hpl], by simpa [hpl] using hsp⟩
          | str t =>
            simp only [hpl, Option.bind_eq_some_iff] at hsp
            obtain ⟨d, hd, hd2⟩ := hsp
            cases d with
            | obj dd => exact ⟨dd, by simp [protectedObj, get?, hpl, hd], by simpa [Json.isObject] using hd2⟩
            | _ => simp [Json.isObject] at hd2
          | _ => simp [hpl] at hsp
      obtain ⟨pobj, hpo, hpe⟩ := hcore
      split at hrest
      · simp at hrest
      · simp only [Option.map_eq_some_iff, Prod.mk.injEq] at hrest
        obtain ⟨j', he, rfl, rfl⟩ := hrest
        have hne0 : NamesEnc j0 a0.name ∧ findEncr a0.name = some a0 := by
          split at hr
          · -- nothing named: suggestion, recorded
            rename_i hnone
            have hpn : hp = none := by cases hp <;> simp_all
            split at hr
            · simp at hr
            · rename_i name _
              split at hr
              · rename_i a1 hf
                simp only [Option.map_eq_some_iff, Prod.mk.injEq] at hr
                obtain ⟨jj, hs, rfl, rfl⟩ := hr
                have hn := findEncr_name name a1 hf
                refine ⟨?_, by rw [hn]; exact hf⟩
                cases hpl : lookup "protected" kvs with
                | none =>
                  have hsp' : subEnc kvs "protected" = some hp := by simpa [subEnc, hpl] using hsp
                  exact names_enc_after_set kvs hu hp a1.name jj hsu' hsp' hs
                | some pv =>
                  cases pv with
                  | obj o =>
                    have hsp' : subEnc kvs "protected" = some hp := by simpa [subEnc, hpl] using hsp
                    exact names_enc_after_set kvs hu hp a1.name jj hsu' hsp' hs
                  | str t =>
                    simp only [hpl, Option.bind_eq_some_iff] at hsp
                    obtain ⟨d, hd, hd2⟩ := hsp
                    cases d with
                    | obj dd =>
                      have hpe2 : lookup "enc" dd = none := by
                        subst hpn
                        simp only [Json.isObject, if_true, optStr] at hd2
                        cases hl : lookup "enc" dd with
                        | none => rfl
                        | some ev => cases ev <;> simp [hl] at hd2
                      exact names_enc_after_set_str kvs dd t a1.name jj hpl hd hpe2 hs
                    | _ => simp [Json.isObject] at hd2
                  | _ => simp [hpl] at hsp
              · simp at hr
          · rename_i name hn
            have hr' : Option.map (fun a => (a, Json.obj kvs)) (findEncr name) = some (a0, j0) := by
              cases k with
              | none => simpa using hr
              | some kk =>
                by_cases hc : kk = name
                · subst hc; simpa using hr
                · simp [hc] at hr
            simp only [Option.map_eq_some_iff, Prod.mk.injEq] at hr'
            obtain ⟨a1, hf, rfl, rfl⟩ := hr'
            have hnm := findEncr_name name a1 hf
            exact ⟨by rw [hnm]; exact names_enc_core kvs pobj hu hp name hn hpo hpe hsu', by rw [hnm]; exact hf⟩
        obtain ⟨⟨hdr, hh, hg⟩, hf⟩ := hne0
        refine ⟨⟨hdr, ?_, hg⟩, hf⟩
        rw [jweHdr_after_encode j0 j' he (fun p hp => hload j0 p he hp) none]
        exact hh
    · simp at h
  | _ => simp [encCekSetup] at h



/-- non-vacuity: a template naming A128GCM in the protected header and a 16-byte CEK is accepted -/
example : (encCekSetup (.obj [("protected", .obj [("enc", .str "A128GCM")])])
    (.obj [("kty", .str "oct"), ("k", .str "AAAAAAAAAAAAAAAAAAAAAA")])).isSome = true := by decide +kernel


/-! ### the same two theorems without the JSON-layer hypothesis (headers that are `Json.Plain`) -/

theorem jws_applied_is_recorded_plain (P : Prims) (s jwk : Json) (pay rnd : Bs) (e : Json)
    (h : sigEntryObj P s jwk pay rnd = some e)
    (hplain : ∀ a s1 p, findAlgSig s jwk = some (a, s1) → s1.get? "protected" = some (.obj p) → Json.Plain (.obj p)) :
    ∃ a hdr f pre sv, jwsHdr e = some hdr ∧ optStr hdr "alg" = some (some a.name) ∧
      findSign a.name = some a ∧ sigLeaf P a.name jwk = some f ∧ prefixOf e = some pre ∧
      f (pre ++ pay) rnd = some sv ∧ e.get? "signature" = some (B64.enc sv) :=
  jws_applied_is_recorded P s jwk pay rnd e h (fun a s1 p h1 h2 => loadDump_of_plain p (hplain a s1 p h1 h2))

theorem jwe_enc_applied_is_recorded_plain (jwe cek : Json) (a : AlgRec) (j : Json)
    (h : encCekSetup jwe cek = some (a, j))
    (hplain : ∀ j0 p, encodeProtected j0 = some j → j0.get? "protected" = some (.obj p) → Json.Plain (.obj p)) :
    NamesEnc j a.name ∧ findEncr a.name = some a :=
  jwe_enc_applied_is_recorded jwe cek a j h (fun j0 p h1 h2 => loadDump_of_plain p (hplain j0 p h1 h2))

/-- non-vacuity -/
example : jwsHdr (.obj [("protected", .obj [("alg", .str "P")]), ("header", .obj [("alg", .str "H"), ("kid", .int 1)])])
    = some (.obj [("alg", .str "P"), ("kid", .int 1)]) := by rfl


/-! ### the model is the code, on a grid regenerated from the code on every run

  `Jose/Grid/C15.lean` is rewritten by the translator (tools/extract_tables.py) on every run: it holds
  what the library **built from the current working tree** answered, in-process, to a fixed grid of
  operations — header merging `jose_jws_hdr` / `jose_jwe_hdr`: every presence pattern of a parameter over the two / three headers with conflicting values, protected header as object, as base64url text and absent, wrongly typed and undecodable headers.
  `Driver.agrees` evaluates the model's handler for the row's operation (the same handler the
  correspondence run uses) and compares with the recorded answer by `json_equal`.  The theorem is
  checked by the kernel (`decide +kernel`: evaluation, no axiom); any edit of the C that changes one of
  these answers makes it false, and the check then reports a violation. -/
theorem model_is_code_on_grid : Jose.Grid.C15.chunks.all (fun c => c.all Jose.Driver.agrees) = true := by
  decide +kernel

/-! ### parameters a key-management algorithm generates are never shadowed (after fix F28)

  PBES2 records its fresh salt, ECDH-ES its ephemeral key, AES-GCM key wrap its IV and tag in the per-recipient
  header — the least trusted of the three.  Wrapping succeeds only if neither the protected nor the shared
  unprotected header of the object already defines that parameter; otherwise the merged header of the result would
  name the caller's value while the generated one was applied. -/

theorem pbes2_salt_not_shadowed (P : Prims) (name h aes : String) (klen fuel : Nat) (jwe jwk cek : Json)
    (rkvs : List (String × Json)) (rnd : Bs) (out : Json × Json)
    (hf : wrapFamily name = some (.pbes2 h aes klen))
    (hw : wrp P (fuel + 1) name jwe (.obj rkvs) jwk cek rnd = some out) :
    sharedHdrHas jwe "p2s" = false := by
  simp only [wrp, hf, Option.bind_eq_some_iff] at hw
  obtain ⟨⟨c1, r1⟩, _, hw⟩ := hw
  split at hw
  · simp at hw
  · rename_i hs; simpa using hs

theorem gcmkw_iv_tag_not_shadowed (P : Prims) (name : String) (klen fuel : Nat) (jwe jwk cek : Json)
    (rkvs : List (String × Json)) (rnd : Bs) (out : Json × Json)
    (hf : wrapFamily name = some (.gcmkw klen))
    (hw : wrp P (fuel + 1) name jwe (.obj rkvs) jwk cek rnd = some out) :
    sharedHdrHas jwe "iv" = false ∧ sharedHdrHas jwe "tag" = false := by
  simp only [wrp, hf] at hw
  split at hw
  · simp at hw
  · rename_i hs; simpa using hs

theorem ecdhes_epk_not_shadowed (P : Prims) (name : String) (kw : Option String) (dkl : Option Nat) (fuel : Nat)
    (jwe jwk cek : Json) (rkvs : List (String × Json)) (rnd : Bs) (out : Json × Json)
    (hf : wrapFamily name = some (.ecdhes kw dkl))
    (hw : wrp P (fuel + 1) name jwe (.obj rkvs) jwk cek rnd = some out) :
    sharedHdrHas jwe "epk" = false := by
  simp only [wrp, hf, Option.bind_eq_some_iff] at hw
  obtain ⟨⟨c1, r1⟩, _, hdr, _, hw⟩ := hw
  split at hw
  · simp at hw
  · rename_i hs; simpa using hs

/-- the refusal is not vacuous: a template whose protected header carries a salt -/
example : sharedHdrHas (.obj [("protected", .obj [("alg", .str "PBES2-HS256+A128KW"), ("p2s", .str "AAAAAAAAAAAAAAAA")])]) "p2s" = true := by
  decide +kernel
/-- and the usual template is not refused for it -/
example : sharedHdrHas (.obj [("protected", .obj [("alg", .str "PBES2-HS256+A128KW")])]) "p2s" = false := by
  decide +kernel

end Jose.Props.C15
