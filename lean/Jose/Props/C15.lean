import Jose.Lemmas.Entity
/-
  C15 — header merge precedence (part 1: the merge itself; part 2, "the algorithm used
  is the one recorded", is stated over the JWS/JWE producing models below).
-/
set_option linter.unusedSimpArgs false
set_option linter.unusedVariables false

namespace Jose.Props.C15
open Jose Jose.Entity Jose.Json

/-- C15 (JWS): a protected parameter hides an unprotected one of the same name -/
theorem precedence_jws (sig h : Json) (hh : jwsHdr sig = some h) (name : String) :
    ∃ p, protectedObj sig = some p ∧
      h.get? name = (lookup name p).orElse (fun _ => (sig.get? "header").bind (·.get? name)) := by
  simp only [jwsHdr] at hh
  cases hp : protectedObj sig with
  | none => simp [hp] at hh
  | some p =>
    refine ⟨p, rfl, ?_⟩
    simp only [hp] at hh
    cases hhd : sig.get? "header" with
    | none => simp [hhd] at hh; subst hh; simp [get?]
    | some hd =>
      cases hd with
      | obj hk =>
        simp [hhd] at hh; subst hh
        simp [get?, lookup_updateMissingKV]
      | _ => simp [hhd] at hh

/-- C15 (JWE): protected hides shared-unprotected, which hides per-recipient -/
theorem precedence_jwe (jwe : Json) (rcp : Option Json) (h : Json) (hh : jweHdr jwe rcp = some h) (name : String) :
    ∃ p, protectedObj jwe = some p ∧
      h.get? name = ((lookup name p).orElse (fun _ => (jwe.get? "unprotected").bind (·.get? name))).orElse
        (fun _ => (rcp.bind (·.get? "header")).bind (·.get? name)) := by
  simp only [jweHdr] at hh
  cases hp : protectedObj jwe with
  | none => simp [hp] at hh
  | some p =>
    refine ⟨p, rfl, ?_⟩
    simp only [hp] at hh
    cases hu : jwe.get? "unprotected" with
    | none =>
      simp only [hu] at hh
      cases hr : rcp.bind (·.get? "header") with
      | none => simp [hr] at hh; subst hh; simp [get?]
      | some rh =>
        cases rh with
        | obj rk => simp [hr] at hh; subst hh; simp [get?, lookup_updateMissingKV]
        | _ => simp [hr] at hh
    | some u =>
      cases u with
      | obj uk =>
        simp only [hu] at hh
        cases hr : rcp.bind (·.get? "header") with
        | none => simp [hr] at hh; subst hh; simp [get?, lookup_updateMissingKV]
        | some rh =>
          cases rh with
          | obj rk =>
            simp [hr] at hh; subst hh
            simp only [get?, lookup_updateMissingKV, Option.bind_some]
          | _ => simp [hr] at hh
      | _ => simp [hu] at hh

/-- the merge is the same whether the protected header is still an object or already
    base64url text that decodes to that object -/
theorem protected_form_irrelevant (kvs : List (String × Json)) (s : String) (p : List (String × Json))
    (hdec : B64.decLoad (some (.str s)) = some (.obj p)) :
    protectedObj (.obj (setKV "protected" (.str s) kvs)) = protectedObj (.obj (setKV "protected" (.obj p) kvs)) := by
  simp [protectedObj, get?, lookup_setKV_same, hdec]

/-- a header that is present but unusable (not an object / not decodable to one) makes
    the merge fail rather than being skipped -/
theorem unusable_header_fails (sig : Json) :
    (protectedObj sig = none → jwsHdr sig = none) ∧
    (∀ v, sig.get? "header" = some v → v.isObject = false → jwsHdr sig = none) := by
  constructor
  · intro h; simp [jwsHdr, h]
  · intro v hv hno
    simp only [jwsHdr]
    cases protectedObj sig with
    | none => rfl
    | some p => cases v <;> simp_all [Json.isObject]

/-- non-vacuity -/
example : jwsHdr (.obj [("protected", .obj [("alg", .str "P")]), ("header", .obj [("alg", .str "H"), ("kid", .int 1)])])
    = some (.obj [("alg", .str "P"), ("kid", .int 1)]) := by rfl

end Jose.Props.C15
