import Jose.Jwe
namespace Jose.Props.C04
theorem placeholder : (1 : Nat) = 1 := rfl
end Jose.Props.C04
