import Jose.Jwe
import Jose.Lemmas.B64
import Jose.Lemmas.Json
import Jose.Props.C02
/-
  C04 — JWE encrypt/decrypt round trip; what is produced, bit for bit.
  Statements about `Jwe.encCek`, `Jwe.sealWith` / `Jwe.openWith`, `Jwe.wrp` / `Jwe.unw`.
-/
set_option linter.unusedSimpArgs false
set_option linter.unusedVariables false

namespace Jose.Props.C04
open Jose Jose.Jwe Jose.Jws Jose.Json Jose.Entity Jose.B64 Tables

/-! ### hypotheses on the primitives (laws, never axioms) -/

/-- AES-GCM: what is sealed opens, and the tag has 16 bytes -/
def GcmLaw (P : Prims) : Prop :=
  ∀ key iv aad pt, (P.gcmEnc key iv aad pt).2.length = 16 ∧
    P.gcmDec key iv aad (P.gcmEnc key iv aad pt).1 (P.gcmEnc key iv aad pt).2 = some pt

/-- AES-CBC with padding round-trips; HMAC output is at least `k` bytes for the pairings used -/
def CbcLaw (P : Prims) : Prop :=
  (∀ key iv pt, P.cbcDec key iv (P.cbcEnc key iv pt) = some pt) ∧
  (∀ k hs key msg, (k, hs) ∈ [(16, "S256"), (24, "S384"), (32, "S512")] → k ≤ (P.hmac hs key msg).length)

def ZipLaw (P : Prims) : Prop := ∀ x, P.inflate (P.deflate x) = some x

/-- **C04 (cryptographic core of the round trip).**  For every content-encryption family,
    key, IV, associated data and body: what `sealWith` produces is accepted by `openWith`
    with the same inputs and gives the body back. -/
theorem seal_open (P : Prims) (hg : GcmLaw P) (hc : CbcLaw P) (name : String) (fam : EncFam)
    (hf : encFamily name = some fam) (key iv aad body : Bs) :
    openWith P fam key iv aad (sealWith P fam key iv aad body).1 (sealWith P fam key iv aad body).2 = some body := by
  cases fam with
  | gcm k =>
    obtain ⟨h1, h2⟩ := hg key iv aad body
    simp [openWith, sealWith, h1, h2]
  | cbc k hs =>
    have hpair : (k, hs) ∈ [(16, "S256"), (24, "S384"), (32, "S512")] := by
      simp only [encFamily] at hf
      split at hf <;> simp_all
    have hlen := hc.2 k hs (key.take k) (aad ++ iv ++ P.cbcEnc (key.drop k) iv body ++ be 8 (aad.length * 8)) hpair
    simp only [openWith, sealWith, List.length_take, hc.1]
    simp only [List.append_assoc] at hlen ⊢
    simp [Nat.min_eq_left hlen]

/-- **C04 (bit-identical).**  Given the content key, the IV and the (compressed) body,
    ciphertext and tag are exactly the primitive's output on the RFC 7518 inputs: for
    GCM the sealed (key, iv, aad, body); for CBC-HMAC the CBC ciphertext under the second
    half of the key and the first half of HMAC over aad ‖ iv ‖ ciphertext ‖ AL under the
    first half -/
theorem seal_layout (P : Prims) (k : Nat) (hs : String) (key iv aad body : Bs) :
    sealWith P (.gcm k) key iv aad body = P.gcmEnc key iv aad body ∧
    (sealWith P (.cbc k hs) key iv aad body).1 = P.cbcEnc (key.drop k) iv body ∧
    (sealWith P (.cbc k hs) key iv aad body).2 =
      (P.hmac hs (key.take k) (aad ++ iv ++ P.cbcEnc (key.drop k) iv body ++ be 8 (aad.length * 8))).take k := by
  simp [sealWith]

/-- the 64-bit big-endian length field -/
example : be 8 (51 * 8) = [0, 0, 0, 0, 0, 0, 1, 152] := by decide

/-- what `jose_jwe_enc_cek` writes: iv, tag and ciphertext are the base64url of the IV drawn
    and of `sealWith` on (CEK, iv, aad-in-full of the *resulting* object, body) where the body
    is the plaintext, deflated as one stream iff `zip` is in the protected header -/
theorem encCek_spec (P : Prims) (jwe cek : Json) (pt rnd : Bs) (jwe' : Json) (h : encCek P jwe cek pt rnd = some jwe') :
    ∃ a kvs fam aad key zip,
      encCekSetup jwe cek = some (a, .obj kvs) ∧ encFamily a.name = some fam ∧
      aadOf (.obj kvs) = some aad ∧ exactKey cek "k" (cekLen fam) = some key ∧ zipOf (.obj kvs) = some zip ∧
      let iv := rnd.take (ivLen fam)
      let body := if zip then P.deflate pt else pt
      jwe' = .obj (setKV "ciphertext" (B64.enc (sealWith P fam key iv aad body).1)
                    (setKV "tag" (B64.enc (sealWith P fam key iv aad body).2) (setKV "iv" (B64.enc iv) kvs))) := by
  simp only [encCek, Option.bind_eq_some_iff] at h
  obtain ⟨⟨a, j⟩, hs, fam, hf, aad, haad, key, hk, zip, hz, hfin⟩ := h
  cases j with
  | obj kvs =>
    simp only [Option.some.injEq] at hfin
    exact ⟨a, kvs, fam, aad, key, zip, hs, hf, haad, hk, hz, hfin.symm⟩
  | _ => simp at hfin

/-- members written by the encryptor do not disturb the associated data -/
theorem aadOf_after_enc (kvs : List (String × Json)) (c t i : Json) :
    aadOf (.obj (setKV "ciphertext" c (setKV "tag" t (setKV "iv" i kvs)))) = aadOf (.obj kvs) := by
  simp only [aadOf, optStr]
  rw [lookup_setKV_other "ciphertext" "protected" _ _ (by decide), lookup_setKV_other "tag" "protected" _ _ (by decide),
    lookup_setKV_other "iv" "protected" _ _ (by decide), lookup_setKV_other "ciphertext" "aad" _ _ (by decide),
    lookup_setKV_other "tag" "aad" _ _ (by decide), lookup_setKV_other "iv" "aad" _ _ (by decide)]

/-- decoding a member that was just written with `jose_b64_enc` -/
theorem exactKey_enc (kvs : List (String × Json)) (m : String) (b : Bs) (hb : Bytes b) :
    exactKey (.obj (setKV m (B64.enc b) kvs)) m b.length = some b := by
  simp only [exactKey, get?, lookup_setKV_same, bytesOfJson]
  have := dec_enc_json b hb
  simp only [B64.enc] at this ⊢
  simp [this]

/-- **C04 (round trip of the content encryption, object level).**  Given the laws above and
    that everything involved is a byte string, the members `iv`, `tag`, `ciphertext` written
    by `jose_jwe_enc_cek` are read back by the decryptor as exactly what was written, the
    associated data is the same, and `openWith` followed by the inflate stage returns the
    plaintext. -/
theorem enc_then_open (P : Prims) (hg : GcmLaw P) (hc : CbcLaw P) (hz : ZipLaw P)
    (jwe cek : Json) (pt rnd : Bs) (jwe' : Json) (h : encCek P jwe cek pt rnd = some jwe')
    (hbytes : ∀ fam key iv aad body, Bytes (sealWith P fam key iv aad body).1 ∧ Bytes (sealWith P fam key iv aad body).2)
    (hrnd : Bytes rnd) :
    ∃ a kvs fam aad key zip iv ct tag,
      encCekSetup jwe cek = some (a, .obj kvs) ∧ encFamily a.name = some fam ∧ zipOf (.obj kvs) = some zip ∧
      aadOf jwe' = some aad ∧
      exactKey jwe' "iv" iv.length = some iv ∧ iv = rnd.take (ivLen fam) ∧
      bytesOfJson (jwe'.get? "tag") = some tag ∧
      bytesOfJson (jwe'.get? "ciphertext") = some ct ∧
      (openWith P fam key iv aad ct tag).bind (fun body => if zip then P.inflate body else some body) = some pt := by
  obtain ⟨a, kvs, fam, aad, key, zip, h1, h2, h3, h4, h5, h6⟩ := encCek_spec P jwe cek pt rnd jwe' h
  simp only at h6
  subst h6
  have hivb : Bytes (rnd.take (ivLen fam)) := fun x hx => hrnd x (List.mem_of_mem_take hx)
  obtain ⟨hb1, hb2⟩ := hbytes fam key (rnd.take (ivLen fam)) aad (if zip then P.deflate pt else pt)
  refine ⟨a, kvs, fam, aad, key, zip, rnd.take (ivLen fam),
    (sealWith P fam key (rnd.take (ivLen fam)) aad (if zip then P.deflate pt else pt)).1,
    (sealWith P fam key (rnd.take (ivLen fam)) aad (if zip then P.deflate pt else pt)).2,
    h1, h2, h5, ?_, ?_, rfl, ?_, ?_, ?_⟩
  · rw [aadOf_after_enc]; exact h3
  · -- iv read back
    have := exactKey_enc kvs "iv" (rnd.take (ivLen fam)) hivb
    simp only [exactKey, get?] at this ⊢
    rw [lookup_setKV_other "ciphertext" "iv" _ _ (by decide), lookup_setKV_other "tag" "iv" _ _ (by decide)]
    exact this
  · have := dec_enc_json _ hb2
    simp only [get?, bytesOfJson]
    rw [lookup_setKV_other "ciphertext" "tag" _ _ (by decide), lookup_setKV_same]
    simp only [B64.enc] at this ⊢
    exact this
  · have := dec_enc_json _ hb1
    simp only [get?, bytesOfJson, lookup_setKV_same]
    simp only [B64.enc] at this ⊢
    exact this
  · rw [seal_open P hg hc a.name fam h2]
    cases zip <;> simp [hz _]

end Jose.Props.C04
