import Jose.Jwe
import Jose.Lemmas.B64
import Jose.Lemmas.Json
import Jose.Props.C02
import Jose.Lemmas.Entity
/-
  C04 — JWE encrypt/decrypt round trip; what is produced, bit for bit.
  Statements about `Jwe.encCek`, `Jwe.sealWith` / `Jwe.openWith`, `Jwe.wrp` / `Jwe.unw`.
-/
set_option linter.unusedSimpArgs false
set_option linter.unusedVariables false

namespace Jose.Props.C04
open Jose Jose.Jwe Jose.Jws Jose.Json Jose.Entity Jose.B64 Tables

/-! ### hypotheses on the primitives (laws, never axioms) -/

/-- AES-GCM: what is sealed opens, and the tag has 16 bytes -/
def GcmLaw (P : Prims) : Prop :=
  ∀ key iv aad pt, (P.gcmEnc key iv aad pt).2.length = 16 ∧
    P.gcmDec key iv aad (P.gcmEnc key iv aad pt).1 (P.gcmEnc key iv aad pt).2 = some pt

/-- AES-CBC with padding round-trips; HMAC output is at least `k` bytes for the pairings used -/
def CbcLaw (P : Prims) : Prop :=
  (∀ key iv pt, P.cbcDec key iv (P.cbcEnc key iv pt) = some pt) ∧
  (∀ k hs key msg, (k, hs) ∈ [(16, "S256"), (24, "S384"), (32, "S512")] → k ≤ (P.hmac hs key msg).length)

def ZipLaw (P : Prims) : Prop := ∀ x, P.inflate (P.deflate x) = some x

/-- **C04 (cryptographic core of the round trip).**  For every content-encryption family,
    key, IV, associated data and body: what `sealWith` produces is accepted by `openWith`
    with the same inputs and gives the body back. -/
theorem seal_open (P : Prims) (hg : GcmLaw P) (hc : CbcLaw P) (name : String) (fam : EncFam)
    (hf : encFamily name = some fam) (key iv aad body : Bs) :
    openWith P fam key iv aad (sealWith P fam key iv aad body).1 (sealWith P fam key iv aad body).2 = some body := by
  cases fam with
  | gcm k =>
    obtain ⟨h1, h2⟩ := hg key iv aad body
    simp [openWith, sealWith, h1, h2]
  | cbc k hs =>
    have hpair : (k, hs) ∈ [(16, "S256"), (24, "S384"), (32, "S512")] := by
      simp only [encFamily] at hf
      split at hf <;> simp_all
    have hlen := hc.2 k hs (key.take k) (aad ++ iv ++ P.cbcEnc (key.drop k) iv body ++ be 8 (aad.length * 8)) hpair
    simp only [openWith, sealWith, List.length_take, hc.1]
    simp only [List.append_assoc] at hlen ⊢
    simp [Nat.min_eq_left hlen]

/-- **C04 (bit-identical).**  Given the content key, the IV and the (compressed) body,
    ciphertext and tag are exactly the primitive's output on the RFC 7518 inputs: for
    GCM the sealed (key, iv, aad, body); for CBC-HMAC the CBC ciphertext under the second
    half of the key and the first half of HMAC over aad ‖ iv ‖ ciphertext ‖ AL under the
    first half -/
theorem seal_layout (P : Prims) (k : Nat) (hs : String) (key iv aad body : Bs) :
    sealWith P (.gcm k) key iv aad body = P.gcmEnc key iv aad body ∧
    (sealWith P (.cbc k hs) key iv aad body).1 = P.cbcEnc (key.drop k) iv body ∧
    (sealWith P (.cbc k hs) key iv aad body).2 =
      (P.hmac hs (key.take k) (aad ++ iv ++ P.cbcEnc (key.drop k) iv body ++ be 8 (aad.length * 8))).take k := by
  simp [sealWith]

/-- the 64-bit big-endian length field -/
example : be 8 (51 * 8) = [0, 0, 0, 0, 0, 0, 1, 152] := by decide

/-- what `jose_jwe_enc_cek` writes: iv, tag and ciphertext are the base64url of the IV drawn
    and of `sealWith` on (CEK, iv, aad-in-full of the *resulting* object, body) where the body
    is the plaintext, deflated as one stream iff `zip` is in the protected header -/
theorem encCek_spec (P : Prims) (jwe cek : Json) (pt rnd : Bs) (jwe' : Json) (h : encCek P jwe cek pt rnd = some jwe') :
    ∃ a kvs fam aad key zip,
      encCekSetup jwe cek = some (a, .obj kvs) ∧ encFamily a.name = some fam ∧
      aadOf (.obj kvs) = some aad ∧ exactKey cek "k" (cekLen fam) = some key ∧ zipOf (.obj kvs) = some zip ∧
      let iv := rnd.take (ivLen fam)
      let body := if zip then P.deflate pt else pt
      jwe' = .obj (setKV "ciphertext" (B64.enc (sealWith P fam key iv aad body).1)
                    (setKV "tag" (B64.enc (sealWith P fam key iv aad body).2) (setKV "iv" (B64.enc iv) kvs))) := by
  simp only [encCek, Option.bind_eq_some_iff] at h
  obtain ⟨⟨a, j⟩, hs, fam, hf, aad, haad, key, hk, zip, hz, hfin⟩ := h
  cases j with
  | obj kvs =>
    simp only [Option.some.injEq] at hfin
    exact ⟨a, kvs, fam, aad, key, zip, hs, hf, haad, hk, hz, hfin.symm⟩
  | _ => simp at hfin

/-- members written by the encryptor do not disturb the associated data -/
theorem aadOf_after_enc (kvs : List (String × Json)) (c t i : Json) :
    aadOf (.obj (setKV "ciphertext" c (setKV "tag" t (setKV "iv" i kvs)))) = aadOf (.obj kvs) := by
  simp only [aadOf, optStr]
  rw [lookup_setKV_other "ciphertext" "protected" _ _ (by decide), lookup_setKV_other "tag" "protected" _ _ (by decide),
    lookup_setKV_other "iv" "protected" _ _ (by decide), lookup_setKV_other "ciphertext" "aad" _ _ (by decide),
    lookup_setKV_other "tag" "aad" _ _ (by decide), lookup_setKV_other "iv" "aad" _ _ (by decide)]

/-- decoding a member that was just written with `jose_b64_enc` -/
theorem exactKey_enc (kvs : List (String × Json)) (m : String) (b : Bs) (hb : Bytes b) :
    exactKey (.obj (setKV m (B64.enc b) kvs)) m b.length = some b := by
  simp only [exactKey, get?, lookup_setKV_same, bytesOfJson]
  have := dec_enc_json b hb
  simp only [B64.enc] at this ⊢
  simp [this]

/-- **C04 (round trip of the content encryption, object level).**  Given the laws above and
    that everything involved is a byte string, the members `iv`, `tag`, `ciphertext` written
    by `jose_jwe_enc_cek` are read back by the decryptor as exactly what was written, the
    associated data is the same, and `openWith` followed by the inflate stage returns the
    plaintext. -/
theorem enc_then_open (P : Prims) (hg : GcmLaw P) (hc : CbcLaw P) (hz : ZipLaw P)
    (jwe cek : Json) (pt rnd : Bs) (jwe' : Json) (h : encCek P jwe cek pt rnd = some jwe')
    (hbytes : ∀ fam key iv aad body, Bytes (sealWith P fam key iv aad body).1 ∧ Bytes (sealWith P fam key iv aad body).2)
    (hrnd : Bytes rnd) :
    ∃ a kvs fam aad key zip iv ct tag,
      encCekSetup jwe cek = some (a, .obj kvs) ∧ encFamily a.name = some fam ∧ zipOf (.obj kvs) = some zip ∧
      aadOf jwe' = some aad ∧
      exactKey jwe' "iv" iv.length = some iv ∧ iv = rnd.take (ivLen fam) ∧
      bytesOfJson (jwe'.get? "tag") = some tag ∧
      bytesOfJson (jwe'.get? "ciphertext") = some ct ∧
      (openWith P fam key iv aad ct tag).bind (fun body => if zip then P.inflate body else some body) = some pt := by
  obtain ⟨a, kvs, fam, aad, key, zip, h1, h2, h3, h4, h5, h6⟩ := encCek_spec P jwe cek pt rnd jwe' h
  simp only at h6
  subst h6
  have hivb : Bytes (rnd.take (ivLen fam)) := fun x hx => hrnd x (List.mem_of_mem_take hx)
  obtain ⟨hb1, hb2⟩ := hbytes fam key (rnd.take (ivLen fam)) aad (if zip then P.deflate pt else pt)
  refine ⟨a, kvs, fam, aad, key, zip, rnd.take (ivLen fam),
    (sealWith P fam key (rnd.take (ivLen fam)) aad (if zip then P.deflate pt else pt)).1,
    (sealWith P fam key (rnd.take (ivLen fam)) aad (if zip then P.deflate pt else pt)).2,
    h1, h2, h5, ?_, ?_, rfl, ?_, ?_, ?_⟩
  · rw [aadOf_after_enc]; exact h3
  · -- iv read back
    have := exactKey_enc kvs "iv" (rnd.take (ivLen fam)) hivb
    simp only [exactKey, get?] at this ⊢
    rw [lookup_setKV_other "ciphertext" "iv" _ _ (by decide), lookup_setKV_other "tag" "iv" _ _ (by decide)]
    exact this
  · have := dec_enc_json _ hb2
    simp only [get?, bytesOfJson]
    rw [lookup_setKV_other "ciphertext" "tag" _ _ (by decide), lookup_setKV_same]
    simp only [B64.enc] at this ⊢
    exact this
  · have := dec_enc_json _ hb1
    simp only [get?, bytesOfJson, lookup_setKV_same]
    simp only [B64.enc] at this ⊢
    exact this
  · rw [seal_open P hg hc a.name fam h2]
    cases zip <;> simp [hz _]


/-! ### key management: what is wrapped unwraps (AES key wrap, AES-GCM key wrap, direct key)

  The recipient object a wrapper builds is, after `add_entity`, found unchanged (listed members) at its
  position in the JWE (C16); the theorems below therefore speak about that recipient object directly. -/

/-- RFC 3394: what is wrapped unwraps, and a wrapped key is a byte string 8 bytes longer -/
def KwLaw (P : Prims) : Prop :=
  ∀ kek pt ct, P.kwWrap kek pt = some ct → P.kwUnwrap kek ct = some pt ∧ Bytes ct ∧ ct.length = pt.length + 8

theorem bytesOfJson_enc (b : Bs) (hb : Bytes b) : bytesOfJson (some (B64.enc b)) = some b := by
  have := dec_enc_json b hb
  simp only [B64.enc] at this ⊢
  simp [bytesOfJson, this]

/-- what AES key wrapping stores: the recipient object gets `encrypted_key` = base64url of the RFC 3394
    wrapping of exactly the CEK's bytes under exactly the key's `k` (of the algorithm's length), and is
    then added to the JWE -/
theorem wrp_aeskw_spec (P : Prims) (name : String) (klen fuel : Nat) (jwe jwk cek jwe' cek' : Json)
    (rkvs : List (String × Json)) (rnd : Bs) (hf : wrapFamily name = some (.aeskw klen))
    (h : wrp P (fuel + 1) name jwe (.obj rkvs) jwk cek rnd = some (jwe', cek')) :
    ∃ kek pt ct, exactKey jwk "k" klen = some kek ∧ bytesOfJson (cek'.get? "k") = some pt ∧ pt.length ≤ keymax ∧
      P.kwWrap kek pt = some ct ∧
      addEntity jwe (some (.obj (setKV "encrypted_key" (B64.enc ct) rkvs))) "recipients" RCPKEYS = some jwe' := by
  simp only [wrp, hf, Option.bind_eq_some_iff] at h
  obtain ⟨⟨c1, r1⟩, hgen, kek, hk, pt, hpt, hrest⟩ := h
  split at hrest
  · simp at hrest
  · rename_i hlen
    simp only [Option.bind_eq_some_iff, Option.map_eq_some_iff, Prod.mk.injEq] at hrest
    obtain ⟨ct, hct, j, hadd, rfl, rfl⟩ := hrest
    exact ⟨kek, pt, ct, hk, hpt, by omega, hct, hadd⟩

/-- **C04 (key management round trip, AES key wrap).**  The recipient object AES-KW wrapping builds,
    handed to the unwrapper with the same key, yields a CEK whose `k` is exactly the wrapped CEK's `k`
    — wherever that recipient object ends up in the JWE (flattened or in the list: C16) and whatever
    else the JWE holds. -/
theorem aeskw_wrap_then_unwrap (P : Prims) (hkw : KwLaw P) (name : String) (klen fuel fuel' : Nat)
    (jwe jweAny jwk cek jwe' cek' : Json) (rkvs c : List (String × Json)) (rnd rnd' : Bs)
    (hf : wrapFamily name = some (.aeskw klen))
    (h : wrp P (fuel + 1) name jwe (.obj rkvs) jwk cek rnd = some (jwe', cek')) :
    ∃ pt ct, bytesOfJson (cek'.get? "k") = some pt ∧
      unw P (fuel' + 1) name jweAny (.obj (setKV "encrypted_key" (B64.enc ct) rkvs)) jwk (.obj c) rnd'
        = some (.obj (setKV "k" (B64.enc pt) c)) := by
  obtain ⟨kek, pt, ct, hk, hpt, hlen, hw, _⟩ := wrp_aeskw_spec P name klen fuel jwe jwk cek jwe' cek' rkvs rnd hf h
  obtain ⟨hu, hb, hl⟩ := hkw kek pt ct hw
  refine ⟨pt, ct, hpt, ?_⟩
  have hnot : ¬ (keymax + 16 < ct.length) := by omega
  simp only [unw, hf, hk, Option.bind_some, get?, lookup_setKV_same, bytesOfJson_enc ct hb, hnot, if_false, hu, Option.map_some]

/-- what AES-GCM key wrapping stores: a fresh 12-byte IV from the random stream, `encrypted_key` and `tag`
    = AES-GCM (no associated data) of exactly the CEK's bytes under exactly the key's `k`; IV and tag go into
    the per-recipient header — and (after fix `F28`) wrapping succeeds only if neither the protected nor the
    shared unprotected header already defines `iv` or `tag`, which would hide the recorded ones -/
theorem wrp_gcmkw_spec (P : Prims) (name : String) (klen fuel : Nat) (jwe jwk cek jwe' cek' : Json)
    (rkvs : List (String × Json)) (rnd : Bs) (hf : wrapFamily name = some (.gcmkw klen))
    (h : wrp P (fuel + 1) name jwe (.obj rkvs) jwk cek rnd = some (jwe', cek')) :
    (sharedHdrHas jwe "iv" = false ∧ sharedHdrHas jwe "tag" = false) ∧
    ∃ kek pt iv hkv, exactKey jwk "k" klen = some kek ∧ bytesOfJson (cek'.get? "k") = some pt ∧ iv.length ≤ 12 ∧
      (match lookup "header" rkvs with | none => some [] | some (.obj hh) => some hh | some _ => none) = some hkv ∧
      addEntity jwe (some (.obj (setKV "encrypted_key" (B64.enc (P.gcmEnc kek iv [] pt).1)
        (setKV "header" (.obj (setKV "tag" (B64.enc (P.gcmEnc kek iv [] pt).2) (setKV "iv" (B64.enc iv) hkv))) rkvs))))
        "recipients" RCPKEYS = some jwe' := by
  simp only [wrp, hf] at h
  split at h
  · simp at h
  · rename_i hsh
    simp only [Bool.or_eq_true, not_or, Bool.not_eq_true] at hsh
    refine ⟨hsh, ?_⟩
    simp only [Option.bind_eq_some_iff] at h
    obtain ⟨⟨c1, r1⟩, hgen, pt, hpt, kek, hk, hkv, hh, hrest⟩ := h
    simp only [Option.map_eq_some_iff, Prod.mk.injEq] at hrest
    obtain ⟨j, hadd, rfl, rfl⟩ := hrest
    exact ⟨kek, pt, r1.take 12, hkv, hk, hpt, by simp [List.length_take]; omega, hh, hadd⟩

/-- **C04 (key management round trip, AES-GCM key wrap).**  If the merged header the unwrapper sees shows the
    IV and tag the wrapper put into the per-recipient header (i.e. no more trusted header defines `iv`/`tag`),
    unwrapping the stored `encrypted_key` with the same key gives back exactly the CEK bytes. -/
theorem gcmkw_unwrap_of_wrapped (P : Prims) (hg : GcmLaw P) (name : String) (klen fuel' : Nat)
    (jweAny rcp jwk : Json) (c : List (String × Json)) (kek pt iv : Bs) (rnd' : Bs) (hdr : Json)
    (hf : wrapFamily name = some (.gcmkw klen)) (hk : exactKey jwk "k" klen = some kek)
    (hiv : iv.length = 12) (hbi : Bytes iv)
    (hbc : Bytes (P.gcmEnc kek iv [] pt).1) (hbt : Bytes (P.gcmEnc kek iv [] pt).2)
    (hh : jweHdr jweAny (some rcp) = some hdr)
    (h1 : hdr.get? "iv" = some (B64.enc iv)) (h2 : hdr.get? "tag" = some (B64.enc (P.gcmEnc kek iv [] pt).2))
    (h3 : rcp.get? "encrypted_key" = some (B64.enc (P.gcmEnc kek iv [] pt).1)) :
    unw P (fuel' + 1) name jweAny rcp jwk (.obj c) rnd' = some (.obj (setKV "k" (B64.enc pt) c)) := by
  obtain ⟨htag, hopen⟩ := hg kek iv [] pt
  have eiv : exactKey (.obj [("iv", B64.enc iv)]) "iv" 12 = some iv := by
    have := exactKey_enc [] "iv" iv hbi
    simpa [setKV, hiv] using this
  have ect := dec_enc_json (P.gcmEnc kek iv [] pt).1 hbc
  have etag := bytesOfJson_enc (P.gcmEnc kek iv [] pt).2 hbt
  simp only [unw, hf, hh, Option.bind_some, h1, h2, h3]
  simp only [B64.enc] at ect ⊢
  simp only [B64.enc] at eiv etag
  simp only [eiv, hk, ect, etag, Option.bind_some, htag, ne_eq, not_true_eq_false, if_false, hopen, Option.map_some]

/-- **C04 (key management round trip, direct key).**  With `dir` the content key on both sides is the
    shared key itself: after wrapping, the CEK's `k` is the key's `k`, and unwrapping (any JWE, any recipient
    object whose encrypted key is absent or empty — after fix F30 others are refused, see
    `C02.direct_refuses_encrypted_key`) with the same key yields a CEK with that same `k`. -/
theorem dir_wrap_then_unwrap (P : Prims) (name : String) (fuel fuel' : Nat) (jwe jwe2 rcp2 jwe' cek' : Json)
    (rkvs k c0 c : List (String × Json)) (v : Json) (rnd rnd' : Bs)
    (hf : wrapFamily name = some .dir) (hnd : (k.map Prod.fst).Nodup) (hk : lookup "k" k = some v)
    (hc : lookup "k" c0 = none) (hne : noEncryptedKey rcp2 = true)
    (h : wrp P (fuel + 1) name jwe (.obj rkvs) (.obj k) (.obj c0) rnd = some (jwe', cek')) :
    cek'.get? "k" = some v ∧
    ∃ cek2, unw P (fuel' + 1) name jwe2 rcp2 (.obj k) (.obj c) rnd' = some cek2 ∧ cek2.get? "k" = some v := by
  constructor
  · simp only [wrp, hf, get?, hc, Option.bind_eq_some_iff, Option.map_eq_some_iff, Prod.mk.injEq] at h
    obtain ⟨ck, hck, j, _, rfl, rfl⟩ := h
    simp only [Option.some.injEq] at hck
    subst hck
    simp [get?, lookup_updateKV c0 k "k" hnd, hk]
  · refine ⟨.obj (updateKV c k), by simp [unw, hf, hne], ?_⟩
    simp [get?, lookup_updateKV c k "k" hnd, hk]

/-- **A direct key joins only its own content key** (after fix F32): once an earlier recipient has fixed the content
    key, adding a `dir` recipient succeeds only if its key IS that content key — so every `dir` recipient of a
    produced JWE can decrypt it, in whatever position it was added -/
theorem dir_joins_only_same_key (P : Prims) (name : String) (fuel : Nat) (jwe jwk cek : Json) (ck : Json)
    (rkvs : List (String × Json)) (rnd : Bs) (out : Json × Json)
    (hf : wrapFamily name = some .dir) (hc : cek.get? "k" = some ck)
    (h : wrp P (fuel + 1) name jwe (.obj rkvs) jwk cek rnd = some out) :
    ∃ jk, jwk.get? "k" = some jk ∧ Json.equal ck jk = true ∧ out.2 = cek := by
  simp only [wrp, hf, hc, Option.bind_eq_some_iff] at h
  obtain ⟨c', hc', h⟩ := h
  cases hj : jwk.get? "k" with
  | none => simp [hj] at hc'
  | some jk =>
    simp only [hj] at hc'
    split at hc'
    · rename_i heq
      simp only [Option.some.injEq] at hc'
      subst hc'
      simp only [Option.map_eq_some_iff] at h
      obtain ⟨j, _, rfl⟩ := h
      exact ⟨jk, rfl, heq, rfl⟩
    · simp at hc'

end Jose.Props.C04
