import Jose.Exc
/-
  C13 — key exchange algebra.  The algebra is proved over an abstract commutative
  group with a natural-number scalar action (what the curve points are); the
  dispatch (refusals, modes) is proved on the model `Exc.exc`.
-/
set_option linter.unusedSimpArgs false
set_option linter.unusedVariables false

namespace Jose.Props.C13
open Jose Jose.Exc Jose.Jws Jose.Json Tables

/-- a commutative group with scalar multiplication by naturals: the laws used, as fields -/
structure CurveGroup (G : Type) where
  add : G → G → G
  neg : G → G
  zero : G
  smul : Nat → G → G
  add_assoc : ∀ a b c, add (add a b) c = add a (add b c)
  add_comm : ∀ a b, add a b = add b a
  add_zero : ∀ a, add a zero = a
  add_neg : ∀ a, add a (neg a) = zero
  smul_add : ∀ k a b, smul k (add a b) = add (smul k a) (smul k b)
  smul_smul : ∀ j k a, smul j (smul k a) = smul (j * k) a

variable {G : Type} (C : CurveGroup G)

/-- ECDH agreement: a·(b·G) = b·(a·G) -/
theorem ecdh_symm (g : G) (a b : Nat) : C.smul a (C.smul b g) = C.smul b (C.smul a g) := by
  rw [C.smul_smul, C.smul_smul, Nat.mul_comm]

/-- **McCallum-Relyea recovery.**  For every generator g and all client, ephemeral and server
    scalars c, e, s:  s·(c·g + e·g) − e·(s·g) = c·(s·g) -/
theorem ecmr_recovery (g : G) (c e s : Nat) :
    C.add (C.smul s (C.add (C.smul c g) (C.smul e g))) (C.neg (C.smul e (C.smul s g))) = C.smul c (C.smul s g) := by
  rw [C.smul_add, C.smul_smul, C.smul_smul, C.smul_smul, C.smul_smul, Nat.mul_comm s e, Nat.mul_comm s c,
    C.add_assoc, C.add_neg, C.add_zero]

/-- the documented three modes of ECMR are the model's case split: with a local private key
    scalar multiplication; with only a remote private key point addition; with neither, local
    minus remote -/
theorem ecmr_modes (P : Prims) (lcl rem : EcKey) :
    excPoint P "ECMR" lcl rem =
      (match lcl.d with
       | some d => P.ecdh lcl.crv d rem.x rem.y
       | none => P.ecAdd lcl.crv lcl.x lcl.y rem.x rem.y rem.d.isNone) ∧
    excPoint P "ECDH" lcl rem = lcl.d.bind fun d => P.ecdh lcl.crv d rem.x rem.y := by
  constructor
  · simp only [excPoint]; cases lcl.d <;> simp
  · simp [excPoint]

/-- ECDH needs the local private key -/
theorem ecdh_needs_private (P : Prims) (lcl rem : EcKey) (h : lcl.d = none) : excPoint P "ECDH" lcl rem = none := by
  simp [excPoint, h]

/-- the result never contains a private member: only kty, crv, x, y; and both keys passed the
    curve check and lie on the same curve -/
theorem result_public (P : Prims) (prv pub r : Json) (h : exc P prv pub = some r) :
    r.get? "d" = none ∧ ∃ lcl rem x y, ecKeyOf P prv = some lcl ∧ ecKeyOf P pub = some rem ∧ lcl.crv = rem.crv ∧
      r = pointJwk lcl.crv x y := by
  simp only [exc, Option.bind_eq_some_iff] at h
  obtain ⟨ktya, _, alga, _, ktyb, _, algb, _, h⟩ := h
  split at h
  · simp at h
  · simp only [Option.bind_eq_some_iff] at h
    obtain ⟨name, _, a, _, h⟩ := h
    split at h
    · simp at h
    · split at h
      · simp at h
      · simp only [body, Option.bind_eq_some_iff] at h
        obtain ⟨lcl, hl, rem, hr, h⟩ := h
        split at h
        · simp at h
        · rename_i hc
          simp only [Option.map_eq_some_iff] at h
          obtain ⟨xy, _, rfl⟩ := h
          refine ⟨by simp [pointJwk, get?, lookup], lcl, rem, xy.1, xy.2, hl, hr, ?_, rfl⟩
          simpa using hc

/-- refusals: different key types; both declare an algorithm and they differ (whatever the
    names); no algorithm declared and none inferable -/
theorem refusals (P : Prims) (prv pub : Json) :
    (∀ ka kb, prv.getStr? "kty" = some ka → pub.getStr? "kty" = some kb → ka ≠ kb → exc P prv pub = none) ∧
    (∀ a b, optStr prv "alg" = some (some a) → optStr pub "alg" = some (some b) → a ≠ b → exc P prv pub = none) := by
  constructor
  · intro ka kb h1 h2 hne
    simp only [exc, h1, h2, Option.bind_some]
    cases optStr prv "alg" <;> cases optStr pub "alg" <;> simp [hne]
  · intro a b h1 h2 hne
    simp only [exc, h1, h2, Option.bind_some]
    cases prv.getStr? "kty" <;> cases pub.getStr? "kty" <;> simp [excSelect, hne]

/-- the algorithm-mismatch rule stated outright (no ordering hypothesis) -/
theorem excSelect_mismatch (a b : String) (s : Option String) (h : a ≠ b) : excSelect (some a) (some b) s = none := by
  simp [excSelect, h]

/-- every registered exchange algorithm demands deriveKey of both keys (table fact) -/
theorem exch_permission : ∀ a ∈ exchAlgs, a.p1 = some "deriveKey" := by decide

/-- non-vacuity of the group structure: the integers under addition -/
example : CurveGroup Int :=
  { add := (· + ·), neg := fun a => -a, zero := 0, smul := fun k a => (k : Int) * a,
    add_assoc := Int.add_assoc, add_comm := Int.add_comm, add_zero := Int.add_zero,
    add_neg := Int.add_right_neg,
    smul_add := fun k a b => Int.mul_add k a b,
    smul_smul := fun j k a => by simp only [Int.natCast_mul, Int.mul_assoc] }

end Jose.Props.C13
