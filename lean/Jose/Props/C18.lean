import Jose.Cli
/-
  C18 — the command-line tool is faithful to the library.

  Theorems on the control-flow model of the tool (Jose/Cli.lean): for each subcommand, exit status 0
  exactly when the library operation it stands for succeeded on the inputs it was given, and what
  is written on success is the library's result.  The library operations are the model's own
  (`Jws.verIo`, `Jwe.decJwk`, `Jwk.thp`, ...): their meaning is the subject of C01..C16.
-/
namespace Jose.Props.C18
open Jose Jose.Cli

/-! ### jose jws ver -/

/-- exit 0 exactly when the library produced a verifier and its final verdict was true (and, with
    `-O`, the payload could be decoded for writing) — whatever other options are present -/
theorem ver_status (verdict : Option Bool) (out : Option String) (raw : Option (List Nat)) :
    (verDecision verdict out raw).status = 0 ↔ verdict = some true ∧ (out = none ∨ raw.isSome = true) := by
  unfold verDecision
  cases verdict with
  | none => simp [fail]
  | some ok =>
    cases out with
    | none => cases ok <;> simp
    | some f =>
      cases raw with
      | none => simp [fail]
      | some r => cases ok <;> simp [fail, emit] <;> split <;> simp

/-- in particular: no verifier (no usable key, unsupported algorithm, `-a` with one unusable key)
    means failure, with or without an output sink -/
theorem ver_no_verifier_fails (out : Option String) (raw : Option (List Nat)) :
    (verDecision none out raw).status = 1 := rfl

/-- on success with `-O FILE` exactly the decoded payload is written, nothing else -/
theorem ver_output (f : String) (r : List Nat) (hf : f ≠ "-") :
    verDecision (some true) (some f) (some r) = { status := 0, stdout := [], files := [(f, r)] } := by
  simp [verDecision, emit, hf]

/-- the command is that decision applied to the library's verifier, or an earlier refusal -/
theorem ver_shape (P : Prims) (w : World) (argv : List String) :
    jwsVer P w argv = fail ∨
    ∃ os keys inp body, parseOpts ['i', 'I', 'k', 'O'] argv = some os ∧ keys ≠ [] ∧
      foldOpt (addJwks w) (optsOf os 'k') = some keys ∧
      bodySource w inp (lastOpt os 'I') "payload" false = some body ∧
      jwsVer P w argv =
        verDecision ((Jws.verIo P (withLastField inp "signature") none (.arr keys) (hasFlag os 'a')).map
            fun sg => (IO.run sg [textOf (lastOpt os 'I').isSome body]).2)
          (lastOpt os 'O') (rawOf (lastOpt os 'I').isSome body) := by
  unfold jwsVer
  split
  · exact Or.inl rfl
  · rename_i os hos
    split
    · rename_i keys inp hk hi
      split
      · exact Or.inl rfl
      · rename_i hne
        split
        · exact Or.inl rfl
        · rename_i body hb
          refine Or.inr ⟨os, keys, inp, body, hos, ?_, hk, hb, rfl⟩
          intro h; subst h; simp at hne
    · exact Or.inl rfl

/-! ### jose jwe dec -/

/-- exit 0 exactly when unwrapping gave a content key, the decryptor could be built, the ciphertext
    was there and decryption (authentication included) succeeded; then the plaintext — and only
    then anything — is written -/
theorem dec_status (cek : Option Json) (body : Json → Option (List Nat → Option (List Nat))) (ct : Option (List Nat)) (out : String) :
    (decDecision cek body ct out).status = 0 ↔
      ∃ c f bytes pt, cek = some c ∧ body c = some f ∧ ct = some bytes ∧ f bytes = some pt := by
  unfold decDecision
  cases cek with
  | none => simp [fail]
  | some c =>
    cases hb : body c with
    | none => simp [fail, hb]
    | some f =>
      cases ct with
      | none => simp [fail, hb]
      | some bytes =>
        cases hf : f bytes with
        | none => simp [fail, hb, hf]
        | some pt =>
          simp only [hb, hf]
          constructor
          · intro _; exact ⟨c, f, bytes, pt, rfl, hb, rfl, hf⟩
          · intro _; simp [emit]; split <;> rfl

theorem dec_output (c : Json) (body : Json → Option (List Nat → Option (List Nat))) (f : List Nat → Option (List Nat))
    (bytes pt : List Nat) (hb : body c = some f) (hf : f bytes = some pt) :
    decDecision (some c) body (some bytes) "-" = { status := 0, stdout := pt, files := [] } := by
  simp [decDecision, hb, hf, emit]

theorem dec_failure_silent (cek : Option Json) (body : Json → Option (List Nat → Option (List Nat))) (ct : Option (List Nat)) (out : String)
    (h : (decDecision cek body ct out).status ≠ 0) : decDecision cek body ct out = fail := by
  unfold decDecision at h ⊢
  cases cek with
  | none => rfl
  | some c =>
    cases hb : body c with
    | none => simp [hb]
    | some f =>
      cases ct with
      | none => simp [hb]
      | some bytes =>
        cases hf : f bytes with
        | none => simp [hb, hf]
        | some pt => simp [hb, hf, emit] at h; split at h <;> simp at h

/-! ### compact serialization -/

/-- characters that may occur in a compact field: the alphabet (and never '.') -/
def FieldOk (s : String) : Prop := ∀ c ∈ s.toList, b64Char c = true ∧ c ≠ '.'

theorem split_field (v : List Char) (rest : List Char) (hv : ∀ c ∈ v, c ≠ '.') :
    splitDot (v ++ '.' :: rest) = (v, some rest) := by
  induction v with
  | nil => simp [splitDot]
  | cons c r ih =>
    have hc : c ≠ '.' := hv c (by simp)
    have := ih (fun x hx => hv x (by simp [hx]))
    simp [splitDot, hc, this]

theorem split_last (v : List Char) (hv : ∀ c ∈ v, c ≠ '.') : splitDot v = (v, none) := by
  induction v with
  | nil => rfl
  | cons c r ih =>
    have hc : c ≠ '.' := hv c (by simp)
    have := ih (fun x hx => hv x (by simp [hx]))
    simp [splitDot, hc, this]

/-- **Compact text is a faithful spelling**: parsing `protected.payload.signature` gives back exactly
    the three fields -/
theorem compact_roundtrip_jws (p pl sg : String) (hp : FieldOk p) (hpl : FieldOk pl) (hsg : FieldOk sg) :
    parseCompact jwsFields (p.toList ++ '.' :: (pl.toList ++ '.' :: sg.toList)) =
      some [("protected", .str p), ("payload", .str pl), ("signature", .str sg)] := by
  have h1 := split_field p.toList (pl.toList ++ '.' :: sg.toList) (fun c hc => (hp c hc).2)
  have h2 := split_field pl.toList sg.toList (fun c hc => (hpl c hc).2)
  have h3 := split_last sg.toList (fun c hc => (hsg c hc).2)
  have a1 : p.toList.all b64Char = true := by simp only [List.all_eq_true]; exact fun c hc => (hp c hc).1
  have a2 : pl.toList.all b64Char = true := by simp only [List.all_eq_true]; exact fun c hc => (hpl c hc).1
  have a3 : sg.toList.all b64Char = true := by simp only [List.all_eq_true]; exact fun c hc => (hsg c hc).1
  simp [parseCompact, jwsFields, h1, h2, h3, a1, a2, a3]

/-- fewer than three fields is not a compact JWS -/
example : parseCompact jwsFields "abc.def".toList = none := by decide

/-! ### thumbprints, export, equality -/

/-- the end of `jose jwk eql`: success exactly when every adjacent pair is equal for the library -/
theorem eql_two (w : World) (a b : Json) (h : foldOpt (addJwks w) (optsOf [('i', "a"), ('i', "b")] 'i') = some [a, b]) :
    (jwkEql w ["-i", "a", "-i", "b"]).status = 0 ↔ Jwk.eql a b = true := by
  have hp : parseOpts ['i'] ["-i", "a", "-i", "b"] = some [('i', "a"), ('i', "b")] := by decide
  simp only [jwkEql, hp, h]
  simp [fail]
  split <;> simp_all


/-! ### jose jwe fmt -/

/-- **Compact output of an object with more than one recipient fails** (and of one whose "recipients" is
    not a list of exactly one element): whatever else the command line and the object hold, `jose jwe fmt -c`
    exits with failure and writes nothing (after fix `989df74`). -/
theorem jwe_fmt_compact_many_fails (w : World) (argv : List String) (os : List (Char × String)) (arg : String) (inp : Input)
    (r : Json)
    (ho : parseOpts ['i', 'I', 'o', 'O'] argv = some os) (hi : lastOpt os 'i' = some arg)
    (hin : inputSet w jweFields arg = some inp) (hc : hasFlag os 'c' = true)
    (hr : inp.obj.get? "recipients" = some r) (hne : ∀ e, r ≠ .arr [e]) :
    jweFmt w argv = fail := by
  simp only [jweFmt, ho, hi, Option.map_some, hin, hc, hr]
  split
  · rfl
  · have hcnt : (match (some r : Option Json) with | none => true | some (.arr [_]) => true | some _ => false) = false := by
      cases r with
      | arr l =>
        cases l with
        | nil => rfl
        | cons e t =>
          cases t with
          | nil => exact absurd rfl (hne e)
          | cons _ _ => rfl
      | _ => rfl
    simp [hcnt]

/-- **The compact form cannot carry `aad`** (after fix F36): `jose jwe fmt -c` of an object that has an `aad` member
    fails, whatever else the object holds — a compact token without the aad could never be decrypted -/
theorem jwe_fmt_compact_aad_fails (w : World) (argv : List String) (os : List (Char × String)) (arg : String) (inp : Input)
    (a : Json)
    (ho : parseOpts ['i', 'I', 'o', 'O'] argv = some os) (hi : lastOpt os 'i' = some arg)
    (hin : inputSet w jweFields arg = some inp) (hc : hasFlag os 'c' = true)
    (ha : inp.obj.get? "aad" = some a) :
    jweFmt w argv = fail := by
  simp only [jweFmt, ho, hi, Option.map_some, hin, hc, ha]
  split
  · rfl
  · split <;> simp

/-- non-vacuity: a one-recipient object with aad, `-c` fails; without `-c` it is printed -/
example : ((jweFmt {} ["-i", "{\"ciphertext\":\"AA\",\"tag\":\"AA\",\"iv\":\"AA\",\"protected\":\"e30\",\"aad\":\"QQ\"}", "-c"]).status,
           (jweFmt {} ["-i", "{\"ciphertext\":\"AA\",\"tag\":\"AA\",\"iv\":\"AA\",\"protected\":\"e30\",\"aad\":\"QQ\"}"]).status) = (1, 0) := by
  decide +kernel

/-- the compact conversion reads each leading field from the single recipient or from the top level;
    a field of another JSON type is a failure, an absent one is the empty text -/
theorem compactFieldOf_top (obj : Json) (k : String) (h : obj.get? "recipients" = none) :
    compactFieldOf obj k (some "recipients") = (optMember obj k).map (·.getD "") := by
  simp [compactFieldOf, h]

/-- non-vacuity: a two-recipient object, `-c` -/
example : ((jweFmt {} ["-i", "{\"ciphertext\":\"AA\",\"tag\":\"AA\",\"recipients\":[{\"encrypted_key\":\"AA\"},{\"encrypted_key\":\"AQ\"}]}", "-c"]).status,
    (jweFmt {} ["-i", "{\"ciphertext\":\"AA\",\"tag\":\"AA\",\"recipients\":[{\"encrypted_key\":\"AA\"},{\"encrypted_key\":\"AQ\"}]}", "-c"]).stdout) = (1, []) := by
  decide +kernel

/-- and a one-recipient object in general form converts -/
example : (jweFmt {} ["-i", "{\"ciphertext\":\"AA\",\"tag\":\"AQ\",\"iv\":\"Ag\",\"protected\":\"cA\",\"recipients\":[{\"encrypted_key\":\"Aw\"}]}", "-c"]).stdout
    = bs "cA.Aw.Ag.AA.AQ" := by
  decide +kernel


/-! ### jose jwe enc -/

/-- the pieces of a `jose jwe enc` command line the theorems below speak about -/
structure EncLine (w : World) (argv : List String) where
  os : List (Char × String)
  keys : List Json
  inp : Input
  rcps : List Json
  hos : parseOpts ['i', 'I', 'r', 'k', 'o', 'O'] argv = some os
  hkeys : foldOpt (addJwks w) (optsOf os 'k') = some keys
  hinp : inputSet w jweFields ((lastOpt os 'i').getD "{}") = some inp
  hrcps : (optsOf os 'r').foldl (fun acc a => acc.bind fun l => (loadJsonArg w a).map (l ++ [·])) (some []) = some rcps

/-- **`jose jwe enc` fails without a key, and with `-c` and more than one key** (nothing is printed) -/
theorem jwe_enc_key_count (P : Prims) (w : World) (argv : List String) (rnd : Bs) (L : EncLine w argv)
    (h : L.keys = [] ∨ (L.keys.length > 1 ∧ hasFlag L.os 'c' = true)) : jweEnc P w argv rnd = fail := by
  simp only [jweEnc, L.hos, L.hkeys, L.hinp, L.hrcps]
  split
  · rfl
  · rcases h with h | ⟨h1, h2⟩
    · simp [h]
    · have : L.keys.isEmpty = false := by
        cases hk : L.keys with
        | nil => simp [hk] at h1
        | cons _ _ => rfl
      simp [this, h1, h2]

/-- **`jose jwe enc` fails when the library refuses to wrap** (unusable key, unknown or mismatching algorithm,
    key not permitted to wrap …): exit status 1, nothing printed, no file written -/
theorem jwe_enc_wrap_refused (P : Prims) (w : World) (argv : List String) (rnd : Bs) (L : EncLine w argv)
    (h : ∀ rcps, Jwe.encJwkKeys P (some (.arr rcps)) L.keys 0 L.inp.obj (.obj []) rnd = none) :
    jweEnc P w argv rnd = fail := by
  simp only [jweEnc, L.hos, L.hkeys, L.hinp, L.hrcps]
  split
  · rfl
  · split
    · rfl
    · split
      · rfl
      · split
        · rfl
        · split
          · rfl
          · simp [h]

end Jose.Props.C18
