namespace Jose
abbrev Bytes := List UInt8
end Jose
