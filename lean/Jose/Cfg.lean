import Jose.Tables
/-
  Model of lib/cfg.c: configuration contexts.

  A context is a heap cell (refs, handler, misc).  Handlers are identified by small numbers
  (`0` is the library's default handler `dflt_err`, which prints to stderr); user pointers
  (`misc`) likewise (`0` is NULL).  The state is the list of every context ever created, in
  creation order; a released context stays in the list as `none` (its memory is gone: any
  further use is a use-after-free in C and `illegal` here, which the correspondence harness
  never issues against the real library).

      new            ↔ jose_cfg()
      incref i       ↔ jose_cfg_incref
      decref i       ↔ jose_cfg_decref        (also jose_cfg_auto on a non-NULL variable)
      set i h m      ↔ jose_cfg_set_err_func(cfg, h ? handler[h] : NULL, misc[m])
      get i          ↔ jose_cfg_get_err_misc
      err c code msg ↔ jose_cfg_err(c, file, line, code, "%s", msg)   (c = none: NULL context)
-/
namespace Jose
namespace Cfg

structure Ctx where
  refs : Nat
  handler : Nat
  misc : Nat
  deriving Repr, DecidableEq

abbrev State := List (Option Ctx)

inductive Op where
  | new
  | incref (i : Nat)
  | decref (i : Nat)
  | set (i : Nat) (h : Nat) (m : Nat)
  | get (i : Nat)
  | err (c : Option Nat) (code : Nat) (msg : String)
  deriving Repr, DecidableEq

/-- what the caller (and its handlers, and stderr) observe of one call -/
inductive Out where
  | unit
  | created (i : Nat)
  | misc (m : Nat)
  /-- user handler `h` was called once with user pointer `m`, the code and the formatted text -/
  | delivered (h : Nat) (m : Nat) (code : Nat) (msg : String)
  /-- the default handler ran: the text it wrote to stderr -/
  | dflt (text : String)
  | illegal
  deriving Repr, DecidableEq

/-- `getname` for the codes at or above `_JOSE_CFG_ERR_BASE` (smaller codes go to `strerror`,
    which is libc's and not modelled: the harness never sends them) -/
def getname (code : Nat) : String :=
  match Tables.cfgErrNames.find? (fun p => p.1 = code) with
  | some p => p.2
  | none => "UNKNOWN"

/-- `dflt_err` with the location `file:line` -/
def dfltText (file : String) (line : Nat) (code : Nat) (msg : String) : String :=
  file ++ ":" ++ toString line ++ ":" ++ (if code ≠ 0 then getname code ++ ":" else "") ++ msg ++ "\n"

def live (s : State) (i : Nat) : Option Ctx := (s[i]?).join

def put (s : State) (i : Nat) (c : Option Ctx) : State := s.set i c

/-- the location every modelled `err` call reports (the harness passes the same) -/
def errFile : String := "site.c"
def errLine : Nat := 42

def step (s : State) : Op → State × Out
  | .new => (s ++ [some { refs := 1, handler := 0, misc := 0 }], .created s.length)
  | .incref i =>
    match live s i with
    | some c => (put s i (some { c with refs := c.refs + 1 }), .unit)
    | none => (s, .illegal)
  | .decref i =>
    match live s i with
    | some c => (put s i (if c.refs = 1 then none else some { c with refs := c.refs - 1 }), .unit)
    | none => (s, .illegal)
  | .set i h m =>
    match live s i with
    | some c => (put s i (some { c with handler := h, misc := m }), .unit)
    | none => (s, .illegal)
  | .get i =>
    match live s i with
    | some c => (s, .misc c.misc)
    | none => (s, .illegal)
  | .err none code msg => (s, .dflt (dfltText errFile errLine code msg))
  | .err (some i) code msg =>
    match live s i with
    | some c =>
      (s, if c.handler = 0 then .dflt (dfltText errFile errLine code msg)
          else .delivered c.handler c.misc code msg)
    | none => (s, .illegal)

def run (s : State) : List Op → State × List Out
  | [] => (s, [])
  | o :: r =>
    let (s1, out) := step s o
    let (s2, outs) := run s1 r
    (s2, out :: outs)

/-- the context an operation addresses (`new` addresses the slot it creates) -/
def Op.target (s : State) : Op → Option Nat
  | .new => some s.length
  | .incref i | .decref i | .set i _ _ | .get i => some i
  | .err c _ _ => c

/-- the library calls used by the harness's `lib` operation, as the error each one reports -/
def libErrs : List (Nat × String) := [
  (Tables.cfgErrBase + 4, "Signing algorithm (XX9) is not supported"),
  (Tables.cfgErrBase + 2, "Algorithm mismatch (HS256 != HS384)"),
  (Tables.cfgErrBase + 3, "JWK cannot be used to sign"),
  (Tables.cfgErrBase + 5, "Unable to infer signing algorithm")
]

end Cfg
end Jose
