import Jose.Json
/-
  A total re-implementation of jansson 2.14's `json_loadb` (load.c), used by the
  model wherever jose parses text: decoded protected headers, CLI arguments.
  Mirrors: whitespace set, literal scanning (maximal alphabetic run), number
  grammar (no leading zeros, `-` needs a digit, 64-bit integer range, reals kept as
  tokens), string escapes (`\u0000` rejected, surrogate pairs combined, lone
  surrogates rejected, raw control characters rejected), duplicate keys (last
  value wins, first position kept), JSON_DECODE_ANY and JSON_DISABLE_EOF_CHECK.
  Not mirrored: the 2048 nesting limit and real-number overflow (`1e999`).
-/
namespace Jose
namespace Json

structure LoadFlags where
  decodeAny : Bool := false
  disableEofCheck : Bool := false
  allowNul : Bool := false
  deriving Repr

def isWs (c : Char) : Bool := c = ' ' || c = '\t' || c = '\n' || c = '\r'

def skipWs : List Char → List Char
  | [] => []
  | c :: r => if isWs c then skipWs r else c :: r

def hexVal? (c : Char) : Option Nat :=
  if '0' ≤ c ∧ c ≤ '9' then some (c.toNat - 48)
  else if 'a' ≤ c ∧ c ≤ 'f' then some (c.toNat - 87)
  else if 'A' ≤ c ∧ c ≤ 'F' then some (c.toNat - 55)
  else none

/-- four hex digits after `\u` -/
def hex4? : List Char → Option (Nat × List Char)
  | a :: b :: c :: d :: r => do
    let a ← hexVal? a; let b ← hexVal? b; let c ← hexVal? c; let d ← hexVal? d
    some (a * 4096 + b * 256 + c * 16 + d, r)
  | _ => none

/-- body of a string after the opening quote; returns (decoded, rest after closing quote) -/
def scanString (allowNul : Bool) : List Char → List Char → Nat → Option (String × List Char)
  | _, _, 0 => none
  | _, [], _ => none
  | acc, c :: r, fuel + 1 =>
    if c = '"' then some (String.ofList acc.reverse, r)
    else if c.toNat < 0x20 then none
    else if c = '\\' then
      match r with
      | [] => none
      | e :: r' =>
        if e = 'u' then
          match hex4? r' with
          | none => none
          | some (v, r'') =>
            if 0xD800 ≤ v ∧ v ≤ 0xDBFF then
              match r'' with
              | '\\' :: 'u' :: r3 =>
                match hex4? r3 with
                | none => none
                | some (v2, r4) =>
                  if 0xDC00 ≤ v2 ∧ v2 ≤ 0xDFFF then
                    let cp := ((v - 0xD800) * 1024) + (v2 - 0xDC00) + 0x10000
                    scanString allowNul (Char.ofNat cp :: acc) r4 fuel
                  else none
              | _ => none
            else if 0xDC00 ≤ v ∧ v ≤ 0xDFFF then none
            else if v = 0 ∧ !allowNul then none
            else scanString allowNul (Char.ofNat v :: acc) r'' fuel
        else
          let m : Option Char :=
            if e = '"' then some '"' else if e = '\\' then some '\\' else if e = '/' then some '/'
            else if e = 'b' then some '\x08' else if e = 'f' then some '\x0c'
            else if e = 'n' then some '\n' else if e = 'r' then some '\r'
            else if e = 't' then some '\t' else none
          match m with
          | none => none
          | some ch => scanString allowNul (ch :: acc) r' fuel
    else scanString allowNul (c :: acc) r fuel

def takeDigits : List Char → List Char × List Char
  | [] => ([], [])
  | c :: r => if c.isDigit then let (d, r') := takeDigits r; (c :: d, r') else ([], c :: r)

def digitsToNat (ds : List Char) : Nat := ds.foldl (fun n c => n * 10 + (c.toNat - 48)) 0

def int64Min : Int := -9223372036854775808
def int64Max : Int := 9223372036854775807

/-- an optional leading minus sign -/
def negSplit (cs : List Char) : Bool × List Char :=
  match cs with
  | '-' :: r => (true, r)
  | _ => (false, cs)

/-- the integer part: a single `0` (not followed by a digit) or a run of digits -/
def intPart (cs1 : List Char) : Option (List Char × List Char) :=
  match cs1 with
  | '0' :: r =>
    (match r with
     | d :: _ => if d.isDigit then none else some (['0'], r)
     | [] => some (['0'], r))
  | d :: _ => if d.isDigit then some (takeDigits cs1) else none
  | [] => none

/-- does a fraction or an exponent follow -/
def realStart (r1 : List Char) : Bool :=
  match r1 with
  | '.' :: _ => true | 'e' :: _ => true | 'E' :: _ => true | _ => false

/-- number starting at the current position (first char is `-` or a digit) -/
def scanNumber (cs : List Char) : Option (Json × List Char) :=
  let neg := (negSplit cs).1
  let cs1 := (negSplit cs).2
  match intPart cs1 with
  | none => none
  | some (idigs, r1) =>
    let isRealStart := realStart r1
    if !isRealStart then
      let n : Int := if neg then - (Int.ofNat (digitsToNat idigs)) else Int.ofNat (digitsToNat idigs)
      if n < int64Min ∨ n > int64Max then none else some (.int n, r1)
    else
      -- fraction
      let fr : Option (List Char × List Char) :=
        match r1 with
        | '.' :: r2 =>
          let (fd, r3) := takeDigits r2
          if fd.isEmpty then none else some ('.' :: fd, r3)
        | _ => some ([], r1)
      match fr with
      | none => none
      | some (fchars, r3) =>
        let ex : Option (List Char × List Char) :=
          match r3 with
          | e :: r4 =>
            if e = 'e' ∨ e = 'E' then
              let (sg, r5) := match r4 with
                | '+' :: r5 => (['+'], r5)
                | '-' :: r5 => (['-'], r5)
                | _ => ([], r4)
              let (ed, r6) := takeDigits r5
              if ed.isEmpty then none else some (e :: (sg ++ ed), r6)
            else some ([], r3)
          | [] => some ([], r3)
        match ex with
        | none => none
        | some (echars, r6) =>
          let tok := (if neg then ['-'] else []) ++ idigs ++ fchars ++ echars
          some (.real (String.ofList tok), r6)

def takeAlpha : List Char → List Char × List Char
  | [] => ([], [])
  | c :: r => if c.isAlpha then let (d, r') := takeAlpha r; (c :: d, r') else ([], c :: r)

mutual
  /-- a value at the current position (leading whitespace already skipped by callers via `skipWs`) -/
  def parseValue (an : Bool) : List Char → Nat → Option (Json × List Char)
    | _, 0 => none
    | cs, fuel + 1 =>
      match skipWs cs with
      | [] => none
      | '{' :: r =>
        (match skipWs r with
         | '}' :: r' => some (.obj [], r')
         | r' => parseMembers an [] r' fuel)
      | '[' :: r =>
        (match skipWs r with
         | ']' :: r' => some (.arr [], r')
         | r' => parseElems an [] r' fuel)
      | '"' :: r =>
        (match scanString an [] r (r.length + 1) with
         | some (s, r') => some (.str s, r')
         | none => none)
      | c :: r =>
        if c = '-' ∨ c.isDigit then scanNumber (c :: r)
        else if c.isAlpha then
          let (w, r') := takeAlpha (c :: r)
          if w = "true".toList then some (.bool true, r')
          else if w = "false".toList then some (.bool false, r')
          else if w = "null".toList then some (.null, r')
          else none
        else none
  /-- members after `{` or `,` ; expects a string key next -/
  def parseMembers (an : Bool) : List (String × Json) → List Char → Nat → Option (Json × List Char)
    | _, _, 0 => none
    | acc, cs, fuel + 1 =>
      match skipWs cs with
      | '"' :: r =>
        (match scanString an [] r (r.length + 1) with
         | none => none
         | some (k, r1) =>
           match skipWs r1 with
           | ':' :: r2 =>
             (match parseValue an r2 fuel with
              | none => none
              | some (v, r3) =>
                let acc' := setKV k v acc
                match skipWs r3 with
                | ',' :: r4 => parseMembers an acc' r4 fuel
                | '}' :: r4 => some (.obj acc', r4)
                | _ => none)
           | _ => none)
      | _ => none
  def parseElems (an : Bool) : List Json → List Char → Nat → Option (Json × List Char)
    | _, _, 0 => none
    | acc, cs, fuel + 1 =>
      match parseValue an cs fuel with
      | none => none
      | some (v, r1) =>
        match skipWs r1 with
        | ',' :: r2 => parseElems an (v :: acc) r2 fuel
        | ']' :: r2 => some (.arr (v :: acc).reverse, r2)
        | _ => none
end

/-- does the text start an object or an array (what `json_loadb` demands without JSON_DECODE_ANY) -/
def startsContainer (cs : List Char) : Bool :=
  match cs with
  | '{' :: _ => true
  | '[' :: _ => true
  | _ => false

/-- `json_loadb` on already UTF-8-validated text; returns value and unconsumed rest -/
def loadChars (fl : LoadFlags) (cs : List Char) : Option (Json × List Char) :=
  let cs0 := skipWs cs
  let okStart := fl.decodeAny || startsContainer cs0
  if !okStart then none
  else match parseValue fl.allowNul cs0 (cs0.length + 2) with
    | none => none
    | some (v, r) =>
      if fl.disableEofCheck then some (v, r)
      else match skipWs r with
        | [] => some (v, [])
        | _ => none

def loadString (fl : LoadFlags) (s : String) : Option Json := (loadChars fl s.toList).map (·.1)

/-- `json_loadb(buf, len, flags)` -/
def loadBytes (fl : LoadFlags) (b : ByteArray) : Option Json :=
  match String.fromUTF8? b with
  | none => none
  | some s => loadString fl s

end Json
end Jose
