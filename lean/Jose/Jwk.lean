import Jose.Tables
import Jose.Json
import Jose.B64
import Jose.Prim
/-
  Model of lib/jwk.c (permission check, public export, equality, thumbprint input)
  over the regenerated key-type and key-operation tables.
-/
namespace Jose
namespace Jwk
open Tables Json

/-- `strcasecmp(a, b) == 0` (ASCII case folding) -/
def lower (s : String) : List Char := s.toList.map Char.toLower

def caseEq (a b : String) : Bool := lower a == lower b

/-- the first registered key type whose name matches case-insensitively -/
def findTypeIn (ts : List KtyRec) (kty : String) : Option KtyRec := ts.find? (fun t => caseEq kty t.kty)

/-- `find_type(jwk)`: `{s:s}` unpack of "kty", then the table -/
def findType (jwk : Json) : Option KtyRec :=
  match jwk.getStr? "kty" with
  | some kty => findTypeIn ktys kty
  | none => none

/-! ### jose_jwk_prm -/

/-- string elements of a `key_ops` value (`json_array_size` is 0 for non-arrays) -/
def stringElems : Option Json → List String
  | some (.arr l) => l.filterMap Json.strVal?
  | _ => []

def operGrants (os : List OperRec) (use op : String) : Bool :=
  os.any (fun o => o.use == some use && (o.pub == some op || o.prv == some op))

/-- `jose_jwk_prm(cfg, jwk, req, op)` -/
def prmWith (os : List OperRec) (jwk : Option Json) (req : Bool) (op : Option String) : Bool :=
  match jwk with
  | some (.obj kvs) =>
    match op with
    | none => false
    | some op =>
      let useJ := lookup "use" kvs
      let ko := lookup "key_ops" kvs
      -- `{s?s,s?o}`: a present "use" must be a string
      match useJ with
      | some (.str use) =>
        (stringElems ko).contains op || operGrants os use op
      | some _ => false
      | none =>
        match ko with
        | none => !req
        | some _ => (stringElems ko).contains op
  | _ => true

def prm (jwk : Option Json) (req : Bool) (op : Option String) : Bool := prmWith opers jwk req op

/-! ### jwk_clean / jose_jwk_pub -/

/-- one pass of the inner loop of `jwk_clean` for operation row `o` -/
def keeps (sym : Bool) (o : OperRec) (e : Json) : Bool :=
  if o.prv.isNone && (!sym || o.pub.isNone) then true
  else match e with
    | .str ko => !((o.prv == some ko) || (sym && o.pub == some ko))
    | _ => true

def filterOps (sym : Bool) (o : OperRec) (arr : List Json) : List Json := arr.filter (keeps sym o)

def cleanWith (ts : List KtyRec) (os : List OperRec) (jwk : Json) : Option Json :=
  match jwk with
  | .obj kvs =>
    match lookup "kty" kvs with
    | some (.str kty) =>
      match findTypeIn ts kty with
      | none => none
      | some t =>
        let sym := t.pub.isEmpty
        let kvs1 := delAll t.prv kvs
        match lookup "key_ops" kvs1 with
        | some (.arr l) => some (.obj (setKV "key_ops" (.arr (os.foldl (fun a o => filterOps sym o a) l)) kvs1))
        | _ => some (.obj kvs1)
    | _ => none
  | _ => none

/-- `jwk_clean` -/
def clean (jwk : Json) : Option Json := cleanWith ktys opers jwk

/-- clean the elements in order; `false` as soon as one cannot be cleaned (the
    elements before it stay cleaned, as in the C) -/
def cleanList (f : Json → Option Json) : List Json → List Json × Bool
  | [] => ([], true)
  | x :: r =>
    match f x with
    | none => (x :: r, false)
    | some x' =>
      let (r', ok) := cleanList f r
      (x' :: r', ok)

/-- `jose_jwk_pub(cfg, jwk)`: the object after the call and the return value -/
def pubWith (f : Json → Option Json) (jwk : Json) : Json × Bool :=
  match jwk with
  | .arr l => let (l', ok) := cleanList f l; (.arr l', ok)
  | .obj kvs =>
    match lookup "keys" kvs with
    | some (.arr l) => let (l', ok) := cleanList f l; (.obj (setKV "keys" (.arr l') kvs), ok)
    | _ => match f jwk with
      | some j => (j, true)
      | none => (jwk, false)
  | _ => (jwk, false)

def pub (jwk : Json) : Json × Bool := pubWith clean jwk

/-! ### jose_jwk_eql, thumbprint input -/

/-- `jose_jwk_eql(cfg, a, b)` -/
def eql (a b : Json) : Bool :=
  match findType a with
  | none => false
  | some t =>
    (match a.get? "kty", b.get? "kty" with
     | some x, some y => Json.equal x y
     | _, _ => false) &&
    t.req.all (fun m =>
      match a.get? m, b.get? m with
      | some x, some y => Json.equal x y
      | _, _ => false)

/-- members copied by `jwk_str`: "kty" then the required members, `none` if one is missing -/
def reqMembers (jwk : Json) : List String → Option (List (String × Json))
  | [] => some []
  | m :: r =>
    match jwk.get? m, reqMembers jwk r with
    | some v, some rest => some ((m, v) :: rest)
    | _, _ => none

/-- `jwk_str(jwk)`: the RFC 7638 hash input -/
def thpInput (jwk : Json) : Option String :=
  match findType jwk with
  | none => none
  | some t =>
    match jwk.get? "kty", reqMembers jwk t.req with
    | some k, some ms => some (Json.dump (.obj (ms.foldl (fun acc kv => setKV kv.1 kv.2 acc) [("kty", k)])))
    | _, _ => none

def hashSize (alg : String) : Option Nat :=
  (algs.find? (fun a => a.kind == .hash && a.name == alg)).map (·.size)

/-- `jose_jwk_thp(cfg, jwk, alg)` -/
def thp (P : Prims) (jwk : Json) (alg : String) : Option Json :=
  match thpInput jwk, P.hash alg with
  | some s, some h => some (B64.enc (h (B64.bytesOfString s)))
  | _, _ => none

/-- `jose_jwk_thp_buf(cfg, jwk, alg, thp, len)`: `out = none` is `thp == NULL || len == 0` -/
def thpBuf (P : Prims) (jwk : Json) (alg : String) (len : Option Nat) : B64.BufResult :=
  match len with
  | none => ⟨hashSize alg, [], false⟩
  | some 0 => ⟨hashSize alg, [], false⟩
  | some n =>
    match thpInput jwk with
    | none => ⟨none, [], false⟩
    | some s =>
      match hashSize alg, P.hash alg with
      | some sz, some h =>
        if n < sz then ⟨none, [], false⟩
        else let d := h (B64.bytesOfString s); ⟨some d.length, d, false⟩
      | _, _ => ⟨none, [], false⟩

end Jwk
end Jose
