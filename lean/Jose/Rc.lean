/-
  Reference counts of an IO chain, operationally (lib/io.c jose_io_incref / jose_io_decref and the
  `io_free` of every stage: `jose_io_decref(i->next)`).

  A chain is a list of stages, head first; the `next` of the stage at position `i` is the stage at
  `i + 1`, the last one is the sink.  The state is the list of reference counts (0 = freed).
  `decHead` is `jose_io_decref` applied to the first stage of a (sub)chain: the count drops, and when
  it reaches zero the stage is freed, which releases its reference to the next stage — a cascade.
  A decref of a stage whose count is already zero is a use-after-free / double free: `none`.
-/
namespace Jose
namespace Rc

/-- `jose_io_decref` on the first stage of the chain `l` -/
def decHead : List Nat → Option (List Nat)
  | [] => some []                          -- `next == NULL`: nothing to release
  | 0 :: _ => none                         -- already freed: memory error
  | (c + 1) :: r => if c = 0 then (decHead r).map (0 :: ·) else some (c :: r)

/-- `jose_io_decref` on the stage at position `i` (the scope exit of the `jose_io_auto_t` handle the
    caller holds on it) -/
def decAt : Nat → List Nat → Option (List Nat)
  | 0, l => decHead l
  | _ + 1, [] => none
  | i + 1, x :: r => (decAt i r).map (x :: ·)

/-- the counts that *should* hold: one per handle the caller still holds on the stage, one when the
    stage above is still alive (`pa`) -/
def rcOf (pa : Bool) : List Bool → List Nat
  | [] => []
  | h :: r => (h.toNat + pa.toNat) :: rcOf (h || pa) r

/-- releasing the handles in the given order; `none` as soon as a handle that is not held (index out
    of range, or released before) is released, or the heap reports a memory error -/
def releaseAll : List Nat → List Bool × List Nat → Option (List Bool × List Nat)
  | [], s => some s
  | i :: is, (hs, rc) =>
    if hs[i]? = some true then
      match decAt i rc with
      | some rc' => releaseAll is (hs.set i false, rc')
      | none => none
    else none

/-- the chain right after it has been built bottom-up (every constructor took a reference to its
    `next`; the caller holds one handle on every stage — `jose_io_auto_t *buf, *enc, *hsh`) -/
def built (n : Nat) : List Bool × List Nat := (List.replicate n true, rcOf false (List.replicate n true))

end Rc
end Jose
