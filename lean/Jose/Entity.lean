import Jose.Json
import Jose.JsonParse
import Jose.B64
/-
  Model of the JSON plumbing shared by JWS and JWE:
    addEntity        ↔ add_entity        (lib/openssl/misc.c)
    encodeProtected  ↔ encode_protected  (lib/misc.c)
    jwsHdr           ↔ jose_jws_hdr      (lib/jws.c)
    jweHdr           ↔ jose_jwe_hdr      (lib/jwe.c)
    jweHdrSetNew     ↔ jwe_hdr_set_new   (lib/jwe.c)
-/
namespace Jose
namespace Entity
open Json

/-- `add_entity(root, obj, plural, keys..., NULL)`; `none` = false.
    `root` and `obj` are the values behind the pointers (a NULL `obj` is `none`). -/
def addEntity (root : Json) (obj : Option Json) (plural : String) (keys : List String) : Option Json :=
  match root with
  | .obj kvs =>
    -- existing list: must be an array; an empty one is removed
    let st : Option (List (String × Json) × Option (List Json)) :=
      match lookup plural kvs with
      | none => some (kvs, none)
      | some (.arr []) => some (delKV plural kvs, none)
      | some (.arr l) => some (kvs, some l)
      | some _ => none
    match st with
    | none => none
    | some (kvs1, pl) =>
      let present := keys.filter (fun k => (lookup k kvs1).isSome)
      -- flattened → general: the members listed move, unchanged, into a new first/next entry
      let (kvs2, pl2) :=
        if present.isEmpty then (kvs1, pl)
        else
          let moved : List (String × Json) := present.filterMap (fun k => (lookup k kvs1).map (fun v => (k, v)))
          let base := match pl with | some l => l | none => []
          let kvsA := match pl with | some _ => kvs1 | none => setKV plural (.arr []) kvs1
          (delAll present kvsA, some (base ++ [.obj moved]))
      match pl2 with
      | some l =>
        match obj with
        | some o => some (.obj (setKV plural (.arr (l ++ [o])) kvs2))
        | none => none
      | none =>
        match obj with
        | some (.obj okvs) => some (.obj (updateKV kvs2 okvs))
        | _ => none
  | _ => none

/-- `encode_protected(obj)`; `none` = false -/
def encodeProtected (obj : Json) : Option Json :=
  match obj with
  | .obj kvs =>
    match lookup "protected" kvs with
    | none => some obj
    | some (.str _) => some obj
    | some (.obj p) => some (.obj (setKV "protected" (B64.enc (B64.bytesOfString (Json.dump (.obj p)))) kvs))
    | some _ => none
  | _ => none

/-- the protected header of `o` as an object: absent → `{}`, object → itself,
    string → decoded and parsed; `none` when that does not give an object -/
def protectedObj (o : Json) : Option (List (String × Json)) :=
  match o.get? "protected" with
  | none => some []
  | some (.obj p) => some p
  | some (.str s) =>
    match B64.decLoad (some (.str s)) with
    | some (.obj p) => some p
    | _ => none
  | some _ => none

/-- `jose_jws_hdr(sig)`: protected members first, then `header` members that are missing -/
def jwsHdr (sig : Json) : Option Json :=
  match protectedObj sig with
  | none => none
  | some p =>
    match sig.get? "header" with
    | none => some (.obj p)
    | some (.obj h) => some (.obj (updateMissingKV p h))
    | some _ => none

/-- `jose_jwe_hdr(jwe, rcp)`: protected, then shared unprotected, then per-recipient -/
def jweHdr (jwe : Json) (rcp : Option Json) : Option Json :=
  match protectedObj jwe with
  | none => none
  | some p =>
    let s1 : Option (List (String × Json)) :=
      match jwe.get? "unprotected" with
      | none => some p
      | some (.obj u) => some (updateMissingKV p u)
      | some _ => none
    match s1 with
    | none => none
    | some p1 =>
      match rcp.bind (·.get? "header") with
      | none => some (.obj p1)
      | some (.obj h) => some (.obj (updateMissingKV p1 h))
      | some _ => none

/-- `jwe_hdr_set_new(jwe, name, value)`: into the protected header while it is still an
    object (created if neither header exists), else into the shared unprotected header -/
def jweHdrSetNew (jwe : Json) (name : String) (value : Option Json) : Option Json :=
  match jwe, value with
  | .obj kvs, some v =>
    let p := lookup "protected" kvs
    let u := lookup "unprotected" kvs
    let pOk := match p with | none => true | some (.obj _) => true | some (.str _) => true | some _ => false
    let uOk := match u with | none => true | some (.obj _) => true | some _ => false
    if !pOk || !uOk then none
    else
      match p, u with
      | some (.obj pk), _ => some (.obj (setKV "protected" (.obj (setKV name v pk)) kvs))
      | some (.str _), some (.obj uk) => some (.obj (setKV "unprotected" (.obj (setKV name v uk)) kvs))
      | some (.str _), none => some (.obj (setKV "unprotected" (.obj [(name, v)]) kvs))
      | none, some (.obj uk) => some (.obj (setKV "unprotected" (.obj (setKV name v uk)) kvs))
      | none, none => some (.obj (setKV "protected" (.obj [(name, v)]) kvs))
      | _, _ => none
  | _, _ => none

end Entity
end Jose
