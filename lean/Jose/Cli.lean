import Jose.Json
import Jose.JsonParse
import Jose.B64
import Jose.IO
import Jose.Prim
import Jose.Jwk
import Jose.Jws
import Jose.Jwe
import Jose.Exc
import Jose.Gen
/-
  Model of the command-line tool (cmd/jose.c and cmd/{jws,jwe,jwk,b64}/*.c): for each subcommand,
  the control flow from the parsed options and the library's results to the exit status, standard
  output and the files written.  Library calls are the model's own functions (Jws.verIo, Jws.sig,
  Jwe.decJwk, Jwk.pub, ...), so what is new here is only what the tool adds: option handling, the
  three input forms (JSON text, compact text, file / standard input holding either), detached
  payloads, output sinks, serialisation.

  The world is standard input and a set of named files.  Streaming through IO chains is modelled by
  its result (chunking independence is C07's theorem).  On a failing run only the status is
  specified (the C may have written part of its output already).

  Not modelled: long options, `-p` (password prompt on the terminal), `jose alg`, usage texts.
-/
namespace Jose
namespace Cli
open Json

structure World where
  stdin : List Nat := []
  files : List (String × List Nat) := []

/-- a byte string read as text (JSON and compact inputs are ASCII / UTF-8) -/
def textOfBytes (b : List Nat) : String :=
  match String.fromUTF8? (ByteArray.mk (b.map UInt8.ofNat).toArray) with
  | some s => s
  | none => String.ofList (b.map Char.ofNat)

/-- exit status, standard output, files written (name, contents) -/
structure Res where
  status : Nat
  stdout : List Nat := []
  files : List (String × List Nat) := []
  deriving Repr

/-- UTF-8 bytes of a text -/
def bs (s : String) : List Nat := B64.bytesOfString s

def fail : Res := { status := 1 }

def readRaw (w : World) (arg : String) : Option (List Nat) :=
  if arg = "-" then some w.stdin else w.files.lookup arg

def readSrc (w : World) (arg : String) : Option String := (readRaw w arg).map textOfBytes

def anyFlags : LoadFlags := { decodeAny := true, disableEofCheck := true }

/-! ### option lists: `-x` flags and `-x ARG` pairs, in order -/

/-- split argv into (letter, argument) pairs; `withArg` lists the letters that take one -/
def parseOpts (withArg : List Char) : List String → Option (List (Char × String))
  | [] => some []
  | a :: rest =>
    match a.toList with
    | ['-', c] =>
      if withArg.contains c then
        match rest with
        | p :: rest' => (parseOpts withArg rest').map ((c, p) :: ·)
        | [] => none
      else (parseOpts withArg rest).map ((c, "") :: ·)
    | _ => none

def optsOf (os : List (Char × String)) (c : Char) : List String := (os.filter (·.1 == c)).map (·.2)
def lastOpt (os : List (Char × String)) (c : Char) : Option String := (optsOf os c).getLast?
def hasFlag (os : List (Char × String)) (c : Char) : Bool := os.any (·.1 == c)

/-! ### keys (`jcmd_opt_set_jwks`, `jwks_extend`) -/

def jwksExtend (keys : List Json) (j : Json) : Option (List Json) :=
  match j.get? "keys" with
  | some (.arr l) => if l.isEmpty then none else some (keys ++ l)
  | _ => some (keys ++ [j])

/-- one `-k FILE|-` occurrence -/
def addJwks (w : World) (keys : List Json) (arg : String) : Option (List Json) :=
  (readSrc w arg).bind fun t =>
    match loadString anyFlags t with
    | some (.obj kvs) => jwksExtend keys (.obj kvs)
    | some (.str s) => jwksExtend keys (.str s)
    | _ => none

/-- `jcmd_opt_set_jwkt` (templates: JSON text accepted too) -/
def addJwkt (w : World) (keys : List Json) (arg : String) : Option (List Json) :=
  let j := match loadString anyFlags arg with
    | some j => some j
    | none => (readSrc w arg).bind (loadString anyFlags)
  match j with
  | some (.obj kvs) => jwksExtend keys (.obj kvs)
  | some (.str s) => jwksExtend keys (.str s)
  | _ => none

def foldOpt (f : List Json → String → Option (List Json)) (args : List String) : Option (List Json) :=
  args.foldl (fun acc a => acc.bind fun ks => f ks a) (some [])

/-- `jcmd_opt_set_json`: JSON text, else `-`, else a file -/
def loadJsonArg (w : World) (arg : String) : Option Json :=
  match loadString anyFlags arg with
  | some j => some j
  | none => (readSrc w arg).bind (loadString anyFlags)

/-! ### the input object (`jcmd_opt_io_set_input`) -/

def b64Char (c : Char) : Bool := c.toNat = 0 || Tables.b64Map.contains c.toNat

def splitDot : List Char → List Char × Option (List Char)
  | [] => ([], none)
  | c :: r =>
    if c = '.' then ([], some r)
    else
      let (a, b) := splitDot r
      (c :: a, b)

/-- `parse_compact`: all fields present, separated by '.', only alphabet characters -/
def parseCompact (fields : List String) : List Char → Option (List (String × Json))
  | cs =>
    match fields with
    | [] => some []
    | f :: fs =>
      let (v, rest) := splitDot cs
      if !v.all b64Char then none
      else
        match rest, fs with
        | none, _ :: _ => none
        | none, [] => some [(f, .str (String.ofList v))]
        | some r, _ => (parseCompact fs r).map ((f, .str (String.ofList v)) :: ·)

/-- one field of a compact stream: up to '.' or the end -/
def compactField (cs : List Char) : String × List Char :=
  let (v, rest) := splitDot cs
  (String.ofList v, rest.getD [])

/-- leading fields read from a compact stream: all but the last two -/
def streamHead : List String → List Char → List (String × Json) × List Char
  | f :: g :: h :: rest, cs =>
    let (v, cs') := compactField cs
    let (kvs, cs'') := streamHead (g :: h :: rest) cs'
    ((f, .str v) :: kvs, cs'')
  | _, cs => ([], cs)

structure Input where
  obj : Json
  /-- the unread rest of a compact stream (file / stdin): body field, '.', last field -/
  stream : Option (List Char) := none

def setAll (kvs : List (String × Json)) (into : List (String × Json)) : List (String × Json) :=
  kvs.foldl (fun acc (k, v) => setKV k v acc) into

def inputSet (w : World) (fields : List String) (arg : String) : Option Input :=
  match loadString {} arg with
  | some j => if j.isObject then some { obj := j } else none
  | none =>
    match parseCompact fields arg.toList with
    | some kvs => some { obj := .obj (setAll kvs []) }
    | none =>
      (readSrc w arg).bind fun t =>
        let cs := skipWs t.toList
        if cs.head? = some '{' then
          match loadChars { disableEofCheck := true } cs with
          | some (j, _) => if j.isObject then some { obj := j } else none
          | none => none
        else
          -- `is_json_object_file` consumed the leading white space
          let (kvs, rest) := streamHead fields cs
          some { obj := .obj (setAll kvs []), stream := some rest }

/-! ### the body pump shared by the jws / jwe commands -/

/-- the bytes fed to the chain: the detached file, the body field of a compact stream, or the named
    member of the object (`{s?s%}` for payload: absent = empty; `{s:s%}` for ciphertext) -/
def bodySource (w : World) (inp : Input) (detached : Option String) (member : String) (required : Bool) : Option (List Nat) :=
  match detached with
  | some f => readRaw w f
  | none =>
    match inp.stream with
    | some cs => some (B64.bytesOfString (compactField cs).1)
    | none =>
      match inp.obj.get? member with
      | some (.str s) => some (B64.bytesOfString s)
      | none => if required then none else some []
      | some _ => none

/-- after the body: the last compact field is stored under `last` (when the input was a stream) -/
def withLastField (inp : Input) (last : String) : Json :=
  match inp.stream, inp.obj with
  | some cs, .obj kvs => .obj (setKV last (.str (compactField (compactField cs).2).1) kvs)
  | _, o => o

/-- text made of alphabet characters (base64url fields) -/
def strOfBytes (b : List Nat) : String := String.ofList (b.map Char.ofNat)

/-- what a text sink receives: the text itself, or its base64url encoding when the body was given
    decoded (`-I`); what a decoding sink (`-O`) receives: the decoded bytes (`none`: undecodable) -/
def textOf (detached : Bool) (body : List Nat) : List Nat := if detached then B64.encChars body else body
def rawOf (detached : Bool) (body : List Nat) : Option (List Nat) := if detached then some body else B64.decode body

/-- `json_dumpf(obj, JSON_EMBED | JSON_COMPACT | JSON_SORT_KEYS)`: the members without the braces -/
def dumpEmbed (j : Json) : String :=
  let s := j.dump
  String.ofList ((s.toList.drop 1).dropLast)

/-- the JSON serialisation written by sig / enc / fmt: `{"<member>":"<text>",<rest>}`, the body
    member omitted when it is detached to a file -/
def writeJson (member : String) (bodyText : Option (List Nat)) (obj : Json) : List Nat :=
  bs "{" ++ (match bodyText with
          | some t => bs ("\"" ++ member ++ "\":\"") ++ t ++ bs "\","
          | none => []) ++ bs (dumpEmbed obj) ++ bs "}"

def emit (target : String) (text : List Nat) (r : Res) : Res :=
  if target = "-" then { r with stdout := r.stdout ++ text }
  else { r with files := (r.files.filter (·.1 != target)) ++ [(target, (match r.files.lookup target with | some t => t | none => []) ++ text)] }

/-! ### jose jws ver -/

def jwsFields : List String := ["protected", "payload", "signature"]
def jweFields : List String := ["protected", "encrypted_key", "iv", "ciphertext", "tag"]

/-- the end of `jose jws ver`: no verifier → failure ("Error initializing signature context!");
    otherwise the verdict of `done` decides; with `-O` the decoded payload is what was written -/
def verDecision (verdict : Option Bool) (out : Option String) (raw : Option (List Nat)) : Res :=
  match verdict with
  | none => fail
  | some ok =>
    match out with
    | none => { status := if ok then 0 else 1 }
    | some f =>
      match raw with
      | none => fail
      | some r => if ok then emit f r { status := 0 } else fail

/-- `jose jws ver -i JWS [-I PAY] -k JWK [-a] [-O PAY]` -/
def sigsShapeOk (obj : Json) : Bool :=
  match obj.get? "signatures" with | none => true | some (.arr _) => true | some _ => false

def jwsVer (P : Prims) (w : World) (argv : List String) : Res :=
  match parseOpts ['i', 'I', 'k', 'O'] argv with
  | none => fail
  | some os =>
    match foldOpt (addJwks w) (optsOf os 'k'), (lastOpt os 'i').map (inputSet w jwsFields) with
    | some keys, some (some inp) =>
      if keys.isEmpty || (optsOf os 'I').any (fun f => (readSrc w f).isNone) || !sigsShapeOk inp.obj then fail else
      match bodySource w inp (lastOpt os 'I') "payload" false with
      | none => fail
      | some body =>
        -- the verifier (when the library hands one out), on the object as it is at `done` time
        verDecision
          ((Jws.verIo P (withLastField inp "signature") none (.arr keys) (hasFlag os 'a')).map
            fun sg => (IO.run sg [textOf (lastOpt os 'I').isSome body]).2)
          (lastOpt os 'O') (rawOf (lastOpt os 'I').isSome body)
    | _, _ => fail

/-! ### jose jws sig / fmt -/

/-- compact serialisation `protected.payload.signature` of a single-signature object -/
def compactJws (prot : Option String) (text : List Nat) (sig : String) : List Nat :=
  bs (prot.getD "") ++ bs "." ++ text ++ bs "." ++ bs sig

/-- `{s?s}`: absent → none inside, wrong type → outer none -/
def optMember (j : Json) (k : String) : Option (Option String) :=
  match j.get? k with
  | none => some none
  | some (.str s) => some (some s)
  | some _ => none

/-- `jose jws sig -i JWS [-I PAY] [-s SIG ...] -k JWK [-o JWS] [-O PAY] [-c]` -/
def jwsSig (P : Prims) (w : World) (argv : List String) (rnds : List Bs) : Res :=
  match parseOpts ['i', 'I', 's', 'k', 'o', 'O'] argv with
  | none => fail
  | some os =>
    let sigsO := (optsOf os 's').foldl (fun acc a => acc.bind fun l => (loadJsonArg w a).map (l ++ [·])) (some [])
    match foldOpt (addJwks w) (optsOf os 'k'), (lastOpt os 'i').map (inputSet w jwsFields), sigsO with
    | some keys, some (some inp), some sigs0 =>
      if (optsOf os 'I').any (fun f => (readSrc w f).isNone) then fail else
      if keys.isEmpty || keys.length < sigs0.length then fail else
      let compact := hasFlag os 'c'
      let existing :=
        (match inp.obj.get? "signatures" with | some (.arr l) => l.length | _ => 0) +
        (if (inp.obj.get? "protected").isSome || (inp.obj.get? "signature").isSome then 1 else 0)
      if compact && keys.length + existing > 1 then fail else
      let sigs := sigs0 ++ List.replicate (keys.length - sigs0.length) (.obj [])
      let detached := lastOpt os 'I'
      match bodySource w inp detached "payload" false, inp.obj with
      | some body, .obj kvs =>
        let text := textOf detached.isSome body
        -- the library call, on the object as it is at `done` time (a compact stream's last field set)
        let obj0 := withLastField inp "signature"
        let kvs0 := match obj0 with | .obj k => k | _ => kvs
        match Jws.sig P (.obj (setKV "payload" (.str (strOfBytes text)) kvs0)) (some (.arr sigs)) (.arr keys) rnds with
        | some (.obj r) =>
          let signed : Json := .obj (match lookup "payload" kvs0 with
            | some p => setKV "payload" p r
            | none => delKV "payload" r)
          let out := (lastOpt os 'o').getD "-"
          let detach := lastOpt os 'O'
          let pre : Option Res :=
            match detach with
            | none => some { status := 0 }
            | some f => (rawOf detached.isSome body).map fun raw => emit f raw { status := 0 }
          match pre with
          | none => fail
          | some r0 =>
            if compact then
              -- protected of the (single) template after signing = protected of the new signature
              match signed.get? "signature", optMember signed "protected" with
              | some (.str sv), some prot =>
                emit out (compactJws prot (if detach.isSome then [] else text) sv) r0
              | _, _ => fail
            else
              emit out (writeJson "payload" (if detach.isSome then none else some text)
                (match signed with | .obj k => .obj (delKV "payload" k) | o => o)) r0
        | _ => fail
      | _, _ => fail
    | _, _, _ => fail

/-- `jose jws fmt -i JWS [-I PAY] [-o JWS] [-O PAY] [-c]` -/
def jwsFmt (w : World) (argv : List String) : Res :=
  match parseOpts ['i', 'I', 'o', 'O'] argv with
  | none => fail
  | some os =>
    match (lastOpt os 'i').map (inputSet w jwsFields) with
    | some (some inp) =>
      if (optsOf os 'I').any (fun f => (readSrc w f).isNone) then fail else
      let compact := hasFlag os 'c'
      let detached := lastOpt os 'I'
      let detach := lastOpt os 'O'
      let out := (lastOpt os 'o').getD "-"
      -- compact needs exactly one signature: flattened, or a one-element list whose element is an object
      -- (`{s:[{s?s}!]}`: the `!` makes the *list* strict — exactly one element —, not the object in it)
      let single (j : Json) (k : String) (required : Bool) : Option (Option String) :=
        match j.get? "signatures" with
        | some (.arr [.obj one]) =>
          (match lookup k one with
           | some (.str s) => some (some s)
           | none => if required then none else some none
           | some _ => none)
        | _ => none
      let protO : Option (Option String) :=
        if compact then
          (match single inp.obj "protected" false with
           | some v => some v
           | none => optMember inp.obj "protected")
        else some none
      match protO, bodySource w inp detached "payload" false with
      | some prot, some body =>
        let text := textOf detached.isSome body
        let obj := withLastField inp "signature"
        let pre : Option Res :=
          match detach with
          | none => some { status := 0 }
          | some f => (rawOf detached.isSome body).map fun raw => emit f raw { status := 0 }
        match pre with
        | none => fail
        | some r0 =>
          if compact then
            let sigO : Option String :=
              match obj.get? "signature" with
              | some (.str s) => some s
              | _ => (match single obj "signature" true with | some (some s) => some s | _ => none)
            match sigO with
            | some sv => emit out (compactJws prot (if detach.isSome then [] else text) sv) r0
            | none => fail
          else
            emit out (writeJson "payload" (if detach.isSome then none else some text)
              (match obj with | .obj k => .obj (delKV "payload" k) | o => o)) r0
      | _, _ => fail
    | _ => fail

/-! ### jose jwe fmt -/

/-- what the compact conversion prints for one leading field (cmd/jwe/fmt.c): the value in the single
    element of "recipients" (`{s:[{s?s}!]}`, only for the field that has a plural), else the top-level
    member (`{s?s}`: absent = empty text, another type = failure); outer `none` = failure -/
def compactFieldOf (obj : Json) (k : String) (plural : Option String) : Option String :=
  let fromList : Option (Option String) :=
    match plural.bind obj.get? with
    | some (.arr [.obj one]) =>
      (match lookup k one with
       | some (.str s) => some (some s)
       | none => some none
       | some _ => none)
    | _ => none
  match fromList with
  | some v => some (v.getD "")
  | none => (optMember obj k).map (·.getD "")

/-- the authentication tag for compact output: top level (`{s:s}`), else in the single recipient -/
def compactTagOf (obj : Json) : Option String :=
  match obj.get? "tag" with
  | some (.str s) => some s
  | _ =>
    match obj.get? "recipients" with
    | some (.arr [.obj one]) => (match lookup "tag" one with | some (.str s) => some s | _ => none)
    | _ => none

/-- `jose jwe fmt -i JWE [-I CT] [-o JWE] [-O CT] [-c]` -/
def jweFmt (w : World) (argv : List String) : Res :=
  match parseOpts ['i', 'I', 'o', 'O'] argv with
  | none => fail
  | some os =>
    match (lastOpt os 'i').map (inputSet w jweFields) with
    | some (some inp) =>
      if (optsOf os 'I').any (fun f => (readSrc w f).isNone) then fail else
      let compact := hasFlag os 'c'
      let detached := lastOpt os 'I'
      let detach := lastOpt os 'O'
      let out := (lastOpt os 'o').getD "-"
      -- compact output needs exactly one recipient: no list at all, or a list of one
      let countOk : Bool :=
        match inp.obj.get? "recipients" with
        | none => true
        | some (.arr [_]) => true
        | some _ => false
      if compact && !countOk then fail else
      if compact && (inp.obj.get? "aad").isSome then fail else     -- the compact form cannot carry aad (fix F36)
      let head : Option (List String) :=
        if compact then
          match compactFieldOf inp.obj "protected" none, compactFieldOf inp.obj "encrypted_key" (some "recipients"),
                compactFieldOf inp.obj "iv" none with
          | some a, some b, some c => some [a, b, c]
          | _, _, _ => none
        else some []
      match head, bodySource w inp detached "ciphertext" true with
      | some hd, some body =>
        -- the ciphertext text is decoded and (unless detached to a file) encoded again on its way out
        if detached.isNone && (B64.decode body).isNone then fail else
        let text := textOf detached.isSome body
        let obj := withLastField inp "tag"
        let pre : Option Res :=
          match detach with
          | none => some { status := 0 }
          | some f => (rawOf detached.isSome body).map fun raw => emit f raw { status := 0 }
        match pre with
        | none => fail
        | some r0 =>
          if compact then
            match compactTagOf obj with
            | some tg =>
              emit out (bs (".".intercalate hd ++ ".") ++ (if detach.isSome then [] else text) ++ bs ("." ++ tg)) r0
            | none => fail
          else
            emit out (writeJson "ciphertext" (if detach.isSome then none else some text)
              (match obj with | .obj k => .obj (delKV "ciphertext" k) | o => o)) r0
      | _, _ => fail
    | _ => fail

/-! ### jose jwe enc -/

/-- `jose jwe enc [-i TMPL] -I PT [-r RCP ...] -k JWK ... [-o JWE] [-O CT] [-c]` (no password prompt);
    `rnd` is the stream `RAND_bytes` delivers (CEK, per-recipient IVs / salts, then the content IV) -/
def jweEnc (P : Prims) (w : World) (argv : List String) (rnd : Bs) : Res :=
  match parseOpts ['i', 'I', 'r', 'k', 'o', 'O'] argv with
  | none => fail
  | some os =>
    let rcpsO := (optsOf os 'r').foldl (fun acc a => acc.bind fun l => (loadJsonArg w a).map (l ++ [·])) (some [])
    let inpO := inputSet w jweFields ((lastOpt os 'i').getD "{}")
    match foldOpt (addJwks w) (optsOf os 'k'), inpO, rcpsO with
    | some keys, some inp, some rcps0 =>
      if (optsOf os 'I').any (fun f => (readSrc w f).isNone) then fail else
      let compact := hasFlag os 'c'
      if keys.isEmpty then fail else
      if keys.length > 1 && compact then fail else
      if compact && (inp.obj.get? "aad").isSome then fail else     -- the compact form cannot carry aad (fix F36)
      match lastOpt os 'I' with
      | none => fail                                  -- "Must specify detached input!"
      | some dfile =>
        if keys.length < rcps0.length then fail else
        let rcps := rcps0 ++ List.replicate (keys.length - rcps0.length) (.obj [])
        match Jwe.encJwkKeys P (some (.arr rcps)) keys 0 inp.obj (.obj []) rnd, readRaw w dfile with
        | some (obj1, cek, rnd1), some pt =>
          -- compact: everything in force goes into the protected header, the other headers are dropped
          let obj2O : Option Json :=
            if compact then
              match Entity.jweHdr obj1 (some obj1), obj1 with
              | some jh, .obj k1 => some (.obj (delKV "header" (delKV "unprotected" (setKV "protected" jh k1))))
              | _, _ => none
            else some obj1
          match obj2O.bind (fun o => Jwe.encCek P o cek pt rnd1) with
          | some full =>
            match full.get? "ciphertext" with
            | some (.str cts) =>
              let text := B64.bytesOfString cts
              let out := (lastOpt os 'o').getD "-"
              let detach := lastOpt os 'O'
              let pre : Option Res :=
                match detach with
                | none => some { status := 0 }
                | some f => (B64.decode text).map fun raw => emit f raw { status := 0 }
              match pre with
              | none => fail
              | some r0 =>
                if compact then
                  match optMember full "protected", optMember full "encrypted_key", optMember full "iv", full.get? "tag" with
                  | some a, some b, some c, some (.str tg) =>
                    emit out (bs (a.getD "" ++ "." ++ b.getD "" ++ "." ++ c.getD "" ++ ".") ++ (if detach.isSome then [] else text) ++ bs ("." ++ tg)) r0
                  | _, _, _, _ => fail
                else
                  emit out (writeJson "ciphertext" (if detach.isSome then none else some text)
                    (match full with | .obj k => .obj (delKV "ciphertext" k) | o => o)) r0
            | _ => fail
          | none => fail
        | _, _ => fail
    | _, _, _ => fail

/-! ### jose jwe dec -/

/-- the end of `jose jwe dec`: unwrap, build the decryptor, decrypt the ciphertext bytes; the
    plaintext goes to the output only on success -/
def decDecision (cek : Option Json) (body : Json → Option (List Nat → Option (List Nat))) (ct : Option (List Nat))
    (out : String) : Res :=
  match cek with
  | none => fail                         -- "Unwrapping failed!"
  | some c =>
    match body c, ct with
    | some f, some bytes =>
      (match f bytes with
       | some pt => emit out pt { status := 0 }
       | none => fail)
    | _, _ => fail

/-- `jose jwe dec -i JWE [-I CT] -k JWK [-O PT]` (no password prompt) -/
def jweDec (P : Prims) (w : World) (argv : List String) (rnd : Bs) : Res :=
  match parseOpts ['i', 'I', 'k', 'O'] argv with
  | none => fail
  | some os =>
    match foldOpt (addJwks w) (optsOf os 'k'), (lastOpt os 'i').map (inputSet w jweFields) with
    | some keys, some (some inp) =>
      if keys.isEmpty then fail else
      if (optsOf os 'I').any (fun f => (readSrc w f).isNone) then fail else
      let detached := lastOpt os 'I'
      let obj := withLastField inp "tag"
      decDecision (Jwe.decJwk P inp.obj none (.arr keys) rnd) (fun cek => Jwe.decBody P obj cek)
        ((bodySource w inp detached "ciphertext" true).bind (rawOf detached.isSome)) ((lastOpt os 'O').getD "-")
    | _, _ => fail

/-! ### jose jwk * -/

def dumpKeys (keys : List Json) (set : Bool) : String :=
  match keys, set with
  | [k], false => k.dump
  | ks, _ => (Json.obj [("keys", .arr ks)]).dump

/-- `jose jwk pub -i JWK [-s] [-o JWK]` -/
def jwkPub (w : World) (argv : List String) : Res :=
  match parseOpts ['i', 'o'] argv with
  | none => fail
  | some os =>
    match foldOpt (addJwks w) (optsOf os 'i') with
    | some keys =>
      let rs := keys.map Jwk.pub
      if rs.any (fun r => !r.2) then fail
      else if keys.isEmpty then fail
      else emit ((lastOpt os 'o').getD "-") (bs (dumpKeys (rs.map (·.1)) (hasFlag os 's'))) { status := 0 }
    | none => fail

/-- `jose jwk eql -i JWK -i JWK` -/
def jwkEql (w : World) (argv : List String) : Res :=
  match parseOpts ['i'] argv with
  | none => fail
  | some os =>
    match foldOpt (addJwks w) (optsOf os 'i') with
    | some keys =>
      if keys.length < 2 then fail
      else if (keys.zip keys.tail).all (fun (a, b) => Jwk.eql a b) then { status := 0 } else fail
    | none => fail

/-- `jose jwk thp -i JWK [-a ALG] [-f THP] [-o THP]` -/
def jwkThp (P : Prims) (w : World) (argv : List String) : Res :=
  match parseOpts ['i', 'a', 'o', 'f'] argv with
  | none => fail
  | some os =>
    match foldOpt (addJwks w) (optsOf os 'i') with
    | some keys =>
      let alg := (lastOpt os 'a').getD "S256"
      if keys.isEmpty then fail else
      match Jwk.hashSize alg with
      | none => fail
      | some _ =>
        let out := (lastOpt os 'o').getD "-"
        match lastOpt os 'f' with
        | none =>
          let thps := keys.map (fun k => Jwk.thp P k alg)
          if thps.any Option.isNone then fail
          else
            let texts := thps.filterMap (fun t => match t with | some (.str s) => some s | _ => none)
            emit out (bs (if keys.length > 1 then String.join (texts.map (· ++ "\n")) else String.join texts)) { status := 0 }
        | some want =>
          -- the first key whose thumbprint (under the chosen hash) is the wanted one
          let rec go : List Json → Res
            | [] => fail
            | k :: r =>
              match Jwk.thp P k alg with
              | none => fail
              | some (.str s) => if s = want then emit out (bs k.dump) { status := 0 } else go r
              | some _ => fail
          go keys
    | none => fail

/-- `jose jwk exc [-i TMPL] -l JWK -r JWK [-o JWK]` -/
def jwkExc (P : Prims) (w : World) (argv : List String) : Res :=
  match parseOpts ['i', 'l', 'r', 'o'] argv with
  | none => fail
  | some os =>
    let tmplsO := (optsOf os 'i').foldl (fun acc a => acc.bind fun l => (loadJsonArg w a).map (l ++ [·])) (some [Json.obj []])
    match tmplsO, foldOpt (addJwks w) (optsOf os 'l'), foldOpt (addJwks w) (optsOf os 'r') with
    | some tmpls, some [l], some [r] =>
      match Exc.exc P l r, tmpls.getLast? with
      | some key, some (.obj t) =>
        (match key with
         | .obj kk => emit ((lastOpt os 'o').getD "-") (bs (Json.obj (updateKV t kk)).dump) { status := 0 }
         | _ => fail)
      | _, _ => fail
    | _, _, _ => fail

/-- `jose jwk gen -i TMPL ... [-s] [-o JWK]` -/
def jwkGen (P : Prims) (w : World) (argv : List String) (rnd : Bs) : Res :=
  match parseOpts ['i', 'o'] argv with
  | none => fail
  | some os =>
    match foldOpt (addJwkt w) (optsOf os 'i') with
    | some tmpls =>
      if tmpls.isEmpty then fail else
      let gens := tmpls.map (fun t => Gen.gen P t rnd)
      if gens.any Option.isNone then fail
      else emit ((lastOpt os 'o').getD "-") (bs (dumpKeys (gens.filterMap id) (hasFlag os 's'))) { status := 0 }
    | none => fail

/-- `jose jwk use -i JWK -u OP ... [-a] [-r] [-s] [-o JWK]` -/
def jwkUse (w : World) (argv : List String) : Res :=
  match parseOpts ['i', 'u', 'o'] argv with
  | none => fail
  | some os =>
    match foldOpt (addJwks w) (optsOf os 'i') with
    | some keys =>
      let uses := optsOf os 'u'
      if uses.isEmpty || keys.isEmpty then fail else
      let all := hasFlag os 'a'
      let req := hasFlag os 'r'
      let status (k : Json) : Bool :=
        if all then uses.all (fun u => Jwk.prm (some k) req (some u)) else uses.any (fun u => Jwk.prm (some k) req (some u))
      match lastOpt os 'o' with
      | none => if keys.all status then { status := 0 } else fail
      | some out =>
        let sel := keys.filter status
        if sel.isEmpty then fail else emit out (bs (dumpKeys sel (hasFlag os 's'))) { status := 0 }
    | none => fail

/-! ### jose b64 enc / dec -/

def b64Enc (w : World) (argv : List String) : Res :=
  match parseOpts ['I', 'o'] argv with
  | none => fail
  | some os =>
    match (lastOpt os 'I').bind (readRaw w) with
    | some t => emit ((lastOpt os 'o').getD "-") (B64.encChars t) { status := 0 }
    | none => fail

def b64Dec (w : World) (argv : List String) : Res :=
  match parseOpts ['i', 'O'] argv with
  | none => fail
  | some os =>
    match (lastOpt os 'i').bind (readRaw w) with
    | some t =>
      -- white space (isspace) is skipped
      let cs := t.filter (fun c => !(c = 32 || (9 ≤ c && c ≤ 13)))
      (match B64.decode cs with
       | some b => emit ((lastOpt os 'O').getD "-") b { status := 0 }
       | none => fail)
    | none => fail

end Cli
end Jose
