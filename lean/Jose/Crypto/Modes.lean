/-
  AES modes of operation, executable, core Lean only:
    * CBC with PKCS#7 padding (NIST SP 800-38A),
    * GCM (NIST SP 800-38D), 12-byte and arbitrary non-empty IVs, 16-byte tags,
    * AES Key Wrap (RFC 3394) with the default IV A6A6A6A6A6A6A6A6.

  Total: all loops are structural recursions on exact block / bit / step counters.

  Conventions for invalid parameters (key not 16/24/32 bytes, CBC IV not 16 bytes):
  functions returning `ByteArray` return the empty array (GCM encrypt: a pair of empty
  arrays), functions returning `Option` return `none`.
  GCM with an *empty* IV is not permitted by SP 800-38D; it is not rejected here (the
  general GHASH derivation of J0 is applied) — callers must enforce IV length policy.
  Comparisons of tags are not constant-time (this is a model, not a production library).
-/
import Jose.Crypto.Aes

namespace Jose.Crypto

namespace Modes

/-- byte-wise equality -/
def baEq (a b : ByteArray) : Bool :=
  a.size == b.size && go a.size 0
where
  go : Nat → Nat → Bool
    | 0, _ => true
    | n+1, i => a[i]! == b[i]! && go n (i+1)

/-- push `ks[j] ^ inp[off + j]` for `j = i, …, i + n - 1` -/
def xorPush (ks inp : ByteArray) (off : Nat) : Nat → Nat → ByteArray → ByteArray
  | 0, _, out => out
  | n+1, i, out => xorPush ks inp off n (i+1) (out.push (ks[i]! ^^^ inp[off + i]!))

def pushN (b : UInt8) : Nat → ByteArray → ByteArray
  | 0, out => out
  | n+1, out => pushN b n (out.push b)

@[inline] def loadBE32 := @Aes.loadBE32
@[inline] def pushBE32 := @Aes.pushBE32

@[inline] def loadBE64 (d : ByteArray) (o : Nat) : UInt64 :=
  ((loadBE32 d o).toUInt64 <<< 32) ||| (loadBE32 d (o+4)).toUInt64

@[inline] def pushBE64 (b : ByteArray) (x : UInt64) : ByteArray :=
  pushBE32 (pushBE32 b (x >>> 32).toUInt32) x.toUInt32

/-! ### CBC -/

/-- CBC-encrypt `n` blocks of `d` starting at `off`; `prev` is the previous ciphertext block -/
def cbcEnc (k : AesKey) (d : ByteArray) : Nat → Nat → ByteArray → ByteArray → ByteArray
  | 0, _, _, out => out
  | n+1, off, prev, out =>
    let x := xorPush prev d off 16 0 (ByteArray.emptyWithCapacity 16)
    let c := k.encryptBlock x
    cbcEnc k d n (off + 16) c (out ++ c)

/-- CBC-decrypt `n` blocks of `ct` starting at `off`; the previous ciphertext block is
    at `prevOff` in `prevSrc` -/
def cbcDec (k : AesKey) (ct : ByteArray) :
    Nat → Nat → ByteArray → Nat → ByteArray → ByteArray
  | 0, _, _, _, out => out
  | n+1, off, prevSrc, prevOff, out =>
    let x := k.decryptAt ct off
    cbcDec k ct n (off + 16) ct off (xorPush x prevSrc prevOff 16 0 out)

/-- `true` iff the last `p` bytes of `d` (indices `d.size - p …`) all equal `p` -/
def padOk (d : ByteArray) (p : UInt8) : Nat → Nat → Bool
  | 0, _ => true
  | n+1, i => d[i]! == p && padOk d p n (i+1)

end Modes

open Modes

/-- AES-CBC encryption with PKCS#7 padding.  Output length is `16 * (pt.size / 16 + 1)`.
    Returns the empty array if the key is not 16/24/32 bytes or the IV is not 16 bytes. -/
def aesCbcEncrypt (key iv pt : ByteArray) : ByteArray :=
  match AesKey.new key with
  | none => ByteArray.empty
  | some k =>
    if iv.size != 16 then ByteArray.empty else
    let padLen := 16 - pt.size % 16
    let padded := pushN padLen.toUInt8 padLen pt
    cbcEnc k padded (padded.size / 16) 0 iv (ByteArray.emptyWithCapacity padded.size)

/-- AES-CBC decryption with PKCS#7 unpadding.  `none` if the key/IV length is invalid, the
    ciphertext length is not a positive multiple of 16, or the padding is malformed. -/
def aesCbcDecrypt (key iv ct : ByteArray) : Option ByteArray :=
  match AesKey.new key with
  | none => none
  | some k =>
    if iv.size != 16 || ct.size == 0 || ct.size % 16 != 0 then none else
    let p := cbcDec k ct (ct.size / 16) 0 iv 0 (ByteArray.emptyWithCapacity ct.size)
    let last := p[p.size - 1]!
    let n := last.toNat
    if n == 0 || n > 16 then none
    else if padOk p last n (p.size - n) then some (p.extract 0 (p.size - n))
    else none

/-! ### GCM -/

namespace Modes

/-- element of GF(2^128) in GCM bit order: `hi` holds bits 0..63 (bit 0 = msb of `hi`) -/
structure G128 where
  hi : UInt64
  lo : UInt64

/-- multiplication in GF(2^128) (SP 800-38D §6.3), bit-serial -/
def gfMul (x y : G128) : G128 :=
  go 128 x.hi x.lo 0 0 y.hi y.lo
where
  go : Nat → UInt64 → UInt64 → UInt64 → UInt64 → UInt64 → UInt64 → G128
    | 0, _, _, zh, zl, _, _ => ⟨zh, zl⟩
    | n+1, xh, xl, zh, zl, vh, vl =>
      let m : UInt64 := (0 : UInt64) - (xh >>> 63)            -- all ones iff current bit of x is set
      let l : UInt64 := (0 : UInt64) - (vl &&& 1)             -- all ones iff lsb of v is set
      go n ((xh <<< 1) ||| (xl >>> 63)) (xl <<< 1)
        (zh ^^^ (vh &&& m)) (zl ^^^ (vl &&& m))
        ((vh >>> 1) ^^^ (l &&& 0xe100000000000000)) ((vl >>> 1) ||| (vh <<< 63))

/-- read up to 8 bytes big-endian at offset `o`, bytes beyond the end read as zero -/
def loadBE64z (d : ByteArray) (o : Nat) : UInt64 :=
  if o + 8 ≤ d.size then loadBE64 d o
  else go 8 o 0
where
  go : Nat → Nat → UInt64 → UInt64
    | 0, _, acc => acc
    | n+1, i, acc => go n (i+1) ((acc <<< 8) ||| (if i < d.size then d[i]!.toUInt64 else 0))

/-- absorb `n` 16-byte blocks of `d` (zero-padded at the end) into the GHASH accumulator -/
def ghashBlocks (h : G128) (d : ByteArray) : Nat → Nat → G128 → G128
  | 0, _, y => y
  | n+1, off, y =>
    ghashBlocks h d n (off + 16)
      (gfMul ⟨y.hi ^^^ loadBE64z d off, y.lo ^^^ loadBE64z d (off + 8)⟩ h)

/-- absorb all of `d`, zero-padded to a multiple of 16 bytes -/
def ghashData (h : G128) (d : ByteArray) (y : G128) : G128 :=
  ghashBlocks h d ((d.size + 15) / 16) 0 y

/-- counter-mode keystream application: `n` blocks, pre-counter words `w0 w1 w2`,
    current 32-bit counter `ctr` -/
def gctr (k : AesKey) (w0 w1 w2 : UInt32) (inp : ByteArray) :
    Nat → UInt32 → Nat → ByteArray → ByteArray
  | 0, _, _, out => out
  | n+1, ctr, off, out =>
    let ks := k.encryptWords w0 w1 w2 ctr
    let m := if off + 16 ≤ inp.size then 16 else inp.size - off
    gctr k w0 w1 w2 inp n (ctr + 1) (off + 16) (xorPush ks inp off m 0 out)

/-- GCM context after key/IV setup -/
structure GcmCtx where
  k : AesKey
  h : G128
  j0 : G128

def GcmCtx.new (k : AesKey) (iv : ByteArray) : GcmCtx :=
  let hb := k.encryptWords 0 0 0 0
  let h : G128 := ⟨loadBE64 hb 0, loadBE64 hb 8⟩
  let j0 : G128 :=
    if iv.size == 12 then
      ⟨loadBE64 iv 0, ((loadBE32 iv 8).toUInt64 <<< 32) ||| 1⟩
    else
      let y := ghashData h iv ⟨0, 0⟩
      gfMul ⟨y.hi, y.lo ^^^ (iv.size * 8).toUInt64⟩ h
  { k := k, h := h, j0 := j0 }

def GcmCtx.crypt (c : GcmCtx) (inp : ByteArray) : ByteArray :=
  let w0 := (c.j0.hi >>> 32).toUInt32
  let w1 := c.j0.hi.toUInt32
  let w2 := (c.j0.lo >>> 32).toUInt32
  let ctr := c.j0.lo.toUInt32
  gctr c.k w0 w1 w2 inp ((inp.size + 15) / 16) (ctr + 1) 0 (ByteArray.emptyWithCapacity inp.size)

def GcmCtx.tag (c : GcmCtx) (aad ct : ByteArray) : ByteArray :=
  let y := ghashData c.h aad ⟨0, 0⟩
  let y := ghashData c.h ct y
  let s := gfMul ⟨y.hi ^^^ (aad.size * 8).toUInt64, y.lo ^^^ (ct.size * 8).toUInt64⟩ c.h
  let e := c.k.encryptWords (c.j0.hi >>> 32).toUInt32 c.j0.hi.toUInt32
             (c.j0.lo >>> 32).toUInt32 c.j0.lo.toUInt32
  pushBE64 (pushBE64 (ByteArray.emptyWithCapacity 16) (s.hi ^^^ loadBE64 e 0)) (s.lo ^^^ loadBE64 e 8)

end Modes

/-- the 16-byte GCM authentication tag for ciphertext `ct` (empty array on invalid key length) -/
def aesGcmTag (key iv aad ct : ByteArray) : ByteArray :=
  match AesKey.new key with
  | none => ByteArray.empty
  | some k => (GcmCtx.new k iv).tag aad ct

/-- AES-GCM authenticated encryption: `(ciphertext, 16-byte tag)`.
    `(empty, empty)` on invalid key length. -/
def aesGcmEncrypt (key iv aad pt : ByteArray) : ByteArray × ByteArray :=
  match AesKey.new key with
  | none => (ByteArray.empty, ByteArray.empty)
  | some k =>
    let c := GcmCtx.new k iv
    let ct := c.crypt pt
    (ct, c.tag aad ct)

/-- AES-GCM authenticated decryption; `none` on invalid key length or if `tag` is not exactly
    the 16-byte tag of `(iv, aad, ct)`. -/
def aesGcmDecrypt (key iv aad ct tag : ByteArray) : Option ByteArray :=
  match AesKey.new key with
  | none => none
  | some k =>
    let c := GcmCtx.new k iv
    if baEq (c.tag aad ct) tag then some (c.crypt ct) else none

/-! ### AES Key Wrap (RFC 3394) -/

namespace Modes

def kwIV : UInt64 := 0xa6a6a6a6a6a6a6a6

def loadWords64 (d : ByteArray) : Nat → Nat → Array UInt64 → Array UInt64
  | 0, _, w => w
  | n+1, o, w => loadWords64 d n (o + 8) (w.push (loadBE64 d o))

def storeWords64 (r : Array UInt64) : Nat → Nat → ByteArray → ByteArray
  | 0, _, out => out
  | n+1, i, out => storeWords64 r n (i+1) (pushBE64 out r[i]!)

/-- wrapping steps `t = s, s+1, …` (`cnt` of them) over `n` registers -/
def kwWrapLoop (k : AesKey) (n : Nat) : Nat → Nat → UInt64 → Array UInt64 → UInt64 × Array UInt64
  | 0, _, a, r => (a, r)
  | cnt+1, t, a, r =>
    let i := (t - 1) % n
    let ri := r[i]!
    let b := k.encryptWords (a >>> 32).toUInt32 a.toUInt32 (ri >>> 32).toUInt32 ri.toUInt32
    kwWrapLoop k n cnt (t + 1) (loadBE64 b 0 ^^^ t.toUInt64) (r.set! i (loadBE64 b 8))

/-- unwrapping steps `t = s, s-1, …` (`cnt` of them) -/
def kwUnwrapLoop (k : AesKey) (n : Nat) : Nat → Nat → UInt64 → Array UInt64 → UInt64 × Array UInt64
  | 0, _, a, r => (a, r)
  | cnt+1, t, a, r =>
    let i := (t - 1) % n
    let ri := r[i]!
    let a' := a ^^^ t.toUInt64
    let b := k.decryptWords (a' >>> 32).toUInt32 a'.toUInt32 (ri >>> 32).toUInt32 ri.toUInt32
    kwUnwrapLoop k n cnt (t - 1) (loadBE64 b 0) (r.set! i (loadBE64 b 8))

end Modes

/-- RFC 3394 key wrap with the default IV.  `none` if the KEK is not 16/24/32 bytes or the
    plaintext length is not a multiple of 8 that is at least 16. -/
def aesKwWrap (kek pt : ByteArray) : Option ByteArray :=
  match AesKey.new kek with
  | none => none
  | some k =>
    if pt.size % 8 != 0 || pt.size < 16 then none else
    let n := pt.size / 8
    let r := loadWords64 pt n 0 (Array.mkEmpty n)
    let (a, r) := kwWrapLoop k n (6 * n) 1 kwIV r
    some (storeWords64 r n 0 (pushBE64 (ByteArray.emptyWithCapacity (pt.size + 8)) a))

/-- RFC 3394 key unwrap with the default IV.  `none` if the KEK is not 16/24/32 bytes, the
    ciphertext length is not a multiple of 8 that is at least 24, or the integrity check fails. -/
def aesKwUnwrap (kek ct : ByteArray) : Option ByteArray :=
  match AesKey.new kek with
  | none => none
  | some k =>
    if ct.size % 8 != 0 || ct.size < 24 then none else
    let n := ct.size / 8 - 1
    let r := loadWords64 ct n 8 (Array.mkEmpty n)
    let (a, r) := kwUnwrapLoop k n (6 * n) (6 * n) (loadBE64 ct 0) r
    if a == kwIV then some (storeWords64 r n 0 (ByteArray.emptyWithCapacity (ct.size - 8)))
    else none

end Jose.Crypto
