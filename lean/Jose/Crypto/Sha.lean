/-
  SHA-1 / SHA-224 / SHA-256 / SHA-384 / SHA-512 (FIPS 180-4), executable, core Lean only.

  All functions are total: every loop is a structural recursion on an exact
  iteration counter (no `partial`, no fuel that can run out).

  Besides the one-shot functions (`sha1` … `sha512`, `hash`) a small incremental
  interface is exported (`HState.init`, `HState.update`, `HState.finishWith`) so that
  HMAC / PBKDF2 can pre-compute the states after the padded-key blocks.
-/
import Jose.Crypto.Basic

namespace Jose.Crypto

namespace Sha

/-! ### helpers -/

@[inline] def rotr32 (x : UInt32) (n : UInt32) : UInt32 := (x >>> n) ||| (x <<< (32 - n))
@[inline] def rotl32 (x : UInt32) (n : UInt32) : UInt32 := (x <<< n) ||| (x >>> (32 - n))
@[inline] def rotr64 (x : UInt64) (n : UInt64) : UInt64 := (x >>> n) ||| (x <<< (64 - n))

@[inline] def loadBE32 (d : ByteArray) (o : Nat) : UInt32 :=
  (d[o]!.toUInt32 <<< 24) ||| (d[o+1]!.toUInt32 <<< 16) |||
  (d[o+2]!.toUInt32 <<< 8) ||| d[o+3]!.toUInt32

@[inline] def loadBE64 (d : ByteArray) (o : Nat) : UInt64 :=
  ((loadBE32 d o).toUInt64 <<< 32) ||| (loadBE32 d (o+4)).toUInt64

@[inline] def pushBE32 (b : ByteArray) (x : UInt32) : ByteArray :=
  (((b.push (x >>> 24).toUInt8).push (x >>> 16).toUInt8).push (x >>> 8).toUInt8).push x.toUInt8

@[inline] def pushBE64 (b : ByteArray) (x : UInt64) : ByteArray :=
  pushBE32 (pushBE32 b (x >>> 32).toUInt32) x.toUInt32

/-- push `n` zero bytes -/
def pushZeros : Nat → ByteArray → ByteArray
  | 0, b => b
  | n+1, b => pushZeros n (b.push 0)

/-! ### constants -/

def K256 : Array UInt32 := #[
  0x428a2f98, 0x71374491, 0xb5c0fbcf, 0xe9b5dba5, 0x3956c25b, 0x59f111f1, 0x923f82a4, 0xab1c5ed5,
  0xd807aa98, 0x12835b01, 0x243185be, 0x550c7dc3, 0x72be5d74, 0x80deb1fe, 0x9bdc06a7, 0xc19bf174,
  0xe49b69c1, 0xefbe4786, 0x0fc19dc6, 0x240ca1cc, 0x2de92c6f, 0x4a7484aa, 0x5cb0a9dc, 0x76f988da,
  0x983e5152, 0xa831c66d, 0xb00327c8, 0xbf597fc7, 0xc6e00bf3, 0xd5a79147, 0x06ca6351, 0x14292967,
  0x27b70a85, 0x2e1b2138, 0x4d2c6dfc, 0x53380d13, 0x650a7354, 0x766a0abb, 0x81c2c92e, 0x92722c85,
  0xa2bfe8a1, 0xa81a664b, 0xc24b8b70, 0xc76c51a3, 0xd192e819, 0xd6990624, 0xf40e3585, 0x106aa070,
  0x19a4c116, 0x1e376c08, 0x2748774c, 0x34b0bcb5, 0x391c0cb3, 0x4ed8aa4a, 0x5b9cca4f, 0x682e6ff3,
  0x748f82ee, 0x78a5636f, 0x84c87814, 0x8cc70208, 0x90befffa, 0xa4506ceb, 0xbef9a3f7, 0xc67178f2]

def K512 : Array UInt64 := #[
  0x428a2f98d728ae22, 0x7137449123ef65cd, 0xb5c0fbcfec4d3b2f, 0xe9b5dba58189dbbc,
  0x3956c25bf348b538, 0x59f111f1b605d019, 0x923f82a4af194f9b, 0xab1c5ed5da6d8118,
  0xd807aa98a3030242, 0x12835b0145706fbe, 0x243185be4ee4b28c, 0x550c7dc3d5ffb4e2,
  0x72be5d74f27b896f, 0x80deb1fe3b1696b1, 0x9bdc06a725c71235, 0xc19bf174cf692694,
  0xe49b69c19ef14ad2, 0xefbe4786384f25e3, 0x0fc19dc68b8cd5b5, 0x240ca1cc77ac9c65,
  0x2de92c6f592b0275, 0x4a7484aa6ea6e483, 0x5cb0a9dcbd41fbd4, 0x76f988da831153b5,
  0x983e5152ee66dfab, 0xa831c66d2db43210, 0xb00327c898fb213f, 0xbf597fc7beef0ee4,
  0xc6e00bf33da88fc2, 0xd5a79147930aa725, 0x06ca6351e003826f, 0x142929670a0e6e70,
  0x27b70a8546d22ffc, 0x2e1b21385c26c926, 0x4d2c6dfc5ac42aed, 0x53380d139d95b3df,
  0x650a73548baf63de, 0x766a0abb3c77b2a8, 0x81c2c92e47edaee6, 0x92722c851482353b,
  0xa2bfe8a14cf10364, 0xa81a664bbc423001, 0xc24b8b70d0f89791, 0xc76c51a30654be30,
  0xd192e819d6ef5218, 0xd69906245565a910, 0xf40e35855771202a, 0x106aa07032bbd1b8,
  0x19a4c116b8d2d0c8, 0x1e376c085141ab53, 0x2748774cdf8eeb99, 0x34b0bcb5e19b48a8,
  0x391c0cb3c5c95a63, 0x4ed8aa4ae3418acb, 0x5b9cca4f7763e373, 0x682e6ff3d6b2b8a3,
  0x748f82ee5defb2fc, 0x78a5636f43172f60, 0x84c87814a1f0ab72, 0x8cc702081a6439ec,
  0x90befffa23631e28, 0xa4506cebde82bde9, 0xbef9a3f7b2c67915, 0xc67178f2e372532b,
  0xca273eceea26619c, 0xd186b8c721c0c207, 0xeada7dd6cde0eb1e, 0xf57d4f7fee6ed178,
  0x06f067aa72176fba, 0x0a637dc5a2c898a6, 0x113f9804bef90dae, 0x1b710b35131c471b,
  0x28db77f523047d84, 0x32caab7b40c72493, 0x3c9ebe0a15c9bebc, 0x431d67c49c100d4c,
  0x4cc5d4becb3e42b6, 0x597f299cfc657e2a, 0x5fcb6fab3ad6faec, 0x6c44198c4a475817]

/-! ### states -/

/-- SHA-1 chaining value -/
structure St1 where
  a : UInt32
  b : UInt32
  c : UInt32
  d : UInt32
  e : UInt32

/-- SHA-224/256 chaining value -/
structure St256 where
  a : UInt32
  b : UInt32
  c : UInt32
  d : UInt32
  e : UInt32
  f : UInt32
  g : UInt32
  h : UInt32

/-- SHA-384/512 chaining value -/
structure St512 where
  a : UInt64
  b : UInt64
  c : UInt64
  d : UInt64
  e : UInt64
  f : UInt64
  g : UInt64
  h : UInt64

def init1 : St1 := ⟨0x67452301, 0xefcdab89, 0x98badcfe, 0x10325476, 0xc3d2e1f0⟩
def init224 : St256 :=
  ⟨0xc1059ed8, 0x367cd507, 0x3070dd17, 0xf70e5939, 0xffc00b31, 0x68581511, 0x64f98fa7, 0xbefa4fa4⟩
def init256 : St256 :=
  ⟨0x6a09e667, 0xbb67ae85, 0x3c6ef372, 0xa54ff53a, 0x510e527f, 0x9b05688c, 0x1f83d9ab, 0x5be0cd19⟩
def init384 : St512 :=
  ⟨0xcbbb9d5dc1059ed8, 0x629a292a367cd507, 0x9159015a3070dd17, 0x152fecd8f70e5939,
   0x67332667ffc00b31, 0x8eb44a8768581511, 0xdb0c2e0d64f98fa7, 0x47b5481dbefa4fa4⟩
def init512 : St512 :=
  ⟨0x6a09e667f3bcc908, 0xbb67ae8584caa73b, 0x3c6ef372fe94f82b, 0xa54ff53a5f1d36f1,
   0x510e527fade682d1, 0x9b05688c2b3e6c1f, 0x1f83d9abfb41bd6b, 0x5be0cd19137e2179⟩

/-! ### SHA-1 compression -/

/-- load `n` big-endian 32-bit words starting at byte offset `o` -/
def loadWords32 (d : ByteArray) : Nat → Nat → Array UInt32 → Array UInt32
  | 0, _, w => w
  | n+1, o, w => loadWords32 d n (o+4) (w.push (loadBE32 d o))

def extend1 : Nat → Nat → Array UInt32 → Array UInt32
  | 0, _, w => w
  | n+1, i, w =>
    extend1 n (i+1) (w.push (rotl32 (w[i-3]! ^^^ w[i-8]! ^^^ w[i-14]! ^^^ w[i-16]!) 1))

def rounds1 (w : Array UInt32) : Nat → Nat → UInt32 → UInt32 → UInt32 → UInt32 → UInt32 → St1
  | 0, _, a, b, c, d, e => ⟨a, b, c, d, e⟩
  | n+1, i, a, b, c, d, e =>
    let f : UInt32 :=
      if i < 20 then (b &&& c) ||| (~~~b &&& d)
      else if i < 40 then b ^^^ c ^^^ d
      else if i < 60 then (b &&& c) ||| (b &&& d) ||| (c &&& d)
      else b ^^^ c ^^^ d
    let k : UInt32 :=
      if i < 20 then 0x5a827999 else if i < 40 then 0x6ed9eba1
      else if i < 60 then 0x8f1bbcdc else 0xca62c1d6
    let t := rotl32 a 5 + f + e + k + w[i]!
    rounds1 w n (i+1) t a (rotl32 b 30) c d

/-- one SHA-1 compression of the 64-byte block at offset `off` -/
def compress1 (s : St1) (d : ByteArray) (off : Nat) : St1 :=
  let w := extend1 64 16 (loadWords32 d 16 off (Array.mkEmpty 80))
  let r := rounds1 w 80 0 s.a s.b s.c s.d s.e
  ⟨s.a + r.a, s.b + r.b, s.c + r.c, s.d + r.d, s.e + r.e⟩

/-! ### SHA-256 compression -/

def extend256 : Nat → Nat → Array UInt32 → Array UInt32
  | 0, _, w => w
  | n+1, i, w =>
    let x := w[i-15]!
    let y := w[i-2]!
    let s0 := rotr32 x 7 ^^^ rotr32 x 18 ^^^ (x >>> 3)
    let s1 := rotr32 y 17 ^^^ rotr32 y 19 ^^^ (y >>> 10)
    extend256 n (i+1) (w.push (w[i-16]! + s0 + w[i-7]! + s1))

def rounds256 (w : Array UInt32) :
    Nat → Nat → UInt32 → UInt32 → UInt32 → UInt32 → UInt32 → UInt32 → UInt32 → UInt32 → St256
  | 0, _, a, b, c, d, e, f, g, h => ⟨a, b, c, d, e, f, g, h⟩
  | n+1, i, a, b, c, d, e, f, g, h =>
    let S1 := rotr32 e 6 ^^^ rotr32 e 11 ^^^ rotr32 e 25
    let ch := (e &&& f) ^^^ (~~~e &&& g)
    let t1 := h + S1 + ch + K256[i]! + w[i]!
    let S0 := rotr32 a 2 ^^^ rotr32 a 13 ^^^ rotr32 a 22
    let maj := (a &&& b) ^^^ (a &&& c) ^^^ (b &&& c)
    let t2 := S0 + maj
    rounds256 w n (i+1) (t1 + t2) a b c (d + t1) e f g

/-- one SHA-256 compression of the 64-byte block at offset `off` -/
def compress256 (s : St256) (d : ByteArray) (off : Nat) : St256 :=
  let w := extend256 48 16 (loadWords32 d 16 off (Array.mkEmpty 64))
  let r := rounds256 w 64 0 s.a s.b s.c s.d s.e s.f s.g s.h
  ⟨s.a + r.a, s.b + r.b, s.c + r.c, s.d + r.d, s.e + r.e, s.f + r.f, s.g + r.g, s.h + r.h⟩

/-! ### SHA-512 compression -/

def loadWords64 (d : ByteArray) : Nat → Nat → Array UInt64 → Array UInt64
  | 0, _, w => w
  | n+1, o, w => loadWords64 d n (o+8) (w.push (loadBE64 d o))

def extend512 : Nat → Nat → Array UInt64 → Array UInt64
  | 0, _, w => w
  | n+1, i, w =>
    let x := w[i-15]!
    let y := w[i-2]!
    let s0 := rotr64 x 1 ^^^ rotr64 x 8 ^^^ (x >>> 7)
    let s1 := rotr64 y 19 ^^^ rotr64 y 61 ^^^ (y >>> 6)
    extend512 n (i+1) (w.push (w[i-16]! + s0 + w[i-7]! + s1))

def rounds512 (w : Array UInt64) :
    Nat → Nat → UInt64 → UInt64 → UInt64 → UInt64 → UInt64 → UInt64 → UInt64 → UInt64 → St512
  | 0, _, a, b, c, d, e, f, g, h => ⟨a, b, c, d, e, f, g, h⟩
  | n+1, i, a, b, c, d, e, f, g, h =>
    let S1 := rotr64 e 14 ^^^ rotr64 e 18 ^^^ rotr64 e 41
    let ch := (e &&& f) ^^^ (~~~e &&& g)
    let t1 := h + S1 + ch + K512[i]! + w[i]!
    let S0 := rotr64 a 28 ^^^ rotr64 a 34 ^^^ rotr64 a 39
    let maj := (a &&& b) ^^^ (a &&& c) ^^^ (b &&& c)
    let t2 := S0 + maj
    rounds512 w n (i+1) (t1 + t2) a b c (d + t1) e f g

/-- one SHA-512 compression of the 128-byte block at offset `off` -/
def compress512 (s : St512) (d : ByteArray) (off : Nat) : St512 :=
  let w := extend512 64 16 (loadWords64 d 16 off (Array.mkEmpty 80))
  let r := rounds512 w 80 0 s.a s.b s.c s.d s.e s.f s.g s.h
  ⟨s.a + r.a, s.b + r.b, s.c + r.c, s.d + r.d, s.e + r.e, s.f + r.f, s.g + r.g, s.h + r.h⟩

end Sha

open Sha

/-! ### generic incremental interface -/

/-- Chaining state of any of the five hash functions.  `outLen` is the digest length in bytes. -/
inductive HState where
  | h1 (s : St1)
  | h256 (s : St256) (outLen : Nat)
  | h512 (s : St512) (outLen : Nat)

namespace HState

def init : HashAlg → HState
  | .sha1 => .h1 init1
  | .sha224 => .h256 init224 28
  | .sha256 => .h256 init256 32
  | .sha384 => .h512 init384 48
  | .sha512 => .h512 init512 64

/-- block size in bytes -/
def blockSize : HState → Nat
  | .h1 _ => 64 | .h256 _ _ => 64 | .h512 _ _ => 128

/-- absorb the block at byte offset `off` of `d` -/
def block (st : HState) (d : ByteArray) (off : Nat) : HState :=
  match st with
  | .h1 s => .h1 (compress1 s d off)
  | .h256 s n => .h256 (compress256 s d off) n
  | .h512 s n => .h512 (compress512 s d off) n

/-- absorb `n` consecutive full blocks of `d` starting at byte offset `off` -/
def update (st : HState) (d : ByteArray) (off : Nat) : Nat → HState
  | 0 => st
  | n+1 => update (st.block d off) d (off + st.blockSize) n

/-- serialise the (truncated) chaining value -/
def digest : HState → ByteArray
  | .h1 s =>
    pushBE32 (pushBE32 (pushBE32 (pushBE32 (pushBE32 (ByteArray.emptyWithCapacity 20)
      s.a) s.b) s.c) s.d) s.e
  | .h256 s n =>
    let b := pushBE32 (pushBE32 (pushBE32 (pushBE32 (pushBE32 (pushBE32 (pushBE32 (pushBE32
      (ByteArray.emptyWithCapacity 32) s.a) s.b) s.c) s.d) s.e) s.f) s.g) s.h
    if n < 32 then b.extract 0 n else b
  | .h512 s n =>
    let b := pushBE64 (pushBE64 (pushBE64 (pushBE64 (pushBE64 (pushBE64 (pushBE64 (pushBE64
      (ByteArray.emptyWithCapacity 64) s.a) s.b) s.c) s.d) s.e) s.f) s.g) s.h
    if n < 64 then b.extract 0 n else b

/--
  Finish a hash computation.  `st` is the state after `prefixLen` bytes (a multiple of the
  block size) have already been absorbed; `msg` is the whole rest of the message.
  Returns the digest of `prefix ++ msg`.
-/
def finishWith (st : HState) (prefixLen : Nat) (msg : ByteArray) : ByteArray :=
  let bs := st.blockSize
  let lenBytes := if bs == 64 then 8 else 16
  let nfull := msg.size / bs
  let st := st.update msg 0 nfull
  -- tail: remaining bytes, 0x80, zeros, bit length (big-endian, `lenBytes` bytes)
  let rem := msg.size - nfull * bs
  let tail := (msg.extract (nfull * bs) msg.size).push 0x80
  let padTo := if rem + 1 + lenBytes ≤ bs then bs else 2 * bs
  let tail := pushZeros (padTo - 8 - (rem + 1)) tail
  let bits : Nat := (prefixLen + msg.size) * 8
  -- (the top 64 bits of a 128-bit length field were emitted as zeros above;
  --  messages of 2^61 bytes or more are out of scope)
  let tail := pushBE64 tail bits.toUInt64
  (st.update tail 0 (padTo / bs)).digest

end HState

/-- `hash alg msg` : the digest of `msg` under `alg` -/
def hash (alg : HashAlg) (msg : ByteArray) : ByteArray :=
  (HState.init alg).finishWith 0 msg

def sha1 (msg : ByteArray) : ByteArray := hash .sha1 msg
def sha224 (msg : ByteArray) : ByteArray := hash .sha224 msg
def sha256 (msg : ByteArray) : ByteArray := hash .sha256 msg
def sha384 (msg : ByteArray) : ByteArray := hash .sha384 msg
def sha512 (msg : ByteArray) : ByteArray := hash .sha512 msg

end Jose.Crypto
