/-
  RSA (RFC 8017 / PKCS #1 v2.2), executable, core Lean only:

  * RSASSA-PKCS1-v1_5  sign / verify
  * RSASSA-PSS         sign / verify  (MGF1 with the message hash, trailer 0xBC)
  * RSAES-OAEP         encrypt / decrypt (empty label, MGF1 with the OAEP hash)
  * RSAES-PKCS1-v1_5   encrypt / decrypt

  A public key is `(n e : Nat)`, a private key `(n d : Nat)`; the private
  operation is a plain `c ^ d mod n` (no CRT, no blinding, not constant time –
  this is an executable *model*).  All randomness (PSS salt, OAEP seed,
  v1.5 padding string) is supplied by the caller, so every function is a pure,
  total function.
-/
import Jose.Crypto.Basic
import Jose.Crypto.Num
import Jose.Crypto.Sha

namespace Jose.Crypto

/-! ### byte-string helpers -/

/-- `n` copies of the byte `v`. -/
def replicateBytes (n : Nat) (v : UInt8) : ByteArray :=
  go n (ByteArray.emptyWithCapacity n)
where
  go : Nat → ByteArray → ByteArray
    | 0, acc => acc
    | i + 1, acc => go i (acc.push v)

/-- Bytewise xor; the result has the length of `a`, missing bytes of `b` count as 0. -/
def xorBytes (a b : ByteArray) : ByteArray :=
  go a.size 0 (ByteArray.emptyWithCapacity a.size)
where
  go : Nat → Nat → ByteArray → ByteArray
    | 0, _, acc => acc
    | k + 1, i, acc => go k (i + 1) (acc.push (a.get! i ^^^ b.get! i))

/-- Index of the first non-zero byte of `b` at or after `i` (`b.size` if none). -/
def firstNonZero (b : ByteArray) (i : Nat) : Nat :=
  go (b.size - i) i
where
  go : Nat → Nat → Nat
    | 0, j => j
    | k + 1, j => if b.get! j != 0 then j else go k (j + 1)

/-- Index of the first zero byte of `b` at or after `i` (`b.size` if none). -/
def firstZero (b : ByteArray) (i : Nat) : Nat :=
  go (b.size - i) i
where
  go : Nat → Nat → Nat
    | 0, j => j
    | k + 1, j => if b.get! j == 0 then j else go k (j + 1)

/-! ### the RSA primitives RSAEP / RSADP / RSASP1 / RSAVP1 -/

/-- `x ^ exp mod n` on octet strings: input is read big-endian and must be `< n`;
    output has exactly `outLen` bytes.  `none` if `n = 0`, the input is out of
    range, or the result does not fit `outLen` bytes. -/
def rsaRaw (n exp : Nat) (x : ByteArray) (outLen : Nat) : Option ByteArray :=
  let m := bytesToNat x
  if n == 0 || m ≥ n then none
  else natToBytes (modPow m exp n) outLen

/-! ### EMSA-PKCS1-v1_5 -/

/-- DER prefix of `DigestInfo ::= SEQUENCE { AlgorithmIdentifier (NULL params), OCTET STRING }`
    up to and including the length byte of the digest (RFC 8017 §9.2 note 1). -/
def digestInfoPrefix : HashAlg → ByteArray
  | .sha1   => ⟨#[0x30, 0x21, 0x30, 0x09, 0x06, 0x05, 0x2b, 0x0e, 0x03, 0x02, 0x1a,
                  0x05, 0x00, 0x04, 0x14]⟩
  | .sha224 => ⟨#[0x30, 0x2d, 0x30, 0x0d, 0x06, 0x09, 0x60, 0x86, 0x48, 0x01, 0x65,
                  0x03, 0x04, 0x02, 0x04, 0x05, 0x00, 0x04, 0x1c]⟩
  | .sha256 => ⟨#[0x30, 0x31, 0x30, 0x0d, 0x06, 0x09, 0x60, 0x86, 0x48, 0x01, 0x65,
                  0x03, 0x04, 0x02, 0x01, 0x05, 0x00, 0x04, 0x20]⟩
  | .sha384 => ⟨#[0x30, 0x41, 0x30, 0x0d, 0x06, 0x09, 0x60, 0x86, 0x48, 0x01, 0x65,
                  0x03, 0x04, 0x02, 0x02, 0x05, 0x00, 0x04, 0x30]⟩
  | .sha512 => ⟨#[0x30, 0x51, 0x30, 0x0d, 0x06, 0x09, 0x60, 0x86, 0x48, 0x01, 0x65,
                  0x03, 0x04, 0x02, 0x03, 0x05, 0x00, 0x04, 0x40]⟩

/-- `EM = 00 01 FF…FF 00 DigestInfo(H(msg))`, exactly `emLen` bytes, at least 8 bytes
    of `FF`; `none` if `emLen` is too short. -/
def emsaPkcs1v15 (h : HashAlg) (msg : ByteArray) (emLen : Nat) : Option ByteArray :=
  let t := digestInfoPrefix h ++ hash h msg
  if emLen < t.size + 11 then none
  else
    some (((ByteArray.emptyWithCapacity emLen).push 0x00).push 0x01
          ++ replicateBytes (emLen - t.size - 3) 0xff ++ (ByteArray.empty.push 0x00) ++ t)

/-- RSASSA-PKCS1-v1_5 signature (deterministic), `byteLen n` bytes. -/
def rsaPkcs1v15Sign (h : HashAlg) (n d : Nat) (msg : ByteArray) : Option ByteArray :=
  let k := n.byteLen
  match emsaPkcs1v15 h msg k with
  | none => none
  | some em => rsaRaw n d em k

/-- RSASSA-PKCS1-v1_5 verification: signature must have exactly `byteLen n` bytes
    and represent a number `< n`; the recovered encoded message is compared in
    full with a freshly computed one (no DER parsing, so no BER laxness). -/
def rsaPkcs1v15Verify (h : HashAlg) (n e : Nat) (msg sig : ByteArray) : Bool :=
  let k := n.byteLen
  if sig.size != k then false
  else
    match rsaRaw n e sig k, emsaPkcs1v15 h msg k with
    | some em', some em => em' == em
    | _, _ => false

/-! ### MGF1 and EMSA-PSS -/

/-- MGF1 (RFC 8017 §B.2.1): `len` bytes of `H(seed ‖ 0) ‖ H(seed ‖ 1) ‖ …`
    (32-bit big-endian counters). -/
def mgf1 (h : HashAlg) (seed : ByteArray) (len : Nat) : ByteArray :=
  (go ((len + h.size - 1) / h.size) 0 (ByteArray.emptyWithCapacity (len + h.size))).extract 0 len
where
  go : Nat → Nat → ByteArray → ByteArray
    | 0, _, acc => acc
    | k + 1, ctr, acc => go k (ctr + 1) (acc ++ hash h (seed ++ natToBytesTrunc ctr 4))

/-- EMSA-PSS-ENCODE (RFC 8017 §9.1.1) of an already computed message hash. -/
def emsaPssEncode (h : HashAlg) (mHash salt : ByteArray) (emBits : Nat) : Option ByteArray :=
  let hLen := h.size
  let sLen := salt.size
  let emLen := (emBits + 7) / 8
  if emLen < hLen + sLen + 2 then none
  else
    let hh := hash h (replicateBytes 8 0 ++ mHash ++ salt)
    let db := (replicateBytes (emLen - sLen - hLen - 2) 0).push 0x01 ++ salt
    let masked := xorBytes db (mgf1 h hh (emLen - hLen - 1))
    let topMask : UInt8 := (0xff : UInt8) >>> (8 * emLen - emBits).toUInt8
    let masked := masked.set! 0 (masked.get! 0 &&& topMask)
    some ((masked ++ hh).push 0xbc)

/-- EMSA-PSS-VERIFY (RFC 8017 §9.1.2).  `saltLen = none` recovers the salt length
    from the position of the `01` separator (OpenSSL's `RSA_PSS_SALTLEN_AUTO`);
    `some k` demands exactly `k` salt bytes. -/
def emsaPssVerify (h : HashAlg) (mHash em : ByteArray) (emBits : Nat)
    (saltLen : Option Nat) : Bool :=
  let hLen := h.size
  let emLen := (emBits + 7) / 8
  if em.size != emLen || emLen < hLen + 2 then false
  else if em.get! (emLen - 1) != 0xbc then false
  else
    let dbLen := emLen - hLen - 1
    let masked := em.extract 0 dbLen
    let hh := em.extract dbLen (dbLen + hLen)
    let topMask : UInt8 := (0xff : UInt8) >>> (8 * emLen - emBits).toUInt8
    if masked.get! 0 &&& ~~~topMask != 0 then false
    else
      let db := xorBytes masked (mgf1 h hh dbLen)
      let db := db.set! 0 (db.get! 0 &&& topMask)
      let sep := firstNonZero db 0
      if sep ≥ dbLen || db.get! sep != 0x01 then false
      else
        let salt := db.extract (sep + 1) dbLen
        let lenOk := match saltLen with
          | none => true
          | some k => salt.size == k
        lenOk && hash h (replicateBytes 8 0 ++ mHash ++ salt) == hh

/-- RSASSA-PSS signature with caller-supplied salt; `emBits = bitLen n − 1`;
    output is `byteLen n` bytes. -/
def rsaPssSign (h : HashAlg) (n d : Nat) (msg salt : ByteArray) : Option ByteArray :=
  if n.bitLen < 2 then none
  else
    match emsaPssEncode h (hash h msg) salt (n.bitLen - 1) with
    | none => none
    | some em => rsaRaw n d em n.byteLen

/-- RSASSA-PSS verification.  The signature must have exactly `byteLen n` bytes and
    be `< n`; the recovered integer must fit `⌈(bitLen n − 1)/8⌉` bytes. -/
def rsaPssVerify (h : HashAlg) (n e : Nat) (msg sig : ByteArray) (saltLen : Option Nat) : Bool :=
  if n.bitLen < 2 || sig.size != n.byteLen then false
  else
    let emBits := n.bitLen - 1
    match rsaRaw n e sig ((emBits + 7) / 8) with
    | none => false
    | some em => emsaPssVerify h (hash h msg) em emBits saltLen

/-! ### RSAES-OAEP (empty label) -/

/-- RSAES-OAEP-ENCRYPT with `L = ""`, hash `h` for both the label hash and MGF1.
    `seed` must be `h.size` bytes; `msg` at most `byteLen n − 2·h.size − 2` bytes. -/
def rsaOaepEncrypt (h : HashAlg) (n e : Nat) (msg seed : ByteArray) : Option ByteArray :=
  let k := n.byteLen
  let hLen := h.size
  if seed.size != hLen || k < 2 * hLen + 2 || msg.size > k - 2 * hLen - 2 then none
  else
    let lHash := hash h ByteArray.empty
    let db := (lHash ++ replicateBytes (k - msg.size - 2 * hLen - 2) 0).push 0x01 ++ msg
    let maskedDb := xorBytes db (mgf1 h seed (k - hLen - 1))
    let maskedSeed := xorBytes seed (mgf1 h maskedDb hLen)
    rsaRaw n e ((ByteArray.emptyWithCapacity k).push 0x00 ++ maskedSeed ++ maskedDb) k

/-- RSAES-OAEP-DECRYPT with `L = ""`.  `none` on any error (all error causes are
    deliberately indistinguishable). -/
def rsaOaepDecrypt (h : HashAlg) (n d : Nat) (ct : ByteArray) : Option ByteArray :=
  let k := n.byteLen
  let hLen := h.size
  if ct.size != k || k < 2 * hLen + 2 then none
  else
    match rsaRaw n d ct k with
    | none => none
    | some em =>
      let maskedSeed := em.extract 1 (1 + hLen)
      let maskedDb := em.extract (1 + hLen) k
      let seed := xorBytes maskedSeed (mgf1 h maskedDb hLen)
      let db := xorBytes maskedDb (mgf1 h seed (k - hLen - 1))
      let sep := firstNonZero db hLen
      if em.get! 0 != 0x00 || db.extract 0 hLen != hash h ByteArray.empty
         || sep ≥ db.size || db.get! sep != 0x01 then none
      else some (db.extract (sep + 1) db.size)

/-! ### RSAES-PKCS1-v1_5 -/

/-- RSAES-PKCS1-v1_5 encryption: `EM = 00 02 ps 00 msg`.  The caller supplies the
    padding string `ps`: all bytes non-zero, length exactly `byteLen n − |msg| − 3 ≥ 8`. -/
def rsaPkcs1v15Encrypt (n e : Nat) (msg ps : ByteArray) : Option ByteArray :=
  let k := n.byteLen
  if k < 11 || msg.size > k - 11 || ps.size != k - msg.size - 3 || firstZero ps 0 != ps.size then none
  else
    rsaRaw n e (((ByteArray.emptyWithCapacity k).push 0x00).push 0x02 ++ ps
                ++ (ByteArray.empty.push 0x00) ++ msg) k

/-- RSAES-PKCS1-v1_5 decryption; `none` on any padding error. -/
def rsaPkcs1v15Decrypt (n d : Nat) (ct : ByteArray) : Option ByteArray :=
  let k := n.byteLen
  if ct.size != k || k < 11 then none
  else
    match rsaRaw n d ct k with
    | none => none
    | some em =>
      let sep := firstZero em 2
      if em.get! 0 != 0x00 || em.get! 1 != 0x02 || sep ≥ k || sep < 10 then none
      else some (em.extract (sep + 1) k)

end Jose.Crypto
