/-
  Raw DEFLATE (RFC 1951) decoder and a stored-blocks-only encoder, executable, core Lean only.

  The decoder follows the structure of Mark Adler's `puff.c` (canonical-code decoding one
  bit at a time) and accepts / rejects the same streams as zlib's `inflate` with
  `windowBits = -15`:
    * block type 3, stored LEN/NLEN mismatch, nlen > 286, ndist > 30 are errors,
    * code-length code must be complete; literal/length and distance codes must not be
      over-subscribed and may be incomplete only if they consist of a single 1-bit code,
    * a dynamic block without an end-of-block code is an error,
    * invalid literal/length symbols (286, 287), distance symbols (30, 31) and distances
      reaching before the start of the output are errors.
  Bytes following the final block are ignored (`Result.consumed` tells how many input bytes
  were used).

  Totality / fuel.  No `partial`.  The loops over blocks, over symbols and over the code
  lengths of a dynamic header are structural recursions on a counter ("fuel") that is
  provably large enough: every block consumes at least 3 input bits, every decoded symbol at
  least 1 input bit, every code-length step defines at least one length, so the fuel
  `nbits + 1` (resp. `nlen + ndist + 1`) can never run out before the input does.  Should it
  run out anyway the stream is reported as `malformed`.
-/
import Jose.Crypto.Basic

namespace Jose.Crypto

namespace Inflate

inductive Status where
  /-- the end of the final block was reached -/
  | ok
  /-- the input ended before the end of the final block -/
  | truncated
  /-- the input is not a valid DEFLATE stream -/
  | malformed
  /-- the output would exceed the given cap -/
  | tooBig
  deriving DecidableEq, Repr, Inhabited

structure Result where
  /-- everything decoded before decoding stopped -/
  out : ByteArray
  status : Status
  /-- number of input bytes consumed (meaningful when `status = .ok`) -/
  consumed : Nat

/-- internal decoder state threaded through the loops -/
structure St where
  out : ByteArray
  pos : Nat        -- bit position in the input
  status : Status  -- `.ok` = keep going / block finished cleanly

/-! ### bit input -/

@[inline] def byteAt (d : ByteArray) (i : Nat) : UInt32 :=
  if h : i < d.size then d[i].toUInt32 else 0

/-- `n ≤ 16` bits starting at bit position `pos`, LSB first (bits beyond the input read as 0) -/
def readBits (d : ByteArray) (pos n : Nat) : Nat :=
  let i := pos / 8
  let v := byteAt d i ||| (byteAt d (i+1) <<< 8) ||| (byteAt d (i+2) <<< 16)
  ((v >>> (pos % 8).toUInt32) &&& (((1 : UInt32) <<< n.toUInt32) - 1)).toNat

@[inline] def readBit (d : ByteArray) (pos : Nat) : Nat :=
  ((byteAt d (pos / 8) >>> (pos % 8).toUInt32) &&& 1).toNat

/-! ### Huffman codes -/

/-- canonical Huffman code: `count[l]` = number of symbols of length `l` (`0 ≤ l ≤ 15`),
    `symbol` = symbols ordered by (length, value) -/
structure Huff where
  count : Array Nat
  symbol : Array Nat
  deriving Inhabited

def countLens (lens : Array Nat) : Nat → Nat → Array Nat → Array Nat
  | 0, _, c => c
  | n+1, i, c => let l := lens[i]!; countLens lens n (i+1) (c.set! l (c[l]! + 1))

/-- running "left" computation; `none` = over-subscribed -/
def checkLeft (count : Array Nat) : Nat → Nat → Nat → Option Nat
  | 0, _, left => some left
  | n+1, l, left =>
    let left := 2 * left
    if left < count[l]! then none else checkLeft count n (l+1) (left - count[l]!)

def mkOffs (count : Array Nat) : Nat → Nat → Array Nat → Array Nat
  | 0, _, offs => offs
  | n+1, l, offs => mkOffs count n (l+1) (offs.push (offs[l]! + count[l]!))

def fillSyms (lens : Array Nat) : Nat → Nat → Array Nat → Array Nat → Array Nat
  | 0, _, _, syms => syms
  | n+1, s, offs, syms =>
    let l := lens[s]!
    if l == 0 then fillSyms lens n (s+1) offs syms
    else fillSyms lens n (s+1) (offs.set! l (offs[l]! + 1)) (syms.set! offs[l]! s)

/-- Build the decoding table for the code lengths `lens` (each `≤ 15`).
    `none` if over-subscribed; otherwise the table and the number of unused code points
    at length 15 (`0` = complete; also `0` if there are no codes at all). -/
def construct (lens : Array Nat) : Option (Huff × Nat) :=
  let n := lens.size
  let count := countLens lens n 0 (Array.replicate 16 0)
  if count[0]! == n then some (⟨count, #[]⟩, 0) else
  match checkLeft count 15 1 1 with
  | none => none
  | some left =>
    let offs := mkOffs count 15 1 #[0, 0]
    let syms := fillSyms lens n 0 offs (Array.replicate n 0)
    some (⟨count, syms⟩, left)

inductive Dec where
  | sym (s : Nat) (pos : Nat)
  | eof
  | bad

/-- decode one symbol starting at bit `pos` -/
def decode (h : Huff) (d : ByteArray) (nbits : Nat) (pos : Nat) : Dec :=
  go 15 1 pos 0 0 0
where
  go : Nat → Nat → Nat → Nat → Nat → Nat → Dec
    | 0, _, _, _, _, _ => .bad
    | n+1, len, pos, code, first, index =>
      if pos ≥ nbits then .eof else
      let code := code + readBit d pos
      let count := h.count[len]!
      if code < first + count then .sym h.symbol[index + (code - first)]! (pos + 1)
      else go n (len + 1) (pos + 1) (2 * code) (2 * (first + count)) (index + count)

/-! ### tables -/

def lenBase : Array Nat := #[3, 4, 5, 6, 7, 8, 9, 10, 11, 13, 15, 17, 19, 23, 27, 31,
  35, 43, 51, 59, 67, 83, 99, 115, 131, 163, 195, 227, 258]
def lenExtra : Array Nat := #[0, 0, 0, 0, 0, 0, 0, 0, 1, 1, 1, 1, 2, 2, 2, 2,
  3, 3, 3, 3, 4, 4, 4, 4, 5, 5, 5, 5, 0]
def distBase : Array Nat := #[1, 2, 3, 4, 5, 7, 9, 13, 17, 25, 33, 49, 65, 97, 129, 193,
  257, 385, 513, 769, 1025, 1537, 2049, 3073, 4097, 6145, 8193, 12289, 16385, 24577]
def distExtra : Array Nat := #[0, 0, 0, 0, 1, 1, 2, 2, 3, 3, 4, 4, 5, 5, 6, 6,
  7, 7, 8, 8, 9, 9, 10, 10, 11, 11, 12, 12, 13, 13]
def clOrder : Array Nat := #[16, 17, 18, 0, 8, 7, 9, 6, 10, 5, 11, 4, 12, 3, 13, 2, 14, 1, 15]

def fixedLit : Huff :=
  let lens := Array.replicate 144 8 ++ Array.replicate 112 9 ++ Array.replicate 24 7 ++
              Array.replicate 8 8
  match construct lens with
  | some (h, _) => h
  | none => default

def fixedDist : Huff :=
  match construct (Array.replicate 32 5) with
  | some (h, _) => h
  | none => default

/-! ### decoding -/

/-- append `n` bytes copied from index `i` onwards of the output itself -/
def copyBack : Nat → Nat → ByteArray → ByteArray
  | 0, _, out => out
  | n+1, i, out => copyBack n (i+1) (out.push out[i]!)

/-- decode literal/length/distance symbols until end-of-block -/
def codes (d : ByteArray) (nbits max : Nat) (lc dc : Huff) : Nat → Nat → ByteArray → St
  | 0, pos, out => ⟨out, pos, .malformed⟩      -- fuel exhausted: cannot happen
  | fuel+1, pos, out =>
    match decode lc d nbits pos with
    | .eof => ⟨out, pos, .truncated⟩
    | .bad => ⟨out, pos, .malformed⟩
    | .sym s pos1 =>
      if s < 256 then
        if out.size ≥ max then ⟨out, pos, .tooBig⟩
        else codes d nbits max lc dc fuel pos1 (out.push s.toUInt8)
      else if s == 256 then ⟨out, pos1, .ok⟩
      else
        let ls := s - 257
        if ls ≥ 29 then ⟨out, pos, .malformed⟩ else
        let eb := lenExtra[ls]!
        if pos1 + eb > nbits then ⟨out, pos, .truncated⟩ else
        let len := lenBase[ls]! + readBits d pos1 eb
        match decode dc d nbits (pos1 + eb) with
        | .eof => ⟨out, pos, .truncated⟩
        | .bad => ⟨out, pos, .malformed⟩
        | .sym ds pos2 =>
          if ds ≥ 30 then ⟨out, pos, .malformed⟩ else
          let eb := distExtra[ds]!
          if pos2 + eb > nbits then ⟨out, pos, .truncated⟩ else
          let dist := distBase[ds]! + readBits d pos2 eb
          if dist > out.size then ⟨out, pos, .malformed⟩
          else if out.size + len > max then ⟨out, pos, .tooBig⟩
          else codes d nbits max lc dc fuel (pos2 + eb) (copyBack len (out.size - dist) out)

/-- read the `ncode` 3-bit code-length-code lengths -/
def readClLens (d : ByteArray) : Nat → Nat → Nat → Array Nat → Array Nat
  | 0, _, _, l => l
  | n+1, i, pos, l => readClLens d n (i+1) (pos + 3) (l.set! clOrder[i]! (readBits d pos 3))

def pushRep (v : Nat) : Nat → Array Nat → Array Nat
  | 0, a => a
  | n+1, a => pushRep v n (a.push v)

/-- result of reading the literal/length + distance code lengths -/
inductive LensRes where
  | ok (lens : Array Nat) (pos : Nat)
  | err (s : Status)

/-- read code lengths until `total` are defined -/
def readLens (d : ByteArray) (nbits : Nat) (cl : Huff) (total : Nat) :
    Nat → Nat → Array Nat → LensRes
  | 0, _, _ => .err .malformed                -- fuel exhausted: cannot happen
  | fuel+1, pos, lens =>
    if lens.size ≥ total then .ok lens pos else
    match decode cl d nbits pos with
    | .eof => .err .truncated
    | .bad => .err .malformed
    | .sym s pos =>
      if s < 16 then readLens d nbits cl total fuel pos (lens.push s)
      else
        let (eb, base) := if s == 16 then (2, 3) else if s == 17 then (3, 3) else (7, 11)
        if s == 16 && lens.size == 0 then .err .malformed else
        if pos + eb > nbits then .err .truncated else
        let v := if s == 16 then lens[lens.size - 1]! else 0
        let rep := base + readBits d pos eb
        if lens.size + rep > total then .err .malformed
        else readLens d nbits cl total fuel (pos + eb) (pushRep v rep lens)

/-- a lit/len or distance code is acceptable if complete, or incomplete with a single
    1-bit code (same rule as zlib and puff) -/
def codeOk (h : Huff) (left : Nat) (n : Nat) : Bool :=
  left == 0 || (h.count[0]! + h.count[1]! == n && h.count[1]! == 1)

/-- decode a dynamic-Huffman block whose header starts at `pos` -/
def dynamicBlock (d : ByteArray) (nbits max fuel : Nat) (pos : Nat) (out : ByteArray) : St :=
  if pos + 14 > nbits then ⟨out, pos, .truncated⟩ else
  let nlen := readBits d pos 5 + 257
  let ndist := readBits d (pos + 5) 5 + 1
  let ncode := readBits d (pos + 10) 4 + 4
  if nlen > 286 || ndist > 30 then ⟨out, pos, .malformed⟩ else
  let pos1 := pos + 14
  if pos1 + 3 * ncode > nbits then ⟨out, pos, .truncated⟩ else
  let cll := readClLens d ncode 0 pos1 (Array.replicate 19 0)
  match construct cll with
  | none => ⟨out, pos, .malformed⟩
  | some (cl, left) =>
    if left != 0 then ⟨out, pos, .malformed⟩ else
    match readLens d nbits cl (nlen + ndist) (nlen + ndist + 1) (pos1 + 3 * ncode)
            (Array.mkEmpty 320) with
    | .err s => ⟨out, pos, s⟩
    | .ok lens pos2 =>
      if lens[256]! == 0 then ⟨out, pos, .malformed⟩ else
      match construct (lens.extract 0 nlen), construct (lens.extract nlen (nlen + ndist)) with
      | some (lc, ll), some (dc, dl) =>
        if codeOk lc ll nlen && codeOk dc dl ndist then codes d nbits max lc dc fuel pos2 out
        else ⟨out, pos, .malformed⟩
      | _, _ => ⟨out, pos, .malformed⟩

/-- decode a stored block; `pos` is just after the 3 header bits -/
def storedBlock (d : ByteArray) (nbits max : Nat) (pos : Nat) (out : ByteArray) : St :=
  let bpos := (pos + 7) / 8
  if 8 * bpos + 32 > nbits then ⟨out, pos, .truncated⟩ else
  let len := readBits d (8 * bpos) 16
  let nlen := readBits d (8 * bpos + 16) 16
  if len + nlen != 0xffff then ⟨out, pos, .malformed⟩ else
  let start := bpos + 4
  let avail := d.size - start
  let take := if len ≤ avail then len else avail
  if out.size + take > max then ⟨out, pos, .tooBig⟩ else
  let out := out ++ d.extract start (start + take)
  if take < len then ⟨out, 8 * (start + take), .truncated⟩
  else ⟨out, 8 * (start + len), .ok⟩

/-- the loop over blocks -/
def blocks (d : ByteArray) (nbits max : Nat) : Nat → Nat → ByteArray → St
  | 0, pos, out => ⟨out, pos, .malformed⟩      -- fuel exhausted: cannot happen
  | fuel+1, pos, out =>
    if pos + 3 > nbits then ⟨out, pos, .truncated⟩ else
    let final := readBit d pos
    let type := readBits d (pos + 1) 2
    let st : St :=
      if type == 0 then storedBlock d nbits max (pos + 3) out
      else if type == 1 then codes d nbits max fixedLit fixedDist (nbits + 1) (pos + 3) out
      else if type == 2 then dynamicBlock d nbits max (nbits + 1) (pos + 3) out
      else ⟨out, pos, .malformed⟩
    if st.status != .ok then st
    else if final == 1 then st
    else blocks d nbits max fuel st.pos st.out

/-- upper bound on the output size of any stream of `n` input bytes
    (a symbol costs ≥ 1 bit and yields ≤ 258 bytes) -/
def noLimit (n : Nat) : Nat := 258 * 8 * n + 1

/-- run the decoder with output cap `max` -/
def run (max : Nat) (data : ByteArray) : Result :=
  let nbits := 8 * data.size
  let st := blocks data nbits max (nbits + 1) 0 ByteArray.empty
  { out := st.out, status := st.status, consumed := (st.pos + 7) / 8 }

def storedChunks (data : ByteArray) : Nat → Nat → ByteArray → ByteArray
  | 0, _, out => out
  | n+1, off, out =>
    let len := if off + 65535 ≤ data.size then 65535 else data.size - off
    let final : UInt8 := if n == 0 then 1 else 0
    let out := out.push final
    let out := (out.push len.toUInt8).push (len >>> 8).toUInt8
    let nl := 0xffff - len
    let out := (out.push nl.toUInt8).push (nl >>> 8).toUInt8
    storedChunks data n (off + len) (out ++ data.extract off (off + len))

end Inflate

/-- full-information entry point: decoded prefix, status, consumed input bytes;
    output capped at `max` bytes -/
def inflateRaw (max : Nat) (data : ByteArray) : Inflate.Result :=
  Inflate.run max data

/-- inflate a raw DEFLATE stream; `none` if malformed or truncated.
    Trailing bytes after the final block are ignored. -/
def inflate (data : ByteArray) : Option ByteArray :=
  let r := Inflate.run (Inflate.noLimit data.size) data
  if r.status == .ok then some r.out else none

/-- like `inflate`, but fails (`none`) if the output would exceed `max` bytes -/
def inflateMax (max : Nat) (data : ByteArray) : Option ByteArray :=
  let r := Inflate.run max data
  if r.status == .ok then some r.out else none

/-- everything that can be decoded before the input runs out or an error is hit, and whether
    the end of the final block was reached cleanly -/
def inflatePrefix (data : ByteArray) : ByteArray × Bool :=
  let r := Inflate.run (Inflate.noLimit data.size) data
  (r.out, r.status == .ok)

/-- like `inflatePrefix` with an output cap (decoding stops, flag `false`, at the cap) -/
def inflatePrefixMax (max : Nat) (data : ByteArray) : ByteArray × Bool :=
  let r := Inflate.run max data
  (r.out, r.status == .ok)

/-- a valid raw DEFLATE stream for `data` using stored blocks only (≤ 65535 bytes each) -/
def deflateStored (data : ByteArray) : ByteArray :=
  let n := if data.size == 0 then 1 else (data.size + 65534) / 65535
  Inflate.storedChunks data n 0 (ByteArray.emptyWithCapacity (data.size + 5 * n))

end Jose.Crypto
