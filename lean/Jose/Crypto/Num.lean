/-
  Big-number helpers for the executable public-key primitives.

  Lean's `Nat` is arbitrary precision (GMP-backed in compiled code), so everything
  here is plain `Nat` arithmetic.  All functions are total: structural recursion
  on an explicit counter, or well-founded recursion (`modInv`).
  Core Lean only (no Mathlib, no Std).
-/
namespace Jose.Crypto

/-- Number of significant bits of `n` (`0 ↦ 0`, `1 ↦ 1`, `255 ↦ 8`, `256 ↦ 9`). -/
def _root_.Nat.bitLen (n : Nat) : Nat :=
  if n = 0 then 0 else n.log2 + 1

/-- Number of significant bytes of `n` (`0 ↦ 0`, `255 ↦ 1`, `256 ↦ 2`). -/
def _root_.Nat.byteLen (n : Nat) : Nat :=
  (n.bitLen + 7) / 8

/-- Big-endian bytes → natural number.  Leading zero bytes are ignored; `#[] ↦ 0`. -/
def bytesToNat (b : ByteArray) : Nat :=
  b.foldl (fun acc x => (acc <<< 8) ||| x.toNat) 0

/-- `len` bytes, big-endian, of `n mod 256^len` (no range check). -/
def natToBytesTrunc (n len : Nat) : ByteArray :=
  go len (ByteArray.emptyWithCapacity len)
where
  /-- emits bytes number `i-1, i-2, …, 0` (counted from the least significant end) -/
  go : Nat → ByteArray → ByteArray
    | 0, acc => acc
    | i + 1, acc => go i (acc.push ((n >>> (8 * i)) &&& 0xff).toUInt8)

/-- Big-endian encoding of `n` in **exactly** `len` bytes (I2OSP).
    `none` iff `n` does not fit, i.e. `n ≥ 256^len`.

    Convention chosen for `len = 0`: it is *not* special – the only number that
    fits in zero bytes is `0`, so `natToBytes 0 0 = some ⟨#[]⟩` and
    `natToBytes (n+1) 0 = none`.  Use `natToBytesMin` for the minimal-length
    encoding. -/
def natToBytes (n len : Nat) : Option ByteArray :=
  if n.byteLen ≤ len then some (natToBytesTrunc n len) else none

/-- Minimal-length big-endian encoding: no leading zero byte; `0 ↦` empty array. -/
def natToBytesMin (n : Nat) : ByteArray :=
  natToBytesTrunc n n.byteLen

/-- Modular exponentiation, left-to-right square-and-multiply.
    `modPow b e m = b ^ e % m` for every `m` (so `m = 1 ↦ 0`; for `m = 0` the
    `%` is the identity and the true power is computed – callers guard `m = 0`). -/
def modPow (b e m : Nat) : Nat :=
  go e.bitLen (1 % m)
where
  /-- processes bits `i-1 … 0` of `e` -/
  go : Nat → Nat → Nat
    | 0, acc => acc
    | i + 1, acc =>
      let sq := acc * acc % m
      go i (if e.testBit i then sq * b % m else sq)

/-- Extended Euclid on `(r0, r1)` with Bézout coefficients of `a` only:
    invariant `t0 * a ≡ r0`, `t1 * a ≡ r1 (mod m)`.
    Returns `(gcd, t)` with `t * a ≡ gcd (mod m)`. -/
def egcdAux (r0 r1 : Nat) (t0 t1 : Int) : Nat × Int :=
  if _h : r1 = 0 then (r0, t0)
  else egcdAux r1 (r0 % r1) t1 (t0 - (r0 / r1 : Nat) * t1)
termination_by r1
decreasing_by exact Nat.mod_lt _ (Nat.pos_of_ne_zero _h)

/-- Modular inverse: `some x` with `x < m` and `a * x % m = 1` when `gcd a m = 1`
    and `m > 1`; `none` otherwise (including `m ≤ 1`). -/
def modInv (a m : Nat) : Option Nat :=
  if m ≤ 1 then none
  else
    let (g, t) := egcdAux m (a % m) 0 1
    if g = 1 then some (t % (m : Int)).toNat else none

/-- Hex string (upper or lower case, no prefix) → natural number; non-hex
    characters are skipped (so spaces / underscores may be used as separators). -/
def hexToNat (s : String) : Nat :=
  s.foldl (fun acc ch =>
    let c := ch.toNat
    if 48 ≤ c ∧ c ≤ 57 then acc * 16 + (c - 48)
    else if 97 ≤ c ∧ c ≤ 102 then acc * 16 + (c - 87)
    else if 65 ≤ c ∧ c ≤ 70 then acc * 16 + (c - 55)
    else acc) 0

end Jose.Crypto
