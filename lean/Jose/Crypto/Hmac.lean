/-
  HMAC (RFC 2104) and PBKDF2-HMAC (RFC 8018 §5.2), executable, core Lean only.

  Total: all loops are structural recursions on exact iteration counters.
  `HmacKey` caches the hash states after the ipad / opad blocks, so that each further
  HMAC invocation under the same key costs only two compressions for short messages
  (this is what makes 32768-iteration PBKDF2 cheap).
-/
import Jose.Crypto.Sha

namespace Jose.Crypto

/-- byte-wise map -/
def baMap (f : UInt8 → UInt8) (b : ByteArray) : ByteArray :=
  go b.size 0 (ByteArray.emptyWithCapacity b.size)
where
  go : Nat → Nat → ByteArray → ByteArray
    | 0, _, out => out
    | n+1, i, out => go n (i+1) (out.push (f b[i]!))

/-- byte-wise xor; the result has the length of `a` (missing bytes of `b` count as 0) -/
def baXor (a b : ByteArray) : ByteArray :=
  go a.size 0 (ByteArray.emptyWithCapacity a.size)
where
  go : Nat → Nat → ByteArray → ByteArray
    | 0, _, out => out
    | n+1, i, out => go n (i+1) (out.push (a[i]! ^^^ (if i < b.size then b[i]! else 0)))

/-- pre-computed HMAC key: states after absorbing `K ⊕ ipad` and `K ⊕ opad` -/
structure HmacKey where
  blockSize : Nat
  inner : HState
  outer : HState

def HmacKey.new (h : HashAlg) (key : ByteArray) : HmacKey :=
  let bs := h.blockSize
  let k := if key.size > bs then hash h key else key
  let k := Sha.pushZeros (bs - k.size) k
  let ipad := baMap (· ^^^ 0x36) k
  let opad := baMap (· ^^^ 0x5c) k
  { blockSize := bs
    inner := (HState.init h).block ipad 0
    outer := (HState.init h).block opad 0 }

def HmacKey.mac (k : HmacKey) (msg : ByteArray) : ByteArray :=
  k.outer.finishWith k.blockSize (k.inner.finishWith k.blockSize msg)

/-- HMAC-`h` of `msg` under `key` (RFC 2104) -/
def hmac (h : HashAlg) (key msg : ByteArray) : ByteArray :=
  (HmacKey.new h key).mac msg

namespace Pbkdf2

/-- `iter n u t` : perform `n` further iterations `u := PRF(u); t := t ⊕ u` -/
def iter (k : HmacKey) : Nat → ByteArray → ByteArray → ByteArray
  | 0, _, t => t
  | n+1, u, t =>
    let u' := k.mac u
    iter k n u' (baXor t u')

/-- block `T_i` for `c = c' + 1` iterations -/
def blockT (k : HmacKey) (salt : ByteArray) (c' : Nat) (i : Nat) : ByteArray :=
  let u1 := k.mac (Sha.pushBE32 salt i.toUInt32)
  iter k c' u1 u1

/-- concatenate `T_i, T_{i+1}, …` (`n` blocks) -/
def blocks (k : HmacKey) (salt : ByteArray) (c' : Nat) : Nat → Nat → ByteArray → ByteArray
  | 0, _, out => out
  | n+1, i, out => blocks k salt c' n (i+1) (out ++ blockT k salt c' i)

end Pbkdf2

/--
  PBKDF2 with PRF = HMAC-`h` (RFC 8018 §5.2).  `iterations = 0` is not a valid parameter;
  the empty byte string is returned in that case.  (`dkLen` above `(2^32-1)*hLen` is not
  rejected; the block counter simply wraps.)
-/
def pbkdf2 (h : HashAlg) (password salt : ByteArray) (iterations dkLen : Nat) : ByteArray :=
  match iterations with
  | 0 => ByteArray.empty
  | c'+1 =>
    let hLen := h.size
    let l := (dkLen + hLen - 1) / hLen
    let k := HmacKey.new h password
    (Pbkdf2.blocks k salt c' l 1 ByteArray.empty).extract 0 dkLen

end Jose.Crypto
