/-
  AES-128/192/256 block cipher (FIPS 197), executable, core Lean only.

  The state is kept as four big-endian column words (`UInt32`); SubBytes uses the S-box
  table, MixColumns / InvMixColumns are computed with packed `xtime` arithmetic.
  Total: all loops are structural recursions on exact round / word counters.

  `AesKey` (the expanded key) is exported so that modes of operation expand the key once.
-/
import Jose.Crypto.Basic

namespace Jose.Crypto

namespace Aes

def sbox : ByteArray := ⟨#[
  0x63, 0x7c, 0x77, 0x7b, 0xf2, 0x6b, 0x6f, 0xc5, 0x30, 0x01, 0x67, 0x2b, 0xfe, 0xd7, 0xab, 0x76,
  0xca, 0x82, 0xc9, 0x7d, 0xfa, 0x59, 0x47, 0xf0, 0xad, 0xd4, 0xa2, 0xaf, 0x9c, 0xa4, 0x72, 0xc0,
  0xb7, 0xfd, 0x93, 0x26, 0x36, 0x3f, 0xf7, 0xcc, 0x34, 0xa5, 0xe5, 0xf1, 0x71, 0xd8, 0x31, 0x15,
  0x04, 0xc7, 0x23, 0xc3, 0x18, 0x96, 0x05, 0x9a, 0x07, 0x12, 0x80, 0xe2, 0xeb, 0x27, 0xb2, 0x75,
  0x09, 0x83, 0x2c, 0x1a, 0x1b, 0x6e, 0x5a, 0xa0, 0x52, 0x3b, 0xd6, 0xb3, 0x29, 0xe3, 0x2f, 0x84,
  0x53, 0xd1, 0x00, 0xed, 0x20, 0xfc, 0xb1, 0x5b, 0x6a, 0xcb, 0xbe, 0x39, 0x4a, 0x4c, 0x58, 0xcf,
  0xd0, 0xef, 0xaa, 0xfb, 0x43, 0x4d, 0x33, 0x85, 0x45, 0xf9, 0x02, 0x7f, 0x50, 0x3c, 0x9f, 0xa8,
  0x51, 0xa3, 0x40, 0x8f, 0x92, 0x9d, 0x38, 0xf5, 0xbc, 0xb6, 0xda, 0x21, 0x10, 0xff, 0xf3, 0xd2,
  0xcd, 0x0c, 0x13, 0xec, 0x5f, 0x97, 0x44, 0x17, 0xc4, 0xa7, 0x7e, 0x3d, 0x64, 0x5d, 0x19, 0x73,
  0x60, 0x81, 0x4f, 0xdc, 0x22, 0x2a, 0x90, 0x88, 0x46, 0xee, 0xb8, 0x14, 0xde, 0x5e, 0x0b, 0xdb,
  0xe0, 0x32, 0x3a, 0x0a, 0x49, 0x06, 0x24, 0x5c, 0xc2, 0xd3, 0xac, 0x62, 0x91, 0x95, 0xe4, 0x79,
  0xe7, 0xc8, 0x37, 0x6d, 0x8d, 0xd5, 0x4e, 0xa9, 0x6c, 0x56, 0xf4, 0xea, 0x65, 0x7a, 0xae, 0x08,
  0xba, 0x78, 0x25, 0x2e, 0x1c, 0xa6, 0xb4, 0xc6, 0xe8, 0xdd, 0x74, 0x1f, 0x4b, 0xbd, 0x8b, 0x8a,
  0x70, 0x3e, 0xb5, 0x66, 0x48, 0x03, 0xf6, 0x0e, 0x61, 0x35, 0x57, 0xb9, 0x86, 0xc1, 0x1d, 0x9e,
  0xe1, 0xf8, 0x98, 0x11, 0x69, 0xd9, 0x8e, 0x94, 0x9b, 0x1e, 0x87, 0xe9, 0xce, 0x55, 0x28, 0xdf,
  0x8c, 0xa1, 0x89, 0x0d, 0xbf, 0xe6, 0x42, 0x68, 0x41, 0x99, 0x2d, 0x0f, 0xb0, 0x54, 0xbb, 0x16]⟩

/-- inverse S-box, derived from `sbox` (`invSbox[sbox[i]] = i`) -/
def invSbox : ByteArray :=
  go 256 0 ⟨Array.replicate 256 0⟩
where
  go : Nat → Nat → ByteArray → ByteArray
    | 0, _, t => t
    | n+1, i, t => go n (i+1) (t.set! sbox[i]!.toNat i.toUInt8)

@[inline] def sb (x : UInt32) : UInt32 := sbox[(x &&& 0xff).toNat]!.toUInt32
@[inline] def isb (x : UInt32) : UInt32 := invSbox[(x &&& 0xff).toNat]!.toUInt32

@[inline] def rotl32 (x : UInt32) (n : UInt32) : UInt32 := (x <<< n) ||| (x >>> (32 - n))

/-- SubWord of FIPS 197 -/
@[inline] def subWord (w : UInt32) : UInt32 :=
  (sb (w >>> 24) <<< 24) ||| (sb (w >>> 16) <<< 16) ||| (sb (w >>> 8) <<< 8) ||| sb w

/-- multiply each of the four packed bytes by `x` in GF(2^8) -/
@[inline] def xtime4 (w : UInt32) : UInt32 :=
  ((w &&& 0x7f7f7f7f) <<< 1) ^^^ (((w >>> 7) &&& 0x01010101) * 0x1b)

/-- MixColumns on one column -/
@[inline] def mixCol (w : UInt32) : UInt32 :=
  let r1 := rotl32 w 8
  xtime4 (w ^^^ r1) ^^^ r1 ^^^ rotl32 w 16 ^^^ rotl32 w 24

/-- InvMixColumns on one column -/
@[inline] def invMixCol (w : UInt32) : UInt32 :=
  let u := xtime4 (xtime4 (w ^^^ rotl32 w 16))
  mixCol (w ^^^ u)

@[inline] def loadBE32 (d : ByteArray) (o : Nat) : UInt32 :=
  (d[o]!.toUInt32 <<< 24) ||| (d[o+1]!.toUInt32 <<< 16) |||
  (d[o+2]!.toUInt32 <<< 8) ||| d[o+3]!.toUInt32

@[inline] def pushBE32 (b : ByteArray) (x : UInt32) : ByteArray :=
  (((b.push (x >>> 24).toUInt8).push (x >>> 16).toUInt8).push (x >>> 8).toUInt8).push x.toUInt8

def loadKeyWords (key : ByteArray) : Nat → Nat → Array UInt32 → Array UInt32
  | 0, _, w => w
  | n+1, i, w => loadKeyWords key n (i+1) (w.push (loadBE32 key (4*i)))

/-- key expansion loop: `n` more words, next index `i`, current round constant `rc` -/
def expand (nk : Nat) : Nat → Nat → UInt32 → Array UInt32 → Array UInt32
  | 0, _, _, w => w
  | n+1, i, rc, w =>
    let t := w[i-1]!
    if i % nk == 0 then
      let t := subWord (rotl32 t 8) ^^^ (rc <<< 24)
      let rc' := (xtime4 rc) &&& 0xff
      expand nk n (i+1) rc' (w.push (w[i-nk]! ^^^ t))
    else if nk > 6 && i % nk == 4 then
      expand nk n (i+1) rc (w.push (w[i-nk]! ^^^ subWord t))
    else
      expand nk n (i+1) rc (w.push (w[i-nk]! ^^^ t))

end Aes

open Aes

/-- expanded AES key: `nr` rounds, `rk` = the `4*(nr+1)` round-key words -/
structure AesKey where
  nr : Nat
  rk : Array UInt32

/-- key expansion; `none` unless the key is 16, 24 or 32 bytes long -/
def AesKey.new (key : ByteArray) : Option AesKey :=
  if key.size == 16 || key.size == 24 || key.size == 32 then
    let nk := key.size / 4
    let nr := nk + 6
    let total := 4 * (nr + 1)
    let w := loadKeyWords key nk 0 (Array.mkEmpty total)
    some { nr := nr, rk := expand nk (total - nk) nk 1 w }
  else none

namespace Aes

/-- `n` full rounds starting at round-key index `k` (= 4 * round) -/
def encRounds (rk : Array UInt32) : Nat → Nat → UInt32 → UInt32 → UInt32 → UInt32 → ByteArray
  | 0, k, s0, s1, s2, s3 =>
    -- final round: SubBytes, ShiftRows, AddRoundKey
    let t0 := (sb (s0 >>> 24) <<< 24) ||| (sb (s1 >>> 16) <<< 16) ||| (sb (s2 >>> 8) <<< 8) ||| sb s3
    let t1 := (sb (s1 >>> 24) <<< 24) ||| (sb (s2 >>> 16) <<< 16) ||| (sb (s3 >>> 8) <<< 8) ||| sb s0
    let t2 := (sb (s2 >>> 24) <<< 24) ||| (sb (s3 >>> 16) <<< 16) ||| (sb (s0 >>> 8) <<< 8) ||| sb s1
    let t3 := (sb (s3 >>> 24) <<< 24) ||| (sb (s0 >>> 16) <<< 16) ||| (sb (s1 >>> 8) <<< 8) ||| sb s2
    pushBE32 (pushBE32 (pushBE32 (pushBE32 (ByteArray.emptyWithCapacity 16)
      (t0 ^^^ rk[k]!)) (t1 ^^^ rk[k+1]!)) (t2 ^^^ rk[k+2]!)) (t3 ^^^ rk[k+3]!)
  | n+1, k, s0, s1, s2, s3 =>
    let t0 := (sb (s0 >>> 24) <<< 24) ||| (sb (s1 >>> 16) <<< 16) ||| (sb (s2 >>> 8) <<< 8) ||| sb s3
    let t1 := (sb (s1 >>> 24) <<< 24) ||| (sb (s2 >>> 16) <<< 16) ||| (sb (s3 >>> 8) <<< 8) ||| sb s0
    let t2 := (sb (s2 >>> 24) <<< 24) ||| (sb (s3 >>> 16) <<< 16) ||| (sb (s0 >>> 8) <<< 8) ||| sb s1
    let t3 := (sb (s3 >>> 24) <<< 24) ||| (sb (s0 >>> 16) <<< 16) ||| (sb (s1 >>> 8) <<< 8) ||| sb s2
    encRounds rk n (k+4)
      (mixCol t0 ^^^ rk[k]!) (mixCol t1 ^^^ rk[k+1]!) (mixCol t2 ^^^ rk[k+2]!) (mixCol t3 ^^^ rk[k+3]!)

/-- `n` full inverse rounds; `k` = 4 * (round key index to be used next) -/
def decRounds (rk : Array UInt32) : Nat → Nat → UInt32 → UInt32 → UInt32 → UInt32 → ByteArray
  | 0, _, s0, s1, s2, s3 =>
    -- final: InvShiftRows, InvSubBytes, AddRoundKey(0)
    let t0 := (isb (s0 >>> 24) <<< 24) ||| (isb (s3 >>> 16) <<< 16) ||| (isb (s2 >>> 8) <<< 8) ||| isb s1
    let t1 := (isb (s1 >>> 24) <<< 24) ||| (isb (s0 >>> 16) <<< 16) ||| (isb (s3 >>> 8) <<< 8) ||| isb s2
    let t2 := (isb (s2 >>> 24) <<< 24) ||| (isb (s1 >>> 16) <<< 16) ||| (isb (s0 >>> 8) <<< 8) ||| isb s3
    let t3 := (isb (s3 >>> 24) <<< 24) ||| (isb (s2 >>> 16) <<< 16) ||| (isb (s1 >>> 8) <<< 8) ||| isb s0
    pushBE32 (pushBE32 (pushBE32 (pushBE32 (ByteArray.emptyWithCapacity 16)
      (t0 ^^^ rk[0]!)) (t1 ^^^ rk[1]!)) (t2 ^^^ rk[2]!)) (t3 ^^^ rk[3]!)
  | n+1, k, s0, s1, s2, s3 =>
    let t0 := (isb (s0 >>> 24) <<< 24) ||| (isb (s3 >>> 16) <<< 16) ||| (isb (s2 >>> 8) <<< 8) ||| isb s1
    let t1 := (isb (s1 >>> 24) <<< 24) ||| (isb (s0 >>> 16) <<< 16) ||| (isb (s3 >>> 8) <<< 8) ||| isb s2
    let t2 := (isb (s2 >>> 24) <<< 24) ||| (isb (s1 >>> 16) <<< 16) ||| (isb (s0 >>> 8) <<< 8) ||| isb s3
    let t3 := (isb (s3 >>> 24) <<< 24) ||| (isb (s2 >>> 16) <<< 16) ||| (isb (s1 >>> 8) <<< 8) ||| isb s0
    decRounds rk n (k-4)
      (invMixCol (t0 ^^^ rk[k]!)) (invMixCol (t1 ^^^ rk[k+1]!))
      (invMixCol (t2 ^^^ rk[k+2]!)) (invMixCol (t3 ^^^ rk[k+3]!))

end Aes

/-- forward cipher on the block given as four big-endian column words -/
def AesKey.encryptWords (k : AesKey) (w0 w1 w2 w3 : UInt32) : ByteArray :=
  let rk := k.rk
  encRounds rk (k.nr - 1) 4 (w0 ^^^ rk[0]!) (w1 ^^^ rk[1]!) (w2 ^^^ rk[2]!) (w3 ^^^ rk[3]!)

/-- inverse cipher on the block given as four big-endian column words -/
def AesKey.decryptWords (k : AesKey) (w0 w1 w2 w3 : UInt32) : ByteArray :=
  let rk := k.rk
  let e := 4 * k.nr
  decRounds rk (k.nr - 1) (e - 4)
    (w0 ^^^ rk[e]!) (w1 ^^^ rk[e+1]!) (w2 ^^^ rk[e+2]!) (w3 ^^^ rk[e+3]!)

/-- encrypt the 16-byte block found at byte offset `off` of `d`
    (the caller guarantees `off + 16 ≤ d.size`) -/
def AesKey.encryptAt (k : AesKey) (d : ByteArray) (off : Nat) : ByteArray :=
  k.encryptWords (loadBE32 d off) (loadBE32 d (off+4)) (loadBE32 d (off+8)) (loadBE32 d (off+12))

/-- decrypt the 16-byte block found at byte offset `off` of `d`
    (the caller guarantees `off + 16 ≤ d.size`) -/
def AesKey.decryptAt (k : AesKey) (d : ByteArray) (off : Nat) : ByteArray :=
  k.decryptWords (loadBE32 d off) (loadBE32 d (off+4)) (loadBE32 d (off+8)) (loadBE32 d (off+12))

def AesKey.encryptBlock (k : AesKey) (block : ByteArray) : ByteArray := k.encryptAt block 0
def AesKey.decryptBlock (k : AesKey) (block : ByteArray) : ByteArray := k.decryptAt block 0

/-- AES forward cipher on one block.  Returns the empty array unless `key` is 16/24/32 bytes
    and `block` is 16 bytes. -/
def aesEncryptBlock (key block : ByteArray) : ByteArray :=
  match AesKey.new key with
  | some k => if block.size == 16 then k.encryptBlock block else ByteArray.empty
  | none => ByteArray.empty

/-- AES inverse cipher on one block.  Returns the empty array unless `key` is 16/24/32 bytes
    and `block` is 16 bytes. -/
def aesDecryptBlock (key block : ByteArray) : ByteArray :=
  match AesKey.new key with
  | some k => if block.size == 16 then k.decryptBlock block else ByteArray.empty
  | none => ByteArray.empty

end Jose.Crypto
