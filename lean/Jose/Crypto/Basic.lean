/-
  Shared declarations for the executable primitive implementations (`Jose.Crypto.*`).
  These implementations instantiate the abstract `Prims` of the model when the
  model is *run* by the driver; the theorems never depend on them.
-/
namespace Jose.Crypto

inductive HashAlg where
  | sha1 | sha224 | sha256 | sha384 | sha512
  deriving DecidableEq, Repr, Inhabited

/-- digest length in bytes -/
def HashAlg.size : HashAlg → Nat
  | .sha1 => 20 | .sha224 => 28 | .sha256 => 32 | .sha384 => 48 | .sha512 => 64

/-- internal block length in bytes -/
def HashAlg.blockSize : HashAlg → Nat
  | .sha1 => 64 | .sha224 => 64 | .sha256 => 64 | .sha384 => 128 | .sha512 => 128

end Jose.Crypto
