/-
  Short-Weierstrass prime curves  y² = x³ + a·x + b  over GF(p):
  P-256, P-384, P-521, secp256k1;  ECDH and (raw) ECDSA.

  * Public API works on affine points (`Point`).
  * `Point.add` is the textbook affine chord-and-tangent law (one `modInv`).
  * `Point.mul` runs double-and-add in Jacobian coordinates and converts back with
    a single inversion (P-521 scalar multiplication: a few ms compiled).
  * Everything is total (structural recursion on a bit counter).  Nothing here is
    constant time – this is an executable *model*, not production crypto.

  Curve constants are those of SEC 2 / FIPS 186-4 and were checked against
  `openssl ecparam -name … -param_enc explicit`; the test-suite re-checks
  `G ∈ E`, `n·G = ∞`, `(n-1)·G = -G`.
-/
import Jose.Crypto.Num

namespace Jose.Crypto

/-- Domain parameters of a prime-field curve with cofactor 1. -/
structure Curve where
  /-- field prime -/
  p : Nat
  a : Nat
  b : Nat
  /-- base point -/
  gx : Nat
  gy : Nat
  /-- (prime) order of the base point -/
  n : Nat
  /-- byte width of a field element (= byte width of `n` for all curves here) -/
  len : Nat
  deriving Repr, BEq, DecidableEq

def p256 : Curve where
  p  := 0xffffffff00000001000000000000000000000000ffffffffffffffffffffffff
  a  := 0xffffffff00000001000000000000000000000000fffffffffffffffffffffffc
  b  := 0x5ac635d8aa3a93e7b3ebbd55769886bc651d06b0cc53b0f63bce3c3e27d2604b
  gx := 0x6b17d1f2e12c4247f8bce6e563a440f277037d812deb33a0f4a13945d898c296
  gy := 0x4fe342e2fe1a7f9b8ee7eb4a7c0f9e162bce33576b315ececbb6406837bf51f5
  n  := 0xffffffff00000000ffffffffffffffffbce6faada7179e84f3b9cac2fc632551
  len := 32

def p384 : Curve where
  p  := 0xfffffffffffffffffffffffffffffffffffffffffffffffffffffffffffffffeffffffff0000000000000000ffffffff
  a  := 0xfffffffffffffffffffffffffffffffffffffffffffffffffffffffffffffffeffffffff0000000000000000fffffffc
  b  := 0xb3312fa7e23ee7e4988e056be3f82d19181d9c6efe8141120314088f5013875ac656398d8a2ed19d2a85c8edd3ec2aef
  gx := 0xaa87ca22be8b05378eb1c71ef320ad746e1d3b628ba79b9859f741e082542a385502f25dbf55296c3a545e3872760ab7
  gy := 0x3617de4a96262c6f5d9e98bf9292dc29f8f41dbd289a147ce9da3113b5f0b8c00a60b1ce1d7e819d7a431d7c90ea0e5f
  n  := 0xffffffffffffffffffffffffffffffffffffffffffffffffc7634d81f4372ddf581a0db248b0a77aecec196accc52973
  len := 48

def p521 : Curve where
  p  := 0x1ffffffffffffffffffffffffffffffffffffffffffffffffffffffffffffffffffffffffffffffffffffffffffffffffffffffffffffffffffffffffffffffffff
  a  := 0x1fffffffffffffffffffffffffffffffffffffffffffffffffffffffffffffffffffffffffffffffffffffffffffffffffffffffffffffffffffffffffffffffffc
  b  := 0x51953eb9618e1c9a1f929a21a0b68540eea2da725b99b315f3b8b489918ef109e156193951ec7e937b1652c0bd3bb1bf073573df883d2c34f1ef451fd46b503f00
  gx := 0xc6858e06b70404e9cd9e3ecb662395b4429c648139053fb521f828af606b4d3dbaa14b5e77efe75928fe1dc127a2ffa8de3348b3c1856a429bf97e7e31c2e5bd66
  gy := 0x11839296a789a3bc0045c8a5fb42c7d1bd998f54449579b446817afbd17273e662c97ee72995ef42640c550b9013fad0761353c7086a272c24088be94769fd16650
  n  := 0x1fffffffffffffffffffffffffffffffffffffffffffffffffffffffffffffffffa51868783bf2f966b7fcc0148f709a5d03bb5c9b8899c47aebb6fb71e91386409
  len := 66

def secp256k1 : Curve where
  p  := 0xfffffffffffffffffffffffffffffffffffffffffffffffffffffffefffffc2f
  a  := 0
  b  := 7
  gx := 0x79be667ef9dcbbac55a06295ce870b07029bfcdb2dce28d959f2815b16f81798
  gy := 0x483ada7726a3c4655da4fbfc0e1108a8fd17b448a68554199c47d08ffb10d4b8
  n  := 0xfffffffffffffffffffffffffffffffebaaedce6af48a03bbfd25e8cd0364141
  len := 32

/-- Affine point, or the point at infinity. -/
inductive Point where
  | inf
  | affine (x y : Nat)
  deriving Repr, BEq, DecidableEq, Inhabited

/-- The base point `G`. -/
def Curve.g (c : Curve) : Point := .affine c.gx c.gy

/-- `y² ≡ x³ + a·x + b (mod p)`.  Does **not** check `x, y < p`. -/
def onCurve (c : Curve) (x y : Nat) : Bool :=
  y * y % c.p == (x * x % c.p * x + c.a * x + c.b) % c.p

/-- Point membership: `∞` is on the curve; affine points need reduced
    coordinates and the curve equation. -/
def Point.onCurve (c : Curve) : Point → Bool
  | .inf => true
  | .affine x y => x < c.p && y < c.p && Jose.Crypto.onCurve c x y

/-- `a - b (mod p)` for `a, b < p`. -/
@[inline] def subMod (p a b : Nat) : Nat := (a + p - b) % p

def Point.neg (c : Curve) : Point → Point
  | .inf => .inf
  | .affine x y => .affine x ((c.p - y % c.p) % c.p)

/-- Affine group law.  Inputs are expected to be on the curve with reduced
    coordinates; the result then is too. -/
def Point.add (c : Curve) : Point → Point → Point
  | .inf, q => q
  | q, .inf => q
  | .affine x1 y1, .affine x2 y2 =>
    let p := c.p
    if x1 == x2 then
      if (y1 + y2) % p == 0 then .inf           -- P + (−P), includes doubling a 2-torsion point
      else if y1 != y2 then .inf                -- unreachable for points on the curve
      else
        match modInv (2 * y1 % p) p with
        | none => .inf
        | some i =>
          let l := (3 * (x1 * x1 % p) + c.a) % p * i % p
          let x3 := subMod p (subMod p (l * l % p) x1) x2
          let y3 := subMod p (l * subMod p x1 x3 % p) y1
          .affine x3 y3
    else
      match modInv (subMod p x2 x1) p with
      | none => .inf                            -- unreachable: x1 ≠ x2 (mod p), p prime
      | some i =>
        let l := subMod p y2 y1 * i % p
        let x3 := subMod p (subMod p (l * l % p) x1) x2
        let y3 := subMod p (l * subMod p x1 x3 % p) y1
        .affine x3 y3

/-! ### Jacobian coordinates  (X : Y : Z) ↦ (X/Z², Y/Z³),  Z = 0 ⇔ ∞ -/

structure JPoint where
  x : Nat
  y : Nat
  z : Nat
  deriving Repr

def JPoint.inf : JPoint := ⟨1, 1, 0⟩

def JPoint.ofAffine (c : Curve) : Point → JPoint
  | .inf => JPoint.inf
  | .affine x y => ⟨x % c.p, y % c.p, 1⟩

def JPoint.toAffine (c : Curve) (q : JPoint) : Point :=
  if q.z == 0 then .inf
  else
    match modInv q.z c.p with
    | none => .inf                              -- unreachable: 0 < z < p, p prime
    | some zi =>
      let p := c.p
      let zi2 := zi * zi % p
      .affine (q.x * zi2 % p) (q.y * (zi2 * zi % p) % p)

def JPoint.double (c : Curve) (q : JPoint) : JPoint :=
  if q.z == 0 || q.y == 0 then JPoint.inf
  else
    let p := c.p
    let yy := q.y * q.y % p
    let s := 4 * (q.x * yy % p) % p
    let zz := q.z * q.z % p
    let m := (3 * (q.x * q.x % p) + c.a * (zz * zz % p)) % p
    let x3 := subMod p (m * m % p) (2 * s % p)
    let y3 := subMod p (m * subMod p s x3 % p) (8 * (yy * yy % p) % p)
    let z3 := 2 * (q.y * q.z % p) % p
    ⟨x3, y3, z3⟩

def JPoint.add (c : Curve) (q r : JPoint) : JPoint :=
  if q.z == 0 then r
  else if r.z == 0 then q
  else
    let p := c.p
    let z1z1 := q.z * q.z % p
    let z2z2 := r.z * r.z % p
    let u1 := q.x * z2z2 % p
    let u2 := r.x * z1z1 % p
    let s1 := q.y * (z2z2 * r.z % p) % p
    let s2 := r.y * (z1z1 * q.z % p) % p
    if u1 == u2 then
      if s1 == s2 then JPoint.double c q else JPoint.inf
    else
      let h := subMod p u2 u1
      let rr := subMod p s2 s1
      let hh := h * h % p
      let hhh := hh * h % p
      let v := u1 * hh % p
      let x3 := subMod p (subMod p (rr * rr % p) hhh) (2 * v % p)
      let y3 := subMod p (rr * subMod p v x3 % p) (s1 * hhh % p)
      let z3 := h * (q.z * r.z % p) % p
      ⟨x3, y3, z3⟩

/-- Left-to-right double-and-add over bits `i-1 … 0` of `k`. -/
def JPoint.mulGo (c : Curve) (k : Nat) (base : JPoint) : Nat → JPoint → JPoint
  | 0, acc => acc
  | i + 1, acc =>
    let d := JPoint.double c acc
    JPoint.mulGo c k base i (if k.testBit i then JPoint.add c d base else d)

def JPoint.mul (c : Curve) (k : Nat) (q : JPoint) : JPoint :=
  JPoint.mulGo c k q k.bitLen JPoint.inf

/-- Scalar multiplication `k·P` (the scalar is *not* reduced mod `n`). -/
def Point.mul (c : Curve) (k : Nat) (P : Point) : Point :=
  (JPoint.mul c k (JPoint.ofAffine c P)).toAffine c

/-- `u·P + v·Q` with a single final inversion. -/
def Point.mulAdd (c : Curve) (u : Nat) (P : Point) (v : Nat) (Q : Point) : Point :=
  (JPoint.add c (JPoint.mul c u (JPoint.ofAffine c P))
                (JPoint.mul c v (JPoint.ofAffine c Q))).toAffine c

/-- Reference scalar multiplication using only the affine law (slow; for tests). -/
def Point.mulAffine (c : Curve) (k : Nat) (P : Point) : Point :=
  go k.bitLen .inf
where
  go : Nat → Point → Point
    | 0, acc => acc
    | i + 1, acc =>
      let d := Point.add c acc acc
      go i (if k.testBit i then Point.add c d P else d)

/-! ### Key validation -/

/-- Public-key validation (SP 800-56A §5.6.2.3.4 partial validation, which is
    full validation since the cofactor is 1): coordinates reduced, on the curve.
    An affine pair is never the point at infinity. -/
def validPublic (c : Curve) (x y : Nat) : Bool :=
  x < c.p && y < c.p && onCurve c x y

def Point.validPublic (c : Curve) : Point → Bool
  | .inf => false
  | .affine x y => Jose.Crypto.validPublic c x y

/-- `1 ≤ d < n`. -/
def validScalar (c : Curve) (d : Nat) : Bool := 1 ≤ d && d < c.n

/-- Private key matches public key: `1 ≤ d < n` and `d·G = (x, y)`. -/
def validPrivate (c : Curve) (d x y : Nat) : Bool :=
  validScalar c d && Point.mul c d c.g == .affine x y

/-- Public point of a private scalar (`none` if `d` is out of range). -/
def publicOf (c : Curve) (d : Nat) : Option Point :=
  if validScalar c d then some (Point.mul c d c.g) else none

/-! ### ECDH -/

/-- Cofactor-less ECDH: validates `Q` and `d`, returns `d·Q`
    (`none` if validation fails or the result is `∞`).
    The shared secret `Z` is the x-coordinate, see `ecdhX`. -/
def ecdh (c : Curve) (d : Nat) (Q : Point) : Option Point :=
  if validScalar c d && Q.validPublic c then
    match Point.mul c d Q with
    | .inf => none
    | P => some P
  else none

/-- Shared secret as `c.len` big-endian bytes (what `openssl pkeyutl -derive` outputs). -/
def ecdhX (c : Curve) (d : Nat) (Q : Point) : Option ByteArray :=
  match ecdh c d Q with
  | some (.affine x _) => natToBytes x c.len
  | _ => none

/-! ### ECDSA on an already-hashed message -/

/-- FIPS 186-4 §6.4 / SEC 1 §4.1.3 step 5: the leftmost `min(bitLen n, 8·|digest|)`
    bits of the digest as an integer.  (P-521 + SHA-512 keeps all 512 bits;
    P-256 + SHA-512 keeps the top 256 bits.)  The result is *not* reduced mod `n`. -/
def digestToE (c : Curve) (digest : ByteArray) : Nat :=
  let e := bytesToNat digest
  let dbits := 8 * digest.size
  let nbits := c.n.bitLen
  if dbits > nbits then e >>> (dbits - nbits) else e

/-- ECDSA signature `(r, s)` of digest integer `e` with private key `d` and
    per-message secret `k`.  `none` if `d` or `k` is outside `[1, n-1]`, or if
    `r = 0` or `s = 0` (caller retries with another `k`). -/
def ecdsaSign (c : Curve) (d k e : Nat) : Option (Nat × Nat) :=
  if !(validScalar c d && validScalar c k) then none
  else
    match Point.mul c k c.g with
    | .inf => none
    | .affine x1 _ =>
      let r := x1 % c.n
      if r == 0 then none
      else
        match modInv k c.n with
        | none => none
        | some ki =>
          let s := ki * ((e + r * d) % c.n) % c.n
          if s == 0 then none else some (r, s)

/-- ECDSA verification of `(r, s)` on digest integer `e` under public key `Q`.
    Rejects `Q` failing `validPublic`, and `r`, `s` outside `[1, n-1]`. -/
def ecdsaVerify (c : Curve) (Q : Point) (e r s : Nat) : Bool :=
  if !(Q.validPublic c && validScalar c r && validScalar c s) then false
  else
    match modInv s c.n with
    | none => false
    | some w =>
      let u1 := e % c.n * w % c.n
      let u2 := r * w % c.n
      match Point.mulAdd c u1 c.g u2 Q with
      | .inf => false
      | .affine x1 _ => x1 % c.n == r

end Jose.Crypto
