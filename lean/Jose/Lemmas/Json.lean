import Jose.Json
/- Lemmas about the association-list operations behind jansson objects. -/
set_option linter.unusedSimpArgs false
namespace Jose
namespace Json

@[simp] theorem lookup_nil (k : String) : lookup k [] = none := rfl

theorem lookup_setKV_same (k : String) (v : Json) (l : List (String × Json)) : lookup k (setKV k v l) = some v := by
  induction l with
  | nil => simp [setKV, lookup]
  | cons x r ih =>
    obtain ⟨k', v'⟩ := x
    simp only [setKV]
    split
    · simp [lookup]
    · rename_i h; simp [lookup, h, ih]

theorem lookup_setKV_other (k k' : String) (v : Json) (l : List (String × Json)) (h : k' ≠ k) :
    lookup k' (setKV k v l) = lookup k' l := by
  induction l with
  | nil => simp [setKV, lookup]; intro hh; exact absurd hh.symm h
  | cons x r ih =>
    obtain ⟨k2, v2⟩ := x
    simp only [setKV]
    split
    · rename_i h2; subst h2; simp [lookup, Ne.symm h]
    · simp [lookup, ih]

theorem lookup_delKV_same (k : String) (l : List (String × Json)) : lookup k (delKV k l) = none := by
  induction l with
  | nil => rfl
  | cons x r ih =>
    obtain ⟨k', v'⟩ := x
    simp only [delKV]
    split
    · exact ih
    · rename_i h; simp [lookup, h, ih]

theorem lookup_delKV_other (k k' : String) (l : List (String × Json)) (h : k' ≠ k) :
    lookup k' (delKV k l) = lookup k' l := by
  induction l with
  | nil => rfl
  | cons x r ih =>
    obtain ⟨k2, v2⟩ := x
    simp only [delKV]
    split
    · rename_i h2; subst h2; simp [lookup, Ne.symm h, ih]
    · simp [lookup, ih]

theorem delKV_absent (k : String) (l : List (String × Json)) (h : lookup k l = none) : delKV k l = l := by
  induction l with
  | nil => rfl
  | cons x r ih =>
    obtain ⟨k', v'⟩ := x
    simp only [lookup] at h
    split at h
    · simp at h
    · rename_i hk; simp [delKV, hk, ih h]

theorem lookup_delAll_mem (ms : List String) (l : List (String × Json)) (m : String) (hm : m ∈ ms) :
    lookup m (delAll ms l) = none := by
  induction ms generalizing l with
  | nil => simp at hm
  | cons a r ih =>
    simp only [delAll, List.foldl_cons]
    by_cases ha : m ∈ r
    · exact ih (delKV a l) ha
    · have : m = a := by simpa [ha] using hm
      subst this
      -- not deleted again later, but already gone
      have : ∀ (r : List String) (l : List (String × Json)), lookup m l = none →
          lookup m (r.foldl (fun acc m => delKV m acc) l) = none := by
        intro r
        induction r with
        | nil => intro l h; simpa using h
        | cons b r ih2 =>
          intro l h
          simp only [List.foldl_cons]
          apply ih2
          by_cases hb : m = b
          · subst hb; exact lookup_delKV_same m l
          · rw [lookup_delKV_other b m l hb]; exact h
      exact this r _ (lookup_delKV_same m l)

theorem lookup_delAll_not_mem (ms : List String) (l : List (String × Json)) (m : String) (hm : m ∉ ms) :
    lookup m (delAll ms l) = lookup m l := by
  induction ms generalizing l with
  | nil => rfl
  | cons a r ih =>
    simp only [delAll, List.foldl_cons]
    have h1 : m ≠ a := by intro h; apply hm; simp [h]
    have h2 : m ∉ r := by intro h; apply hm; simp [h]
    have := ih (delKV a l) h2
    simp only [delAll] at this
    rw [this, lookup_delKV_other a m l h1]

theorem delAll_absent (ms : List String) (l : List (String × Json)) (h : ∀ m ∈ ms, lookup m l = none) :
    delAll ms l = l := by
  induction ms generalizing l with
  | nil => rfl
  | cons a r ih =>
    simp only [delAll, List.foldl_cons]
    rw [delKV_absent a l (h a (by simp))]
    exact ih l (fun m hm => h m (by simp [hm]))

theorem lookup_append_missing (k : String) (acc : List (String × Json)) (kv : String × Json)
    (h : lookup kv.1 acc = none) : lookup k (acc ++ [kv]) = (lookup k acc).orElse (fun _ => if kv.1 = k then some kv.2 else none) := by
  induction acc with
  | nil => simp [lookup]
  | cons x r ih =>
    obtain ⟨k', v'⟩ := x
    simp only [lookup] at h
    split at h
    · simp at h
    · rename_i hk
      simp only [List.cons_append, lookup]
      split
      · simp
      · exact ih h

/-- `json_object_update_missing`: existing members win, then the first occurrence in the other object -/
theorem lookup_updateMissingKV (a b : List (String × Json)) (k : String) :
    lookup k (updateMissingKV a b) = (lookup k a).orElse (fun _ => lookup k b) := by
  induction b generalizing a with
  | nil => simp [updateMissingKV]
  | cons x r ih =>
    obtain ⟨k', v'⟩ := x
    simp only [updateMissingKV, List.foldl_cons]
    have ih1 := ih a
    simp only [updateMissingKV] at ih1
    cases hk : lookup k' a with
    | some v =>
      simp only [Option.isSome_some, if_true]
      rw [ih1]
      cases hka : lookup k a with
      | some w => simp
      | none =>
        have hne : k' ≠ k := by intro h; subst h; simp [hk] at hka
        simp [lookup, hne]
    | none =>
      simp only [Option.isSome_none, Bool.false_eq_true, if_false]
      have ih2 := ih (a ++ [(k', v')])
      simp only [updateMissingKV] at ih2
      rw [ih2, lookup_append_missing k a (k', v') hk]
      cases hka : lookup k a with
      | some w => simp
      | none =>
        by_cases hne : k' = k
        · subst hne; simp [lookup]
        · simp [lookup, hne]

end Json
end Jose
