import Jose.B64
/-
  Helper lemmas for C08 (and the streaming theorems of C07):
  the C-shaped loops of Jose/B64.lean refine a specification by block
  recursion (`encS`, `decS`), which is a bijection between byte strings and
  canonical sextet strings.
-/
set_option linter.unusedSimpArgs false
set_option linter.unusedVariables false

namespace Jose
namespace B64

open Tables

/-! ## Table facts (re-checked against the regenerated alphabet on every build) -/

theorem b64Map_length : b64Map.length = 64 := by decide

theorem mapIdx_mapChar : ∀ v, v < 64 → mapIdx (mapChar v) = some v := by decide

theorem mapChar_lt_256 : ∀ v, v < 64 → mapChar v < 256 := by decide

theorem indexOf?_lt (c : Nat) (l : List Nat) (v : Nat) (h : indexOf? c l = some v) : v < l.length := by
  induction l generalizing v with
  | nil => simp [indexOf?] at h
  | cons x r ih =>
    simp only [indexOf?] at h
    split at h
    · simp at h; subst h; simp
    · cases hr : indexOf? c r with
      | none => simp [hr] at h
      | some w =>
        simp [hr] at h; subst h
        have := ih w hr
        simp; omega

theorem indexOf?_get (c : Nat) (l : List Nat) (v : Nat) (h : indexOf? c l = some v) : l[v]? = some c := by
  induction l generalizing v with
  | nil => simp [indexOf?] at h
  | cons x r ih =>
    simp only [indexOf?] at h
    split at h
    · rename_i hx; simp at h; subst h; simp [hx]
    · cases hr : indexOf? c r with
      | none => simp [hr] at h
      | some w =>
        simp [hr] at h; subst h
        simpa using ih w hr

theorem indexOf?_none (c : Nat) (l : List Nat) : indexOf? c l = none ↔ c ∉ l := by
  induction l with
  | nil => simp [indexOf?]
  | cons x r ih =>
    simp only [indexOf?]
    split
    · rename_i hx; simp [hx]
    · rename_i hx
      cases hr : indexOf? c r with
      | none =>
        have hn := ih.mp hr
        simp only [Option.map_none, List.mem_cons, not_or, true_iff]
        exact ⟨fun h => hx h.symm, hn⟩
      | some w =>
        have hc : c ∈ r := Classical.byContradiction fun hc => by
          have := ih.mpr hc
          simp [hr] at this
        simp [hc]

theorem mapIdx_lt (c v : Nat) (h : mapIdx c = some v) : v < 64 := by
  have := indexOf?_lt c b64Map v h
  rwa [b64Map_length] at this

theorem mapChar_mapIdx (c v : Nat) (h : mapIdx c = some v) : mapChar v = c := by
  have := indexOf?_get c b64Map v h
  simp [mapChar, this]

theorem mapIdx_none_iff (c : Nat) : mapIdx c = none ↔ c ∉ b64Map := indexOf?_none c b64Map

/-- NUL, '=', '+', '/', space, tab, CR, LF are not in the alphabet -/
theorem specials_not_in_map : ∀ c ∈ [0, 61, 43, 47, 32, 9, 10, 13], c ∉ b64Map := by decide

theorem mapIdx_zero : mapIdx 0 = none := by decide

/-! ## Specification by blocks -/

/-- sextet values of the unpadded base64 encoding, three bytes at a time -/
def encS : List Nat → List Nat
  | [] => []
  | [a] => [a / 4, a % 4 * 16]
  | [a, b] => [a / 4, a % 4 * 16 + b / 16, b % 16 * 4]
  | a :: b :: c :: r => a / 4 :: (a % 4 * 16 + b / 16) :: (b % 16 * 4 + c / 64) :: (c % 64) :: encS r

/-- bytes of a sextet string, four sextets at a time; `none` for impossible
    lengths and for non-zero unused bits in the last sextet -/
def decS : List Nat → Option (List Nat)
  | [] => some []
  | [_] => none
  | [a, b] => if b % 16 = 0 then some [a * 4 + b / 16] else none
  | [a, b, c] => if c % 4 = 0 then some [a * 4 + b / 16, b % 16 * 16 + c / 4] else none
  | a :: b :: c :: d :: r =>
    (decS r).map (fun t => (a * 4 + b / 16) :: (b % 16 * 16 + c / 4) :: (c % 4 * 64 + d) :: t)

def Bytes (l : List Nat) : Prop := ∀ x ∈ l, x < 256
def Sextets (l : List Nat) : Prop := ∀ x ∈ l, x < 64

theorem encS_sextets (b : List Nat) (hb : Bytes b) : Sextets (encS b) := by
  fun_induction encS b with
  | case1 => simp [Sextets]
  | case2 a =>
    have := hb a (by simp)
    intro x hx; simp at hx; omega
  | case3 a b =>
    have := hb a (by simp); have := hb b (by simp)
    intro x hx; simp at hx; omega
  | case4 a b c r ih =>
    have := hb a (by simp); have := hb b (by simp); have := hb c (by simp)
    have ih' := ih (fun x hx => hb x (by simp [hx]))
    intro x hx
    simp at hx
    rcases hx with h | h | h | h | h
    · omega
    · omega
    · omega
    · omega
    · exact ih' x h

theorem decS_encS (b : List Nat) (hb : Bytes b) : decS (encS b) = some b := by
  fun_induction encS b with
  | case1 => simp [decS]
  | case2 a =>
    have := hb a (by simp)
    simp [decS]; omega
  | case3 a b =>
    have := hb a (by simp); have := hb b (by simp)
    simp [decS]; omega
  | case4 a b c r ih =>
    have := hb a (by simp); have := hb b (by simp); have := hb c (by simp)
    have ih' := ih (fun x hx => hb x (by simp [hx]))
    simp [decS, ih']; omega

theorem encS_decS (s b : List Nat) (hs : Sextets s) (h : decS s = some b) : encS b = s := by
  fun_induction decS s generalizing b with
  | case1 => simp at h; subst h; simp [encS]
  | case2 a => simp at h
  | case3 a c hc =>
    have := hs a (by simp); have := hs c (by simp)
    simp at h; subst h; simp [encS]; omega
  | case4 a c hc => simp at h
  | case5 a c d hd =>
    have := hs a (by simp); have := hs c (by simp); have := hs d (by simp)
    simp at h; subst h; simp [encS]; omega
  | case6 a c d hd => simp at h
  | case7 a c d e r ih =>
    have := hs a (by simp); have := hs c (by simp); have := hs d (by simp); have := hs e (by simp)
    cases hr : decS r with
    | none => simp [hr] at h
    | some t =>
      simp [hr] at h
      subst h
      have iht := ih t (fun x hx => hs x (by simp [hx])) hr
      simp [encS, iht]; omega

theorem decS_bytes (s b : List Nat) (hs : Sextets s) (h : decS s = some b) : Bytes b := by
  fun_induction decS s generalizing b with
  | case1 => simp at h; subst h; simp [Bytes]
  | case2 a => simp at h
  | case3 a c hc =>
    have := hs a (by simp); have := hs c (by simp)
    simp at h; subst h; intro x hx; simp at hx; omega
  | case4 a c hc => simp at h
  | case5 a c d hd =>
    have := hs a (by simp); have := hs c (by simp); have := hs d (by simp)
    simp at h; subst h; intro x hx; simp at hx; omega
  | case6 a c d hd => simp at h
  | case7 a c d e r ih =>
    have := hs a (by simp); have := hs c (by simp); have := hs d (by simp); have := hs e (by simp)
    cases hr : decS r with
    | none => simp [hr] at h
    | some t =>
      simp [hr] at h
      subst h
      have iht := ih t (fun x hx => hs x (by simp [hx])) hr
      intro x hx
      simp at hx
      rcases hx with h | h | h | h
      · omega
      · omega
      · omega
      · exact iht x h

theorem elen_add3 (n : Nat) : elen (n + 3) = elen n + 4 := by
  have h1 : (n + 3) % 3 = n % 3 := by omega
  have h2 : (n + 3) / 3 = n / 3 + 1 := by omega
  simp only [elen, h1, h2]
  split
  · omega
  · split <;> omega

theorem dlen_add4 (n : Nat) : dlen (n + 4) = (dlen n).map (· + 3) := by
  have h1 : (n + 4) % 4 = n % 4 := by omega
  have h2 : (n + 4) / 4 = n / 4 + 1 := by omega
  simp only [dlen, h1, h2]
  split
  · simp; omega
  · split
    · simp; omega
    · split
      · simp; omega
      · simp

theorem encS_length (b : List Nat) : (encS b).length = elen b.length := by
  fun_induction encS b with
  | case1 => simp [elen]
  | case2 a => simp [elen]
  | case3 a b => simp [elen]
  | case4 a b c r ih =>
    have : (a :: b :: c :: r).length = r.length + 3 := by simp
    rw [this, elen_add3]
    simp [ih]

theorem decS_length (s b : List Nat) (h : decS s = some b) : dlen s.length = some b.length := by
  fun_induction decS s generalizing b with
  | case1 => simp at h; subst h; simp [dlen]
  | case2 a => simp at h
  | case3 a c hc => simp at h; subst h; simp [dlen]
  | case4 a c hc => simp at h
  | case5 a c d hd => simp at h; subst h; simp [dlen]
  | case6 a c d hd => simp at h
  | case7 a c d e r ih =>
    cases hr : decS r with
    | none => simp [hr] at h
    | some t =>
      simp [hr] at h
      subst h
      have iht := ih t hr
      have : (a :: c :: d :: e :: r).length = r.length + 4 := by simp
      rw [this, dlen_add4, iht]
      simp

/-- exactly which sextet strings are rejected -/
theorem decS_none_iff (s : List Nat) :
    decS s = none ↔ s.length % 4 = 1 ∨ (s.length % 4 = 2 ∧ ∃ x, s.getLast? = some x ∧ x % 16 ≠ 0)
      ∨ (s.length % 4 = 3 ∧ ∃ x, s.getLast? = some x ∧ x % 4 ≠ 0) := by
  fun_induction decS s with
  | case1 => simp
  | case2 a => simp
  | case3 a c hc => simp [hc]
  | case4 a c hc => simp [hc]
  | case5 a c d hd => simp [hd]
  | case6 a c d hd => simp [hd]
  | case7 a c d e r ih =>
    simp only [Option.map_eq_none_iff, ih, List.length_cons]
    have hl : ∀ n, (n + 1 + 1 + 1 + 1) % 4 = n % 4 := by intro n; omega
    rw [hl]
    cases r with
    | nil => simp
    | cons x xs => simp [List.getLast?_cons_cons]

/-! ## The C-shaped loops refine the specification -/

theorem encLoop_eq_encS (l : List Nat) (io rem : Nat) (h : io % 3 = 0) : encLoop l io rem = encS l := by
  fun_induction encS l generalizing io rem with
  | case1 => simp [encLoop, h]
  | case2 a =>
    have h1 : (io + 1) % 3 = 1 := by omega
    simp [encLoop, h, h1]
  | case3 a b =>
    have h1 : (io + 1) % 3 = 1 := by omega
    have h2 : (io + 1 + 1) % 3 = 2 := by omega
    simp [encLoop, h, h1, h2]
  | case4 a b c r ih =>
    have h1 : (io + 1) % 3 = 1 := by omega
    have h2 : (io + 1 + 1) % 3 = 2 := by omega
    have h3 : (io + 1 + 1 + 1) % 3 = 0 := by omega
    simp [encLoop, h, h1, h2, ih (io + 1 + 1 + 1) 0 h3]

theorem encChars_eq (b : List Nat) : encChars b = (encS b).map mapChar := by
  simp [encChars, encLoop_eq_encS b 0 0 rfl]

/-- all characters mapped to sextet values, or `none` if one is outside the alphabet -/
def idxAll : List Nat → Option (List Nat)
  | [] => some []
  | c :: r =>
    match mapIdx c with
    | none => none
    | some v => (idxAll r).map (v :: ·)

theorem idxAll_sextets (e s : List Nat) (h : idxAll e = some s) : Sextets s := by
  induction e generalizing s with
  | nil => simp [idxAll] at h; subst h; simp [Sextets]
  | cons c r ih =>
    simp only [idxAll] at h
    cases hc : mapIdx c with
    | none => simp [hc] at h
    | some v =>
      cases hr : idxAll r with
      | none => simp [hc, hr] at h
      | some t =>
        simp [hc, hr] at h; subst h
        intro x hx; simp at hx
        rcases hx with h | h
        · subst h; exact mapIdx_lt c _ hc
        · exact ih t hr x h

theorem idxAll_length (e s : List Nat) (h : idxAll e = some s) : s.length = e.length := by
  induction e generalizing s with
  | nil => simp [idxAll] at h; subst h; rfl
  | cons c r ih =>
    simp only [idxAll] at h
    cases hc : mapIdx c with
    | none => simp [hc] at h
    | some v =>
      cases hr : idxAll r with
      | none => simp [hc, hr] at h
      | some t => simp [hc, hr] at h; subst h; simp [ih t hr]

theorem idxAll_map_mapChar (s : List Nat) (hs : Sextets s) : idxAll (s.map mapChar) = some s := by
  induction s with
  | nil => rfl
  | cons v r ih =>
    have hv := hs v (by simp)
    have ihr := ih (fun x hx => hs x (by simp [hx]))
    simp [idxAll, mapIdx_mapChar v hv, ihr]

theorem map_mapChar_idxAll (e s : List Nat) (h : idxAll e = some s) : s.map mapChar = e := by
  induction e generalizing s with
  | nil => simp [idxAll] at h; subst h; rfl
  | cons c r ih =>
    simp only [idxAll] at h
    cases hc : mapIdx c with
    | none => simp [hc] at h
    | some v =>
      cases hr : idxAll r with
      | none => simp [hc, hr] at h
      | some t => simp [hc, hr] at h; subst h; simp [mapChar_mapIdx c v hc, ih t hr]

theorem idxAll_none_iff (e : List Nat) : idxAll e = none ↔ ∃ c ∈ e, c ∉ b64Map := by
  induction e with
  | nil => simp [idxAll]
  | cons c r ih =>
    simp only [idxAll]
    cases hc : mapIdx c with
    | none =>
      have := (mapIdx_none_iff c).mp hc
      simp; exact Or.inl this
    | some v =>
      have hcin : ¬ (c ∉ b64Map) := by
        intro hn; have := (mapIdx_none_iff c).mpr hn; simp [hc] at this
      simp only [Option.map_eq_none_iff, ih, List.mem_cons, exists_eq_or_imp]
      constructor
      · intro h; exact Or.inr h
      · intro h; rcases h with h | h
        · exact absurd h hcin
        · exact h

/-- result of the decoder loop in terms of the specification (success flag and bytes) -/
def decRef (e : List Nat) : Option (List Nat) := (idxAll e).bind decS

/-- induction scheme: four elements at a time -/
def four : List Nat → Unit
  | [] => ()
  | [_] => ()
  | [_, _] => ()
  | [_, _, _] => ()
  | _ :: _ :: _ :: _ :: r => four r

theorem mul4_mod (v : Nat) (h : v < 64) : v * 4 % 256 = v * 4 := by omega

theorem decRef_cons4 (a b c d va vb vc vd : Nat) (r : List Nat)
    (ha : mapIdx a = some va) (hb : mapIdx b = some vb) (hc : mapIdx c = some vc) (hd : mapIdx d = some vd) :
    decRef (a :: b :: c :: d :: r) =
      (decRef r).map (fun t => (va * 4 + vb / 16) :: (vb % 16 * 16 + vc / 4) :: (vc % 4 * 64 + vd) :: t) := by
  simp only [decRef, idxAll, ha, hb, hc, hd]
  cases idxAll r <;> simp [decS]

theorem decRef_bad (e : List Nat) (c : Nat) (hc : mapIdx c = none) (hmem : c ∈ e) : decRef e = none := by
  have : idxAll e = none := (idxAll_none_iff e).mpr ⟨c, hmem, (mapIdx_none_iff c).mp hc⟩
  simp [decRef, this]

/-- the decoder loop, started at a block boundary, computes `decRef` -/
theorem decLoop_spec (e : List Nat) (io : Nat) (h : io % 4 = 0) :
    decRef e = if (decLoop e io 0).2.1 then some (decLoop e io 0).1 else none := by
  have h1 : (io + 1) % 4 = 1 := by omega
  have h2 : (io + 1 + 1) % 4 = 2 := by omega
  have h3 : (io + 1 + 1 + 1) % 4 = 3 := by omega
  have h4 : (io + 1 + 1 + 1 + 1) % 4 = 0 := by omega
  fun_induction four e generalizing io with
  | case1 => simp [decLoop, decRef, idxAll, decS]
  | case2 a =>
    cases ha : mapIdx a <;> simp [decLoop, decRef, idxAll, decS, ha, h]
  | case3 a b =>
    cases ha : mapIdx a with
    | none => rw [decRef_bad _ a ha (by simp)]; simp [decLoop, ha]
    | some va =>
      have hva := mapIdx_lt a va ha
      cases hb : mapIdx b with
      | none =>
        rw [decRef_bad _ b hb (by simp)]
        by_cases hz : b = 0 <;> simp [decLoop, ha, hb, h, h1, hz]
      | some vb =>
        have hvb := mapIdx_lt b vb hb
        have hz : b ≠ 0 := by intro hz; subst hz; simp [mapIdx_zero] at hb
        have e16 : vb * 16 % 256 = vb % 16 * 16 := by omega
        by_cases hc : vb % 16 = 0
        · simp [decLoop, decRef, idxAll, decS, ha, hb, h, h1, hz, mul4_mod va hva, e16, hc]
        · have : ¬ vb % 16 * 16 = 0 := by omega
          simp [decLoop, decRef, idxAll, decS, ha, hb, h, h1, hz, mul4_mod va hva, e16, hc, this]
  | case4 a b c =>
    cases ha : mapIdx a with
    | none => rw [decRef_bad _ a ha (by simp)]; simp [decLoop, ha]
    | some va =>
      have hva := mapIdx_lt a va ha
      cases hb : mapIdx b with
      | none =>
        rw [decRef_bad _ b hb (by simp)]
        by_cases hz : b = 0 <;> simp [decLoop, ha, hb, h, h1, hz]
      | some vb =>
        have hvb := mapIdx_lt b vb hb
        have hz : b ≠ 0 := by intro hz; subst hz; simp [mapIdx_zero] at hb
        have e16 : vb * 16 % 256 = vb % 16 * 16 := by omega
        cases hc : mapIdx c with
        | none =>
          rw [decRef_bad _ c hc (by simp)]
          simp [decLoop, ha, hb, hc, h, h1, h2, hz]
        | some vc =>
          have hvc := mapIdx_lt c vc hc
          have e64 : vc * 64 % 256 = vc % 4 * 64 := by omega
          by_cases hd : vc % 4 = 0
          · simp [decLoop, decRef, idxAll, decS, ha, hb, hc, h, h1, h2, hz, mul4_mod va hva, e16, e64, hd]
          · have : ¬ vc % 4 * 64 = 0 := by omega
            simp [decLoop, decRef, idxAll, decS, ha, hb, hc, h, h1, h2, hz, mul4_mod va hva, e16, e64, hd, this]
  | case5 a b c d r ih =>
    have ihr := ih (io + 1 + 1 + 1 + 1) h4 (by omega) (by omega) (by omega) (by omega)
    cases ha : mapIdx a with
    | none => rw [decRef_bad _ a ha (by simp)]; simp [decLoop, ha]
    | some va =>
      have hva := mapIdx_lt a va ha
      cases hb : mapIdx b with
      | none =>
        rw [decRef_bad _ b hb (by simp)]
        by_cases hz : b = 0 <;> simp [decLoop, ha, hb, h, h1, hz]
      | some vb =>
        have hvb := mapIdx_lt b vb hb
        have hz : b ≠ 0 := by intro hz; subst hz; simp [mapIdx_zero] at hb
        have e16 : vb * 16 % 256 = vb % 16 * 16 := by omega
        cases hc : mapIdx c with
        | none =>
          rw [decRef_bad _ c hc (by simp)]
          simp [decLoop, ha, hb, hc, h, h1, h2, hz]
        | some vc =>
          have hvc := mapIdx_lt c vc hc
          have e64 : vc * 64 % 256 = vc % 4 * 64 := by omega
          cases hd : mapIdx d with
          | none =>
            rw [decRef_bad _ d hd (by simp)]
            simp [decLoop, ha, hb, hc, hd, h, h1, h2, h3, hz]
          | some vd =>
            rw [decRef_cons4 a b c d va vb vc vd r ha hb hc hd, ihr]
            simp only [decLoop, ha, hb, hc, hd, h, h1, h2, h3, hz, mul4_mod va hva, e16, e64]
            simp

theorem decode_eq_decRef (e : List Nat) : decode e = decRef e := by
  rw [decLoop_spec e 0 rfl]
  simp only [decode]
  cases hd : dlen e.length with
  | some n => simp
  | none =>
    -- impossible length: the loop cannot succeed either
    have hl : e.length % 4 = 1 := by
      simp only [dlen] at hd
      split at hd <;> (try split at hd) <;> (try split at hd) <;> simp at hd
      omega
    have : decRef e = none := by
      simp only [decRef]
      cases hi : idxAll e with
      | none => rfl
      | some s =>
        have := idxAll_length e s hi
        simp [decS_none_iff, this, hl]
    rw [decLoop_spec e 0 rfl] at this
    simp
    split at this <;> simp_all

/-! ## Bounds of the decoder loop -/

/-- number of bytes written, whatever the input and wherever the loop stops -/
theorem decLoop_writes (l : List Nat) (io rem : Nat) :
    4 * (decLoop l io rem).1.length ≤ 3 * l.length + (4 - io % 4) % 4 := by
  induction l generalizing io rem with
  | nil => simp [decLoop]
  | cons c r ih =>
    simp only [decLoop]
    cases hc : mapIdx c with
    | none => simp
    | some v =>
      simp only
      by_cases h0 : io % 4 = 0
      · rw [if_pos h0]
        cases r with
        | nil => simp
        | cons n t =>
          simp only
          split
          · simp
          · have := ih (io + 1) (v * 4 % 256)
            simp only [List.length_cons] at this ⊢
            omega
      · by_cases h1 : io % 4 = 1
        · have := ih (io + 1) (v * 16 % 256)
          rw [if_neg h0, if_pos h1]
          simp only [List.length_cons] at this ⊢
          omega
        · by_cases h2 : io % 4 = 2
          · have := ih (io + 1) (v * 64 % 256)
            rw [if_neg h0, if_neg h1, if_pos h2]
            simp only [List.length_cons] at this ⊢
            omega
          · have := ih (io + 1) 0
            rw [if_neg h0, if_neg h1, if_neg h2]
            simp only [List.length_cons] at this ⊢
            omega

/-- the `e[io+1]` look-ahead never reads index `il` unless `il % 4 = 1` -/
theorem decLoop_no_oob (l : List Nat) (io rem : Nat) (h : (l.length + io) % 4 ≠ 1) :
    (decLoop l io rem).2.2 = false := by
  induction l generalizing io rem with
  | nil => simp [decLoop]
  | cons c r ih =>
    simp only [decLoop]
    cases hc : mapIdx c with
    | none => simp
    | some v =>
      simp only
      by_cases h0 : io % 4 = 0
      · rw [if_pos h0]
        cases r with
        | nil => simp at h; omega
        | cons n t =>
          simp only
          split
          · simp
          · apply ih; simp only [List.length_cons] at h ⊢; omega
      · have hr : (r.length + (io + 1)) % 4 ≠ 1 := by simp only [List.length_cons] at h; omega
        by_cases h1 : io % 4 = 1
        · rw [if_neg h0, if_pos h1]; exact ih (io + 1) _ hr
        · by_cases h2 : io % 4 = 2
          · rw [if_neg h0, if_neg h1, if_pos h2]; exact ih (io + 1) _ hr
          · rw [if_neg h0, if_neg h1, if_neg h2]; exact ih (io + 1) _ hr

theorem dlen_bound (n d w : Nat) (hd : dlen n = some d) (hw : 4 * w ≤ 3 * n) : w ≤ d := by
  simp only [dlen] at hd
  split at hd
  · simp at hd; omega
  · split at hd
    · simp at hd; omega
    · split at hd
      · simp at hd; omega
      · simp at hd

theorem dlen_some_mod (n d : Nat) (hd : dlen n = some d) : n % 4 ≠ 1 := by
  simp only [dlen] at hd
  split at hd
  · omega
  · split at hd
    · omega
    · split at hd
      · omega
      · simp at hd

/-! ## JSON-string form of encoded text -/

theorem decode_encChars (b : List Nat) (hb : Bytes b) : decode (encChars b) = some b := by
  rw [decode_eq_decRef, encChars_eq, decRef, idxAll_map_mapChar _ (encS_sextets _ hb)]
  exact decS_encS _ hb

theorem mapChar_lt_128 : ∀ v, v < 64 → mapChar v < 128 := by decide

theorem encChars_ascii (b : List Nat) (hb : Bytes b) : ∀ c ∈ encChars b, c < 128 := by
  intro c hc
  rw [encChars_eq] at hc
  simp only [List.mem_map] at hc
  obtain ⟨v, hv, rfl⟩ := hc
  exact mapChar_lt_128 v (encS_sextets b hb v hv)

theorem utf8Size_ascii (c : Nat) (h : c < 128) : (Char.ofNat c).utf8Size = 1 := by
  have hvalid : c.isValidChar := by simp [Nat.isValidChar]; omega
  have hv : (Char.ofNat c).val.toNat = c := by
    simp [Char.ofNat, hvalid, Char.ofNatAux]
  simp only [Char.utf8Size]
  have : (Char.ofNat c).val ≤ 127 := by
    rw [UInt32.le_iff_toNat_le, hv]; simp; omega
  simp [this]

theorem val_ascii (c : Nat) (h : c < 128) : (Char.ofNat c).val.toUInt8.toNat = c := by
  have hvalid : c.isValidChar := by simp [Nat.isValidChar]; omega
  have hv : (Char.ofNat c).val.toNat = c := by
    simp [Char.ofNat, hvalid, Char.ofNatAux]
  rw [UInt32.toNat_toUInt8, hv]
  omega

/-- ASCII text survives the trip through a JSON string (UTF-8) unchanged -/
theorem ascii_roundtrip (cs : List Nat) (h : ∀ c ∈ cs, c < 128) :
    bytesOfString (String.ofList (cs.map Char.ofNat)) = cs := by
  simp only [bytesOfString, String.toUTF8, String.toByteArray_ofList, List.utf8Encode, List.toList_data_toByteArray]
  induction cs with
  | nil => rfl
  | cons c r ih =>
    have hc := h c (by simp)
    simp only [List.map_cons, List.flatMap_cons, String.utf8EncodeChar_eq_singleton (utf8Size_ascii c hc),
      List.singleton_append, val_ascii c hc]
    rw [ih (fun x hx => h x (by simp [hx]))]

/-- the JSON-string form round-trips: decoding `jose_b64_enc(b)` gives `b` back -/
theorem dec_enc_json (b : List Nat) (hb : Bytes b) :
    (match enc b with | .str s => decode (bytesOfString s) | _ => none) = some b := by
  simp only [enc]
  rw [ascii_roundtrip _ (encChars_ascii b hb)]
  exact decode_encChars b hb

end B64
end Jose
