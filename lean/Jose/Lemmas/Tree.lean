import Jose.IO
/-
  Multiplexer trees over accumulating transformer leaves (the shape of every
  verification chain jose builds: one `xform` leaf per (signature, key), grouped by
  `plex` nodes).  Their verdict over any chunking is a function `V` of the
  concatenated data only.
-/
set_option linter.unusedSimpArgs false
set_option linter.unusedVariables false

namespace Jose
namespace IO

mutual
  /-- denotational verdict of a tree on the whole input -/
  def V : Stage → List Nat → Bool
    | .xform t .sink, x => (t.final x).isSome
    | .plex false bs, x => anyV bs x
    | .plex true bs, x => nonemptyB bs && allV bs x
    | _, _ => false
  def anyV : Branches → List Nat → Bool
    | .nil, _ => false
    | .cons s r, x => V s x || anyV r x
  def allV : Branches → List Nat → Bool
    | .nil, _ => true
    | .cons s r, x => V s x && allV r x
  def nonemptyB : Branches → Bool
    | .nil => false
    | .cons _ _ => true
end

mutual
  /-- trees of `plex` nodes over `xform t sink` leaves without a feed limit -/
  inductive AccT : Stage → Prop
    | leaf (t : XF) : t.maxFeed = none → AccT (.xform t .sink)
    | node (all : Bool) (bs : Branches) : AccB bs → AccT (.plex all bs)
  inductive AccB : Branches → Prop
    | nil : AccB .nil
    | cons (s : Stage) (r : Branches) : AccT s → AccB r → AccB (.cons s r)
end

mutual
  /-- `R sg s x`: `s` is a state of `sg` that has absorbed exactly `x` -/
  def R : Stage → St → List Nat → Prop
    | .xform _ .sink, .xform acc (.sink d), x => acc = x ∧ d = []
    | .plex all bs, .plex sl, x => RL all bs sl x
    | _, _, _ => False
  def RL : Bool → Branches → StL → List Nat → Prop
    | _, .nil, .nil, _ => True
    | all, .cons sg r, .cons true s rs, x => R sg s x ∧ RL all r rs x
    | false, .cons sg r, .cons false _ rs, x => (∀ z, V sg z = false) ∧ RL false r rs x
    | _, _, _, _ => False
end

mutual
  theorem R_init : ∀ (sg : Stage), AccT sg → R sg (init sg) []
    | .xform t .sink, _ => by simp [R, init]
    | .plex all bs, h => by
      cases h with
      | node _ _ hb => simp only [R, init]; exact RL_init all bs hb
    | .sink, h => by cases h
    | .buffer _, h => by cases h
    | .probe _, h => by cases h
    | .b64enc _, h => by cases h
    | .b64dec _, h => by cases h
    | .xform _ (.buffer _), h => by cases h
    | .xform _ (.probe _), h => by cases h
    | .xform _ (.b64enc _), h => by cases h
    | .xform _ (.b64dec _), h => by cases h
    | .xform _ (.xform _ _), h => by cases h
    | .xform _ (.plex _ _), h => by cases h
  theorem RL_init : ∀ (all : Bool) (bs : Branches), AccB bs → RL all bs (initL bs) []
    | _, .nil, _ => by simp [RL, initL]
    | all, .cons s r, h => by
      cases h with
      | cons _ _ hs hr => simp only [RL, initL]; exact ⟨R_init s hs, RL_init all r hr⟩
end

mutual
  theorem feed_R : ∀ {sg : Stage}, AccT sg → ∀ (s : St) (x y : List Nat), R sg s x →
      ((feed sg s y).2 = true → R sg (feed sg s y).1 (x ++ y)) ∧
      ((feed sg s y).2 = false → ∀ z, V sg z = false)
    | _, .leaf t ht, s, x, y, hr => by
      cases s with
      | xform acc ns =>
        cases ns with
        | sink d =>
          simp only [R] at hr
          obtain ⟨h1, h2⟩ := hr
          subst h1; subst h2
          have hfeed : feed (.xform t .sink) (.xform acc (.sink [])) y = (.xform (acc ++ y) (.sink []), true) := by
            simp only [feed, ht]
          rw [hfeed]
          exact ⟨fun _ => by simp [R], fun h => by simp at h⟩
        | _ => simp [R] at hr
      | _ => simp [R] at hr
    | _, .node all bs hb, s, x, y, hr => by
      cases s with
      | plex sl =>
        simp only [R] at hr
        have h := feedL_R hb all sl x y hr
        simp only [feed]
        cases hf : feedL all bs sl y with
        | mk sl' r =>
          rw [hf] at h
          cases r with
          | none =>
            obtain ⟨_, hnone⟩ := h
            obtain ⟨hall, hz⟩ := hnone rfl
            subst hall
            simp only
            refine ⟨by simp, fun _ z => ?_⟩
            simp [V, hz z]
          | some st =>
            obtain ⟨hsome, _⟩ := h
            obtain ⟨hrl, hst⟩ := hsome st rfl
            simp only
            refine ⟨fun _ => by simpa [R] using hrl, fun hfalse z => ?_⟩
            have hst' := hst hfalse
            cases all with
            | false => simp [V, (hst'.1 rfl) z]
            | true => simp [V, hst'.2 rfl]
      | _ => simp [R] at hr
  theorem feedL_R : ∀ {bs : Branches}, AccB bs → ∀ (all : Bool) (sl : StL) (x y : List Nat), RL all bs sl x →
      (∀ st, (feedL all bs sl y).2 = some st →
          RL all bs (feedL all bs sl y).1 (x ++ y) ∧
          (st = false → (all = false → ∀ z, anyV bs z = false) ∧ (all = true → nonemptyB bs = false))) ∧
      ((feedL all bs sl y).2 = none → all = true ∧ ∀ z, allV bs z = false)
    | _, .nil, all, sl, x, y, hr => by
      cases sl with
      | nil => simp [feedL, RL, anyV, nonemptyB]
      | cons a s rs => simp [RL] at hr
    | _, .cons sg r hs hrest, all, sl, x, y, hr => by
      cases sl with
      | nil => simp [RL] at hr
      | cons a s rs =>
        cases a with
        | false =>
          cases all with
          | true => simp [RL] at hr
          | false =>
            simp only [RL] at hr
            obtain ⟨hdead, hrl⟩ := hr
            have ih := feedL_R hrest false rs x y hrl
            simp only [feedL]
            refine ⟨?_, ?_⟩
            · intro st hst
              obtain ⟨h1, h2⟩ := ih.1 st hst
              refine ⟨by simp only [RL]; exact ⟨hdead, h1⟩, fun hf => ⟨fun _ z => ?_, fun h => by simp at h⟩⟩
              simp [anyV, hdead z, ((h2 hf).1 rfl) z]
            · intro hn
              exact absurd (ih.2 hn).1 (by simp)
        | true =>
          simp only [RL] at hr
          obtain ⟨hrs, hrl⟩ := hr
          have ihs := feed_R hs s x y hrs
          have ih := feedL_R hrest all rs x y hrl
          simp only [feedL]
          cases hf : feed sg s y with
          | mk s' ok =>
            rw [hf] at ihs
            cases ok with
            | true =>
              simp only [if_true]
              have hR := ihs.1 rfl
              refine ⟨?_, ?_⟩
              · intro st hst
                cases hr2 : (feedL all r rs y).2 with
                | none => simp [hr2] at hst
                | some st2 =>
                  obtain ⟨h1, _⟩ := ih.1 st2 hr2
                  simp only [hr2, Option.map_some, Option.some.injEq] at hst
                  subst hst
                  exact ⟨by simp only [RL]; exact ⟨hR, h1⟩, fun h => by simp at h⟩
              · intro hn
                cases hr2 : (feedL all r rs y).2 with
                | none =>
                  obtain ⟨ha, hz⟩ := ih.2 hr2
                  exact ⟨ha, fun z => by simp [allV, hz z]⟩
                | some st2 => simp [hr2] at hn
            | false =>
              have hV := ihs.2 rfl
              simp only [Bool.false_eq_true, if_false]
              cases all with
              | true =>
                simp only [if_true]
                exact ⟨fun st h => by simp at h, fun _ => ⟨by simp, fun z => by simp [allV, hV z]⟩⟩
              | false =>
                simp only [Bool.false_eq_true, if_false]
                refine ⟨?_, ?_⟩
                · intro st hst
                  obtain ⟨h1, h2⟩ := ih.1 st hst
                  refine ⟨by simp only [RL]; exact ⟨hV, h1⟩, fun hfl => ⟨fun _ z => ?_, fun h => by simp at h⟩⟩
                  simp [anyV, hV z, ((h2 hfl).1 rfl) z]
                · intro hn
                  exact absurd (ih.2 hn).1 (by simp)
end

mutual
  theorem done_R : ∀ {sg : Stage}, AccT sg → ∀ (s : St) (x : List Nat), R sg s x → (done sg s).2 = V sg x
    | _, .leaf t ht, s, x, hr => by
      cases s with
      | xform acc ns =>
        cases ns with
        | sink d =>
          simp only [R] at hr
          obtain ⟨h1, h2⟩ := hr
          subst h1; subst h2
          cases hfin : t.final acc with
          | none => simp [done, hfin, V]
          | some out => simp [done, hfin, V, feed]
        | _ => simp [R] at hr
      | _ => simp [R] at hr
    | _, .node all bs hb, s, x, hr => by
      cases s with
      | plex sl =>
        simp only [R] at hr
        have h := doneL_R hb all sl x hr
        simp only [done]
        cases hd : doneL all bs sl with
        | mk sl' r =>
          rw [hd] at h
          cases all with
          | false =>
            have := h.1 rfl
            simp only at this
            simp [this, V]
          | true =>
            have h2 := h.2 rfl
            cases r with
            | none => simp [V, h2.1 rfl]
            | some st =>
              obtain ⟨ha, hs⟩ := h2.2 st rfl
              simp [V, ha, hs]
      | _ => simp [R] at hr
  theorem doneL_R : ∀ {bs : Branches}, AccB bs → ∀ (all : Bool) (sl : StL) (x : List Nat), RL all bs sl x →
      (all = false → (doneL all bs sl).2 = some (anyV bs x)) ∧
      (all = true → ((doneL all bs sl).2 = none → allV bs x = false) ∧
          (∀ st, (doneL all bs sl).2 = some st → allV bs x = true ∧ st = nonemptyB bs))
    | _, .nil, all, sl, x, hr => by
      cases sl with
      | nil => simp [doneL, anyV, allV, nonemptyB]
      | cons a s rs => simp [RL] at hr
    | _, .cons sg r hs hrest, all, sl, x, hr => by
      cases sl with
      | nil => simp [RL] at hr
      | cons a s rs =>
        cases a with
        | false =>
          cases all with
          | true => simp [RL] at hr
          | false =>
            simp only [RL] at hr
            obtain ⟨hdead, hrl⟩ := hr
            have ih := (doneL_R hrest false rs x hrl).1 rfl
            simp [doneL, ih, anyV, hdead x]
        | true =>
          simp only [RL] at hr
          obtain ⟨hrs, hrl⟩ := hr
          have ihs := done_R hs s x hrs
          have ih := doneL_R hrest all rs x hrl
          simp only [doneL]
          cases hdn : done sg s with
          | mk s' ok =>
            rw [hdn] at ihs
            simp only at ihs
            cases ok with
            | true =>
              simp only [if_true]
              refine ⟨fun ha => ?_, fun ha => ?_⟩
              · have := ih.1 ha
                simp [this, anyV, ← ihs]
              · obtain ⟨h1, h2⟩ := ih.2 ha
                refine ⟨fun hn => ?_, fun st hst => ?_⟩
                · cases hr2 : (doneL all r rs).2 with
                  | none => simp [allV, h1 hr2]
                  | some st2 => simp [hr2] at hn
                · cases hr2 : (doneL all r rs).2 with
                  | none => simp [hr2] at hst
                  | some st2 =>
                    obtain ⟨g1, _⟩ := h2 st2 hr2
                    simp only [hr2, Option.map_some, Option.some.injEq] at hst
                    subst hst
                    simp [allV, g1, ← ihs, nonemptyB]
            | false =>
              simp only [Bool.false_eq_true, if_false]
              cases all with
              | true =>
                simp only [if_true]
                refine ⟨fun h => by simp at h, fun _ => ⟨fun _ => by simp [allV, ← ihs], fun st h => by simp at h⟩⟩
              | false =>
                simp only [Bool.false_eq_true, if_false]
                refine ⟨fun _ => ?_, fun h => by simp at h⟩
                have := ih.1 rfl
                simp [this, anyV, ← ihs]
end

/-- feeding chunk after chunk from a state that has absorbed `x` -/
theorem feeds_R {sg : Stage} (h : AccT sg) (cs : List (List Nat)) (s : St) (x : List Nat) (hr : R sg s x) :
    ((feeds sg s cs).2 = true → R sg (feeds sg s cs).1 (x ++ cs.flatten)) ∧
    ((feeds sg s cs).2 = false → ∀ z, V sg z = false) := by
  induction cs generalizing s x with
  | nil => simp [feeds, loopFeeds, hr]
  | cons c r ih =>
    have hf := feed_R h s x c hr
    simp only [feeds, loopFeeds]
    cases hfc : feed sg s c with
    | mk s' ok =>
      rw [hfc] at hf
      cases ok with
      | true =>
        simp only [if_true]
        have := ih s' (x ++ c) (hf.1 rfl)
        simpa [feeds, List.append_assoc] using this
      | false =>
        simp only [Bool.false_eq_true, if_false]
        exact ⟨fun h => by simp at h, fun _ => hf.2 rfl⟩

/-- **Verdict = function of the concatenation.**  For every multiplexer tree over
    accumulating leaves and every split of the data into feeds (none, empty ones,
    single bytes …), the verdict of the run is `V` of the concatenated data. -/
theorem run_V {sg : Stage} (h : AccT sg) (cs : List (List Nat)) : (run sg cs).2 = V sg cs.flatten := by
  have hf := feeds_R h cs (init sg) [] (R_init sg h)
  cases hfs : feeds sg (init sg) cs with
  | mk s ok =>
    rw [run_of_feeds sg cs s ok hfs]
    rw [hfs] at hf
    cases ok with
    | true =>
      simp only [if_true]
      have := hf.1 rfl
      simp only [List.nil_append] at this
      exact done_R h s _ this
    | false =>
      simp only [Bool.false_eq_true, if_false]
      exact (hf.2 rfl _).symm

/-- chunking independence of the verdict -/
theorem run_chunking {sg : Stage} (h : AccT sg) (cs : List (List Nat)) :
    (run sg cs).2 = (run sg [cs.flatten]).2 := by
  rw [run_V h, run_V h]; simp

end IO
end Jose
