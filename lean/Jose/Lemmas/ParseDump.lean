import Jose.JsonParse
import Jose.Lemmas.Json
import Jose.B64
import Jose.Lemmas.B64
/-
  `parse ∘ dump = id`: the JSON reader (the model of jansson's `json_loadb`) applied to what the compact
  sorted dumper writes gives the value back, for every value made of null / booleans / 64-bit integers /
  strings of characters the dumper writes as themselves / arrays / objects with sorted keys.  This turns the
  "the JSON layer re-reads what it wrote" hypothesis (`LoadDump`) of C03 / C04 / C15 into a theorem for such
  headers.  Not covered: reals (opaque tokens in the model) and strings that need escaping.
-/
set_option linter.unusedSimpArgs false
set_option linter.unusedVariables false
namespace Jose.Json

def PlainChar (c : Char) : Prop := c ≠ '"' ∧ c ≠ '\\' ∧ 0x20 ≤ c.toNat

theorem escapeChar_plain (c : Char) (h : PlainChar c) : escapeChar c = [c] := by
  obtain ⟨h1, h2, h3⟩ := h
  have n1 : c ≠ '\x08' := by intro e; subst e; revert h3; decide
  have n2 : c ≠ '\x0c' := by intro e; subst e; revert h3; decide
  have n3 : c ≠ '\n' := by intro e; subst e; revert h3; decide
  have n4 : c ≠ '\r' := by intro e; subst e; revert h3; decide
  have n5 : c ≠ '\t' := by intro e; subst e; revert h3; decide
  have n6 : ¬ c.toNat < 0x20 := by omega
  simp [escapeChar, h1, h2, n1, n2, n3, n4, n5, n6]

theorem escapeChars_plain (cs : List Char) (h : ∀ c ∈ cs, PlainChar c) : escapeChars cs = cs := by
  induction cs with
  | nil => rfl
  | cons c r ih =>
    simp only [escapeChars, List.flatMap_cons]
    rw [escapeChar_plain c (h c (by simp))]
    have := ih (fun x hx => h x (by simp [hx]))
    simp only [escapeChars] at this
    simp [this]

theorem scanString_plain (an : Bool) (cs : List Char) (h : ∀ c ∈ cs, PlainChar c) :
    ∀ (acc rest : List Char) (fuel : Nat), cs.length < fuel →
      scanString an acc (cs ++ '"' :: rest) fuel = some (String.ofList (acc.reverse ++ cs), rest) := by
  induction cs with
  | nil =>
    intro acc rest fuel hf
    cases fuel with
    | zero => omega
    | succ f => simp [scanString]
  | cons c r ih =>
    intro acc rest fuel hf
    cases fuel with
    | zero => simp at hf
    | succ f =>
      obtain ⟨h1, h2, h3⟩ := h c (by simp)
      have n6 : ¬ c.toNat < 0x20 := by omega
      simp only [List.cons_append, scanString, h1, h2, n6, if_false]
      rw [ih (fun x hx => h x (by simp [hx])) (c :: acc) rest f (by simp at hf; omega)]
      simp


def Delim (rest : List Char) : Prop := rest = [] ∨ ∃ c r, rest = c :: r ∧ (c = ',' ∨ c = '}' ∨ c = ']')

theorem takeAlpha_delim (rest : List Char) (h : Delim rest) : takeAlpha rest = ([], rest) := by
  rcases h with rfl | ⟨c, r, rfl, hc⟩
  · rfl
  · rcases hc with rfl | rfl | rfl <;> rfl

theorem takeDigits_delim (rest : List Char) (h : Delim rest) : takeDigits rest = ([], rest) := by
  rcases h with rfl | ⟨c, r, rfl, hc⟩
  · rfl
  · rcases hc with rfl | rfl | rfl <;> rfl

theorem skipWs_delim (rest : List Char) (h : Delim rest) : skipWs rest = rest := by
  rcases h with rfl | ⟨c, r, rfl, hc⟩
  · rfl
  · rcases hc with rfl | rfl | rfl <;> rfl

theorem parse_null (an : Bool) (rest : List Char) (f : Nat) (h : Delim rest) :
    parseValue an ("null".toList ++ rest) (f + 1) = some (.null, rest) := by
  have : takeAlpha ('n' :: 'u' :: 'l' :: 'l' :: rest) = ("null".toList, rest) := by
    simp [takeAlpha, takeAlpha_delim rest h]
  simp [parseValue, skipWs, isWs, this]

theorem parse_true (an : Bool) (rest : List Char) (f : Nat) (h : Delim rest) :
    parseValue an ("true".toList ++ rest) (f + 1) = some (.bool true, rest) := by
  have : takeAlpha ('t' :: 'r' :: 'u' :: 'e' :: rest) = ("true".toList, rest) := by
    simp [takeAlpha, takeAlpha_delim rest h]
  simp [parseValue, skipWs, isWs, this]

theorem parse_false (an : Bool) (rest : List Char) (f : Nat) (h : Delim rest) :
    parseValue an ("false".toList ++ rest) (f + 1) = some (.bool false, rest) := by
  have : takeAlpha ('f' :: 'a' :: 'l' :: 's' :: 'e' :: rest) = ("false".toList, rest) := by
    simp [takeAlpha, takeAlpha_delim rest h]
  simp [parseValue, skipWs, isWs, this]


theorem takeDigits_append (ds rest : List Char) (hd : ∀ c ∈ ds, c.isDigit = true) (h : Delim rest) :
    takeDigits (ds ++ rest) = (ds, rest) := by
  induction ds with
  | nil => simpa using takeDigits_delim rest h
  | cons c r ih =>
    have hc := hd c (by simp)
    simp [takeDigits, hc, ih (fun x hx => hd x (by simp [hx]))]

theorem digitsToNat_eq (ds : List Char) : digitsToNat ds = Nat.ofDigitChars 10 ds 0 := by
  simp only [digitsToNat, Nat.ofDigitChars]
  congr 1
  funext n c
  have : '0'.toNat = 48 := by decide
  rw [this, Nat.mul_comm]

theorem digitsToNat_toDigits (n : Nat) : digitsToNat (Nat.toDigits 10 n) = n := by
  rw [digitsToNat_eq, Nat.ofDigitChars_ten_toDigits]

/-- the first digit of a positive number is not '0' -/
theorem toDigits_head_ne_zero : ∀ (n : Nat), 0 < n → ∃ c r, Nat.toDigits 10 n = c :: r ∧ c ≠ '0' ∧ c.isDigit = true := by
  intro n
  induction n using Nat.strongRecOn with
  | _ n ih =>
    intro hn
    rw [Nat.toDigits_eq_if (by decide : 1 < 10)]
    by_cases hlt : n < 10
    · simp only [hlt, if_true]
      refine ⟨n.digitChar, [], rfl, ?_, ?_⟩
      · intro h; have := Nat.digitChar_eq_zero.mp h; omega
      · simp [Nat.isDigit_digitChar, hlt]
    · simp only [hlt, if_false]
      have hq : 0 < n / 10 := by omega
      obtain ⟨c, r, hc, hne, hd⟩ := ih (n / 10) (by omega) hq
      exact ⟨c, r ++ [(n % 10).digitChar], by rw [hc]; rfl, hne, hd⟩


theorem realStart_delim (rest : List Char) (h : Delim rest) : realStart rest = false := by
  rcases h with rfl | ⟨c, r, rfl, hc⟩
  · rfl
  · rcases hc with rfl | rfl | rfl <;> rfl

theorem intPart_toDigits (n : Nat) (rest : List Char) (h : Delim rest) :
    intPart (Nat.toDigits 10 n ++ rest) = some (Nat.toDigits 10 n, rest) := by
  by_cases hn : n = 0
  · subst hn
    rw [Nat.toDigits_zero]
    rcases h with rfl | ⟨c, r, rfl, hc⟩
    · rfl
    · rcases hc with rfl | rfl | rfl <;> rfl
  · obtain ⟨c, r, hc, hne, hd⟩ := toDigits_head_ne_zero n (by omega)
    have hall : ∀ x ∈ Nat.toDigits 10 n, x.isDigit = true := fun x hx => Nat.isDigit_of_mem_toDigits (b := 10) (by decide) (by decide) hx
    have htd := takeDigits_append (Nat.toDigits 10 n) rest hall h
    rw [hc] at htd ⊢
    simp only [List.cons_append] at htd ⊢
    unfold intPart
    split
    · rename_i r' heq
      injection heq with h1 _
      exact absurd h1 hne
    · rename_i d tl heq
      injection heq with h1 _
      subst h1
      simp [hd, htd]
    · rename_i heq; simp at heq

theorem negSplit_digit (c : Char) (r : List Char) (hd : c.isDigit = true) : negSplit (c :: r) = (false, c :: r) := by
  have hminus : c ≠ '-' := by intro e; subst e; revert hd; decide
  unfold negSplit
  split
  · rename_i r' heq; injection heq with h1 _; exact absurd h1 hminus
  · rfl

theorem scanNumber_nat (n : Nat) (rest : List Char) (h : Delim rest) (hr : (n : Int) ≤ int64Max) :
    scanNumber (Nat.toDigits 10 n ++ rest) = some (.int n, rest) := by
  obtain ⟨c, r, hc, hd⟩ : ∃ c r, Nat.toDigits 10 n = c :: r ∧ c.isDigit = true := by
    cases hl : Nat.toDigits 10 n with
    | nil => exact absurd hl Nat.toDigits_ne_nil
    | cons c r =>
      have hm : c ∈ Nat.toDigits 10 n := by rw [hl]; simp
      exact ⟨c, r, rfl, Nat.isDigit_of_mem_toDigits (b := 10) (by decide) (by decide) hm⟩
  have hns : negSplit (Nat.toDigits 10 n ++ rest) = (false, Nat.toDigits 10 n ++ rest) := by
    rw [hc]; exact negSplit_digit c (r ++ rest) hd
  have h1 : ¬ ((n : Int) < int64Min ∨ (n : Int) > int64Max) := by
    simp only [int64Min, int64Max] at hr ⊢; omega
  simp only [scanNumber, hns, intPart_toDigits n rest h, realStart_delim rest h, digitsToNat_toDigits]
  simp [h1]

theorem scanNumber_neg (n : Nat) (rest : List Char) (h : Delim rest) (hr : int64Min ≤ -(n : Int)) :
    scanNumber ('-' :: (Nat.toDigits 10 n ++ rest)) = some (.int (-(n : Int)), rest) := by
  have h1 : ¬ (-(n : Int) < int64Min ∨ -(n : Int) > int64Max) := by
    simp only [int64Min, int64Max] at hr ⊢; omega
  simp only [scanNumber, negSplit, intPart_toDigits n rest h, realStart_delim rest h, digitsToNat_toDigits]
  simp [h1]


theorem intChars_ofNat (n : Nat) : intChars (Int.ofNat n) = Nat.toDigits 10 n := by
  simp only [intChars]
  show (Int.repr (Int.ofNat n)).toList = _
  simp [Int.repr, Nat.toList_repr]
theorem intChars_negSucc (m : Nat) : intChars (Int.negSucc m) = '-' :: Nat.toDigits 10 (m + 1) := by
  simp only [intChars]
  show (Int.repr (Int.negSucc m)).toList = _
  simp [Int.repr, Nat.toList_repr, String.toList_append]


/-! ### the class of values and the fuel they need -/

def plainStr (s : String) : Prop := ∀ c ∈ s.toList, PlainChar c

/-- object members in strictly increasing key order (what the sorted dump writes, and distinct) -/
def SortedKeys (kvs : List (String × Json)) : Prop := List.Pairwise (fun a b => a.1 < b.1) kvs

mutual
  def Plain : Json → Prop
    | .null => True
    | .bool _ => True
    | .int i => int64Min ≤ i ∧ i ≤ int64Max
    | .real _ => False
    | .str s => plainStr s
    | .arr l => PlainL l
    | .obj kvs => PlainM kvs ∧ SortedKeys kvs
  def PlainL : List Json → Prop
    | [] => True
    | x :: r => Plain x ∧ PlainL r
  def PlainM : List (String × Json) → Prop
    | [] => True
    | (k, v) :: r => plainStr k ∧ Plain v ∧ PlainM r
end

mutual
  def need : Json → Nat
    | .arr l => 1 + needL l
    | .obj kvs => 1 + needM kvs
    | _ => 1
  def needL : List Json → Nat
    | [] => 0
    | x :: r => 1 + need x + needL r
  def needM : List (String × Json) → Nat
    | [] => 0
    | (_, v) :: r => 1 + need v + needM r
end

/-! ### small facts -/

theorem quote_plain (s : String) (h : plainStr s) : quote s = '"' :: (s.toList ++ ['"']) := by
  simp [quote, escapeChars_plain s.toList h]

theorem setKV_append (k : String) (v : Json) (acc : List (String × Json)) (h : lookup k acc = none) :
    setKV k v acc = acc ++ [(k, v)] := by
  induction acc with
  | nil => rfl
  | cons x r ih =>
    obtain ⟨k', v'⟩ := x
    simp only [lookup] at h
    by_cases hk : k' = k
    · simp [hk] at h
    · simp only [hk, if_false] at h
      simp [setKV, hk, ih h]

theorem lookup_append_none (k : String) (a b : List (String × Json)) (ha : lookup k a = none) (hb : lookup k b = none) :
    lookup k (a ++ b) = none := by
  induction a with
  | nil => simpa using hb
  | cons x r ih =>
    obtain ⟨k', v'⟩ := x
    simp only [lookup] at ha
    by_cases hk : k' = k
    · simp [hk] at ha
    · simp only [hk, if_false] at ha
      simp [lookup, hk, ih ha]

theorem sortKV_sorted (l : List (String × List Char)) (h : List.Pairwise (fun a b => a.1 < b.1) l) : sortKV l = l := by
  induction l with
  | nil => rfl
  | cons x r ih =>
    have hr := ih (List.Pairwise.of_cons h)
    simp only [sortKV, List.foldr_cons] at hr ⊢
    rw [hr]
    cases r with
    | nil => rfl
    | cons y r' =>
      have hxy : x.1 < y.1 := (List.pairwise_cons.mp h).1 y (by simp)
      simp [insertSorted, hxy]

theorem dumpMembers_keys_sorted (kvs : List (String × Json)) (h : SortedKeys kvs) :
    List.Pairwise (fun a b => a.1 < b.1) (dumpMembers kvs) := by
  induction kvs with
  | nil => simp [dumpMembers]
  | cons x r ih =>
    obtain ⟨k, v⟩ := x
    simp only [dumpMembers, List.pairwise_cons]
    refine ⟨?_, ih (List.Pairwise.of_cons h)⟩
    intro y hy
    have hall := (List.pairwise_cons.mp h).1
    -- every rendered member of r carries the key of a member of r
    have : ∃ kv ∈ r, kv.1 = y.1 := by
      clear ih h hall
      induction r with
      | nil => simp [dumpMembers] at hy
      | cons z r' ih' =>
        obtain ⟨k', v'⟩ := z
        simp only [dumpMembers, List.mem_cons] at hy
        rcases hy with rfl | hy
        · exact ⟨(k', v'), by simp, rfl⟩
        · obtain ⟨kv, hm, he⟩ := ih' hy
          exact ⟨kv, by simp [hm], he⟩
    obtain ⟨kv, hm, he⟩ := this
    rw [← he]
    exact hall kv hm


theorem skipWs_cons (c : Char) (r : List Char) (h : isWs c = false) : skipWs (c :: r) = c :: r := by
  simp [skipWs, h]

/-- a dumped value starts with a character that is neither white space nor a closing bracket -/
def GoodHead (cs : List Char) : Prop := ∃ c r, cs = c :: r ∧ isWs c = false ∧ c ≠ ']' ∧ c ≠ '}'

theorem digit_good (c : Char) (h : c.isDigit = true) : isWs c = false ∧ c ≠ ']' ∧ c ≠ '}' ∧ c ≠ '{' ∧ c ≠ '[' ∧ c ≠ '"' := by
  refine ⟨?_, ?_, ?_, ?_, ?_, ?_⟩
  · simp only [isWs, Bool.or_eq_false_iff, decide_eq_false_iff_not]
    refine ⟨⟨⟨?_, ?_⟩, ?_⟩, ?_⟩ <;> (intro e; subst e; revert h; decide)
  all_goals (intro e; subst e; revert h; decide)

theorem toDigits_cons (n : Nat) : ∃ c r, Nat.toDigits 10 n = c :: r ∧ c.isDigit = true := by
  cases hl : Nat.toDigits 10 n with
  | nil => exact absurd hl Nat.toDigits_ne_nil
  | cons c r =>
    have hm : c ∈ Nat.toDigits 10 n := by rw [hl]; simp
    exact ⟨c, r, rfl, Nat.isDigit_of_mem_toDigits (b := 10) (by decide) (by decide) hm⟩

theorem dumpChars_goodHead (j : Json) (h : Plain j) : GoodHead (dumpChars j) := by
  cases j with
  | null => exact ⟨'n', _, rfl, by decide, by decide, by decide⟩
  | bool b =>
    cases b with
    | false => exact ⟨'f', _, rfl, by decide, by decide, by decide⟩
    | true => exact ⟨'t', _, rfl, by decide, by decide, by decide⟩
  | int i =>
    cases i with
    | ofNat n =>
      obtain ⟨c, r, hc, hd⟩ := toDigits_cons n
      have g := digit_good c hd
      exact ⟨c, r, by rw [dumpChars, intChars_ofNat, hc], g.1, g.2.1, g.2.2.1⟩
    | negSucc m => exact ⟨'-', Nat.toDigits 10 (m + 1), by rw [dumpChars, intChars_negSucc], by decide, by decide, by decide⟩
  | real t => simp [Plain] at h
  | str s => exact ⟨'"', escapeChars s.toList ++ ['"'], by simp [dumpChars, quote], by decide, by decide, by decide⟩
  | arr l => exact ⟨'[', joinComma (dumpList l) ++ [']'], by simp [dumpChars], by decide, by decide, by decide⟩
  | obj kvs => exact ⟨'{', joinComma ((sortKV (dumpMembers kvs)).map (·.2)) ++ ['}'], by simp [dumpChars], by decide, by decide, by decide⟩

/-- a value that starts with a digit or a minus sign is a number -/
theorem parseValue_number (an : Bool) (c : Char) (r : List Char) (f : Nat) (h : c = '-' ∨ c.isDigit = true) :
    parseValue an (c :: r) (f + 1) = scanNumber (c :: r) := by
  have hws : isWs c = false := by
    rcases h with rfl | h
    · decide
    · exact (digit_good c h).1
  have h1 : c ≠ '{' := by
    rcases h with rfl | h
    · decide
    · exact (digit_good c h).2.2.2.1
  have h2 : c ≠ '[' := by
    rcases h with rfl | h
    · decide
    · exact (digit_good c h).2.2.2.2.1
  have h3 : c ≠ '"' := by
    rcases h with rfl | h
    · decide
    · exact (digit_good c h).2.2.2.2.2
  simp only [parseValue, skipWs_cons c r hws]
  split
  all_goals first
    | (rename_i heq; injection heq with e _; first | exact absurd e h1 | exact absurd e h2 | exact absurd e h3)
    | (rename_i heq; simp at heq; done)
    | simp_all


/-! ### the main induction -/

theorem delim_comma (r : List Char) : Delim (',' :: r) := Or.inr ⟨',', r, rfl, Or.inl rfl⟩
theorem delim_rbrack (r : List Char) : Delim (']' :: r) := Or.inr ⟨']', r, rfl, Or.inr (Or.inr rfl)⟩
theorem delim_rbrace (r : List Char) : Delim ('}' :: r) := Or.inr ⟨'}', r, rfl, Or.inr (Or.inl rfl)⟩

mutual
  theorem parse_dump (an : Bool) : ∀ (j : Json), Plain j → ∀ (rest : List Char) (fuel : Nat), Delim rest → need j ≤ fuel →
      parseValue an (dumpChars j ++ rest) fuel = some (j, rest)
    | .null, _, rest, fuel, hd, hf => by
      cases fuel with
      | zero => simp [need] at hf
      | succ f => simpa [dumpChars] using parse_null an rest f hd
    | .bool b, _, rest, fuel, hd, hf => by
      cases fuel with
      | zero => simp [need] at hf
      | succ f =>
        cases b with
        | true => simpa [dumpChars] using parse_true an rest f hd
        | false => simpa [dumpChars] using parse_false an rest f hd
    | .int i, hp, rest, fuel, hd, hf => by
      cases fuel with
      | zero => simp [need] at hf
      | succ f =>
        simp only [Plain] at hp
        cases i with
        | ofNat n =>
          obtain ⟨c, r, hc, hdg⟩ := toDigits_cons n
          have h1 : dumpChars (.int (Int.ofNat n)) ++ rest = c :: (r ++ rest) := by
            rw [dumpChars, intChars_ofNat, hc]; rfl
          rw [h1, parseValue_number an c (r ++ rest) f (Or.inr hdg)]
          have := scanNumber_nat n rest hd (by simpa using hp.2)
          rw [hc] at this
          simpa using this
        | negSucc m =>
          have h1 : dumpChars (.int (Int.negSucc m)) ++ rest = '-' :: (Nat.toDigits 10 (m + 1) ++ rest) := by
            rw [dumpChars, intChars_negSucc]; rfl
          rw [h1, parseValue_number an '-' _ f (Or.inl rfl)]
          have hneg : Int.negSucc m = -((m + 1 : Nat) : Int) := rfl
          have := scanNumber_neg (m + 1) rest hd (by rw [← hneg]; exact hp.1)
          rw [hneg]; exact this
    | .real t, hp, _, _, _, _ => by simp [Plain] at hp
    | .str s, hp, rest, fuel, hd, hf => by
      cases fuel with
      | zero => simp [need] at hf
      | succ f =>
        simp only [Plain] at hp
        have h1 : dumpChars (.str s) ++ rest = '"' :: (s.toList ++ '"' :: rest) := by
          rw [dumpChars, quote_plain s hp]; simp
        rw [h1]
        have hs := scanString_plain an s.toList hp [] rest ((s.toList ++ '"' :: rest).length + 1) (by simp; omega)
        simp only [parseValue, skipWs_cons '"' _ (by decide), hs]
        simp
    | .arr l, hp, rest, fuel, hd, hf => by
      cases fuel with
      | zero => simp [need] at hf
      | succ f =>
        simp only [Plain] at hp
        cases l with
        | nil => simp [dumpChars, dumpList, joinComma, parseValue, skipWs, isWs]
        | cons x r =>
          have hne : needL (x :: r) ≤ f := by simp only [need] at hf; omega
          have hx : Plain x := by simp only [PlainL] at hp; exact hp.1
          obtain ⟨c, tl, hc, hws, hnb, _⟩ := dumpChars_goodHead x hx
          -- the text after '[' starts with the first element
          have hstart : ∃ tl', joinComma (dumpList (x :: r)) ++ ']' :: rest = c :: tl' := by
            cases r with
            | nil => exact ⟨tl ++ ']' :: rest, by simp [dumpList, joinComma, hc]⟩
            | cons y r' => exact ⟨tl ++ (',' :: joinComma (dumpList (y :: r'))) ++ ']' :: rest, by simp [dumpList, joinComma, hc]⟩
          obtain ⟨tl', htl⟩ := hstart
          have h1 : dumpChars (.arr (x :: r)) ++ rest = '[' :: (joinComma (dumpList (x :: r)) ++ ']' :: rest) := by
            simp [dumpChars]
          rw [h1]
          have hel := parse_dumpL an (x :: r) (by simp) hp [] rest f hne
          simp only [parseValue, skipWs_cons '[' _ (by decide)]
          rw [htl] at hel ⊢
          simp only [skipWs_cons c tl' hws]
          split
          · rename_i heq; injection heq with e _; exact absurd e hnb
          · simpa using hel
    | .obj kvs, hp, rest, fuel, hd, hf => by
      cases fuel with
      | zero => simp [need] at hf
      | succ f =>
        simp only [Plain] at hp
        obtain ⟨hpm, hsorted⟩ := hp
        have hsk : sortKV (dumpMembers kvs) = dumpMembers kvs := sortKV_sorted _ (dumpMembers_keys_sorted kvs hsorted)
        cases kvs with
        | nil => simp [dumpChars, dumpMembers, sortKV, joinComma, parseValue, skipWs, isWs]
        | cons kv r =>
          obtain ⟨k, v⟩ := kv
          have hne : needM ((k, v) :: r) ≤ f := by simp only [need] at hf; omega
          have h1 : dumpChars (.obj ((k, v) :: r)) ++ rest =
              '{' :: (joinComma ((dumpMembers ((k, v) :: r)).map (·.2)) ++ '}' :: rest) := by
            simp [dumpChars, hsk]
          rw [h1]
          have hstart : ∃ tl', joinComma ((dumpMembers ((k, v) :: r)).map (·.2)) ++ '}' :: rest = '"' :: tl' := by
            cases r with
            | nil => exact ⟨_, by simp [dumpMembers, joinComma, quote]; rfl⟩
            | cons y r' => obtain ⟨k2, v2⟩ := y; exact ⟨_, by simp [dumpMembers, joinComma, quote]; rfl⟩
          obtain ⟨tl', htl⟩ := hstart
          have hm := parse_dumpM an ((k, v) :: r) (by simp) hpm hsorted [] rest f (by intro kv _; rfl) hne
          simp only [parseValue, skipWs_cons '{' _ (by decide)]
          rw [htl] at hm ⊢
          simp only [skipWs_cons '"' tl' (by decide)]
          simpa using hm

  theorem parse_dumpL (an : Bool) : ∀ (l : List Json), l ≠ [] → PlainL l → ∀ (acc : List Json) (rest : List Char) (fuel : Nat),
      needL l ≤ fuel →
      parseElems an acc (joinComma (dumpList l) ++ ']' :: rest) fuel = some (.arr (acc.reverse ++ l), rest)
    | [], hne, _, _, _, _, _ => absurd rfl hne
    | [x], _, hp, acc, rest, fuel, hf => by
      cases fuel with
      | zero => simp [needL] at hf
      | succ f =>
        simp only [PlainL] at hp
        have hv := parse_dump an x hp.1 (']' :: rest) f (delim_rbrack rest) (by simp only [needL] at hf; omega)
        simp only [dumpList, joinComma, parseElems, hv, skipWs_cons ']' rest (by decide)]
        simp
    | x :: y :: r, _, hp, acc, rest, fuel, hf => by
      cases fuel with
      | zero => simp [needL] at hf
      | succ f =>
        simp only [PlainL] at hp
        have h1 : joinComma (dumpList (x :: y :: r)) ++ ']' :: rest =
            dumpChars x ++ (',' :: (joinComma (dumpList (y :: r)) ++ ']' :: rest)) := by
          simp [dumpList, joinComma]
        have hv := parse_dump an x hp.1 (',' :: (joinComma (dumpList (y :: r)) ++ ']' :: rest)) f (delim_comma _)
          (by simp only [needL] at hf ⊢; omega)
        have hrest := parse_dumpL an (y :: r) (by simp) (by simpa [PlainL] using hp.2) (x :: acc) rest f
          (by simp only [needL] at hf ⊢; omega)
        rw [h1]
        simp only [parseElems, hv, skipWs_cons ',' _ (by decide), hrest]
        simp

  theorem parse_dumpM (an : Bool) : ∀ (kvs : List (String × Json)), kvs ≠ [] → PlainM kvs → SortedKeys kvs →
      ∀ (acc : List (String × Json)) (rest : List Char) (fuel : Nat),
      (∀ kv ∈ kvs, lookup kv.1 acc = none) → needM kvs ≤ fuel →
      parseMembers an acc (joinComma ((dumpMembers kvs).map (·.2)) ++ '}' :: rest) fuel = some (.obj (acc ++ kvs), rest)
    | [], hne, _, _, _, _, _, _, _ => absurd rfl hne
    | [(k, v)], _, hp, _, acc, rest, fuel, hacc, hf => by
      cases fuel with
      | zero => simp [needM] at hf
      | succ f =>
        simp only [PlainM] at hp
        have hv := parse_dump an v hp.2.1 ('}' :: rest) f (delim_rbrace rest) (by simp only [needM] at hf; omega)
        have h1 : joinComma ((dumpMembers [(k, v)]).map (·.2)) ++ '}' :: rest =
            '"' :: (k.toList ++ '"' :: ':' :: (dumpChars v ++ '}' :: rest)) := by
          simp [dumpMembers, joinComma, quote_plain k hp.1]
        have hs := scanString_plain an k.toList hp.1 [] (':' :: (dumpChars v ++ '}' :: rest))
          ((k.toList ++ '"' :: ':' :: (dumpChars v ++ '}' :: rest)).length + 1) (by simp; omega)
        have hk : lookup k acc = none := hacc (k, v) (by simp)
        rw [h1]
        simp only [parseMembers, skipWs_cons '"' _ (by decide), hs, skipWs_cons ':' _ (by decide), hv,
          skipWs_cons '}' rest (by decide)]
        simp [setKV_append k v acc hk]
    | (k, v) :: (k2, v2) :: r, _, hp, hs, acc, rest, fuel, hacc, hf => by
      cases fuel with
      | zero => simp [needM] at hf
      | succ f =>
        simp only [PlainM] at hp
        have hk : lookup k acc = none := hacc (k, v) (by simp)
        have htail := parse_dumpM an ((k2, v2) :: r) (by simp) (by simpa [PlainM] using hp.2.2) (List.Pairwise.of_cons hs)
          (acc ++ [(k, v)]) rest f
          (by
            intro kv hkv
            have hlt : k < kv.1 := (List.pairwise_cons.mp hs).1 kv hkv
            have hne : k ≠ kv.1 := fun e => by rw [e] at hlt; exact absurd hlt (String.lt_irrefl _)
            exact lookup_append_none kv.1 acc [(k, v)] (hacc kv (by simp [hkv])) (by simp [lookup, hne]))
          (by simp only [needM] at hf ⊢; omega)
        have hv := parse_dump an v hp.2.1 (',' :: (joinComma ((dumpMembers ((k2, v2) :: r)).map (·.2)) ++ '}' :: rest)) f
          (delim_comma _) (by simp only [needM] at hf ⊢; omega)
        have h1 : joinComma ((dumpMembers ((k, v) :: (k2, v2) :: r)).map (·.2)) ++ '}' :: rest =
            '"' :: (k.toList ++ '"' :: ':' :: (dumpChars v ++ (',' :: (joinComma ((dumpMembers ((k2, v2) :: r)).map (·.2)) ++ '}' :: rest)))) := by
          simp [dumpMembers, joinComma, quote_plain k hp.1]
        have hsc := scanString_plain an k.toList hp.1 []
          (':' :: (dumpChars v ++ (',' :: (joinComma ((dumpMembers ((k2, v2) :: r)).map (·.2)) ++ '}' :: rest))))
          ((k.toList ++ '"' :: ':' :: (dumpChars v ++ (',' :: (joinComma ((dumpMembers ((k2, v2) :: r)).map (·.2)) ++ '}' :: rest)))).length + 1)
          (by simp; omega)
        rw [h1]
        simp only [parseMembers, skipWs_cons '"' _ (by decide), hsc, skipWs_cons ':' _ (by decide), hv,
          skipWs_cons ',' _ (by decide)]
        simp only [List.reverse_nil, List.nil_append, String.ofList_toList]
        rw [setKV_append k v acc hk, htail]
        simp
end


/-! ### enough fuel: the text is at least as long as the fuel needed -/

theorem joinComma_cons2 (x y : List Char) (r : List (List Char)) :
    (joinComma (x :: y :: r)).length = x.length + 1 + (joinComma (y :: r)).length := by
  simp [joinComma]; omega

mutual
  theorem need_le : ∀ (j : Json), Plain j → need j ≤ (dumpChars j).length
    | .null, _ => by simp [need, dumpChars]
    | .bool b, _ => by cases b <;> simp [need, dumpChars]
    | .int i, _ => by
      cases i with
      | ofNat n =>
        obtain ⟨c, r, hc, _⟩ := toDigits_cons n
        simp only [need, dumpChars]
        rw [intChars_ofNat, hc]; simp
      | negSucc m => simp [need, dumpChars, intChars_negSucc]
    | .real t, hp => by simp [Plain] at hp
    | .str s, _ => by simp [need, dumpChars, quote]
    | .arr l, hp => by
      simp only [Plain] at hp
      have := needL_le l hp
      simp only [need, dumpChars, List.length_cons, List.length_append, List.length_singleton]
      omega
    | .obj kvs, hp => by
      simp only [Plain] at hp
      have hsk : sortKV (dumpMembers kvs) = dumpMembers kvs := sortKV_sorted _ (dumpMembers_keys_sorted kvs hp.2)
      have := needM_le kvs hp.1
      simp only [need, dumpChars, hsk, List.length_cons, List.length_append, List.length_singleton]
      omega
  theorem needL_le : ∀ (l : List Json), PlainL l → needL l ≤ (joinComma (dumpList l)).length + 1
    | [], _ => by simp [needL]
    | [x], hp => by
      simp only [PlainL] at hp
      have := need_le x hp.1
      simp only [needL, dumpList, joinComma]
      omega
    | x :: y :: r, hp => by
      simp only [PlainL] at hp
      have h1 := need_le x hp.1
      have h2 := needL_le (y :: r) (by simpa [PlainL] using hp.2)
      simp only [needL, dumpList, joinComma_cons2] at h2 ⊢
      omega
  theorem needM_le : ∀ (kvs : List (String × Json)), PlainM kvs →
      needM kvs ≤ (joinComma ((dumpMembers kvs).map (·.2))).length + 1
    | [], _ => by simp [needM]
    | [(k, v)], hp => by
      simp only [PlainM] at hp
      have := need_le v hp.2.1
      simp only [needM, dumpMembers, List.map_cons, List.map_nil, joinComma, List.length_append, List.length_cons]
      omega
    | (k, v) :: (k2, v2) :: r, hp => by
      simp only [PlainM] at hp
      have h1 := need_le v hp.2.1
      have h2 := needM_le ((k2, v2) :: r) (by simpa [PlainM] using hp.2.2)
      simp only [needM, dumpMembers, List.map_cons, joinComma_cons2, List.length_append, List.length_cons] at h2 ⊢
      omega
end

/-- **`json_loadb` reads back what the compact sorted dump wrote**, character level -/
theorem loadChars_dumpChars (fl : LoadFlags) (j : Json) (hp : Plain j) (hs : fl.decodeAny = true ∨ j.isObject = true ∨ j.isArray = true) :
    loadChars fl (dumpChars j) = some (j, []) := by
  obtain ⟨c, tl, hc, hws, _, _⟩ := dumpChars_goodHead j hp
  have hsk : skipWs (dumpChars j) = dumpChars j := by rw [hc]; exact skipWs_cons c tl hws
  have hparse := parse_dump fl.allowNul j hp [] ((dumpChars j).length + 2) (Or.inl rfl) (by have := need_le j hp; omega)
  simp only [List.append_nil] at hparse
  have hstart : (fl.decodeAny || startsContainer (dumpChars j)) = true := by
    rcases hs with h | h | h
    · simp [h]
    · cases j <;> simp [Json.isObject] at h
      simp [dumpChars, startsContainer]
    · cases j <;> simp [Json.isArray] at h
      simp [dumpChars, startsContainer]
  unfold loadChars
  simp only [hsk, hstart, Bool.not_true, Bool.false_eq_true, if_false, hparse]
  cases fl.disableEofCheck <;> simp [skipWs]

theorem loadString_dump (fl : LoadFlags) (j : Json) (hp : Plain j) (hs : fl.decodeAny = true ∨ j.isObject = true ∨ j.isArray = true) :
    loadString fl (dump j) = some j := by
  simp [loadString, dump, String.toList_ofList, loadChars_dumpChars fl j hp hs]

end Jose.Json

/-! ### bytes, UTF-8 and base64url around the JSON text -/

namespace Jose.B64
open Jose Jose.Json

theorem natsToByteArray_bytesOfString (s : String) : natsToByteArray (bytesOfString s) = s.toUTF8 := by
  simp only [natsToByteArray, bytesOfString, List.map_map]
  have : (fun n => UInt8.ofNat n) ∘ (fun (x : UInt8) => x.toNat) = id := by
    funext x; simp
  rw [this, List.map_id]

theorem fromUTF8_toUTF8 (s : String) : String.fromUTF8? s.toByteArray = some s := by
  simp only [String.fromUTF8?]
  have h : s.toByteArray.IsValidUTF8 := s.isValidUTF8
  simp only [h, dite_true]
  rfl

theorem loadBytes_bytesOfString (fl : LoadFlags) (s : String) :
    Json.loadBytes fl (natsToByteArray (bytesOfString s)) = Json.loadString fl s := by
  simp only [Json.loadBytes, natsToByteArray_bytesOfString, String.toUTF8_eq_toByteArray, fromUTF8_toUTF8]



theorem bytesOfString_bytes (s : String) : Bytes (bytesOfString s) := by
  intro x hx
  simp only [bytesOfString, List.mem_map] at hx
  obtain ⟨u, _, rfl⟩ := hx
  exact u.toNat_lt


end Jose.B64
