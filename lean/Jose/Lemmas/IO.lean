import Jose.IO
import Jose.Lemmas.B64
/-
  Helper lemmas for C07: the streaming base64 codecs deliver, over any chunking,
  exactly what the one-shot functions return; multiplexer and sink facts.
-/
set_option linter.unusedSimpArgs false
set_option linter.unusedVariables false

namespace Jose
namespace IO
open B64

/-! ## block-wise composition of the one-shot codecs -/

theorem encS_append (a b : List Nat) (h : a.length % 3 = 0) : encS (a ++ b) = encS a ++ encS b := by
  fun_induction encS a with
  | case1 => simp [encS]
  | case2 x => simp at h
  | case3 x y => simp at h
  | case4 x y z r ih =>
    have hr : r.length % 3 = 0 := by simp only [List.length_cons] at h; omega
    simp [encS, ih hr]

theorem encChars_append (a b : List Nat) (h : a.length % 3 = 0) :
    encChars (a ++ b) = encChars a ++ encChars b := by
  simp [encChars_eq, encS_append a b h]

theorem decS_append (a b : List Nat) (h : a.length % 4 = 0) :
    decS (a ++ b) = (decS a).bind (fun da => (decS b).map (da ++ ·)) := by
  fun_induction decS a with
  | case1 => cases hb : decS b <;> simp [decS, hb]
  | case2 x => simp at h
  | case3 x y _ => simp at h
  | case4 x y _ => simp at h
  | case5 x y z _ => simp at h
  | case6 x y z _ => simp at h
  | case7 x y z w r ih =>
    have hr : r.length % 4 = 0 := by simp only [List.length_cons] at h; omega
    simp only [List.cons_append, decS, ih hr]
    cases decS r with
    | none => simp
    | some dr => cases decS b <;> simp

theorem idxAll_append (a b : List Nat) :
    idxAll (a ++ b) = (idxAll a).bind (fun sa => (idxAll b).map (sa ++ ·)) := by
  induction a with
  | nil => cases hb : idxAll b <;> simp [idxAll, hb]
  | cons c r ih =>
    simp only [List.cons_append, idxAll, ih]
    cases mapIdx c with
    | none => simp
    | some v =>
      cases idxAll r with
      | none => simp
      | some sr => cases idxAll b <;> simp

/-- decoding an aligned prefix and the rest separately -/
theorem decode_append (a b : List Nat) (h : a.length % 4 = 0) :
    decode (a ++ b) = (decode a).bind (fun da => (decode b).map (da ++ ·)) := by
  simp only [decode_eq_decRef, decRef, idxAll_append]
  cases ha : idxAll a with
  | none => simp
  | some sa =>
    have hl : sa.length % 4 = 0 := by rw [idxAll_length a sa ha]; exact h
    cases hb : idxAll b with
    | none => cases hsa : decS sa <;> simp [hsa]
    | some sb => simp [decS_append sa sb hl]

theorem decode_nil : decode [] = some [] := by decide

/-! ## the staging loops -/

theorem encBlk_pos : 3 ≤ encBlk := by decide
theorem decBlk_pos : 4 ≤ decBlk := by decide

theorem encBlocks_spec (fuel : Nat) (buf x : List Nat) (hb : buf.length < 3) (hf : x.length < fuel) :
    ∃ q, q.length % 3 = 0 ∧ q ++ (encBlocks fuel buf x).2 = buf ++ x ∧
      (encBlocks fuel buf x).1.flatten = encChars q ∧ (encBlocks fuel buf x).2.length < 3 := by
  induction fuel generalizing buf x with
  | zero => omega
  | succ fuel ih =>
    simp only [encBlocks]
    by_cases hx : x.isEmpty = true
    · simp only [hx, if_true]
      have : x = [] := by simpa using hx
      subst this
      exact ⟨[], by simp, by simp, by decide, hb⟩
    · have hx' : x.isEmpty = false := by simpa using hx
      simp only [hx', Bool.false_eq_true, ↓reduceIte]
      have hxl : 0 < x.length := by
        cases x with
        | nil => simp at hx
        | cons _ _ => simp
      have hblk := encBlk_pos
      generalize hk : min (encBlk - buf.length) x.length = k
      have hk1 : 1 ≤ k := by omega
      have hkx : k ≤ x.length := by omega
      generalize hbuf1 : buf ++ List.take k x = buf1
      generalize hn : buf1.length - buf1.length % 3 = n
      have hnle : n ≤ buf1.length := by omega
      have hn3 : n % 3 = 0 := by omega
      have hdrop : (buf1.drop n).length < 3 := by simp only [List.length_drop]; omega
      have hxd : (x.drop k).length < fuel := by simp only [List.length_drop]; omega
      have htl : (buf1.take n).length % 3 = 0 := by simp only [List.length_take]; omega
      have hwhole : buf1.take n ++ (buf1.drop n ++ x.drop k) = buf ++ x := by
        rw [← List.append_assoc, List.take_append_drop, ← hbuf1, List.append_assoc, List.take_append_drop]
      obtain ⟨q, hq3, hq1, hq2, hq4⟩ := ih (buf1.drop n) (x.drop k) hdrop hxd
      refine ⟨buf1.take n ++ q, by simp only [List.length_append]; omega, ?_, ?_, hq4⟩
      · rw [List.append_assoc, hq1]; exact hwhole
      · simp only [List.flatten_cons, hq2]
        exact (encChars_append _ _ htl).symm

/-- the decoder's staging loop: decodes aligned blocks of `buf ++ x` -/
theorem decBlocks_spec (fuel : Nat) (buf x : List Nat) (hb : buf.length < 4) (hf : x.length < fuel) :
    ∃ p, (p.length % 4 = 0) ∧
      ((decBlocks fuel buf x).2.2 = true →
          p ++ (decBlocks fuel buf x).2.1 = buf ++ x ∧ (decBlocks fuel buf x).2.1.length < 4 ∧
          decode p = some (decBlocks fuel buf x).1.flatten) ∧
      ((decBlocks fuel buf x).2.2 = false → ∃ r, p ++ r = buf ++ x ∧ decode p = none) := by
  induction fuel generalizing buf x with
  | zero => omega
  | succ fuel ih =>
    simp only [decBlocks]
    by_cases hx : x.isEmpty = true
    · simp only [hx, if_true]
      have : x = [] := by simpa using hx
      subst this
      exact ⟨[], by simp, fun _ => ⟨by simp, hb, decode_nil⟩, fun h => by simp at h⟩
    · have hx' : x.isEmpty = false := by simpa using hx
      simp only [hx', Bool.false_eq_true, ↓reduceIte]
      have hxl : 0 < x.length := by
        cases x with
        | nil => simp at hx
        | cons _ _ => simp
      have hblk := decBlk_pos
      generalize hk : min (decBlk - buf.length) x.length = k
      have hk1 : 1 ≤ k := by omega
      have hkx : k ≤ x.length := by omega
      generalize hbuf1 : buf ++ List.take k x = buf1
      generalize hn : buf1.length - buf1.length % 4 = n
      have hnle : n ≤ buf1.length := by omega
      have hn4 : n % 4 = 0 := by omega
      have htl : (buf1.take n).length % 4 = 0 := by simp only [List.length_take]; omega
      have hwhole : buf1.take n ++ (buf1.drop n ++ x.drop k) = buf ++ x := by
        rw [← List.append_assoc, List.take_append_drop, ← hbuf1, List.append_assoc, List.take_append_drop]
      cases hd : decode (buf1.take n) with
      | none =>
        simp only
        exact ⟨buf1.take n, htl, fun h => by simp at h, fun _ => ⟨_, hwhole, hd⟩⟩
      | some d =>
        simp only
        have hdrop : (buf1.drop n).length < 4 := by simp only [List.length_drop]; omega
        have hxd : (x.drop k).length < fuel := by simp only [List.length_drop]; omega
        obtain ⟨p, hp4, hok, hbad⟩ := ih (buf1.drop n) (x.drop k) hdrop hxd
        refine ⟨buf1.take n ++ p, by simp only [List.length_append]; omega, ?_, ?_⟩
        · intro h
          obtain ⟨h1, h2, h3⟩ := hok h
          refine ⟨?_, h2, ?_⟩
          · rw [List.append_assoc, h1]; exact hwhole
          · simp only [List.flatten_cons]
            rw [decode_append _ _ htl, hd]; simp [h3]
        · intro h
          obtain ⟨r, h1, h2⟩ := hbad h
          refine ⟨r, ?_, ?_⟩
          · rw [List.append_assoc, h1]; exact hwhole
          · rw [decode_append _ _ htl, hd]; simp [h2]

/-! ## sinks -/

theorem loopFeeds_sink (d : List Nat) (bs : List (List Nat)) :
    loopFeeds (feed .sink) (.sink d) bs = (.sink (d ++ bs.flatten), true) := by
  induction bs generalizing d with
  | nil => simp [loopFeeds]
  | cons b r ih => simp [loopFeeds, feed, ih]

end IO
end Jose
