import Jose.Entity
import Jose.Lemmas.Json
/-
  Lemmas for C16: the layout of an object under `add_entity`.
-/
set_option linter.unusedSimpArgs false
set_option linter.unusedVariables false

namespace Jose
namespace Entity
open Json

/-- the listed members present at top level, in the order of `keys` -/
def topMembers (keys : List String) (kvs : List (String × Json)) : List (String × Json) :=
  keys.filterMap (fun k => (lookup k kvs).map (fun v => (k, v)))

/-- the entries an object holds, in order: `[]` (none), one flattened entry (its
    listed members), or the list; `none` when the object is in no RFC form (list
    not an array, or listed members next to a non-empty list).  An empty list is
    treated as absent. -/
def entriesOf (plural : String) (keys : List String) (root : Json) : Option (List Json) :=
  match root with
  | .obj kvs =>
    let top := fun (l : List (String × Json)) => if topMembers keys l = [] then some [] else some [Json.obj (topMembers keys l)]
    match lookup plural kvs with
    | none => top kvs
    | some (.arr []) => top (delKV plural kvs)
    | some (.arr l) => if topMembers keys kvs = [] then some l else none
    | some _ => none
  | _ => none

/-- what an entry contributes as a flattened entry: its listed members -/
def view (keys : List String) (e : Json) : Json :=
  match e with
  | .obj kvs => .obj (topMembers keys kvs)
  | x => x

theorem lookup_none_of_not_mem (k : String) (l : List (String × Json)) (h : k ∉ l.map Prod.fst) : lookup k l = none := by
  induction l with
  | nil => rfl
  | cons x r ih =>
    obtain ⟨k', v'⟩ := x
    simp only [List.map_cons, List.mem_cons, not_or] at h
    simp [lookup, Ne.symm h.1, ih h.2]

/-- `json_object_update` on key-unique member lists: the updating object's members win -/
theorem lookup_updateKV (a b : List (String × Json)) (k : String) (hb : (b.map Prod.fst).Nodup) :
    lookup k (updateKV a b) = (lookup k b).orElse (fun _ => lookup k a) := by
  induction b generalizing a with
  | nil => simp [updateKV]
  | cons x r ih =>
    obtain ⟨k', v'⟩ := x
    simp only [List.map_cons, List.nodup_cons] at hb
    have := ih (setKV k' v' a) hb.2
    simp only [updateKV, List.foldl_cons] at this ⊢
    rw [this]
    by_cases hk : k' = k
    · subst hk
      rw [lookup_none_of_not_mem k' r hb.1]
      simp [lookup, lookup_setKV_same]
    · have hk2 : k ≠ k' := fun h => hk h.symm
      simp [lookup, hk, lookup_setKV_other k' k v' a hk2]

theorem topMembers_eq_nil (keys : List String) (kvs : List (String × Json)) :
    topMembers keys kvs = [] ↔ ∀ k ∈ keys, lookup k kvs = none := by
  simp only [topMembers, List.filterMap_eq_nil_iff, Option.map_eq_none_iff]

theorem topMembers_congr (keys : List String) (a b : List (String × Json)) (h : ∀ k ∈ keys, lookup k a = lookup k b) :
    topMembers keys a = topMembers keys b := by
  simp only [topMembers]
  induction keys with
  | nil => rfl
  | cons k r ih =>
    simp only [List.filterMap_cons]
    rw [h k (by simp), ih (fun k' hk' => h k' (by simp [hk']))]

/-- `present.filterMap lookup` is the list of top members -/
theorem moved_eq_topMembers (keys : List String) (kvs : List (String × Json)) :
    (keys.filter (fun k => (lookup k kvs).isSome)).filterMap (fun k => (lookup k kvs).map (fun v => (k, v)))
      = topMembers keys kvs := by
  simp only [topMembers]
  induction keys with
  | nil => rfl
  | cons k r ih =>
    simp only [List.filter_cons]
    cases hk : lookup k kvs with
    | none => simp [hk, ih]
    | some v => simp [hk, ih]

theorem present_nil_iff (keys : List String) (kvs : List (String × Json)) :
    (keys.filter (fun k => (lookup k kvs).isSome)).isEmpty = true ↔ topMembers keys kvs = [] := by
  rw [topMembers_eq_nil]
  simp only [List.isEmpty_iff, List.filter_eq_nil_iff]
  constructor
  · intro h k hk
    have := h k hk
    cases hl : lookup k kvs <;> simp_all
  · intro h k hk
    simp [h k hk]

end Entity
end Jose
