import Jose.Jwe
/- what the PBES2 parameter guards of the model let through (used by C02, C10, C14) -/
namespace Jose.Jwe
open Tables Jws

theorem toInt32_small (v : Int) (h1 : 1 ≤ v) (h2 : v ≤ p2cMax) : Gen.toInt32 v = v := by
  have : p2cMax = 32768 := by decide
  unfold Gen.toInt32
  simp only
  split <;> omega

/-- unwrap: the parameters exist only for a JSON integer count within 1..max and a salt of
    8..KEYMAX bytes; the count handed on is that integer itself (narrowing is the identity there) -/
theorem pbes2UnwParams_some (hdr : Json) (it : Int) (st : Bs) (h : pbes2UnwParams hdr = some (it, st)) :
    ∃ p2c, hdr.get? "p2c" = some (.int p2c) ∧ 1 ≤ p2c ∧ p2c ≤ p2cMax ∧ it = p2c ∧
      bytesOfJson (hdr.get? "p2s") = some st ∧ 8 ≤ st.length ∧ st.length ≤ keymax := by
  unfold pbes2UnwParams at h
  cases hp : hdr.get? "p2c" with
  | none => simp [hp] at h
  | some pj =>
    cases pj with
    | int p2c =>
      simp only [hp] at h
      split at h
      · simp at h
      · rename_i hr
        cases hst : bytesOfJson (hdr.get? "p2s") with
        | none => simp [hst] at h
        | some st' =>
          simp only [hst] at h
          split at h
          · simp at h
          · rename_i hlen
            simp only [Option.some.injEq, Prod.mk.injEq] at h
            simp only [Bool.or_eq_true, decide_eq_true_eq, not_or, Nat.not_lt, Int.not_lt] at hlen hr
            obtain ⟨rfl, rfl⟩ := h
            exact ⟨p2c, rfl, hr.1, hr.2, toInt32_small p2c hr.1 hr.2, rfl, hlen.1, by omega⟩
    | _ => simp [hp] at h

theorem pbes2UnwParams_refuses_large (hdr : Json) (p2c : Int) (hp : hdr.get? "p2c" = some (.int p2c))
    (h : p2c > p2cMax ∨ p2c < 1) : pbes2UnwParams hdr = none := by
  unfold pbes2UnwParams
  simp only [hp]
  split
  · rfl
  · rename_i hr
    simp only [Bool.or_eq_true, decide_eq_true_eq, not_or, Int.not_lt] at hr
    omega

/-- wrap: the count used is the header's own 64-bit integer (or the maximum when absent) and lies
    within min..max -/
theorem pbes2WrpIter_some (hdr : Json) (n : Int) (h : pbes2WrpIter hdr = some n) :
    p2cMin ≤ n ∧ n ≤ p2cMax ∧
    ((hdr.get? "p2c" = some (.int n)) ∨ (Gen.optInt hdr "p2c" = some none ∧ n = p2cMax)) := by
  unfold pbes2WrpIter at h
  cases ho : Gen.optInt hdr "p2c" with
  | none => simp [ho] at h
  | some v =>
    cases v with
    | none =>
      simp only [ho, Option.bind_some] at h
      split at h
      · simp at h
      · rename_i hr
        simp only [Bool.or_eq_true, decide_eq_true_eq, not_or, Int.not_lt] at hr
        simp only [Option.some.injEq] at h
        subst h
        exact ⟨hr.1, hr.2, Or.inr ⟨rfl, rfl⟩⟩
    | some w =>
      simp only [ho, Option.bind_some] at h
      split at h
      · simp at h
      · rename_i hr
        simp only [Bool.or_eq_true, decide_eq_true_eq, not_or, Int.not_lt] at hr
        simp only [Option.some.injEq] at h
        subst h
        refine ⟨hr.1, hr.2, Or.inl ?_⟩
        unfold Gen.optInt at ho
        cases hdr with
        | obj kvs =>
          simp only at ho
          cases hl : Json.lookup "p2c" kvs with
          | none => simp [hl] at ho
          | some j =>
            cases j <;> simp [hl] at ho
            subst ho
            simp [Json.get?, hl]
        | _ => simp at ho

end Jose.Jwe
