import Jose.Json
import Jose.JsonParse
import Jose.B64
/-
  Model of cmd/fmt.c: `jose fmt` as a stack machine over JSON values with jansson's
  sharing (arrays and objects are mutable nodes with identity; `-g` pushes an alias,
  `-c` and `-Q` deep-copy, `-s` `-a` `-x` `-i` store aliases; cycles are constructible and make
  dump / deep copy fail as in jansson 2.14).
-/
namespace Jose
namespace Fmt

/-- a JSON value as jansson holds it: scalars by value, containers by reference -/
inductive Val where
  | null
  | bool (b : Bool)
  | int (i : Int)
  | real (t : String)
  | str (s : String)
  | ref (id : Nat)
  deriving DecidableEq, Repr, Inhabited

inductive Node where
  | arr (l : List Val)
  | obj (kvs : List (String × Val))
  deriving Repr, Inhabited

abbrev Heap := List Node

def Heap.get? (h : Heap) (id : Nat) : Option Node := h[id]?

def Heap.set (h : Heap) (id : Nat) (n : Node) : Heap := List.set h id n

/-! ### conversions -/

mutual
  /-- allocate a pure JSON value -/
  def alloc : Heap → Json → Heap × Val
    | h, .null => (h, .null)
    | h, .bool b => (h, .bool b)
    | h, .int i => (h, .int i)
    | h, .real t => (h, .real t)
    | h, .str s => (h, .str s)
    | h, .arr l =>
      let (h1, vs) := allocList h l
      (h1 ++ [.arr vs], .ref h1.length)
    | h, .obj kvs =>
      let (h1, ms) := allocMembers h kvs
      (h1 ++ [.obj ms], .ref h1.length)
  def allocList : Heap → List Json → Heap × List Val
    | h, [] => (h, [])
    | h, x :: r =>
      let (h1, v) := alloc h x
      let (h2, vs) := allocList h1 r
      (h2, v :: vs)
  def allocMembers : Heap → List (String × Json) → Heap × List (String × Val)
    | h, [] => (h, [])
    | h, (k, x) :: r =>
      let (h1, v) := alloc h x
      let (h2, ms) := allocMembers h1 r
      (h2, (k, v) :: ms)
end

/-- read a value back as pure JSON; `none` when a cycle is met (fuel = nesting budget) -/
def toJson (h : Heap) : Nat → Val → Option Json
  | _, .null => some .null
  | _, .bool b => some (.bool b)
  | _, .int i => some (.int i)
  | _, .real t => some (.real t)
  | _, .str s => some (.str s)
  | 0, .ref _ => none
  | fuel + 1, .ref id =>
    match h.get? id with
    | some (.arr l) => (l.mapM (toJson h fuel)).map .arr
    | some (.obj kvs) => (kvs.mapM (fun kv => (toJson h fuel kv.2).map (fun j => (kv.1, j)))).map .obj
    | none => none

/-- `json_dumps(.., JSON_ENCODE_ANY|JSON_COMPACT|JSON_SORT_KEYS)` (fails on circular references) -/
def dumpVal (h : Heap) (v : Val) : Option String := (toJson h (h.length + 1) v).map Json.dump

/-- `json_deep_copy` (NULL on circular references) -/
def deepCopy (h : Heap) (v : Val) : Option (Heap × Val) := (toJson h (h.length + 1) v).map (alloc h)

/-! ### options -/

inductive Opt where
  | not_                       -- -X
  | assert (c : Char)          -- -O -A -S -I -R -N -T -F -B -0 -E
  | query                      -- -Q
  | move (n : Int)             -- -M #
  | unwind                     -- -U
  | json (v : Json)            -- -j
  | copy                       -- -c
  | quote (s : String)         -- -q
  | output (f : String)        -- -o
  | foreach (f : String)       -- -f
  | unquote (f : String)       -- -u
  | trunc (n : Int)            -- -t
  | insert (n : Int)           -- -i
  | append                     -- -a
  | extend                     -- -x
  | delete (s : String)        -- -d
  | length                     -- -l
  | empty                      -- -e
  | get (s : String)           -- -g
  | set (s : String)           -- -s
  | b64dump                    -- -Y
  | b64load                    -- -y
  deriving Repr, Inhabited

structure State where
  heap : Heap := []
  stack : List Val := []       -- TOP first
  out : List (String × String) := []   -- (file, text) in the order written ("-" = stdout)
  deriving Repr, Inhabited

/-- `sscanf(arg, "%zd", ..)`: optional blanks, optional sign, at least one digit, rest ignored -/
def scanInt (s : String) : Option Int :=
  let cs := s.toList.dropWhile (fun c => c = ' ' || c = '\t' || c = '\n')
  let (neg, ds) := match cs with
    | '-' :: r => (true, r)
    | '+' :: r => (false, r)
    | r => (false, r)
  let digits := ds.takeWhile Char.isDigit
  if digits.isEmpty then none
  else
    let n : Nat := digits.foldl (fun (a : Nat) c => a * 10 + (c.toNat - 48)) 0
    some (if neg then -(Int.ofNat n) else Int.ofNat n)

/-- `convert_int(arr, arg)`: negative indices count from the end; still negative → SIZE_MAX -/
def convertInt (size : Nat) (arg : String) : Option Nat :=
  match scanInt arg with
  | none => none
  | some i =>
    let j : Int := if i < 0 then i + (size : Int) else i
    if j < 0 then none else some j.toNat

def isContainerRef (h : Heap) : Val → Option (Nat × Node)
  | .ref id => (h.get? id).map (fun n => (id, n))
  | _ => none

/-- `json_equal` on heap values (fuel guards against circular values) -/
def equalVal (h : Heap) (a b : Val) : Bool :=
  match toJson h (h.length + 1) a, toJson h (h.length + 1) b with
  | some x, some y => Json.equal x y
  | _, _ => false

def typeAssert (h : Heap) (c : Char) (cur lst : Option Val) : Bool :=
  let isArr := match cur.bind (isContainerRef h) with | some (_, .arr _) => true | _ => false
  let isObj := match cur.bind (isContainerRef h) with | some (_, .obj _) => true | _ => false
  match c with
  | 'O' => isObj
  | 'A' => isArr
  | 'S' => (match cur with | some (.str _) => true | _ => false)
  | 'I' => (match cur with | some (.int _) => true | _ => false)
  | 'R' => (match cur with | some (.real _) => true | _ => false)
  | 'N' => (match cur with | some (.int _) => true | some (.real _) => true | _ => false)
  | 'T' => (match cur with | some (.bool true) => true | _ => false)
  | 'F' => (match cur with | some (.bool false) => true | _ => false)
  | 'B' => (match cur with | some (.bool _) => true | _ => false)
  | '0' => (match cur with | some .null => true | _ => false)
  | 'E' => (match cur, lst with | some a, some b => equalVal h a b | _, _ => false)
  | _ => false

def insertAt {α : Type} (l : List α) (i : Nat) (x : α) : Option (List α) :=
  if i ≤ l.length then some (l.take i ++ x :: l.drop i) else none

/-- one option that is not `-X` / an assertion; `none` = the option fails -/
def exec (st : State) (o : Opt) : Option State :=
  let cur := st.stack.head?
  let lst := st.stack.tail.head?
  let h := st.heap
  match o with
  | .query =>
    -- deep copy of the stack itself (a JSON array of aliases)
    (st.stack.mapM (toJson h (h.length + 1))).map fun js =>
      let (h1, v) := alloc h (.arr js)
      { st with heap := h1, stack := v :: st.stack }
  | .move n =>
    (match cur with
     | none => none
     | some c =>
       if n < 0 || n ≥ st.stack.length then none
       else (insertAt st.stack (n + 1).toNat c).map fun s => { st with stack := s.tail })
  | .unwind => (match st.stack with | [] => none | _ :: r => some { st with stack := r })
  | .json v => let (h1, x) := alloc h v; some { st with heap := h1, stack := x :: st.stack }
  | .copy => cur.bind fun c => (deepCopy h c).map fun (h1, v) => { st with heap := h1, stack := v :: st.stack }
  | .quote s => some { st with stack := .str s :: st.stack }
  | .output f => cur.bind fun c => (dumpVal h c).map fun t => { st with out := st.out ++ [(f, t)] }
  | .foreach f =>
    (match cur.bind (isContainerRef h) with
     | some (_, .arr l) =>
       (l.mapM (dumpVal h)).map fun ts => { st with out := st.out ++ [(f, String.join (ts.map (· ++ "\n")))] }
     | some (_, .obj kvs) =>
       (kvs.mapM (fun kv => (dumpVal h kv.2).map (fun t => kv.1 ++ "=" ++ t ++ "\n"))).map fun ts =>
         { st with out := st.out ++ [(f, String.join ts)] }
     | none => none)
  | .unquote f => (match cur with | some (.str s) => some { st with out := st.out ++ [(f, s ++ "\n")] } | _ => none)
  | .trunc n =>
    -- TOP must be an array; `#` shrinks it to that length, `-#` discards the last # items
    (match cur.bind (isContainerRef h) with
     | some (id, .arr l) =>
       let k : Int := if n < 0 then n + (l.length : Int) else n
       if k < 0 then none
       else some { st with heap := h.set id (.arr (l.take k.toNat)) }
     | _ => none)
  | .insert n =>
    (match cur, lst.bind (isContainerRef h) with
     | some c, some (id, .arr l) =>
       if c = .ref id || n < 0 then none
       else (insertAt l n.toNat c).map fun l' => { st with heap := h.set id (.arr l') }
     | _, _ => none)
  | .append =>
    (match cur, lst.bind (isContainerRef h) with
     | some c, some (id, .arr l) => if c = .ref id then none else some { st with heap := h.set id (.arr (l ++ [c])) }
     | some c, some (id, .obj kvs) =>
       (match isContainerRef h c with
        | some (_, .obj ckvs) =>
          some { st with heap := h.set id (.obj (ckvs.foldl (fun acc kv =>
            if (acc.lookup kv.1).isSome then acc else acc ++ [kv]) kvs)) }
        | _ => none)
     | _, _ => none)
  | .extend =>
    (match cur, lst.bind (isContainerRef h) with
     | some c, some (id, .arr l) =>
       (match isContainerRef h c with
        | some (_, .arr cl) => some { st with heap := h.set id (.arr (l ++ cl)) }
        | _ => none)
     | some c, some (id, .obj kvs) =>
       (match isContainerRef h c with
        | some (_, .obj ckvs) =>
          some { st with heap := h.set id (.obj (ckvs.foldl (fun acc kv =>
            if (acc.lookup kv.1).isSome then acc.map (fun p => if p.1 = kv.1 then kv else p) else acc ++ [kv]) kvs)) }
        | _ => none)
     | _, _ => none)
  | .delete s =>
    (match cur.bind (isContainerRef h) with
     | some (id, .arr l) =>
       (convertInt l.length s).bind fun i =>
         if i < l.length then some { st with heap := h.set id (.arr (l.eraseIdx i)) } else none
     | some (id, .obj kvs) =>
       if (kvs.lookup s).isSome then some { st with heap := h.set id (.obj (kvs.filter (fun p => p.1 != s))) } else none
     | none => none)
  | .length =>
    (match cur with
     | some (.str s) => some { st with stack := .int s.utf8ByteSize :: st.stack }
     | some c =>
       (match isContainerRef h c with
        | some (_, .arr l) => some { st with stack := .int l.length :: st.stack }
        | some (_, .obj kvs) => some { st with stack := .int kvs.length :: st.stack }
        | none => none)
     | none => none)
  | .empty =>
    (match cur.bind (isContainerRef h) with
     | some (id, .arr _) => some { st with heap := h.set id (.arr []) }
     | some (id, .obj _) => some { st with heap := h.set id (.obj []) }
     | none => none)
  | .get s =>
    (match cur.bind (isContainerRef h) with
     | some (_, .arr l) => (convertInt l.length s).bind fun i => (l[i]?).map fun v => { st with stack := v :: st.stack }
     | some (_, .obj kvs) => (kvs.lookup s).map fun v => { st with stack := v :: st.stack }
     | none => none)
  | .set s =>
    (match cur, lst.bind (isContainerRef h) with
     | some c, some (id, .arr l) =>
       if c = .ref id then none
       else (convertInt l.length s).bind fun i =>
         if i < l.length then some { st with heap := h.set id (.arr (l.set i c)) } else none
     | some c, some (id, .obj kvs) =>
       if c = .ref id then none
       else some { st with heap := h.set id (.obj (
         if (kvs.lookup s).isSome then kvs.map (fun p => if p.1 = s then (s, c) else p) else kvs ++ [(s, c)])) }
     | _, _ => none)
  | .b64dump =>
    cur.bind fun c => (toJson h (h.length + 1) c).bind fun j => (B64.encDump (some j)).bind fun e =>
      match e with
      | .str s => some { st with stack := .str s :: st.stack }
      | _ => none
  | .b64load =>
    (match cur with
     | some (.str s) => (B64.decLoad (some (.str s))).map fun j =>
         let (h1, v) := alloc h j
         { st with heap := h1, stack := v :: st.stack }
     | _ => none)
  | .not_ => some st
  | .assert _ => some st

inductive Outcome where
  | ok
  | fail (index : Nat)       -- an option failed; 1-based index of the option blamed
  | danglingNot (index : Nat) -- the option string ended after a `-X`; blamed on that `-X`
  deriving DecidableEq, Repr

def Opt.isNot : Opt → Bool | .not_ => true | _ => false
def Opt.assertChar? : Opt → Option Char | .assert c => some c | _ => none

/-- `-o FILE` opens (truncates) its file before it finds that TOP cannot be dumped;
    `-f FILE` likewise once TOP is known to be a container -/
def touch (st : State) (o : Opt) : State :=
  match o with
  | .output f => { st with out := st.out ++ [(f, "")] }
  | .foreach f =>
    (match st.stack.head?.bind (isContainerRef st.heap) with
     | some _ => { st with out := st.out ++ [(f, "")] }
     | none => st)
  | _ => st

/-- one iteration of the loop of `jcmd_fmt` for option number `idx + 1`: either the loop goes on
    (new state, whether a `-X` is now pending) or it stops with a status -/
def step (st : State) (not : Bool) (idx : Nat) (o : Opt) : Except (State × Outcome) (State × Bool) :=
  if o.isNot then (if not then .error (st, .fail idx) else .ok (st, true))
  else match o.assertChar? with
    | some c =>
      let r := typeAssert st.heap c st.stack.head? st.stack.tail.head?
      if (not != r) then .ok (st, false) else .error (st, .fail (idx + 1))
    | none =>
      if not then .error (st, .fail idx)
      else match exec st o with
        | some st' => .ok (st', false)
        | none => .error (touch st o, .fail (idx + 1))

/-- the main loop of `jcmd_fmt`: `idx` options have been executed so far, `not` is a pending `-X` -/
def runFrom : State → Bool → Nat → List Opt → State × Outcome
  | st, not, idx, [] => (st, if not then .danglingNot idx else .ok)
  | st, not, idx, o :: rest =>
    match step st not idx o with
    | .ok (st', not') => runFrom st' not' (idx + 1) rest
    | .error r => r

def run (ops : List Opt) : State × Outcome := runFrom {} false 0 ops

/-! ### command line → options (what `jcmd_opt_parse` makes of the arguments) -/

/-- `opt_set_uint` (after fix F33): `%llu` without narrowing — a count that does not fit a `json_int_t` (a minus sign
    wraps to one) stays larger than any stack or array -/
def scanUInt (s : String) : Option Int :=
  (scanInt s).map (fun i => if i < 0 || i > 9223372036854775807 then 9223372036854775807 else i)

/-- `opt_set_int` (after fix F33): `%lld`, saturating -/
def scanDInt (s : String) : Option Int :=
  (scanInt s).map fun i => if i < -9223372036854775808 then -9223372036854775808 else if i > 9223372036854775807 then 9223372036854775807 else i

/-- `jcmd_opt_set_json`: JSON text (trailing garbage ignored), else "-" = standard input, else a file -/
def loadJsonArg (arg : String) (stdin : String) (files : List (String × String)) : Option Json :=
  let fl : Json.LoadFlags := { decodeAny := true, disableEofCheck := true }
  match Json.loadChars fl arg.toList with
  | some (j, _) => some j
  | none =>
    if arg = "-" then (Json.loadChars fl stdin.toList).map (·.1)
    else (files.lookup arg).bind fun t => (Json.loadChars fl t.toList).map (·.1)

def assertChars : List Char := ['O', 'A', 'S', 'I', 'R', 'N', 'T', 'F', 'B', '0', 'E']

/-- short options, each as its own argument, parameters as the following argument -/
def parseArgv (stdin : String) (files : List (String × String)) : List String → Option (List Opt)
  | [] => some []
  | a :: rest =>
    match a.toList with
    | ['-', c] =>
      let noArg (o : Opt) := (parseArgv stdin files rest).map (o :: ·)
      let withArg (f : String → Option Opt) : Option (List Opt) :=
        match rest with
        | p :: rest' => (f p).bind fun o => (parseArgv stdin files rest').map (o :: ·)
        | [] => none
      if c = 'X' then noArg .not_
      else if assertChars.contains c then noArg (.assert c)
      else if c = 'Q' then noArg .query
      else if c = 'U' then noArg .unwind
      else if c = 'c' then noArg .copy
      else if c = 'a' then noArg .append
      else if c = 'x' then noArg .extend
      else if c = 'l' then noArg .length
      else if c = 'e' then noArg .empty
      else if c = 'Y' then noArg .b64dump
      else if c = 'y' then noArg .b64load
      else if c = 'M' then withArg (fun p => (scanUInt p).map .move)
      else if c = 'i' then withArg (fun p => (scanUInt p).map .insert)
      else if c = 't' then withArg (fun p => (scanDInt p).map .trunc)
      else if c = 'j' then withArg (fun p => (loadJsonArg p stdin files).map .json)
      else if c = 'q' then withArg (fun p => some (.quote p))
      else if c = 'o' then withArg (fun p => some (.output p))
      else if c = 'f' then withArg (fun p => some (.foreach p))
      else if c = 'u' then withArg (fun p => some (.unquote p))
      else if c = 'd' then withArg (fun p => some (.delete p))
      else if c = 'g' then withArg (fun p => some (.get p))
      else if c = 's' then withArg (fun p => some (.set p))
      else none
    | _ => none

/-- files and standard output as left behind: a later write to the same file replaces the
    earlier one (`fopen(.., "w")`), standard output accumulates -/
def finalFiles (out : List (String × String)) : String × List (String × String) :=
  out.foldl (fun (acc : String × List (String × String)) (f, t) =>
    if f = "-" then (acc.1 ++ t, acc.2)
    else (acc.1, (acc.2.filter (fun p => p.1 != f)) ++ [(f, t)])) ("", [])

def exitStatus : Outcome → Nat
  | .ok => 0
  | .fail i => i % 256
  | .danglingNot i => i % 256

end Fmt
end Jose
