import Jose.Tables
import Jose.Json
import Jose.B64
import Jose.IO
import Jose.Prim
import Jose.Jwk
import Jose.Jws
import Jose.Gen
import Jose.Entity
/-
  Model of lib/jwe.c and of the encryption / key-management hooks
  (lib/openssl/aesgcm.c, aescbch.c, aeskw.c, aesgcmkw.c, dir.c, ecdhes.c, ecdh.c,
  rsaes.c, pbes2.c), lib/misc.c (zip handling).
-/
namespace Jose
namespace Jwe
open Tables Json Entity Jws

/-! ### families -/

inductive EncFam where
  | gcm (klen : Nat)
  | cbc (klen : Nat) (hash : String)      -- klen = cipher key length; the CEK is 2·klen
  deriving DecidableEq, Repr

def encFamily : String → Option EncFam
  | "A128GCM" => some (.gcm 16) | "A192GCM" => some (.gcm 24) | "A256GCM" => some (.gcm 32)
  | "A128CBC-HS256" => some (.cbc 16 "S256") | "A192CBC-HS384" => some (.cbc 24 "S384")
  | "A256CBC-HS512" => some (.cbc 32 "S512")
  | _ => none

inductive WrapFam where
  | dir
  | aeskw (klen : Nat)
  | gcmkw (klen : Nat)
  | ecdhes (kw : Option String) (dkl : Option Nat)
  | rsa (oaep : Option String)
  | pbes2 (hash : String) (aes : String) (klen : Nat)
  deriving DecidableEq, Repr

def wrapFamily : String → Option WrapFam
  | "dir" => some .dir
  | "A128KW" => some (.aeskw 16) | "A192KW" => some (.aeskw 24) | "A256KW" => some (.aeskw 32)
  | "A128GCMKW" => some (.gcmkw 16) | "A192GCMKW" => some (.gcmkw 24) | "A256GCMKW" => some (.gcmkw 32)
  | "ECDH-ES" => some (.ecdhes none none)
  | "ECDH-ES+A128KW" => some (.ecdhes (some "A128KW") (some 16))
  | "ECDH-ES+A192KW" => some (.ecdhes (some "A192KW") (some 24))
  | "ECDH-ES+A256KW" => some (.ecdhes (some "A256KW") (some 32))
  | "RSA1_5" => some (.rsa none)
  | "RSA-OAEP" => some (.rsa (some "S1")) | "RSA-OAEP-224" => some (.rsa (some "S224"))
  | "RSA-OAEP-256" => some (.rsa (some "S256")) | "RSA-OAEP-384" => some (.rsa (some "S384"))
  | "RSA-OAEP-512" => some (.rsa (some "S512"))
  | "PBES2-HS256+A128KW" => some (.pbes2 "S256" "A128KW" 16)
  | "PBES2-HS384+A192KW" => some (.pbes2 "S384" "A192KW" 24)
  | "PBES2-HS512+A256KW" => some (.pbes2 "S512" "A256KW" 32)
  | _ => none

def encrAlgs : List AlgRec := algs.filter (fun a => a.kind == .encr)
def wrapAlgs : List AlgRec := algs.filter (fun a => a.kind == .wrap)
def findEncr (n : String) : Option AlgRec := encrAlgs.find? (fun a => a.name == n)
def findWrap (n : String) : Option AlgRec := wrapAlgs.find? (fun a => a.name == n)
def findComp (n : String) : Bool := algs.any (fun a => a.kind == .comp && a.name == n)

/-- size query on a member: `jose_b64_dec(json_object_get(o, m), NULL, 0)` -/
def decLen (o : Json) (m : String) : Option Nat :=
  match o.get? m with
  | some (.str s) => B64.dlen (B64.bytesOfString s).length
  | _ => none

/-- a member decoded into a buffer of exactly `n` bytes -/
def exactKey (o : Json) (m : String) (n : Nat) : Option Bs :=
  match bytesOfJson (o.get? m) with
  | some k => if k.length = n then some k else none
  | none => none

def be (width n : Nat) : Bs := (List.range width).map (fun i => n / 256 ^ (width - 1 - i) % 256)

/-! ### suggestions -/

def gcmSug (cek : Json) : Option String :=
  match optStr cek "alg", optStr cek "kty" with
  | some (some name), some _ => isName ["A128GCM", "A192GCM", "A256GCM"] name
  | some none, some (some "oct") =>
    (match decLen cek "k" with
     | some 16 => some "A128GCM" | some 24 => some "A192GCM" | some 32 => some "A256GCM" | _ => none)
  | _, _ => none

def cbcSug (cek : Json) : Option String :=
  match optStr cek "alg", optStr cek "kty" with
  | some (some name), some _ => isName ["A128CBC-HS256", "A192CBC-HS384", "A256CBC-HS512"] name
  | some none, some (some "oct") =>
    -- an undecodable "k" gives SIZE_MAX, which is ≥ 64
    (match cek.get? "k" with
     | some (.str s) =>
       (match B64.dlen (B64.bytesOfString s).length with
        | some len => if len ≥ 64 then some "A256CBC-HS512" else if len ≥ 48 then some "A192CBC-HS384"
                      else if len ≥ 32 then some "A128CBC-HS256" else none
        | none => some "A256CBC-HS512")
     | _ => some "A256CBC-HS512")
  | _, _ => none

def encrSugOf (name : String) (cek : Json) : Option String :=
  match encFamily name with
  | some (.gcm _) => gcmSug cek
  | some (.cbc _ _) => cbcSug cek
  | none => none

/-- first non-NULL `encr.sug` over the registry -/
def encrSug (cek : Json) : Option String := encrAlgs.findSome? (fun a => encrSugOf a.name cek)

/-- `wrap.alg` (suggestion of a key-management algorithm from the key) per family -/
def wrapAlgOf (name : String) (jwk : Json) : Option String :=
  match wrapFamily name with
  | some .dir =>
    (match jwk.getStr? "alg" with
     | some e => if (findEncr e).isSome then some "dir" else none
     | none => none)
  | some (.aeskw _) =>
    (match optStr jwk "alg", optStr jwk "kty" with
     | some (some n), some _ => isName ["A128KW", "A192KW", "A256KW"] n
     | some none, some (some "oct") =>
       (match decLen jwk "k" with
        | some 16 => some "A128KW" | some 24 => some "A192KW" | some 32 => some "A256KW" | _ => none)
     | _, _ => none)
  | some (.gcmkw _) =>
    (match optStr jwk "alg", optStr jwk "kty" with
     | some (some n), some _ => isName ["A128GCMKW", "A192GCMKW", "A256GCMKW"] n
     | some none, some (some "oct") =>
       (match decLen jwk "k" with
        | some 16 => some "A128GCMKW" | some 24 => some "A192GCMKW" | some 32 => some "A256GCMKW" | _ => none)
     | _, _ => none)
  | some (.ecdhes _ _) =>
    (match optStr jwk "alg", optStr jwk "kty", optStr jwk "crv" with
     | some (some n), some _, some _ => isName ["ECDH-ES", "ECDH-ES+A128KW", "ECDH-ES+A192KW", "ECDH-ES+A256KW"] n
     | some none, some (some "EC"), some crv =>
       (match crv with
        | some "P-256" => some "ECDH-ES+A128KW" | some "P-384" => some "ECDH-ES+A192KW"
        | some "P-521" => some "ECDH-ES+A256KW" | _ => none)
     | _, _, _ => none)
  | some (.rsa _) =>
    (match optStr jwk "alg", optStr jwk "kty" with
     | some (some n), some _ => isName ["RSA1_5", "RSA-OAEP", "RSA-OAEP-224", "RSA-OAEP-256", "RSA-OAEP-384", "RSA-OAEP-512"] n
     | some none, some (some "RSA") => some "RSA-OAEP"
     | _, _ => none)
  | some (.pbes2 _ _ _) =>
    (match jwk with
     | .obj _ =>
       (match optStr jwk "alg", optStr jwk "kty" with
        | some (some n), some _ => isName ["PBES2-HS256+A128KW", "PBES2-HS384+A192KW", "PBES2-HS512+A256KW"] n
        | _, _ => none)      -- for keys PBES2 defers to the other algorithms and then gives up
     | .str s =>
       let len := s.utf8ByteSize
       if len > 36 then some "PBES2-HS512+A256KW" else if len > 27 then some "PBES2-HS384+A192KW"
       else some "PBES2-HS256+A128KW"
     | _ => none)
  | none => none

def wrapAlgSug (jwk : Json) : Option String := wrapAlgs.findSome? (fun a => wrapAlgOf a.name jwk)

/-- `wrap.enc`: content encryption suggested by the key-management algorithm -/
def wrapEncOf (name : String) (jwk : Json) : Option String :=
  match wrapFamily name with
  | some .dir =>
    (match jwk.getStr? "alg" with
     | some e => (findEncr e).map (·.name)
     | none => none)
  | some (.aeskw 16) => some "A128CBC-HS256" | some (.aeskw 24) => some "A192CBC-HS384"
  | some (.aeskw _) => some "A256CBC-HS512"
  | some (.gcmkw 16) => some "A128GCM" | some (.gcmkw 24) => some "A192GCM" | some (.gcmkw _) => some "A256GCM"
  | some (.ecdhes _ _) =>
    (match optStr jwk "crv" with
     | some (some "P-256") => some "A128CBC-HS256" | some (some "P-384") => some "A192CBC-HS384"
     | some (some "P-521") => some "A256CBC-HS512" | _ => none)
  | some (.rsa _) =>
    let dl : Nat := match decLen jwk "n" with | some l => l | none => 2 ^ 64 - 1
    let len := dl * 8 % 2 ^ 64
    if len ≥ 15360 then some "A256CBC-HS512" else if len ≥ 7680 then some "A192CBC-HS384" else some "A128CBC-HS256"
  | some (.pbes2 _ _ 16) => some "A128CBC-HS256" | some (.pbes2 _ _ 24) => some "A192CBC-HS384"
  | some (.pbes2 _ _ _) => some "A256CBC-HS512"
  | none => none

/-! ### content encryption -/

/-- the associated data: protected text, then '.' and the aad text if an aad member is present -/
def aadOf (jwe : Json) : Option Bs :=
  match optStr jwe "protected", optStr jwe "aad" with
  | some prt, some aad =>
    let p := match prt with | some s => B64.bytesOfString s | none => []
    some (match aad with | some a => p ++ [46] ++ B64.bytesOfString a | none => p)
  | _, _ => none

/-- `zip` as the encryptor sees it (lib/jwe.c `jose_jwe_enc_cek_io`): looked up in the decoded protected
    header; a protected header that is text but does not decode makes the operation fail (it is not read as
    "no zip"); `none` = the operation fails (undecodable header, unknown algorithm) -/
def zipOf (jwe : Json) : Option Bool :=
  let flag (z : Option String) : Option Bool :=
    match z with
    | some z => if findComp z then some true else none
    | none => some false
  match jwe.get? "protected" with
  | some (.str s) =>
    (match B64.decLoad (some (.str s)) with
     | none => none
     | some prt => flag (prt.getStr? "zip"))
  | some other => flag (other.getStr? "zip")
  | none => some false

/-- content encryption proper: (ciphertext, tag) for key, iv, associated data, (compressed) plaintext -/
def sealWith (P : Prims) (fam : EncFam) (key iv aad pt : Bs) : Bs × Bs :=
  match fam with
  | .gcm _ => P.gcmEnc key iv aad pt
  | .cbc klen h =>
    let ct := P.cbcEnc (key.drop klen) iv pt
    let mac := P.hmac h (key.take klen) (aad ++ iv ++ ct ++ be 8 (aad.length * 8))
    (ct, mac.take klen)

def openWith (P : Prims) (fam : EncFam) (key iv aad ct tag : Bs) : Option Bs :=
  match fam with
  | .gcm _ => if tag.length = 16 then P.gcmDec key iv aad ct tag else none
  | .cbc klen h =>
    let mac := P.hmac h (key.take klen) (aad ++ iv ++ ct ++ be 8 (aad.length * 8))
    if tag.length = klen ∧ mac.take klen = tag then P.cbcDec (key.drop klen) iv ct else none

def cekLen : EncFam → Nat
  | .gcm k => k
  | .cbc k _ => 2 * k

def ivLen : EncFam → Nat
  | .gcm _ => 12
  | .cbc _ _ => 16

/-- `jose_jwe_enc_cek_io` up to the hook: the algorithm, and the JWE with `enc` recorded and the
    protected header encoded -/
def encCekSetup (jwe cek : Json) : Option (AlgRec × Json) :=
  -- `{s?{s?s}}` on "unprotected" then on "protected": each must be an object if present
  let sub (m : String) : Option (Option String) :=
    match jwe with
    | .obj kvs =>
      (match lookup m kvs with
       | none => some none
       | some (.obj o) => optStr (.obj o) "enc"
       | some _ => none)
    | _ => none
  -- the protected header may already be encoded (fix F37): its text is decoded and looked into
  let subP : Option (Option String) :=
    match jwe with
    | .obj kvs =>
      (match lookup "protected" kvs with
       | none => some none
       | some (.obj o) => optStr (.obj o) "enc"
       | some (.str t) => (B64.decLoad (some (.str t))).bind fun d => if d.isObject then optStr d "enc" else none
       | some _ => none)
    | _ => none
  match sub "unprotected", subP, optStr cek "alg" with
  | some hu, some hp, some k =>
    let h := match hp with | some x => some x | none => hu
    let r : Option (AlgRec × Json) :=
      match h with
      | none =>
        let h2 := match k with | some x => some x | none => encrSug cek
        (match h2 with
         | none => none
         | some name =>
           (match findEncr name with
            | some a => (jweHdrSetNew jwe "enc" (some (.str a.name))).map (fun j => (a, j))
            | none => none))
      | some name =>
        if (match k with | some kk => kk != name | none => false) then none
        else (findEncr name).map (fun a => (a, jwe))
    r.bind fun (a, j) =>
      if !Jwk.prm (some cek) false a.p1 then none
      else (encodeProtected j).map (fun j' => (a, j'))
  | _, _, _ => none

/-- `jose_jwe_enc_cek(cfg, jwe, cek, pt, ptl)` with the IV taken from `rnd`; `none` = false -/
def encCek (P : Prims) (jwe cek : Json) (pt rnd : Bs) : Option Json :=
  (encCekSetup jwe cek).bind fun (a, j) =>
  (encFamily a.name).bind fun fam =>
  (aadOf j).bind fun aad =>
  (exactKey cek "k" (cekLen fam)).bind fun key =>
  (zipOf j).bind fun zip =>
  match j with
  | .obj kvs =>
    let iv := rnd.take (ivLen fam)
    let body := if zip then P.deflate pt else pt
    let (ct, tag) := sealWith P fam key iv aad body
    some (.obj (setKV "ciphertext" (B64.enc ct) (setKV "tag" (B64.enc tag) (setKV "iv" (B64.enc iv) kvs))))
  | _ => none

/-! ### content decryption -/

/-- `jose_jwe_dec_cek_io` up to the hook: algorithm and whether an inflate stage is inserted -/
def decCekSetup (jwe cek : Json) : Option (AlgRec × Bool) :=
  let hzip : Option String := (B64.decLoad (jwe.get? "protected")).bind (·.getStr? "zip")
  (jweHdr jwe none).bind fun hdr =>
  (optStr hdr "enc").bind fun halg =>
  (optStr cek "alg").bind fun kalg =>
  let name : Option String :=
    match halg, kalg with
    | none, none => none
    | some h, some k => if h = k then some h else none
    | some h, none => some h
    | none, some k => some k
  name.bind fun n =>
  (findEncr n).bind fun a =>
  if !Jwk.prm (some cek) false a.p2 then none
  else match hzip with
    | some z => if findComp z then some (a, true) else none
    | none => some (a, false)

/-- what the decryption chain computes on the whole ciphertext (bytes, already base64-decoded) -/
def decBody (P : Prims) (jwe cek : Json) : Option (Bs → Option Bs) :=
  (decCekSetup jwe cek).bind fun (a, zip) =>
  (encFamily a.name).bind fun fam =>
  (exactKey jwe "iv" (ivLen fam)).bind fun iv =>
  (exactKey cek "k" (cekLen fam)).bind fun key =>
  (aadOf jwe).map fun aad => fun ct =>
    match bytesOfJson (jwe.get? "tag") with
    | none => none
    | some tag =>
      (openWith P fam key iv aad ct tag).bind fun body => if zip then P.inflate body else some body

/-- `jose_jwe_dec_cek_io(cfg, jwe, cek, next)` as a stage over `next` -/
def decCekIo (P : Prims) (jwe cek : Json) (next : IO.Stage) : Option IO.Stage :=
  (decBody P jwe cek).map fun f => .xform { final := f } next

/-- `zip_in_protected_header(jwe)` (lib/misc.c): does the protected header name a registered compression?  The header
    is taken as an object or decoded from its text; a text that does NOT decode answers *yes* (after fix F35: a header
    that cannot be read - malformed, or out of memory - does not show that the content is not compressed) -/
def zipInProtected (jwe : Json) : Bool :=
  match jwe.get? "protected" with
  | some (.str s) =>
    (match B64.decLoad (some (.str s)) with
     | none => true
     | some prt => (prt.getStr? "zip").any findComp)
  | some other => (other.getStr? "zip").any findComp
  | none => false

/-- `jose_jwe_dec_cek(cfg, jwe, cek, &ptl)` -/
def decCek (P : Prims) (jwe cek : Json) : Option Bs :=
  match jwe.get? "ciphertext" with
  | some (.str ct) =>
    let text := B64.bytesOfString ct
    -- compressed input above the limit is refused before anything is fed
    let zipHdr := zipInProtected jwe
    if zipHdr && text.length > maxCompressed then none
    else
      (decBody P jwe cek).bind fun f => (B64.decode text).bind f
  | _ => none

/-! ### PBES2 parameters (lib/openssl/pbes2.c) -/

/-- the password: a JSON string as is (it is re-encoded into an oct key first), or the "k" of an oct
    key; at most KEYMAX bytes either way -/
def pbes2Password (jwk : Json) : Option Bs :=
  match jwk with
  | .str s => if (B64.bytesOfString s).length > keymax then none else some (B64.bytesOfString s)
  | other => (match bytesOfJson (other.get? "k") with
      | some k => if k.length > keymax then none else some k
      | none => none)

/-- `pbkdf2()` of pbes2.c: the derived key-wrapping key as a JWK.  This is the only place the
    key-derivation primitive is consulted. -/
def pbes2Key (P : Prims) (name h : String) (klen : Nat) (jwk : Json) (st : Bs) (iter : Int) : Option Json :=
  (pbes2Password jwk).bind fun pw =>
  (P.pbkdf2 h pw (B64.bytesOfString name ++ [0] ++ st) iter klen).map fun dk =>
    .obj [("kty", .str "oct"), ("k", B64.enc dk)]

/-- `alg_wrap_unw`: the iteration count and salt taken from the merged header, after the guards
    and *before* any derivation.  The count is a 64-bit JSON integer; it is handed to `pbkdf2(int iter)`,
    i.e. narrowed to 32 bits (`Gen.toInt32`). -/
def pbes2UnwParams (hdr : Json) : Option (Int × Bs) :=
  match hdr.get? "p2c" with
  | some (.int p2c) =>
    if p2c < 1 || p2c > p2cMax then none else
    (match bytesOfJson (hdr.get? "p2s") with
     | some st => if st.length < 8 || st.length > keymax then none else some (Gen.toInt32 p2c, st)
     | none => none)
  | _ => none

/-- `alg_wrap_wrp`: the iteration count used and recorded: the header's `p2c` as a 64-bit integer
    (`none` inside = absent: the default is the maximum), refused outside [min, max] -/
def pbes2WrpIter (hdr : Json) : Option Int :=
  (Gen.optInt hdr "p2c").bind fun p2cO =>
    let p2c : Int := match p2cO with | some v => v | none => p2cMax
    if p2c < p2cMin || p2c > p2cMax then none else some p2c

/-! ### key management: wrapping -/

/-- `find_alg` of lib/jwe.c: header's alg, else a suggestion which is recorded in the recipient header -/
def findAlgWrap (hdr rcp jwk : Json) : Option (AlgRec × Json) :=
  match hdr.getStr? "alg" with
  | some name => (findWrap name).map (fun a => (a, rcp))
  | none =>
    (wrapAlgSug jwk).bind fun name =>
    (findWrap name).bind fun a =>
    match rcp with
    | .obj kvs =>
      (match lookup "header" kvs with
       | none => some (a, .obj (setKV "header" (.obj [("alg", .str a.name)]) kvs))
       | some (.obj h) => some (a, .obj (setKV "header" (.obj (setKV "alg" (.str a.name) h)) kvs))
       | some _ => none)
    | _ => none

/-- `ensure_enc`: cek.alg ← its own, else header enc, else suggestion from the CEK, else from the
    key-management algorithm, else the first registered content encryption -/
def ensureEnc (a : AlgRec) (hdr jwk cek : Json) : Option Json :=
  match cek with
  | .obj ckvs =>
    (match cek.getStr? "alg" with
     | some _ => some cek
     | none =>
       (match optStr hdr "enc" with
        | none => none
        | some henc =>
          let e1 := match henc with | some e => some e | none => encrSug cek
          let e2 := match e1 with | some e => some e | none => wrapEncOf a.name jwk
          let e3 : Option String := match e2 with | some e => some e | none => (encrAlgs.head?).map (fun (r : AlgRec) => r.name)
          e3.map (fun e => .obj (setKV "alg" (.str e) ckvs))))
  | _ => none

def RCPKEYS : List String := ["header", "encrypted_key"]

/-- concat KDF of ecdhes.c over SHA-256 -/
def concatKdf (P : Prims) (z : Bs) (dkl : Nat) (name pu pv : Bs) : Option Bs :=
  (P.hash "S256").map fun h =>
    let reps := dkl / 32
    let block (c : Nat) : Bs :=
      h (be 4 (c + 1) ++ z ++ be 4 name.length ++ name ++ be 4 pu.length ++ pu ++ be 4 pv.length ++ pv ++ be 4 (dkl * 8 % 2 ^ 32))
    ((List.range (reps + 1)).flatMap block).take dkl

/-- optional header member decoded into a KEYMAX buffer: absent = empty -/
def optBytesMax (o : Json) (m : String) : Option Bs :=
  match o with
  | .obj kvs =>
    (match lookup m kvs with
     | none => some []
     | some (.str s) =>
       (match B64.decode (B64.bytesOfString s) with
        | some b => if b.length > keymax then none else some b
        | none => none)
     | some _ => none)
  | _ => none

/-- key length in bytes the content encryption `enc` needs (`encr_alg_keylen`) -/
def encKeyLen (enc : String) : Option Nat := (encFamily enc).map cekLen

/-- `derive` of ecdhes.c: the key-encryption key (or the CEK itself for ECDH-ES) from the exchanged point -/
def ecdhesDerive (P : Prims) (name : String) (kw : Option String) (dklFix : Option Nat)
    (hdr cek exc : Json) : Option Json :=
  (optStr hdr "enc").bind fun henc =>
  let encO : Option String := match henc with | some e => some e | none => cek.getStr? "alg"
  encO.bind fun enc =>
  let dklO : Option Nat := match dklFix with | some d => some d | none => encKeyLen enc
  dklO.bind fun dkl =>
  if dkl < 16 || dkl > keymax then none else
  (optBytesMax hdr "apu").bind fun pu =>
  (optBytesMax hdr "apv").bind fun pv =>
  (optBytesMax exc "x").bind fun z =>
  let algId := B64.bytesOfString (match kw with | some _ => name | none => enc)
  (concatKdf P z dkl algId pu pv).map fun dk =>
    .obj [("kty", .str "oct"), ("alg", .str enc), ("k", B64.enc dk)]

/-- `shared_hdr_has(jwe, name)` (lib/openssl/misc.c): the parameter is set in the protected or shared unprotected header
    (or that header cannot be determined) — it would take precedence over the value a wrapping algorithm generates
    and records in the per-recipient header -/
def sharedHdrHas (jwe : Json) (name : String) : Bool :=
  match jweHdr jwe none with
  | none => true
  | some h => (h.get? name).isSome

/-- `wrap.wrp` per family.  Returns the JWE with the recipient added and the (possibly
    generated / derived) CEK.  `rnd` supplies, in order of use, the randomness consumed. -/
def wrp (P : Prims) : Nat → String → Json → Json → Json → Json → Bs → Option (Json × Json)
  | 0, _, _, _, _, _, _ => none
  | fuel + 1, name, jwe, rcp, jwk, cek, rnd =>
    let genCek (c : Json) (r : Bs) : Option (Json × Bs) :=
      match c.get? "k" with
      | some _ => some (c, r)
      | none =>
        let n := match (c.getStr? "alg").bind encKeyLen with | some n => n | none => 0
        (Gen.gen P c r).map (fun c' => (c', r.drop n))
    match wrapFamily name, rcp with
    | some .dir, .obj rkvs =>
      let cekO : Option Json :=
        match cek.get? "k" with
        | some ck =>      -- a content key fixed by an earlier recipient: only the very same key may join (fix F32)
          (match jwk.get? "k" with
           | some jk => if Json.equal ck jk then some cek else none
           | none => none)
        | none => (match cek, jwk with
            | .obj c, .obj k => some (.obj (updateKV c k))
            | _, _ => none)
      cekO.bind fun cek' =>
        (addEntity jwe (some (.obj (setKV "encrypted_key" (.str "") rkvs))) "recipients" RCPKEYS).map (·, cek')
    | some (.aeskw klen), .obj rkvs =>
      (genCek cek rnd).bind fun (cek', _) =>
      (exactKey jwk "k" klen).bind fun kek =>
      (bytesOfJson (cek'.get? "k")).bind fun pt =>
      if pt.length > keymax then none else
      (P.kwWrap kek pt).bind fun ct =>
        (addEntity jwe (some (.obj (setKV "encrypted_key" (B64.enc ct) rkvs))) "recipients" RCPKEYS).map (·, cek')
    | some (.gcmkw klen), .obj rkvs =>
      if sharedHdrHas jwe "iv" || sharedHdrHas jwe "tag" then none else
      (genCek cek rnd).bind fun (cek', rnd') =>
      (bytesOfJson (cek'.get? "k")).bind fun pt =>
      (exactKey jwk "k" klen).bind fun kek =>
      let iv := rnd'.take 12
      let (ct, tag) := P.gcmEnc kek iv [] pt
      let hO : Option (List (String × Json)) :=
        match lookup "header" rkvs with
        | none => some []
        | some (.obj h) => some h
        | some _ => none
      hO.bind fun h =>
        let h' := setKV "tag" (B64.enc tag) (setKV "iv" (B64.enc iv) h)
        (addEntity jwe (some (.obj (setKV "encrypted_key" (B64.enc ct) (setKV "header" (.obj h') rkvs))))
          "recipients" RCPKEYS).map (·, cek')
    | some (.ecdhes kw dklFix), .obj rkvs =>
      let cekO : Option (Json × Bs) :=
        match cek.get? "k" with
        | some _ => if kw.isNone then none else some (cek, rnd)
        | none => genCek cek rnd
      cekO.bind fun (cek', rnd') =>
      (jweHdr jwe (some rcp)).bind fun hdr =>
      if sharedHdrHas jwe "epk" then none else
      let hO : Option (List (String × Json)) :=
        match lookup "header" rkvs with
        | none => some []
        | some (.obj h) => some h
        | some _ => none      -- json_object_set on a non-object fails
      hO.bind fun h =>
      -- ephemeral key on the recipient's curve
      (match jwk.get? "crv" with
       | some crvJ =>
         (Gen.gen P (.obj [("kty", .str "EC"), ("crv", crvJ)]) rnd').bind fun epk =>
         (match epk.getStr? "crv", bytesOfJson (epk.get? "d"), ecKeyOf P jwk, ecKeyOf P epk with
          | some crv, some d, some peer, some _ =>
            if !(crv == "P-256" || crv == "P-384" || crv == "P-521" || crv == "secp256k1") || peer.crv != crv then none else
            (P.ecdh crv d peer.x peer.y).bind fun (zx, zy) =>
            let exc : Json := .obj [("kty", .str "EC"), ("crv", .str crv), ("x", B64.enc zx), ("y", B64.enc zy)]
            let (epkPub, okPub) := Jwk.pub epk
            if !okPub then none else
            let rcp' : Json := .obj (setKV "header" (.obj (setKV "epk" epkPub h)) rkvs)
            (ecdhesDerive P name kw dklFix hdr cek' exc).bind fun der =>
              (match kw with
               | some kwName => wrp P fuel kwName jwe rcp' der cek' []
               | none =>
                 (match cek', der with
                  | .obj c, .obj dkv => (addEntity jwe (some rcp') "recipients" RCPKEYS).map (·, .obj (updateKV c dkv))
                  | _, _ => none))
          | _, _, _, _ => none)
       | none => none)
    | some (.rsa oaep), .obj rkvs =>
      (genCek cek rnd).bind fun (cek', rnd') =>
      (match jwk.getStr? "kty", rsaKeyOf jwk with
       | some "RSA", some key =>
         (match decLen cek' "k" with
          | none => none
          | some ptl =>
            let tmp := if oaep.isSome then 41 else 11
            if (ptl : Int) ≥ ((stripZeros key.n).length : Int) - tmp then none else
            (bytesOfJson (cek'.get? "k")).bind fun pt =>
            (P.rsaEnc oaep key.n key.e pt rnd').bind fun ct =>
              (addEntity jwe (some (.obj (setKV "encrypted_key" (B64.enc ct) rkvs))) "recipients" RCPKEYS).map (·, cek'))
       | _, _ => none)
    | some (.pbes2 h aes klen), .obj rkvs =>
      (genCek cek rnd).bind fun (cek', rnd') =>
      if sharedHdrHas jwe "p2s" then none else
      let st := rnd'.take klen
      let hkvO : Option (List (String × Json)) :=
        match lookup "header" rkvs with
        | none => some []
        | some (.obj hk) => some hk
        | some _ => none
      hkvO.bind fun hkv0 =>
      let rcp0 : Json := .obj (setKV "header" (.obj hkv0) rkvs)
      (jweHdr jwe (some rcp0)).bind fun hdr =>
      (pbes2WrpIter hdr).bind fun p2c =>
      let hkv1 := if (hdr.get? "p2c").isSome then hkv0 else setKV "p2c" (.int p2c) hkv0
      let hkv2 := setKV "p2s" (B64.enc st) hkv1
      (pbes2Key P name h klen jwk st p2c).bind fun key =>
        wrp P fuel aes jwe (.obj (setKV "header" (.obj hkv2) rkvs)) key cek' []
    | _, _ => none

/-- `jose_jwe_enc_jwk(cfg, jwe, rcp, jwk, cek)` for one key; `none` = false -/
def encJwkOne (P : Prims) (jwe : Json) (rcp : Option Json) (jwk cek : Json) (rnd : Bs) : Option (Json × Json) :=
  let r : Json := match rcp with | some x => x | none => .obj []
  if !r.isObject then none else
  (jweHdr jwe (some r)).bind fun hdr =>
  (findAlgWrap hdr r jwk).bind fun (a, r1) =>
  (ensureEnc a hdr jwk cek).bind fun cek1 =>
  if !Jwk.prm (some jwk) false a.p1 then none
  else wrp P 3 a.name jwe r1 jwk cek1 rnd

/-! ### key management: unwrapping -/

/-- `no_encrypted_key(rcp)` (lib/openssl/misc.c): direct encryption and direct key agreement have no encrypted key —
    the member is absent or the empty string (RFC 7516 5.2 step 10) -/
def noEncryptedKey (rcp : Json) : Bool :=
  match rcp.get? "encrypted_key" with
  | none => true
  | some (.str s) => s.isEmpty
  | some _ => false

/-- `wrap.unw` per family: the CEK object with "k" set -/
def unw (P : Prims) : Nat → String → Json → Json → Json → Json → Bs → Option Json
  | 0, _, _, _, _, _, _ => none
  | fuel + 1, name, jwe, rcp, jwk, cek, rnd =>
    match wrapFamily name, cek with
    | some .dir, .obj c =>
      if !noEncryptedKey rcp then none else
      (match jwk with
       | .obj k => some (.obj (updateKV c k))
       | _ => none)
    | some (.aeskw klen), .obj c =>
      (exactKey jwk "k" klen).bind fun kek =>
      (bytesOfJson (rcp.get? "encrypted_key")).bind fun ct =>
      if ct.length > keymax + 16 then none else
      (P.kwUnwrap kek ct).map fun pt => .obj (setKV "k" (B64.enc pt) c)
    | some (.gcmkw klen), .obj c =>
      (jweHdr jwe (some rcp)).bind fun hdr =>
      (match hdr.get? "iv", hdr.get? "tag" with
       | some ivJ, some tagJ =>
         (match rcp.get? "encrypted_key" with
          | some (.str cts) =>
            (exactKey (.obj [("iv", ivJ)]) "iv" 12).bind fun iv =>
            (exactKey jwk "k" klen).bind fun kek =>
            (B64.decode (B64.bytesOfString cts)).bind fun ct =>
            (bytesOfJson (some tagJ)).bind fun tag =>
            if tag.length ≠ 16 then none else
            (P.gcmDec kek iv [] ct tag).map fun pt => .obj (setKV "k" (B64.enc pt) c)
          | _ => none)
       | _, _ => none)
    | some (.ecdhes kw dklFix), .obj c =>
      (jweHdr jwe (some rcp)).bind fun hdr =>
      (hdr.get? "epk").bind fun epk =>
      let excO : Option Json :=
        match jwk.get? "d" with
        | some _ =>
          (match ecKeyOf P jwk, ecKeyOf P epk with
           | some lcl, some rem =>
             if lcl.crv != rem.crv || !(lcl.crv == "P-256" || lcl.crv == "P-384" || lcl.crv == "P-521" || lcl.crv == "secp256k1") then none else
             (lcl.d.bind fun d => P.ecdh lcl.crv d rem.x rem.y).map fun (zx, zy) =>
               .obj [("kty", .str "EC"), ("crv", .str lcl.crv), ("x", B64.enc zx), ("y", B64.enc zy)]
           | _, _ => none)
        | none =>
          (match jwk.get? "crv", epk.get? "crv" with
           | some a, some b => if Json.equal a b then some jwk else none
           | _, _ => none)
      excO.bind fun exc =>
      (ecdhesDerive P name kw dklFix hdr cek exc).bind fun der =>
        (match kw with
         | some kwName => unw P fuel kwName jwe rcp der cek []
         | none =>
           if !noEncryptedKey rcp then none else
           (match der with | .obj dkv => some (.obj (updateKV c dkv)) | _ => none))
    | some (.rsa oaep), .obj c =>
      (match jwk.getStr? "kty", rsaKeyOf jwk with
       | some "RSA", some key =>
         (bytesOfJson (rcp.get? "encrypted_key")).bind fun ct =>
         let res : Option Bs := if key.hasPriv then P.rsaDec oaep key.priv ct else none
         (match res, oaep with
          | some pt, _ => some (.obj (setKV "k" (B64.enc pt) c))
          | none, none => some (.obj (setKV "k" (B64.enc (rnd.take ct.length)) c))   -- RSA1_5: random CEK
          | none, some _ => none)
       | _, _ => none)
    | some (.pbes2 h aes klen), .obj _ =>
      (jweHdr jwe (some rcp)).bind fun hdr =>
      (pbes2UnwParams hdr).bind fun (iter, st) =>
      (pbes2Key P name h klen jwk st iter).bind fun key => unw P fuel aes jwe rcp key cek []
    | _, _ => none

/-- how the header's alg / enc and the key's alg are reconciled by `jose_jwe_dec_jwk` -/
def decJwkSelect (halg henc kalg : Option String) : Option String :=
  match halg with
  | none => kalg
  | some h =>
    match kalg with
    | none => some h
    | some k => if h = k || henc = some k then some h else none

/-- one recipient object, one key -/
def decJwkOne (P : Prims) (jwe rcp jwk : Json) (rnd : Bs) : Option Json :=
  (jweHdr jwe (some rcp)).bind fun hdr =>
  (optStr hdr "alg").bind fun halg =>
  (optStr hdr "enc").bind fun henc =>
  (decJwkSelect halg henc (jwk.getStr? "alg")).bind fun name =>
  (findWrap name).bind fun a =>
  if !Jwk.prm (some jwk) false a.p2 then none else
  (hdr.get? "enc").bind fun encJ =>       -- json_pack "O" with a NULL value fails
  let cek : Json := .obj [("kty", .str "oct"), ("use", .str "enc"), ("enc", encJ),
                          ("key_ops", .arr [.str "encrypt", .str "decrypt"])]
  unw P 3 a.name jwe rcp jwk cek rnd

/-- recipients tried for one key when no recipient is named -/
def rcpObjs (jwe : Json) : List Json :=
  match jwe.get? "recipients" with
  | some (.arr l) => l
  | some _ => []
  | none => [jwe]

/-- `jose_jwe_dec_jwk(cfg, jwe, rcp, jwk)` (plain keys or a list of plain keys) -/
def decJwk (P : Prims) (jwe : Json) (rcp : Option Json) (jwk : Json) (rnd : Bs) : Option Json :=
  let one (k : Json) : Option Json :=
    match rcp with
    | some r => decJwkOne P jwe r k rnd
    | none => (rcpObjs jwe).findSome? (fun r => decJwkOne P jwe r k rnd)
  match keyList jwk with
  | some keys => keys.findSome? (fun k => match keyList k with | some _ => none | none => one k)
  | none => one jwk

/-- `jose_jwe_dec(cfg, jwe, rcp, jwk, &ptl)` -/
def dec (P : Prims) (jwe : Json) (rcp : Option Json) (jwk : Json) (rnd : Bs) : Option Bs :=
  (decJwk P jwe rcp jwk rnd).bind fun cek => decCek P jwe cek

/-- bytes of the RAND_bytes stream a wrap of family `name` draws before anything else does: the CEK
    (when it has no "k" yet and is not taken from the key) and the family's own IV / salt -/
def wrapRandUse (name : String) (cekHadK : Bool) (enc : Option String) : Nat :=
  let cekBytes := if cekHadK || name == "dir" then 0 else ((enc.bind encKeyLen).getD 0)
  cekBytes + (match wrapFamily name with
    | some (.gcmkw _) => 12
    | some (.pbes2 _ _ k) => k
    | _ => 0)

/-- the key-management algorithm `encJwkOne` settles on -/
def encJwkName (jwe : Json) (rcp : Option Json) (jwk : Json) : Option String :=
  let r : Json := match rcp with | some x => x | none => .obj []
  (jweHdr jwe (some r)).bind fun hdr => (findAlgWrap hdr r jwk).map fun (a, _) => a.name

/-- the multi-key loop of `jose_jwe_enc_jwk`: key `i` gets element `i` of an array template, or
    (a fresh copy of) the shared template itself — never what an earlier key made of it -/
def encJwkKeys (P : Prims) (rcp : Option Json) : List Json → Nat → Json → Json → Bs → Option (Json × Json × Bs)
  | [], _, jwe, cek, rnd => some (jwe, cek, rnd)
  | k :: ks, i, jwe, cek, rnd =>
    let tmpl : Option Json := match rcp with | some (.arr l) => l[i]? | other => other
    match keyList k with
    | some _ => none             -- nested key lists: not modelled
    | none =>
      (encJwkOne P jwe tmpl k cek rnd).bind fun (jwe1, cek1) =>
        let used := wrapRandUse ((encJwkName jwe tmpl k).getD "") (cek.get? "k").isSome (cek1.getStr? "alg")
        encJwkKeys P rcp ks (i + 1) jwe1 cek1 (rnd.drop used)

/-- `jose_jwe_enc_jwk(cfg, jwe, rcp, jwk, cek)`: the JWE and CEK afterwards and the unread rest of
    the random stream; `none` = false -/
def encJwk (P : Prims) (jwe : Json) (rcp : Option Json) (jwk cek : Json) (rnd : Bs) : Option (Json × Json × Bs) :=
  match keyList jwk with
  | some keys =>
    let sizeOk := match rcp with | some (.arr l) => l.length == keys.length | _ => true
    if !sizeOk || keys.isEmpty then none else encJwkKeys P rcp keys 0 jwe cek rnd
  | none =>
    (encJwkOne P jwe rcp jwk cek rnd).map fun (jwe1, cek1) =>
      (jwe1, cek1, rnd.drop (wrapRandUse ((encJwkName jwe rcp jwk).getD "") (cek.get? "k").isSome (cek1.getStr? "alg")))

/-- `jose_jwe_enc(cfg, jwe, rcp, jwk, pt, ptl)` over one random stream -/
def encAll (P : Prims) (jwe : Json) (rcp : Option Json) (jwk : Json) (pt rnd : Bs) : Option Json :=
  (encJwk P jwe rcp jwk (.obj []) rnd).bind fun (jwe1, cek, rest) => encCek P jwe1 cek pt rest

/-- `jose_jwe_enc(cfg, jwe, rcp, jwk, pt, ptl)`, one key -/
def enc (P : Prims) (jwe : Json) (rcp : Option Json) (jwk : Json) (pt rndK rndC : Bs) : Option Json :=
  (encJwkOne P jwe rcp jwk (.obj []) rndK).bind fun (jwe1, cek) => encCek P jwe1 cek pt rndC

end Jwe
end Jose
