/-
  Allocation-fault semantics of a library call, as a small program calculus.

  A call is a tree: at every allocation site the program continues one way when the allocation
  succeeded and another way when it returned NULL; leaves are a returned result, a reported
  failure, or a crash (a NULL pointer used).  `exec p n fault` runs the tree with the allocation
  counter at `n`, failing exactly the allocation whose index is `fault` (none: fault-free) — the
  schedule the harness (harness/hx_alloc.c) imposes on the real library, one `k` at a time.

  The discipline the C code follows is *not* "check every pointer at once": constructors are
  chained and tested together (lib/hsh.c: `buf = ..; enc = ..(buf); _hsh = ..(enc);
  if (!buf || !enc || !_hsh || ..) return NULL;`), so after a failed allocation further
  allocations may still happen.  `Checked` captures exactly that: once an allocation has failed,
  every leaf that can still be reached is a reported failure.
-/
namespace Jose
namespace Alloc

inductive Out (α : Type) where
  | ok (a : α)
  | failed
  | crashed
  deriving DecidableEq, Repr

inductive Prog (α : Type) where
  | ret (a : α)
  | fail
  | crash
  | alloc (k : Bool → Prog α)

/-- run with the allocation counter at `n`; allocation number `fault` returns NULL -/
def exec {α : Type} : Prog α → Nat → Option Nat → Out α
  | .ret a, _, _ => .ok a
  | .fail, _, _ => .failed
  | .crash, _, _ => .crashed
  | .alloc k, n, f => exec (k (f != some n)) (n + 1) f

/-- number of allocations of the fault-free run (the `N` the harness measures first) -/
def count {α : Type} : Prog α → Nat
  | .alloc k => count (k true) + 1
  | _ => 0

/-- every leaf is a reported failure, whatever further allocations do -/
def AllFail {α : Type} : Prog α → Prop
  | .fail => True
  | .ret _ => False
  | .crash => False
  | .alloc k => AllFail (k true) ∧ AllFail (k false)

/-- the discipline: after a failed allocation only reported failure is reachable; no leaf
    reachable in any schedule is a crash -/
def Checked {α : Type} : Prog α → Prop
  | .ret _ => True
  | .fail => True
  | .crash => False
  | .alloc k => Checked (k true) ∧ AllFail (k false)

/-- the same, decidable for finite trees (used for the instances below) -/
def allFailB {α : Type} : Prog α → Bool
  | .fail => true
  | .ret _ => false
  | .crash => false
  | .alloc k => allFailB (k true) && allFailB (k false)

def checkedB {α : Type} : Prog α → Bool
  | .ret _ => true
  | .fail => true
  | .crash => false
  | .alloc k => checkedB (k true) && allFailB (k false)

theorem allFailB_iff {α : Type} (p : Prog α) : allFailB p = true ↔ AllFail p := by
  induction p with
  | ret a => simp [allFailB, AllFail]
  | fail => simp [allFailB, AllFail]
  | crash => simp [allFailB, AllFail]
  | alloc k ih => simp [allFailB, AllFail, ih]

theorem checkedB_iff {α : Type} (p : Prog α) : checkedB p = true ↔ Checked p := by
  induction p with
  | ret a => simp [checkedB, Checked]
  | fail => simp [checkedB, Checked]
  | crash => simp [checkedB, Checked]
  | alloc k ih => simp [checkedB, Checked, ih, allFailB_iff]

/-! ### the library calls of lib/hsh.c, statement by statement

  `okRun`: the digest computation itself (feed/done on a chain whose stages all exist) succeeds —
  it allocates nothing that the property quantifies over (OpenSSL's internals are not failed). -/

/-- `hsh()`:  buf = jose_io_buffer(..)            -- calloc
              enc = jose_b64_enc_io(buf)          -- calloc, whatever `buf` is
              _hsh = hsh_io(cfg, alg, enc)        -- calloc, then NULL when `enc` is NULL
              if (!buf || !enc || !_hsh || !feed || !done) return NULL;
              return json_stringn(b, l);          -- allocates; NULL on failure -/
def hshProg (okRun : Bool) : Prog Unit :=
  .alloc fun buf => .alloc fun enc => .alloc fun h =>
    let stage := h && enc           -- lib/openssl/hash.c: `if (!i->next || !i->emc) return NULL`
    if !buf || !enc || !stage || !okRun then .fail
    else .alloc fun str => if str then .ret () else .fail

/-- `hsh_buf()` after its argument checks: buf = jose_io_buffer(..); _hsh = a->hash.hsh(a, cfg, buf);
    if (!buf || !_hsh || !feed || !done) return SIZE_MAX; return hlen; -/
def hshBufProg (okRun : Bool) : Prog Unit :=
  .alloc fun buf => .alloc fun h =>
    let stage := h && buf
    if !buf || !stage || !okRun then .fail else .ret ()

/-- the shape of seeded change C20-7: only the head of the chain is tested, and the encoder (built
    around a NULL sink) is driven -/
def hshProgHeadOnly (okRun : Bool) : Prog Unit :=
  .alloc fun buf => .alloc fun enc => .alloc fun h =>
    let stage := h && enc
    if !stage then .fail
    else if !buf then .crash            -- enc_feed dereferences i->next == NULL
    else if !okRun then .fail
    else .alloc fun str => if str then .ret () else .fail

/-- a generic "allocate, test, continue" step: the common case in the library -/
def step {α : Type} (k : Prog α) : Prog α := .alloc fun b => if b then k else .fail

/-- a call that makes `n` individually tested allocations and then returns `a` -/
def steps {α : Type} (a : α) : Nat → Prog α
  | 0 => .ret a
  | n + 1 => step (steps a n)

/-- sequencing: a call that uses the result of another call (`jose_b64_enc_dump` = `json_dumps`, then
    `jose_b64_enc` on its text) -/
def bind {α β : Type} : Prog α → (α → Prog β) → Prog β
  | .ret a, f => f a
  | .fail, _ => .fail
  | .crash, _ => .crash
  | .alloc k, f => .alloc fun b => bind (k b) f

/-- `jose_b64_enc(i, il)`: elen = b64_elen(il); if (elen == SIZE_MAX) return NULL;
      enc = calloc(1, elen); if (!enc) return NULL;
      if (jose_b64_enc_buf(i, il, enc, elen) == elen) out = json_stringn(enc, elen);   -- allocates
      free(enc); return out; -/
def b64EncProg (sizeOk : Bool) : Prog Unit :=
  if !sizeOk then .fail
  else .alloc fun enc => if !enc then .fail else .alloc fun str => if str then .ret () else .fail

/-- `jose_b64_dec_load(i)`: size query, calloc, decode, `json_loadb` (`parse` allocations, each tested
    by the JSON layer; `parseOk`: the text is JSON) -/
def b64DecLoadProg (sizeOk decOk parseOk : Bool) (parse : Nat) : Prog Unit :=
  if !sizeOk then .fail
  else .alloc fun buf =>
    if !buf then .fail
    else if !decOk then .fail
    else bind (steps () parse) fun _ => if parseOk then .ret () else .fail

/-- `jose_b64_enc_dump(i)`: buf = json_dumps(i, ..) (`dump` allocations); if (!buf) return NULL;
    out = jose_b64_enc(buf, strlen(buf)); -/
def b64EncDumpProg (dump : Nat) (sizeOk : Bool) : Prog Unit :=
  bind (steps () dump) fun _ => b64EncProg sizeOk

end Alloc
end Jose
