import Jose.B64
/-
  Model of lib/io.c and of the streaming stages built on it (lib/b64.c streaming
  codecs, hash / inflate / deflate style transformers, multiplexer, sinks).

  A chain has a static shape (`Stage`) and a dynamic state (`St`).  `feed`/`done`
  are defined by structural recursion on the shape, so that a stage may call its
  successor several times per call (the b64 codecs flush one staging buffer at a
  time, exactly as `enc_feed`/`dec_feed` do).

    sink            ↔ jose_io_malloc     (concatenates)
    buffer cap      ↔ jose_io_buffer     (`len > max - *len` → false, nothing stored)
    probe failAt    ↔ the harness's recording sink (fails on call number `failAt`)
    b64enc/b64dec   ↔ jose_b64_enc_io / jose_b64_dec_io with the 48/64 byte staging buffer
    xform T         ↔ a transformer that consumes everything and emits at `done`
                      (hash: hsh_feed/hsh_done; also the verdict-level view of
                      sign/verify/cipher/inflate stages)
    plex all bs     ↔ jose_io_multiplex (status starts false; OR of branches; a failing
                      branch is dropped; with `all` the call returns false at once)
-/
namespace Jose
namespace IO

/-- transformer run at `done` on everything that was fed; `none` = the stage fails.
    `maxFeed`: a single feed longer than this is refused (inflate) -/
structure XF where
  final : List Nat → Option (List Nat)
  maxFeed : Option Nat := none

mutual
  inductive Stage where
    | sink
    | buffer (cap : Nat)
    | probe (failAt : Option Nat)
    | b64enc (next : Stage)
    | b64dec (next : Stage)
    | xform (t : XF) (next : Stage)
    | plex (all : Bool) (bs : Branches)
  inductive Branches where
    | nil
    | cons (s : Stage) (rest : Branches)
end

/-- one recorded call of the probe sink -/
inductive Call where
  | feed (x : List Nat)
  | done
  deriving DecidableEq, Repr

mutual
  inductive St where
    | sink (data : List Nat)
    | buffer (data : List Nat)
    | probe (calls : Nat) (log : List Call)
    | b64 (buf : List Nat) (next : St)
    | xform (acc : List Nat) (next : St)
    | plex (bs : StL)
    deriving Repr
  inductive StL where
    | nil
    | cons (alive : Bool) (s : St) (rest : StL)
    deriving Repr
end

mutual
  def init : Stage → St
    | .sink => .sink []
    | .buffer _ => .buffer []
    | .probe _ => .probe 0 []
    | .b64enc n => .b64 [] (init n)
    | .b64dec n => .b64 [] (init n)
    | .xform _ n => .xform [] (init n)
    | .plex _ bs => .plex (initL bs)
  def initL : Branches → StL
    | .nil => .nil
    | .cons s r => .cons true (init s) (initL r)
end

/-- feed a list of blocks one after the other, stopping at the first refusal -/
def loopFeeds {σ : Type} (f : σ → List Nat → σ × Bool) : σ → List (List Nat) → σ × Bool
  | s, [] => (s, true)
  | s, b :: bs =>
    let (s', ok) := f s b
    if ok then loopFeeds f s' bs else (s', false)

/-- sizes of the staging buffers: `sizeof(i->db)` and `sizeof(i->eb)` in lib/b64.c -/
def encBlk : Nat := Tables.b64EncBlk
def decBlk : Nat := Tables.b64DecBlk

/-- the `while (len > 0)` loop of `enc_feed`: blocks handed to `next->feed`, new staging buffer -/
def encBlocks : Nat → List Nat → List Nat → List (List Nat) × List Nat
  | 0, buf, _ => ([], buf)
  | fuel + 1, buf, x =>
    if x.isEmpty then ([], buf)
    else
      let k := min (encBlk - buf.length) x.length
      let buf1 := buf ++ x.take k
      let n := buf1.length - buf1.length % 3
      let (bs, buf2) := encBlocks fuel (buf1.drop n) (x.drop k)
      (B64.encChars (buf1.take n) :: bs, buf2)

/-- the loop of `dec_feed`: decoded blocks before the first undecodable one, the
    new staging buffer, and whether every aligned block decoded -/
def decBlocks : Nat → List Nat → List Nat → List (List Nat) × List Nat × Bool
  | 0, buf, _ => ([], buf, true)
  | fuel + 1, buf, x =>
    if x.isEmpty then ([], buf, true)
    else
      let k := min (decBlk - buf.length) x.length
      let buf1 := buf ++ x.take k
      let n := buf1.length - buf1.length % 4
      match B64.decode (buf1.take n) with
      | none => ([], buf1, false)
      | some d =>
        let (bs, buf2, ok) := decBlocks fuel (buf1.drop n) (x.drop k)
        (d :: bs, buf2, ok)

mutual
  def feed : Stage → St → List Nat → St × Bool
    | .sink, .sink d, x => (.sink (d ++ x), true)
    | .buffer cap, .buffer d, x =>
      if x.length > cap - d.length then (.buffer d, false) else (.buffer (d ++ x), true)
    | .probe fa, .probe c l, x => (.probe (c + 1) (l ++ [.feed x]), fa ≠ some c)
    | .b64enc n, .b64 buf ns, x =>
      let (blocks, buf') := encBlocks (x.length + 1) buf x
      let (ns', ok) := loopFeeds (feed n) ns blocks
      (.b64 buf' ns', ok)
    | .b64dec n, .b64 buf ns, x =>
      let (blocks, buf', dok) := decBlocks (x.length + 1) buf x
      let (ns', ok) := loopFeeds (feed n) ns blocks
      (.b64 buf' ns', ok && dok)
    | .xform t _, .xform acc ns, x =>
      match t.maxFeed with
      | some m => if x.length > m then (.xform acc ns, false) else (.xform (acc ++ x) ns, true)
      | none => (.xform (acc ++ x) ns, true)
    | .plex all bs, .plex sl, x =>
      let (sl', r) := feedL all bs sl x
      (.plex sl', match r with | some st => st | none => false)
    | _, s, _ => (s, false)
  /-- `plex_feed`: `none` = returned false because a branch failed in `all` mode;
      `some status` = the OR accumulated over the live branches -/
  def feedL : Bool → Branches → StL → List Nat → StL × Option Bool
    | _, .nil, .nil, _ => (.nil, some false)
    | all, .cons _ r, .cons false s rs, x =>
      let (rs', st) := feedL all r rs x
      (.cons false s rs', st)
    | all, .cons sg r, .cons true s rs, x =>
      let (s', ok) := feed sg s x
      if ok then
        let (rs', st) := feedL all r rs x
        (.cons true s' rs', st.map (fun _ => true))
      else if all then (.cons false s' rs, none)
      else
        let (rs', st) := feedL all r rs x
        (.cons false s' rs', st)
    | _, _, sl, _ => (sl, none)
end

mutual
  def done : Stage → St → St × Bool
    | .sink, .sink d => (.sink d, true)
    | .buffer _, .buffer d => (.buffer d, true)
    | .probe fa, .probe c l => (.probe (c + 1) (l ++ [.done]), fa ≠ some c)
    | .b64enc n, .b64 buf ns =>
      let (ns1, ok) := feed n ns (B64.encChars buf)
      if ok then
        let (ns2, ok2) := done n ns1
        (.b64 [] ns2, ok2)
      else (.b64 [] ns1, false)
    | .b64dec n, .b64 buf ns =>
      match B64.decode buf with
      | none => (.b64 buf ns, false)
      | some d =>
        let (ns1, ok) := feed n ns d
        if ok then
          let (ns2, ok2) := done n ns1
          (.b64 [] ns2, ok2)
        else (.b64 [] ns1, false)
    | .xform t n, .xform acc ns =>
      match t.final acc with
      | none => (.xform acc ns, false)
      | some out =>
        let (ns1, ok) := feed n ns out
        if ok then
          let (ns2, ok2) := done n ns1
          (.xform acc ns2, ok2)
        else (.xform acc ns1, false)
    | .plex all bs, .plex sl =>
      let (sl', r) := doneL all bs sl
      (.plex sl', match r with | some st => st | none => false)
    | _, s => (s, false)
  def doneL : Bool → Branches → StL → StL × Option Bool
    | _, .nil, .nil => (.nil, some false)
    | all, .cons _ r, .cons false s rs =>
      let (rs', st) := doneL all r rs
      (.cons false s rs', st)
    | all, .cons sg r, .cons true s rs =>
      let (s', ok) := done sg s
      if ok then
        let (rs', st) := doneL all r rs
        (.cons true s' rs', st.map (fun _ => true))
      else if all then (.cons false s' rs, none)
      else
        let (rs', st) := doneL all r rs
        (.cons false s' rs', st)
    | _, _, sl => (sl, none)
end

/-- feed the chunks in order, stopping at the first `false` (what a caller does) -/
def feeds (sg : Stage) : St → List (List Nat) → St × Bool := loopFeeds (feed sg)

/-- a whole stream: the chunks, then `done`; the verdict is `false` as soon as any
    step reports `false` -/
def run (sg : Stage) (cs : List (List Nat)) : St × Bool :=
  match feeds sg (init sg) cs with
  | (s, true) => done sg s
  | (s, false) => (s, false)

theorem run_of_feeds (sg : Stage) (cs : List (List Nat)) (s : St) (ok : Bool)
    (h : feeds sg (init sg) cs = (s, ok)) : run sg cs = if ok then done sg s else (s, false) := by
  cases ok <;> simp [run, h]

/-- per-step verdicts of a run, for the correspondence: one Bool per feed actually
    made (the run stops after the first `false`) and the verdict of `done` if reached -/
def runTrace (sg : Stage) : St → List (List Nat) → St × List Bool × Option Bool
  | s, [] =>
    let (s', ok) := done sg s
    (s', [], some ok)
  | s, c :: cs =>
    let (s', ok) := feed sg s c
    if ok then
      let (s'', fs, d) := runTrace sg s' cs
      (s'', true :: fs, d)
    else (s', [false], none)

mutual
  /-- what the sinks hold, left to right -/
  def leaves : St → List St
    | .b64 _ n => leaves n
    | .xform _ n => leaves n
    | .plex sl => leavesL sl
    | s => [s]
  def leavesL : StL → List St
    | .nil => []
    | .cons _ s r => leaves s ++ leavesL r
end

end IO
end Jose
