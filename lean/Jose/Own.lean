/-
  A small ownership calculus for jansson reference counts, and the scripts of the library functions
  the property singles out, written to mirror the C text statement by statement
  (lib/jws.c jose_jws_hdr, lib/jwe.c jose_jwe_hdr, the `next` discipline of IO stages).

  `caller` is the net change applied to reference counts of nodes the caller owns; `live` counts
  values the function created (or took a reference to) and has neither released nor returned.
-/
namespace Jose
namespace Own

inductive Kind where
  | null | bool | int | real | str | arr | obj
  deriving DecidableEq, Repr

structure St where
  caller : Int := 0
  live : Int := 0
  returned : Bool := false
  deriving DecidableEq, Repr

/-- what a `json_auto_t *` variable holds at a given point -/
inductive Hold where
  | nothing                 -- NULL
  | callerRef               -- a caller-owned node on which this function holds one extra reference
  | own (isObj : Bool)      -- a value created here
  deriving DecidableEq, Repr

/-- scope exit of a `json_auto_t` variable: one `json_decref` -/
def autoRelease (s : St) : Hold → St
  | .nothing => s
  | .callerRef => { s with caller := s.caller - 1 }
  | .own _ => { s with live := s.live - 1 }

/-- `return json_incref(p)` followed by the scope exit: the value goes to the caller -/
def giveBack (s : St) : Hold → St
  | .nothing => s
  | .callerRef => { s with returned := true }        -- +1 (incref) -1 (auto): the extra reference is the caller's now
  | .own _ => { s with live := s.live - 1, returned := true }

/-- outcome of `jose_b64_dec_load`: NULL, a non-object value, an object -/
inductive Load where
  | null | nonObj | obj
  deriving DecidableEq, Repr

/-- the common prologue of both header functions:
      p = json_incref(json_object_get(x, "protected"));
      if (!p) p = json_object();
      else if (json_is_object(p)) { json_decref(p); p = json_deep_copy(p); }
      else if (json_is_string(p)) { json_decref(p); p = jose_b64_dec_load(p); } -/
def protectedCopy (prot : Option Kind) (load : Load) : St × Hold :=
  match prot with
  | none => ({ live := 1 }, .own true)
  | some .obj => ({ caller := 1 - 1, live := 1 }, .own true)
  | some .str =>
    (match load with
     | .null => ({ caller := 1 - 1 }, .nothing)
     | .nonObj => ({ caller := 1 - 1, live := 1 }, .own false)
     | .obj => ({ caller := 1 - 1, live := 1 }, .own true))
  | some _ => ({ caller := 1 }, .callerRef)

def holdsObject : Hold → Option Kind → Bool
  | .own b, _ => b
  | .callerRef, some .obj => true     -- unreachable: objects are copied
  | _, _ => false

/-- the `json_object_update_missing(p, h)` steps: `merges` lists, per optional source, whether it
    is present and whether the update succeeds -/
def mergeAll (s : St) (p : Hold) : List (Bool × Bool) → St
  | [] => giveBack s p
  | (present, ok) :: r =>
    if present && !ok then autoRelease s p      -- return NULL
    else mergeAll s p r

/-- `jose_jws_hdr(sig)` / `jose_jwe_hdr(jwe, rcp)`: `merges` has one entry (header) or two
    (unprotected, recipient header) -/
def hdrScript (prot : Option Kind) (load : Load) (merges : List (Bool × Bool)) : St :=
  let (s, p) := protectedCopy prot load
  if !holdsObject p prot then autoRelease s p      -- `if (!json_is_object(p)) return NULL;`
  else mergeAll s p merges

/-- balanced: the caller's counts are what they were and nothing created here is still alive -/
def St.balanced (s : St) : Bool := s.caller == 0 && s.live == 0

/-! ### IO stages: each stage owns one reference to its downstream -/

/-- reference count of the sink after building a chain of `n` stages on top of it (each
    constructor increfs its `next`) and then releasing the head (each `free` decrefs its `next`);
    the caller keeps its own reference throughout -/
def sinkAfterBuild (sink : Nat) : Nat → Nat
  | 0 => sink
  | _ + 1 => sink + 1           -- only the stage directly above holds a reference to the sink

def sinkAfterFree (afterBuild : Nat) : Nat → Nat
  | 0 => afterBuild
  | _ + 1 => afterBuild - 1

end Own
end Jose
