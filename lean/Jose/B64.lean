import Jose.Tables
import Jose.Json
import Jose.JsonParse
/-
  Model of lib/b64.c.  Bytes and characters are `Nat`s (< 256 for everything that
  comes from real buffers).  Each function mirrors one C function:

    dlen, elen        ↔ b64_dlen, b64_elen           (`none` = SIZE_MAX)
    decLoop           ↔ the `for` loop of jose_b64_dec_buf (state `io % 4`, `rem`)
    encLoop           ↔ the `for` loop of jose_b64_enc_buf (state `io % 3`, `rem`;
                        the provisional last character the C writes and later
                        overwrites is the pending sextet `rem` here)
    decBuf, encBuf    ↔ jose_b64_dec_buf, jose_b64_enc_buf incl. NULL-output size
                        query and the `ol` guard
    dec, decLoad, enc, encDump ↔ the JSON wrappers

  C's shifts and masks are written with `/`, `%`, `*` (Jose/Lemmas/B64Bits.lean
  proves those equal to the bit operations on the ranges that occur).
-/
namespace Jose
namespace B64

open Tables

def indexOf? (c : Nat) : List Nat → Option Nat
  | [] => none
  | x :: r => if x = c then some 0 else (indexOf? c r).map (· + 1)

/-- the `for (v = 0; v < len && c != map[v]; v++)` search -/
def mapIdx (c : Nat) : Option Nat := indexOf? c b64Map

/-- `map[v]`; the default is unreachable for `v < 64` (`Tables.b64Map_length`) -/
def mapChar (v : Nat) : Nat := (b64Map[v]?).getD 0

def dlen (el : Nat) : Option Nat :=
  if el % 4 = 0 then some (el / 4 * 3)
  else if el % 4 = 2 then some (el / 4 * 3 + 1)
  else if el % 4 = 3 then some (el / 4 * 3 + 2)
  else none

def elen (dl : Nat) : Nat :=
  if dl % 3 = 0 then dl / 3 * 4
  else if dl % 3 = 1 then dl / 3 * 4 + 2
  else dl / 3 * 4 + 3

/-- result of a `*_buf` call: return value (`none` = SIZE_MAX), the bytes written to
    `o[0..]` in order, and whether an index ≥ `il` of the input was read -/
structure BufResult where
  ret : Option Nat
  written : List Nat
  oob : Bool := false
  deriving Repr, DecidableEq

/-- Decoder loop. `io` is the C loop index (only `io % 4` matters), `rem` the carry.
    Returns the bytes written from here on, whether the loop ran to completion
    without `return SIZE_MAX`, and whether `e[io+1]` was read past the end. -/
def decLoop : List Nat → Nat → Nat → List Nat × Bool × Bool
  | [], _, rem => ([], rem = 0, false)
  | c :: rest, io, rem =>
    match mapIdx c with
    | none => ([], false, false)
    | some v =>
      if io % 4 = 0 then
        -- `if (!e[io+1] || rem > 0) return SIZE_MAX;`
        match rest with
        | [] => ([], false, true)                      -- look-ahead beyond `il`
        | n :: _ =>
          if n = 0 ∨ rem > 0 then ([], false, false)
          else decLoop rest (io + 1) (v * 4 % 256)
      else if io % 4 = 1 then
        let (w, ok, oob) := decLoop rest (io + 1) (v * 16 % 256)
        ((rem + v / 16) :: w, ok, oob)
      else if io % 4 = 2 then
        let (w, ok, oob) := decLoop rest (io + 1) (v * 64 % 256)
        ((rem + v / 4) :: w, ok, oob)
      else
        let (w, ok, oob) := decLoop rest (io + 1) 0
        ((rem + v) :: w, ok, oob)

/-- `jose_b64_dec_buf(i, il, o, ol)`; `o = none` is the NULL output (size query) -/
def decBuf (e : List Nat) (o : Option Nat) : BufResult :=
  match o with
  | none => ⟨dlen e.length, [], false⟩
  | some ol =>
    match dlen e.length with
    | none => ⟨none, [], false⟩            -- `ol < SIZE_MAX`
    | some need =>
      if ol < need then ⟨none, [], false⟩
      else
        let (w, ok, oob) := decLoop e 0 0
        ⟨if ok then some w.length else none, w, oob⟩

/-- decoded bytes on success -/
def decode (e : List Nat) : Option (List Nat) :=
  match dlen e.length with
  | none => none
  | some _ =>
    let (w, ok, _) := decLoop e 0 0
    if ok then some w else none

/-- Encoder loop over sextet *values* (alphabet lookup applied by `encChars`). -/
def encLoop : List Nat → Nat → Nat → List Nat
  | [], io, rem => if io % 3 = 0 then [] else [rem]
  | c :: rest, io, rem =>
    if io % 3 = 0 then (c / 4) :: encLoop rest (io + 1) ((c % 4) * 16)
    else if io % 3 = 1 then (rem + c / 16) :: encLoop rest (io + 1) ((c % 16) * 4)
    else (rem + c / 64) :: (c % 64) :: encLoop rest (io + 1) 0

def encChars (b : List Nat) : List Nat := (encLoop b 0 0).map mapChar

/-- `jose_b64_enc_buf(i, il, o, ol)` -/
def encBuf (b : List Nat) (o : Option Nat) : BufResult :=
  match o with
  | none => ⟨some (elen b.length), [], false⟩
  | some ol =>
    if ol < elen b.length then ⟨none, [], false⟩
    else
      let w := encChars b
      ⟨some w.length, w, false⟩

/-! ### JSON wrappers -/

def bytesOfString (s : String) : List Nat := s.toUTF8.data.toList.map (·.toNat)

def natsToByteArray (l : List Nat) : ByteArray := ByteArray.mk (l.map (fun n => UInt8.ofNat n)).toArray

/-- `jose_b64_dec(i, o, ol)` -/
def dec (i : Option Json) (o : Option Nat) : BufResult :=
  match i with
  | some (.str s) => decBuf (bytesOfString s) o
  | _ => ⟨none, [], false⟩

/-- `jose_b64_dec_load(i)` -/
def decLoad (i : Option Json) : Option Json :=
  match i with
  | some (.str s) =>
    match decode (bytesOfString s) with
    | none => none
    | some bytes => Json.loadBytes { decodeAny := true } (natsToByteArray bytes)
  | _ => none

/-- `jose_b64_enc(i, il)`: the text is ASCII, so `json_stringn` always succeeds -/
def enc (b : List Nat) : Json :=
  .str (String.ofList ((encChars b).map Char.ofNat))

/-- `jose_b64_enc_dump(i)`: `json_dumps` without JSON_ENCODE_ANY refuses scalars -/
def encDump (i : Option Json) : Option Json :=
  match i with
  | some j =>
    if j.isObject || j.isArray then some (enc (bytesOfString j.dump)) else none
  | none => none

end B64
end Jose
