import Jose.IO
import Jose.Driver.Util
import Jose.Crypto.Sha
import Jose.Crypto.Inflate
namespace Jose.Driver
open Jose Jose.IO

def natsToBA (l : List Nat) : ByteArray := ByteArray.mk (l.map UInt8.ofNat).toArray
def baToNats (b : ByteArray) : List Nat := b.toList.map (·.toNat)

def hashAlgOfName : String → Option Crypto.HashAlg
  | "S1" => some .sha1 | "S224" => some .sha224 | "S256" => some .sha256
  | "S384" => some .sha384 | "S512" => some .sha512 | _ => none

/-- hash stage: digest of everything fed -/
def hashXF (h : Crypto.HashAlg) : XF := { final := fun acc => some (baToNats (Crypto.hash h (natsToBA acc))) }

/-- inflate stage as lib/zlib/deflate.c drives zlib: malformed input fails, a truncated
    stream is accepted (Z_BUF_ERROR is not an error there) and its decodable prefix is emitted;
    a single feed above MAX_COMPRESSED_SIZE is refused -/
def inflateXF : XF :=
  { final := fun acc =>
      let r := Crypto.inflateRaw (64 * 1024 * 1024) (natsToBA acc)
      match r.status with
      | .ok => some (baToNats r.out)
      | .truncated => some (baToNats r.out)
      | _ => none
    maxFeed := some Tables.maxCompressed }

/-- deflate stage: the model emits stored blocks; only `inflate ∘ deflate = id` is relied on -/
def deflateXF : XF := { final := fun acc => some (baToNats (Crypto.deflateStored (natsToBA acc))) }

/-- stages that need more than this file knows (content decryption: Jose/Driver/Jwe.lean) -/
abbrev StageExt := String → Json → Stage → Option Stage

/-- chain description → stage, by fuel (the description's nesting depth is far below it) so that the function is
    total and the kernel can evaluate it (grid theorems) -/
def stageOfJsonF (ext : StageExt) : Nat → Json → Option Stage
  | 0, _ => none
  | fuel + 1, d =>
    let branches : List Json → Option Branches := fun l =>
      l.foldr (fun x acc => match stageOfJsonF ext fuel x, acc with
        | some s, some rs => some (.cons s rs)
        | _, _ => none) (some .nil)
    match d with
    | .arr (.str "malloc" :: _) => some .sink
    | .arr (.str "file" :: _) => some .sink
    | .arr [.str "buffer", .int c] => some (.buffer c.toNat)
    | .arr [.str "probe", .int k] => some (.probe (some k.toNat))
    | .arr [.str "probe", _] => some (.probe none)
    | .arr [.str "b64enc", n] => (stageOfJsonF ext fuel n).map .b64enc
    | .arr [.str "b64dec", n] => (stageOfJsonF ext fuel n).map .b64dec
    | .arr [.str "hash", .str a, n] => do
      let h ← hashAlgOfName a
      let s ← stageOfJsonF ext fuel n
      pure (.xform (hashXF h) s)
    | .arr [.str "inflate", n] => (stageOfJsonF ext fuel n).map (.xform inflateXF)
    | .arr [.str "deflate", n] => (stageOfJsonF ext fuel n).map (.xform deflateXF)
    | .arr [.str "plex", .bool all, .arr subs] => (branches subs).map (.plex all)
    | .arr [.str k, arg, n] => (stageOfJsonF ext fuel n).bind (ext k arg)
    | _ => none

def stageOfJsonX (ext : StageExt) (d : Json) : Option Stage := stageOfJsonF ext 64 d

def stageOfJson (d : Json) : Option Stage := stageOfJsonX (fun _ _ _ => none) d

def callJson : Call → Json
  | .feed x => .str ("f:" ++ hexOfNats x)
  | .done => .str "d"

def leafJson : St → Json
  | .sink d => .obj [("k", .str "sink"), ("data", .str (hexOfNats d))]
  | .buffer d => .obj [("k", .str "buffer"), ("canary", .bool true), ("data", .str (hexOfNats d))]
  | .probe _ l => .obj [("k", .str "probe"), ("log", .arr (l.map callJson))]
  | _ => .null

def runChainJson (sg : Stage) (feeds : List (List Nat)) : Json :=
  let (s, fs, d) := runTrace sg (init sg) feeds
  .obj [("feeds", .arr (fs.map .bool)),
        ("done", match d with | some b => .bool b | none => .null),
        ("leaves", .arr ((leaves s).map leafJson))]

def feedsOfJson (a : Json) : List (List Nat) :=
  match a.get? "feeds" with
  | some (.arr l) => l.filterMap (fun j => j.strVal?.map unhex)
  | _ => []

def ioRunWith (ext : StageExt) (a : Json) : Json :=
  match (a.get? "chain").bind (stageOfJsonX ext) with
  | none => .obj [("nochain", .bool true)]
  | some sg => runChainJson sg (feedsOfJson a)

/-- `io.run` itself is registered in Jose/Driver/Jwe.lean (with the content-decryption stage) -/
def ioOps : List (String × (Json → Json)) := []

end Jose.Driver
