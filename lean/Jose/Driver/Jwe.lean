import Jose.Jwe
import Jose.Exc
import Jose.Driver.Prims
import Jose.Driver.IO
import Jose.Driver.Entity
namespace Jose.Driver
open Jose

def tapeOf (a : Json) : Bs := (argHex? a "rand").getD []

def ptResult (r : Option Bs) : Json :=
  match r with
  | some pt => .obj [("ok", .bool true), ("pt", .str (hexOfNats pt))]
  | none => .obj [("ok", .bool false)]

/-- bytes of the RAND_bytes tape consumed by key wrapping before the content IV is drawn -/
def wrapRandUse (name : String) (cekHadK : Bool) (enc : Option String) : Nat :=
  let cekBytes := if cekHadK || name == "dir" then 0 else ((enc.bind Jwe.encKeyLen).getD 0)
  cekBytes + (match Jwe.wrapFamily name with
    | some (.gcmkw _) => 12
    | some (.pbes2 _ _ k) => k
    | _ => 0)

def jweOps : List (String × (Json → Json)) := [
  ("jwe.enc_jwk", fun a =>
    match a.get? "jwe", a.get? "jwk", a.get? "cek" with
    | some jwe, some jwk, some cek =>
      (match Jwe.encJwkOne realPrims jwe (a.get? "rcp") jwk cek (tapeOf a) with
       | some (j, c) => .obj [("ok", .bool true), ("jwe", j), ("cek", c)]
       | none => .obj [("ok", .bool false)])
    | _, _, _ => .obj [("ok", .bool false)]),
  ("jwe.enc_cek", fun a =>
    match a.get? "jwe", a.get? "cek" with
    | some jwe, some cek => okWith "jwe" (Jwe.encCek realPrims jwe cek ((argHex? a "pt").getD []) (tapeOf a))
    | _, _ => .obj [("ok", .bool false)]),
  ("jwe.enc_cek_io", fun a =>
    match a.get? "jwe", a.get? "cek" with
    | some jwe, some cek => okWith "jwe" (Jwe.encCek realPrims jwe cek (feedsOfJson a).flatten (tapeOf a))
    | _, _ => .obj [("ok", .bool false)]),
  ("jwe.enc", fun a =>
    match a.get? "jwe", a.get? "jwk" with
    | some jwe, some jwk =>
      let tape := tapeOf a
      (match Jwe.encJwkOne realPrims jwe (a.get? "rcp") jwk (.obj []) tape with
       | some (j, c) =>
         let name := ((Entity.jweHdr j (some (match j.get? "recipients" with
            | some (.arr l) => l.getLast?.getD j | _ => j))).bind (·.getStr? "alg")).getD ""
         let used := wrapRandUse name false (c.getStr? "alg")
         okWith "jwe" (Jwe.encCek realPrims j c ((argHex? a "pt").getD []) (tape.drop used))
       | none => .obj [("ok", .bool false)])
    | _, _ => .obj [("ok", .bool false)]),
  ("jwe.dec_jwk", fun a =>
    match a.get? "jwe", a.get? "jwk" with
    | some jwe, some jwk => optJson (Jwe.decJwk realPrims jwe (a.get? "rcp") jwk (tapeOf a))
    | _, _ => optJson none),
  ("jwe.dec_cek", fun a =>
    match a.get? "jwe", a.get? "cek" with
    | some jwe, some cek => ptResult (Jwe.decCek realPrims jwe cek)
    | _, _ => ptResult none),
  ("jwe.dec", fun a =>
    match a.get? "jwe", a.get? "jwk" with
    | some jwe, some jwk => ptResult (Jwe.dec realPrims jwe (a.get? "rcp") jwk (tapeOf a))
    | _, _ => ptResult none),
  ("jwe.dec_cek_io", fun a =>
    match a.get? "jwe", a.get? "cek" with
    | some jwe, some cek =>
      (match Jwe.decCekIo realPrims jwe cek .sink with
       | none => ptResult none
       | some sg =>
         let (s, ok) := IO.run sg (feedsOfJson a)
         if ok then
           (match IO.leaves s with
            | [.sink d] => ptResult (some d)
            | _ => ptResult none)
         else ptResult none)
    | _, _ => ptResult none),
  ("jwk.exc", fun a =>
    match a.get? "prv", a.get? "pub" with
    | some prv, some pub => optJson (Exc.exc realPrims prv pub)
    | _, _ => optJson none),
  ("jwk.gen", fun a =>
    match a.get? "jwk" with
    | some jwk => okWith "jwk" (Gen.gen realPrims jwk (tapeOf a))
    | none => .obj [("ok", .bool false)])
]
end Jose.Driver
