import Jose.Jwe
import Jose.Exc
import Jose.Driver.Prims
import Jose.Driver.IO
import Jose.Driver.Entity
namespace Jose.Driver
open Jose

def tapeOf (a : Json) : Bs := (argHex? a "rand").getD []

def ptResult (r : Option Bs) : Json :=
  match r with
  | some pt => .obj [("ok", .bool true), ("pt", .str (hexOfNats pt))]
  | none => .obj [("ok", .bool false)]

/-- `["jwedec", {jwe, cek}, next]`: `jose_jwe_dec_cek_io(cfg, jwe, cek, next)` -/
def jweStageExt : StageExt := fun k arg next =>
  match k, arg.get? "jwe", arg.get? "cek" with
  | "jwedec", some jwe, some cek => Jwe.decCekIo realPrims jwe cek next
  | _, _, _ => none

def jweOps : List (String × (Json → Json)) := [
  ("io.run", ioRunWith jweStageExt),
  ("jwe.enc_jwk", fun a =>
    match a.get? "jwe", a.get? "jwk", a.get? "cek" with
    | some jwe, some jwk, some cek =>
      (match Jwe.encJwk realPrims jwe (a.get? "rcp") jwk cek (tapeOf a) with
       | some (j, c, _) => .obj [("ok", .bool true), ("jwe", j), ("cek", c)]
       | none => .obj [("ok", .bool false)])
    | _, _, _ => .obj [("ok", .bool false)]),
  ("jwe.enc_cek", fun a =>
    match a.get? "jwe", a.get? "cek" with
    | some jwe, some cek => okWith "jwe" (Jwe.encCek realPrims jwe cek ((argHex? a "pt").getD []) (tapeOf a))
    | _, _ => .obj [("ok", .bool false)]),
  ("jwe.enc_cek_io", fun a =>
    match a.get? "jwe", a.get? "cek" with
    | some jwe, some cek => okWith "jwe" (Jwe.encCek realPrims jwe cek (feedsOfJson a).flatten (tapeOf a))
    | _, _ => .obj [("ok", .bool false)]),
  ("jwe.enc", fun a =>
    match a.get? "jwe", a.get? "jwk" with
    | some jwe, some jwk => okWith "jwe" (Jwe.encAll realPrims jwe (a.get? "rcp") jwk ((argHex? a "pt").getD []) (tapeOf a))
    | _, _ => .obj [("ok", .bool false)]),
  ("jwe.dec_jwk", fun a =>
    match a.get? "jwe", a.get? "jwk" with
    | some jwe, some jwk => optJson (Jwe.decJwk realPrims jwe (a.get? "rcp") jwk (tapeOf a))
    | _, _ => optJson none),
  ("jwe.dec_cek", fun a =>
    match a.get? "jwe", a.get? "cek" with
    | some jwe, some cek => ptResult (Jwe.decCek realPrims jwe cek)
    | _, _ => ptResult none),
  ("jwe.dec", fun a =>
    match a.get? "jwe", a.get? "jwk" with
    | some jwe, some jwk => ptResult (Jwe.dec realPrims jwe (a.get? "rcp") jwk (tapeOf a))
    | _, _ => ptResult none),
  ("jwe.dec_cek_io", fun a =>
    match a.get? "jwe", a.get? "cek" with
    | some jwe, some cek =>
      (match Jwe.decCekIo realPrims jwe cek .sink with
       | none => ptResult none
       | some sg =>
         let (s, ok) := IO.run sg (feedsOfJson a)
         if ok then
           (match IO.leaves s with
            | [.sink d] => ptResult (some d)
            | _ => ptResult none)
         else ptResult none)
    | _, _ => ptResult none),
  -- jose_jwe_enc_io = jose_jwe_enc_jwk then jose_jwe_enc_cek_io: the plaintext is what was fed
  ("jwe.enc_io", fun a =>
    match a.get? "jwe", a.get? "jwk" with
    | some jwe, some jwk => okWith "jwe" (Jwe.encAll realPrims jwe (a.get? "rcp") jwk (feedsOfJson a).flatten (tapeOf a))
    | _, _ => .obj [("ok", .bool false)]),
  -- jose_jwe_dec_io = jose_jwe_dec_jwk then jose_jwe_dec_cek_io
  ("jwe.dec_io", fun a =>
    match a.get? "jwe", a.get? "jwk" with
    | some jwe, some jwk =>
      (match Jwe.decJwk realPrims jwe (a.get? "rcp") jwk (tapeOf a) with
       | none => ptResult none
       | some cek =>
         (match Jwe.decCekIo realPrims jwe cek .sink with
          | none => ptResult none
          | some sg =>
            let (s, ok) := IO.run sg (feedsOfJson a)
            if ok then
              (match IO.leaves s with
               | [.sink d] => ptResult (some d)
               | _ => ptResult none)
            else ptResult none))
    | _, _ => ptResult none),
  ("jwk.exc", fun a =>
    match a.get? "prv", a.get? "pub" with
    | some prv, some pub => optJson (Exc.exc realPrims prv pub)
    | _, _ => optJson none),
  ("jwk.gen", fun a =>
    match a.get? "jwk" with
    | some jwk => okWith "jwk" (Gen.gen realPrims jwk (tapeOf a))
    | none => .obj [("ok", .bool false)])
]
end Jose.Driver
