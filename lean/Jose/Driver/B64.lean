import Jose.B64
import Jose.Driver.Util
namespace Jose.Driver
open Jose

def bufResult (r : B64.BufResult) (ol : Option Nat) : Json :=
  match ol with
  | none => .obj [("ret", sizeJson r.ret)]
  | some ol =>
    let base := [("ret", sizeJson r.ret), ("canary", Json.bool (decide (r.written.length ≤ ol) && !r.oob))]
    match r.ret with
    | some n => .obj (base ++ [("out", .str (hexOfNats (r.written.take n)))])
    | none => .obj base

def b64Ops : List (String × (Json → Json)) := [
  ("b64.enc_buf", fun a =>
    match argHex? a "in" with
    | none => err "no-in"
    | some i => bufResult (B64.encBuf i (argNat? a "ol")) (argNat? a "ol")),
  ("b64.dec_buf", fun a =>
    match argHex? a "in" with
    | none => err "no-in"
    | some i => bufResult (B64.decBuf i (argNat? a "ol")) (argNat? a "ol")),
  ("b64.dec", fun a => bufResult (B64.dec (a.get? "j") (argNat? a "ol")) (argNat? a "ol")),
  ("b64.dec_load", fun a => optJson (B64.decLoad (a.get? "j"))),
  ("b64.enc", fun a =>
    match argHex? a "in" with
    | none => err "no-in"
    | some i => optJson (some (B64.enc i))),
  ("b64.enc_dump", fun a => optJson (B64.encDump (a.get? "j")))
]

end Jose.Driver
