import Jose.Cfg
import Jose.Driver.Util
namespace Jose.Driver
open Jose Jose.Cfg

def cfgOpOf (j : Json) : Option (Option Cfg.Op) :=
  -- outer none: not an operation at all; inner none: legal line the model treats as "bad-op"
  match j with
  | .arr (.str "new" :: _) => some (some .new)
  | .arr [.str "incref", .int i] => some (some (.incref i.toNat))
  | .arr [.str "decref", .int i] => some (some (.decref i.toNat))
  | .arr [.str "auto", .int i] => some (some (.decref i.toNat))
  | .arr [.str "set", .int i, .int h, .int m] => some (some (.set i.toNat (h.toNat % 3) (m.toNat % 4)))
  | .arr [.str "get", .int i] => some (some (.get i.toNat))
  | .arr [.str "err", .null, .int c, .str m] => some (some (.err none c.toNat (m ++ "7")))
  | .arr [.str "err", .int i, .int c, .str m] => some (some (.err (some i.toNat) c.toNat (m ++ "7")))
  | .arr [.str "lib", c, .int k] =>
    let (code, msg) := (Cfg.libErrs[k.toNat]?).getD ((Cfg.libErrs.getLast?).getD (0, ""))
    match c with
    | .null => some (some (.err none code msg))
    | .int i => some (some (.err (some i.toNat) code msg))
    | _ => none
  | _ => none

def cfgOutJson : Cfg.Out → Json
  | .unit => .obj [("o", .str "unit"), ("same", .bool true)]
  | .created i => .obj [("o", .str "created"), ("slot", .int i)]
  | .misc m => .obj [("o", .str "misc"), ("misc", .int m)]
  | .delivered h m code msg =>
    .obj [("o", .str "err"),
          ("calls", .arr [.obj [("h", .int h), ("misc", .int m), ("code", .int code), ("msg", .str msg)]]),
          ("stderr", .str "")]
  | .dflt t => .obj [("o", .str "err"), ("calls", .arr []), ("stderr", .str t)]
  | .illegal => .obj [("o", .str "illegal")]

def cfgHist (a : Json) : Json :=
  match a.get? "ops" with
  | some (.arr ops) =>
    let rec go (s : Cfg.State) : List Json → List Json
      | [] => []
      | j :: r =>
        match cfgOpOf j with
        | some (some op) =>
          -- the harness supports 16 contexts
          if op = .new ∧ s.length ≥ 16 then .obj [("o", .str "bad-op")] :: go s r
          else
            let (s', out) := Cfg.step s op
            cfgOutJson out :: go s' r
        | _ => .obj [("o", .str "bad-op")] :: go s r
    .obj [("outs", .arr (go [] ops))]
  | _ => err "bad-args"

def cfgOps : List (String × (Json → Json)) := [("cfg.hist", cfgHist)]
end Jose.Driver
