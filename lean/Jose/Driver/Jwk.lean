import Jose.Jwk
import Jose.Driver.Prims
import Jose.Driver.B64
import Jose.Driver.Pure
namespace Jose.Driver
open Jose

def jwkOps : List (String × (Json → Json)) := jwkPureOps ++ [
  ("jwk.thp", fun a =>
    match a.get? "jwk", argStr? a "alg" with
    | some j, some alg => optJson (Jwk.thp realPrims j alg)
    | _, _ => optJson none),
  ("jwk.thp_buf", fun a =>
    match a.get? "jwk", argStr? a "alg" with
    | some j, some alg =>
      let len := argNat? a "len"
      let r := Jwk.thpBuf realPrims j alg len
      match len with
      | none => .obj [("ret", sizeJson r.ret)]
      | some n =>
        let base := [("ret", sizeJson r.ret), ("canary", Json.bool (decide (r.written.length ≤ n)))]
        match r.ret with
        | some k => if n > 0 then .obj (base ++ [("out", .str (hexOfNats (r.written.take k)))]) else .obj base
        | none => .obj base
    | _, _ => .obj [("ret", .str "max")])
]

end Jose.Driver
