import Jose.Jwk
import Jose.Driver.Prims
import Jose.Driver.B64
namespace Jose.Driver
open Jose

def jwkOps : List (String × (Json → Json)) := [
  ("jwk.prm", fun a => .obj [("r", .bool (Jwk.prm (a.get? "jwk") (argBool a "req" false) (argStr? a "op")))]),
  ("jwk.pub", fun a =>
    match a.get? "jwk" with
    | none => .obj [("ok", .bool false), ("jwk", .null)]
    | some j =>
      let (j', ok) := Jwk.pub j
      if ok then
        let (j2, ok2) := Jwk.pub j'
        .obj [("ok", .bool true), ("jwk", j'), ("again_same", .bool (ok2 && Json.equal j2 j'))]
      else .obj [("ok", .bool false), ("jwk", j')]),
  ("jwk.eql", fun a =>
    match a.get? "a", a.get? "b" with
    | some x, some y => .obj [("r", .bool (Jwk.eql x y))]
    | some x, none => .obj [("r", .bool (Jwk.eql x .null))]
    | _, _ => .obj [("r", .bool false)]),
  ("jwk.thp", fun a =>
    match a.get? "jwk", argStr? a "alg" with
    | some j, some alg => optJson (Jwk.thp realPrims j alg)
    | _, _ => optJson none),
  ("jwk.thp_buf", fun a =>
    match a.get? "jwk", argStr? a "alg" with
    | some j, some alg =>
      let len := argNat? a "len"
      let r := Jwk.thpBuf realPrims j alg len
      match len with
      | none => .obj [("ret", sizeJson r.ret)]
      | some n =>
        let base := [("ret", sizeJson r.ret), ("canary", Json.bool (decide (r.written.length ≤ n)))]
        match r.ret with
        | some k => if n > 0 then .obj (base ++ [("out", .str (hexOfNats (r.written.take k)))]) else .obj base
        | none => .obj base
    | _, _ => .obj [("ret", .str "max")])
]

end Jose.Driver
