import Jose.Jwk
import Jose.Fmt
import Jose.Cli
import Jose.Driver.Util
import Jose.Driver.B64
import Jose.Driver.Entity
import Jose.Driver.Cfg
import Jose.Driver.IO
/-
  The handlers of the line protocol that are pure model code (no primitive of Jose/Crypto, no
  `partial`): the very functions the correspondence run compares with the implementation.
  `Jose/GridTable.lean` (regenerated on every run from the library built from the working tree)
  lists, for a fixed grid of operations, what the implementation answered; `agrees` is the
  comparison the kernel evaluates in the `model_is_code_on_grid` theorems of Props/C05, C06,
  C08, C12, C15, C16.
-/
namespace Jose.Driver
open Jose

def jwkPureOps : List (String × (Json → Json)) := [
  ("jwk.prm", fun a => .obj [("r", .bool (Jwk.prm (a.get? "jwk") (argBool a "req" false) (argStr? a "op")))]),
  ("jwk.pub", fun a =>
    match a.get? "jwk" with
    | none => .obj [("ok", .bool false), ("jwk", .null)]
    | some j =>
      let (j', ok) := Jwk.pub j
      if ok then
        let (j2, ok2) := Jwk.pub j'
        .obj [("ok", .bool true), ("jwk", j'), ("again_same", .bool (ok2 && Json.equal j2 j'))]
      else .obj [("ok", .bool false), ("jwk", j')]),
  ("jwk.eql", fun a =>
    match a.get? "a", a.get? "b" with
    | some x, some y => .obj [("r", .bool (Jwk.eql x y))]
    | some x, none => .obj [("r", .bool (Jwk.eql x .null))]
    | _, _ => .obj [("r", .bool false)])
]

def strOfHex (h : String) : String :=
  match String.fromUTF8? (unhexBytes h) with
  | some s => s
  | none => ""

def hexOfStr (s : String) : String := hexOfBytes s.toUTF8

def filesArg (a : Json) : List (String × String) :=
  match a.get? "files" with
  | some (.obj kvs) => kvs.filterMap (fun (k, v) => v.strVal?.map (fun h => (k, strOfHex h)))
  | _ => []

def argvOf (a : Json) : List String :=
  match a.get? "argv" with
  | some (.arr l) => l.filterMap Json.strVal?
  | _ => []

def cliResult (status : Nat) (stdout : String) (files : List (String × String)) : Json :=
  .obj [("status", .int status), ("stdout", .str (hexOfStr stdout)),
        ("files", .obj (files.map (fun (f, t) => (f, Json.str (hexOfStr t)))))]

def fmtCli (a : Json) (argv : List String) : Json :=
  let stdin := (argStr? a "stdin").map strOfHex |>.getD ""
  match Fmt.parseArgv stdin (filesArg a) argv with
  | none => cliResult 255 "" []          -- option parsing failed: usage, status -1
  | some ops =>
    let (st, oc) := Fmt.run ops
    let (so, fs) := Fmt.finalFiles st.out
    cliResult (Fmt.exitStatus oc) so fs

def worldOf (a : Json) : Cli.World :=
  { stdin := (argStr? a "stdin").map unhex |>.getD [],
    files := match a.get? "files" with
      | some (.obj kvs) => kvs.filterMap (fun (k, v) => v.strVal?.map (fun h => (k, unhex h)))
      | _ => [] }

def resJson (r : Cli.Res) : Json :=
  .obj [("status", .int r.status), ("stdout", .str (hexOfNats r.stdout)),
        ("files", .obj (r.files.map (fun (f, t) => (f, Json.str (hexOfNats t)))))]

/-- the subcommands of the tool that need no primitive: `jose fmt`, and the control flow of `jws fmt`, `jwe fmt`,
    `jwk pub`, `jwk eql`, `jwk use`, `b64 enc`, `b64 dec`; `none` = not one of them -/
def cliPure (a : Json) : Option Json :=
  let w := worldOf a
  match argvOf a with
  | "fmt" :: rest => some (fmtCli a rest)
  | "jws" :: "fmt" :: rest => some (resJson (Cli.jwsFmt w rest))
  | "jwe" :: "fmt" :: rest => some (resJson (Cli.jweFmt w rest))
  | "jwk" :: "pub" :: rest => some (resJson (Cli.jwkPub w rest))
  | "jwk" :: "eql" :: rest => some (resJson (Cli.jwkEql w rest))
  | "jwk" :: "use" :: rest => some (resJson (Cli.jwkUse w rest))
  | "b64" :: "enc" :: rest => some (resJson (Cli.b64Enc w rest))
  | "b64" :: "dec" :: rest => some (resJson (Cli.b64Dec w rest))
  | _ => none

def fmtOps : List (String × (Json → Json)) := [
  ("cli.run", fun a => (cliPure a).getD (err "unmodelled-subcommand")),
  -- a failing run of the tool has usually written part of its output before it knew: only the status is compared
  ("cli.status", fun a => .obj [("status", (((cliPure a).getD (err "unmodelled-subcommand")).get? "status").getD .null)])
]

/-- chains of the public constructors (the content-decryption stage is registered in Jose/Driver/Jwe.lean) -/
def ioPureOps : List (String × (Json → Json)) := [("io.run", ioRunWith (fun _ _ _ => none))]

def pureOps : List (String × (Json → Json)) := b64Ops ++ entityOps ++ jwkPureOps ++ fmtOps ++ cfgOps ++ ioPureOps

/-- one row of the regenerated table: the operation, its arguments, what the implementation answered -/
structure GridRow where
  op : String
  args : Json
  result : Json

/-- the model's answer to the row's operation equals (`json_equal`) the implementation's -/
def agrees (r : GridRow) : Bool :=
  match pureOps.lookup r.op with
  | some f => Json.equal (f r.args) r.result
  | none => false

end Jose.Driver
