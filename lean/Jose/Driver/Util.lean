import Jose.Json
import Jose.JsonParse
/- Helpers of the line-protocol driver (not part of the model). -/
namespace Jose.Driver
open Jose

def hexDigit (n : Nat) : Char := if n < 10 then Char.ofNat (48 + n) else Char.ofNat (87 + n)

def hexOfNats (l : List Nat) : String :=
  String.ofList (l.flatMap fun b => [hexDigit (b / 16), hexDigit (b % 16)])

def hexOfBytes (b : ByteArray) : String := hexOfNats (b.toList.map (·.toNat))

def unhexChars : List Char → List Nat
  | a :: b :: r =>
    match Json.hexVal? a, Json.hexVal? b with
    | some x, some y => (x * 16 + y) :: unhexChars r
    | _, _ => []
  | _ => []

def unhex (s : String) : List Nat := unhexChars s.toList

def unhexBytes (s : String) : ByteArray := ByteArray.mk ((unhex s).map UInt8.ofNat).toArray

def sizeJson : Option Nat → Json
  | none => .str "max"
  | some n => .int n

def optJson : Option Json → Json
  | none => .obj [("nil", .bool true)]
  | some v => .obj [("v", v)]

def argNat? (args : Json) (k : String) : Option Nat :=
  match args.get? k with
  | some (.int i) => if i ≥ 0 then some i.toNat else none
  | _ => none

def argInt? (args : Json) (k : String) : Option Int :=
  match args.get? k with
  | some (.int i) => some i
  | _ => none

def argBool (args : Json) (k : String) (d : Bool) : Bool :=
  match args.get? k with
  | some (.bool b) => b
  | _ => d

def argStr? (args : Json) (k : String) : Option String := args.getStr? k

def argHex? (args : Json) (k : String) : Option (List Nat) := (args.getStr? k).map unhex

def err (m : String) : Json := .obj [("error", .str m)]

end Jose.Driver
