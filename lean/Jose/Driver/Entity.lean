import Jose.Entity
import Jose.Driver.Util
namespace Jose.Driver
open Jose

def strList (j : Option Json) : List String :=
  match j with
  | some (.arr l) => l.filterMap Json.strVal?
  | _ => []

def okWith (k : String) (r : Option Json) : Json :=
  match r with
  | some v => .obj [("ok", .bool true), (k, v)]
  | none => .obj [("ok", .bool false)]

def entityHist (root : Json) (objs : List Json) (plural : String) (keys : List String) : List Json :=
  match objs with
  | [] => []
  | o :: r =>
    match Entity.addEntity root (some o) plural keys with
    | some root' => root' :: entityHist root' r plural keys
    | none => .null :: entityHist root r plural keys

def entityOps : List (String × (Json → Json)) := [
  ("misc.entity_hist", fun a =>
    match a.get? "start", a.get? "objs", argStr? a "plural" with
    | some root, some (.arr objs), some pl =>
      .obj [("steps", .arr (entityHist root objs pl ((strList (a.get? "keys")).take 3)))]
    | _, _, _ => err "bad-args"),
  ("misc.add_entity", fun a =>
    match a.get? "root", argStr? a "plural" with
    | some root, some pl => okWith "root" (Entity.addEntity root (a.get? "obj") pl ((strList (a.get? "keys")).take 3))
    | _, _ => .obj [("ok", .bool false)]),
  ("misc.encode_protected", fun a =>
    match a.get? "obj" with
    | some o => okWith "obj" (Entity.encodeProtected o)
    | none => .obj [("ok", .bool false)]),
  ("jws.hdr", fun a => optJson (Entity.jwsHdr ((a.get? "sig").getD .null))),
  ("jwe.hdr", fun a => optJson (Entity.jweHdr ((a.get? "jwe").getD .null) (a.get? "rcp")))
]
end Jose.Driver
