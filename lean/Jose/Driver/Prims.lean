import Jose.Prim
import Jose.Driver.IO
import Jose.Crypto.Hmac
import Jose.Crypto.Ec
import Jose.Crypto.Rsa
import Jose.Crypto.Modes
import Jose.Crypto.Inflate
namespace Jose.Driver
open Jose Jose.Crypto

def hashByName (n : String) : Option (Bs → Bs) :=
  (hashAlgOfName n).map (fun h => fun (b : Bs) => baToNats (Crypto.hash h (natsToBA b)))

def natOfBs (b : Bs) : Nat := b.foldl (fun n x => n * 256 + x) 0

def curveOfName : String → Option Curve
  | "P-256" => some p256 | "P-384" => some p384 | "P-521" => some p521 | "secp256k1" => some secp256k1
  | _ => none

def hmacByName (h : String) (key msg : Bs) : Bs :=
  match hashAlgOfName h with
  | some a => baToNats (Crypto.hmac a (natsToBA key) (natsToBA msg))
  | none => []

/-- what EC_KEY_check_key accepts: coordinates are reduced mod p by
    EC_POINT_set_affine_coordinates, the point must be on the curve and not at infinity;
    a private value must be in [1, n-1] and match the public point -/
def ecValidReal (crv : String) (x y : Bs) (d : Option Bs) : Bool :=
  match curveOfName crv with
  | none => false
  | some c =>
    let xn := natOfBs x % c.p
    let yn := natOfBs y % c.p
    validPublic c xn yn &&
    (match d with
     | none => true
     | some db => validPrivate c (natOfBs db) xn yn)

def ecdsaVerifyReal (crv : String) (x y digest r s : Bs) : Bool :=
  match curveOfName crv with
  | none => false
  | some c => ecdsaVerify c (.affine (natOfBs x % c.p) (natOfBs y % c.p)) (digestToE c (natsToBA digest)) (natOfBs r) (natOfBs s)

def fixedWidth (n len : Nat) : Bs :=
  match natToBytes n len with
  | some b => baToNats b
  | none => []

def ecdsaSignReal (crv : String) (d digest rnd : Bs) : Option (Bs × Bs) :=
  match curveOfName crv with
  | none => none
  | some c =>
    let k := natOfBs rnd % (c.n - 1) + 1
    match ecdsaSign c (natOfBs d) k (digestToE c (natsToBA digest)) with
    | some (r, s) => some (fixedWidth r c.len, fixedWidth s c.len)
    | none => none

def rsaVerifyReal (pss : Bool) (h : String) (n e msg sig : Bs) : Bool :=
  match hashAlgOfName h with
  | none => false
  | some a =>
    if pss then rsaPssVerify a (natOfBs n) (natOfBs e) (natsToBA msg) (natsToBA sig) (some a.size)
    else rsaPkcs1v15Verify a (natOfBs n) (natOfBs e) (natsToBA msg) (natsToBA sig)

/-- the private exponent OpenSSL effectively applies: with complete CRT parameters the CRT
    result is used when it verifies (x^e = c), which is the case exactly when p·q = n and
    dp, dq, qi are consistent with e; we reconstruct an equivalent exponent from p, q, e then.
    Otherwise the key's own `d`. -/
def effectiveD (k : RsaPriv) : Option Nat :=
  let n := natOfBs k.n
  let e := natOfBs k.e
  let fromCrt : Option Nat :=
    match k.crt with
    | some (p, q, dp, dq, qi) =>
      let p' := natOfBs p; let q' := natOfBs q
      if p' * q' == n && p' > 1 && q' > 1 then
        match modInv e ((p' - 1) * (q' - 1)) with
        | some d =>
          if natOfBs dp == d % (p' - 1) && natOfBs dq == d % (q' - 1) && (natOfBs qi * q') % p' == 1 then some d else none
        | none => none
      else none
    | none => none
  match fromCrt with
  | some d => some d
  | none => k.d.map natOfBs

def rsaSignReal (pss : Bool) (h : String) (k : RsaPriv) (msg rnd : Bs) : Option Bs :=
  match hashAlgOfName h, effectiveD k with
  | some a, some d =>
    if pss then
      let salt := (Crypto.hash a (natsToBA rnd))
      (rsaPssSign a (natOfBs k.n) d (natsToBA msg) salt).map baToNats
    else (rsaPkcs1v15Sign a (natOfBs k.n) d (natsToBA msg)).map baToNats
  | _, _ => none

def ecGenReal (crv : String) (rnd : Bs) : Option (Bs × Bs × Bs) :=
  match curveOfName crv with
  | none => none
  | some c =>
    let d := natOfBs rnd % (c.n - 1) + 1
    match publicOf c d with
    | some (.affine x y) => some (fixedWidth d c.len, fixedWidth x c.len, fixedWidth y c.len)
    | _ => none

def ecdhReal (crv : String) (d x y : Bs) : Option (Bs × Bs) :=
  match curveOfName crv with
  | none => none
  | some c =>
    match Point.mul c (natOfBs d) (.affine (natOfBs x % c.p) (natOfBs y % c.p)) with
    | .affine zx zy => some (fixedWidth zx c.len, fixedWidth zy c.len)
    | .inf => none

def ecAddReal (crv : String) (x1 y1 x2 y2 : Bs) (negSecond : Bool) : Option (Bs × Bs) :=
  match curveOfName crv with
  | none => none
  | some c =>
    let p1 : Point := .affine (natOfBs x1 % c.p) (natOfBs y1 % c.p)
    let p2 : Point := .affine (natOfBs x2 % c.p) (natOfBs y2 % c.p)
    match Point.add c p1 (if negSecond then Point.neg c p2 else p2) with
    | .affine zx zy => some (fixedWidth zx c.len, fixedWidth zy c.len)
    | .inf => none

def gcmEncReal (key iv aad pt : Bs) : Bs × Bs :=
  let (c, t) := aesGcmEncrypt (natsToBA key) (natsToBA iv) (natsToBA aad) (natsToBA pt)
  (baToNats c, baToNats t)

def gcmDecReal (key iv aad ct tag : Bs) : Option Bs :=
  (aesGcmDecrypt (natsToBA key) (natsToBA iv) (natsToBA aad) (natsToBA ct) (natsToBA tag)).map baToNats

def rsaEncReal (oaep : Option String) (n e msg rnd : Bs) : Option Bs :=
  match oaep with
  | some h =>
    (hashAlgOfName h).bind fun a =>
      let seed := (Crypto.hash .sha512 (natsToBA rnd) ++ Crypto.hash .sha512 (natsToBA (0 :: rnd))).extract 0 a.size
      (rsaOaepEncrypt a (natOfBs n) (natOfBs e) (natsToBA msg) seed).map baToNats
  | none =>
    let k := (natOfBs n).byteLen
    let psLen := k - 3 - msg.length
    -- non-zero padding bytes derived from the randomness
    let stream := (List.range (psLen / 32 + 1)).flatMap (fun i => baToNats (Crypto.hash .sha256 (natsToBA (i :: rnd))))
    let ps := (stream.take psLen).map (fun b => if b = 0 then 1 else b)
    (rsaPkcs1v15Encrypt (natOfBs n) (natOfBs e) (natsToBA msg) (natsToBA ps)).map baToNats

def rsaDecReal (oaep : Option String) (k : RsaPriv) (ct : Bs) : Option Bs :=
  (effectiveD k).bind fun d =>
  match oaep with
  | some h => (hashAlgOfName h).bind fun a => (rsaOaepDecrypt a (natOfBs k.n) d (natsToBA ct)).map baToNats
  | none => (rsaPkcs1v15Decrypt (natOfBs k.n) d (natsToBA ct)).map baToNats

/-- RSA key generation is not re-implemented: the executable model returns placeholder members of
    the right shape (a modulus of the requested width, the requested exponent).  The correspondence
    masks all generated RSA members; their arithmetic is checked on the implementation's keys by the
    C11 oracle. -/
def rsaGenStub (bits e : Nat) (_rnd : Bs) : Option (List (String × Bs)) :=
  let nb := (bits + 7) / 8
  let eb := baToNats (Crypto.natToBytesMin e)
  some [("n", 128 :: List.replicate (nb - 1) 1), ("e", if eb.isEmpty then [0] else eb), ("d", [1]), ("p", [1]), ("q", [1]),
        ("dp", [1]), ("dq", [1]), ("qi", [1])]

def pbkdf2Real (h : String) (pw salt : Bs) (iter : Int) (dkLen : Nat) : Option Bs :=
  if iter < 1 then none
  -- the executable model does not perform more than 2^22 iterations: such a request is answered
  -- "refused"; the implementation then differs (it runs into the harness watchdog), which is what
  -- the C14 check reports
  else if iter > 4194304 then none
  else (hashAlgOfName h).map fun a => baToNats (Crypto.pbkdf2 a (natsToBA pw) (natsToBA salt) iter.toNat dkLen)

def inflateReal (x : Bs) : Option Bs :=
  let r := Crypto.inflateRaw (64 * 1024 * 1024) (natsToBA x)
  match r.status with
  | .ok => if r.consumed == x.length then some (baToNats r.out) else none
  | .truncated => some (baToNats r.out)
  | _ => none

/-- the executable instance of the abstract primitives -/
def realPrims : Prims :=
  { hash := hashByName, hmac := hmacByName, ecValid := ecValidReal, ecdsaVerify := ecdsaVerifyReal,
    ecdsaSign := ecdsaSignReal, rsaVerify := rsaVerifyReal, rsaSign := rsaSignReal,
    ecGen := ecGenReal, rsaGen := rsaGenStub, ecdh := ecdhReal, ecAdd := ecAddReal,
    gcmEnc := gcmEncReal, gcmDec := gcmDecReal,
    cbcEnc := fun k iv pt => baToNats (aesCbcEncrypt (natsToBA k) (natsToBA iv) (natsToBA pt)),
    cbcDec := fun k iv ct => (aesCbcDecrypt (natsToBA k) (natsToBA iv) (natsToBA ct)).map baToNats,
    kwWrap := fun k pt => (aesKwWrap (natsToBA k) (natsToBA pt)).map baToNats,
    kwUnwrap := fun k ct => (aesKwUnwrap (natsToBA k) (natsToBA ct)).map baToNats,
    rsaEnc := rsaEncReal, rsaDec := rsaDecReal, pbkdf2 := pbkdf2Real,
    deflate := fun x => baToNats (Crypto.deflateStored (natsToBA x)), inflate := inflateReal }

end Jose.Driver
