import Jose.Prim
import Jose.Driver.IO
namespace Jose.Driver
open Jose

def hashByName (n : String) : Option (Bs → Bs) :=
  (hashAlgOfName n).map (fun h => fun (b : Bs) => baToNats (Crypto.hash h (natsToBA b)))

/-- the executable instance of the abstract primitives -/
def realPrims : Prims := { hash := hashByName }

end Jose.Driver
