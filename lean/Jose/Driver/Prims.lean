import Jose.Prim
import Jose.Driver.IO
import Jose.Crypto.Hmac
import Jose.Crypto.Ec
import Jose.Crypto.Rsa
namespace Jose.Driver
open Jose Jose.Crypto

def hashByName (n : String) : Option (Bs → Bs) :=
  (hashAlgOfName n).map (fun h => fun (b : Bs) => baToNats (Crypto.hash h (natsToBA b)))

def natOfBs (b : Bs) : Nat := b.foldl (fun n x => n * 256 + x) 0

def curveOfName : String → Option Curve
  | "P-256" => some p256 | "P-384" => some p384 | "P-521" => some p521 | "secp256k1" => some secp256k1
  | _ => none

def hmacByName (h : String) (key msg : Bs) : Bs :=
  match hashAlgOfName h with
  | some a => baToNats (Crypto.hmac a (natsToBA key) (natsToBA msg))
  | none => []

/-- what EC_KEY_check_key accepts: coordinates are reduced mod p by
    EC_POINT_set_affine_coordinates, the point must be on the curve and not at infinity;
    a private value must be in [1, n-1] and match the public point -/
def ecValidReal (crv : String) (x y : Bs) (d : Option Bs) : Bool :=
  match curveOfName crv with
  | none => false
  | some c =>
    let xn := natOfBs x % c.p
    let yn := natOfBs y % c.p
    validPublic c xn yn &&
    (match d with
     | none => true
     | some db => validPrivate c (natOfBs db) xn yn)

def ecdsaVerifyReal (crv : String) (x y digest r s : Bs) : Bool :=
  match curveOfName crv with
  | none => false
  | some c => ecdsaVerify c (.affine (natOfBs x % c.p) (natOfBs y % c.p)) (digestToE c (natsToBA digest)) (natOfBs r) (natOfBs s)

def fixedWidth (n len : Nat) : Bs :=
  match natToBytes n len with
  | some b => baToNats b
  | none => []

def ecdsaSignReal (crv : String) (d digest rnd : Bs) : Option (Bs × Bs) :=
  match curveOfName crv with
  | none => none
  | some c =>
    let k := natOfBs rnd % (c.n - 1) + 1
    match ecdsaSign c (natOfBs d) k (digestToE c (natsToBA digest)) with
    | some (r, s) => some (fixedWidth r c.len, fixedWidth s c.len)
    | none => none

def rsaVerifyReal (pss : Bool) (h : String) (n e msg sig : Bs) : Bool :=
  match hashAlgOfName h with
  | none => false
  | some a =>
    if pss then rsaPssVerify a (natOfBs n) (natOfBs e) (natsToBA msg) (natsToBA sig) (some a.size)
    else rsaPkcs1v15Verify a (natOfBs n) (natOfBs e) (natsToBA msg) (natsToBA sig)

def rsaSignReal (pss : Bool) (h : String) (n d msg rnd : Bs) : Option Bs :=
  match hashAlgOfName h with
  | none => none
  | some a =>
    if pss then
      let salt := (Crypto.hash a (natsToBA rnd))
      (rsaPssSign a (natOfBs n) (natOfBs d) (natsToBA msg) salt).map baToNats
    else (rsaPkcs1v15Sign a (natOfBs n) (natOfBs d) (natsToBA msg)).map baToNats

/-- the executable instance of the abstract primitives -/
def realPrims : Prims :=
  { hash := hashByName, hmac := hmacByName, ecValid := ecValidReal, ecdsaVerify := ecdsaVerifyReal,
    ecdsaSign := ecdsaSignReal, rsaVerify := rsaVerifyReal, rsaSign := rsaSignReal }

end Jose.Driver
