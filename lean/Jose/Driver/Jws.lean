import Jose.Jws
import Jose.Driver.Prims
import Jose.Driver.IO
import Jose.Driver.Entity
namespace Jose.Driver
open Jose

def rndsOf (a : Json) : List Bs :=
  match a.get? "rnd" with
  | some (.arr l) => l.filterMap (fun j => j.strVal?.map unhex)
  | some (.str s) => [unhex s]
  | _ => []

/-- raw primitive check, independent of the JWS model: is `sig` a valid signature of
    `msg` under `jwk` for the algorithm *name* (no policy: no key-size minimum, no
    permission or header logic) -/
def primSigVerify (alg : String) (jwk : Json) (msg sig : Bs) : Bool :=
  match Jws.family alg with
  | some (.hmac h) =>
    match Jws.bytesOfJson (jwk.get? "k") with
    | some k => hmacByName h k msg == sig
    | none => false
  | some (.ecdsa acrv h) =>
    match hashByName h, jwk.getStr? "crv", Jws.bytesOfJson (jwk.get? "x"), Jws.bytesOfJson (jwk.get? "y") with
    | some hf, some crv, some x, some y =>
      match Jws.crvLen crv with
      | some len => crv == acrv && sig.length == 2 * len && ecValidReal crv x y none &&
          ecdsaVerifyReal crv x y (hf msg) (sig.take len) (sig.drop len)
      | none => false
    | _, _, _, _ => false
  | some (.rsa pss h) =>
    match Jws.bytesOfJson (jwk.get? "n"), Jws.bytesOfJson (jwk.get? "e") with
    | some n, some e => rsaVerifyReal pss h n e msg sig
    | _, _ => false
  | none => false

def jwsOps : List (String × (Json → Json)) := [
  ("prim.sigverify", fun a =>
    match argStr? a "alg", a.get? "jwk", argHex? a "msg", argHex? a "sig" with
    | some alg, some jwk, some msg, some sig => .obj [("r", .bool (primSigVerify alg jwk msg sig))]
    | _, _, _, _ => .obj [("r", .bool false)]),
  ("jws.ver", fun a =>
    match a.get? "jws", a.get? "jwk" with
    | some jws, some jwk => .obj [("r", .bool (Jws.ver realPrims jws (a.get? "sig") jwk (argBool a "all" false)))]
    | _, _ => .obj [("r", .bool false)]),
  ("jws.ver_io", fun a =>
    match a.get? "jws", a.get? "jwk" with
    | some jws, some jwk =>
      match Jws.verIo realPrims jws (a.get? "sig") jwk (argBool a "all" false) with
      | none => .obj [("io", .bool false)]
      | some sg =>
        let (_, fs, d) := IO.runTrace sg (IO.init sg) (feedsOfJson a)
        .obj [("io", .bool true), ("feeds", .arr (fs.map .bool)),
              ("done", match d with | some b => .bool b | none => .null)]
    | _, _ => .obj [("io", .bool false)]),
  ("jws.sig_io", fun a =>
    match a.get? "jws", a.get? "jwk" with
    | some (.obj kvs), some jwk =>
      -- the streamed bytes are the payload text; the object itself may lack "payload"
      let pay := String.ofList (((feedsOfJson a).flatten).map Char.ofNat)
      match Jws.sig realPrims (.obj (Json.setKV "payload" (.str pay) kvs)) (a.get? "sig") jwk (rndsOf a) with
      | some (.obj r) =>
        -- restore the caller's own payload member (or its absence)
        let r' := match Json.lookup "payload" kvs with
          | some p => Json.setKV "payload" p r
          | none => Json.delKV "payload" r
        okWith "jws" (some (.obj r'))
      | _ => .obj [("ok", .bool false)]
    | _, _ => .obj [("ok", .bool false)]),
  ("jws.sig", fun a =>
    match a.get? "jws", a.get? "jwk" with
    | some jws, some jwk => okWith "jws" (Jws.sig realPrims jws (a.get? "sig") jwk (rndsOf a))
    | _, _ => .obj [("ok", .bool false)])
]
end Jose.Driver
