import Jose.Fmt
import Jose.Cli
import Jose.Driver.Util
import Jose.Driver.Prims
import Jose.Driver.Pure
namespace Jose.Driver
open Jose

def worldOf (a : Json) : Cli.World :=
  { stdin := (argStr? a "stdin").map unhex |>.getD [],
    files := match a.get? "files" with
      | some (.obj kvs) => kvs.filterMap (fun (k, v) => v.strVal?.map (fun h => (k, unhex h)))
      | _ => [] }

def resJson (r : Cli.Res) : Json :=
  .obj [("status", .int r.status), ("stdout", .str (hexOfNats r.stdout)),
        ("files", .obj (r.files.map (fun (f, t) => (f, Json.str (hexOfNats t)))))]

def cliOps : List (String × (Json → Json)) := [
  ("cli.run", fun a =>
    let w := worldOf a
    match argvOf a with
    | "fmt" :: rest => fmtCli a rest
    | "jws" :: "ver" :: rest => resJson (Cli.jwsVer realPrims w rest)
    | "jws" :: "sig" :: rest => resJson (Cli.jwsSig realPrims w rest [])
    | "jws" :: "fmt" :: rest => resJson (Cli.jwsFmt w rest)
    | "jwe" :: "dec" :: rest => resJson (Cli.jweDec realPrims w rest (List.replicate 600 0))
    | "jwk" :: "pub" :: rest => resJson (Cli.jwkPub w rest)
    | "jwk" :: "eql" :: rest => resJson (Cli.jwkEql w rest)
    | "jwk" :: "thp" :: rest => resJson (Cli.jwkThp realPrims w rest)
    | "jwk" :: "exc" :: rest => resJson (Cli.jwkExc realPrims w rest)
    | "jwk" :: "gen" :: rest => resJson (Cli.jwkGen realPrims w rest (List.replicate 2048 0))
    | "jwk" :: "use" :: rest => resJson (Cli.jwkUse w rest)
    | "b64" :: "enc" :: rest => resJson (Cli.b64Enc w rest)
    | "b64" :: "dec" :: rest => resJson (Cli.b64Dec w rest)
    | _ => err "unmodelled-subcommand")
]
end Jose.Driver
