import Jose.Fmt
import Jose.Driver.Util
namespace Jose.Driver
open Jose

def strOfHex (h : String) : String :=
  match String.fromUTF8? (unhexBytes h) with
  | some s => s
  | none => ""

def hexOfStr (s : String) : String := hexOfBytes s.toUTF8

def filesArg (a : Json) : List (String × String) :=
  match a.get? "files" with
  | some (.obj kvs) => kvs.filterMap (fun (k, v) => v.strVal?.map (fun h => (k, strOfHex h)))
  | _ => []

def argvOf (a : Json) : List String :=
  match a.get? "argv" with
  | some (.arr l) => l.filterMap Json.strVal?
  | _ => []

def cliResult (status : Nat) (stdout : String) (files : List (String × String)) : Json :=
  .obj [("status", .int status), ("stdout", .str (hexOfStr stdout)),
        ("files", .obj (files.map (fun (f, t) => (f, Json.str (hexOfStr t)))))]

def fmtCli (a : Json) (argv : List String) : Json :=
  let stdin := (argStr? a "stdin").map strOfHex |>.getD ""
  match Fmt.parseArgv stdin (filesArg a) argv with
  | none => cliResult 255 "" []          -- option parsing failed: usage, status -1
  | some ops =>
    let (st, oc) := Fmt.run ops
    let (so, fs) := Fmt.finalFiles st.out
    cliResult (Fmt.exitStatus oc) so fs

def cliOps : List (String × (Json → Json)) := [
  ("cli.run", fun a =>
    match argvOf a with
    | "fmt" :: rest => fmtCli a rest
    | _ => err "unmodelled-subcommand")
]
end Jose.Driver
