import Jose.Fmt
import Jose.Cli
import Jose.Driver.Util
import Jose.Driver.Prims
import Jose.Driver.Pure
namespace Jose.Driver
open Jose

def cliOps : List (String × (Json → Json)) := [
  ("cli.run", fun a =>
    let w := worldOf a
    match cliPure a with
    | some r => r
    | none =>
    match argvOf a with
    | "jws" :: "ver" :: rest => resJson (Cli.jwsVer realPrims w rest)
    | "jws" :: "sig" :: rest => resJson (Cli.jwsSig realPrims w rest [])
    | "jwe" :: "enc" :: rest => resJson (Cli.jweEnc realPrims w rest ((argHex? a "rand").getD []))
    | "jwe" :: "dec" :: rest => resJson (Cli.jweDec realPrims w rest (List.replicate 600 0))
    | "jwk" :: "thp" :: rest => resJson (Cli.jwkThp realPrims w rest)
    | "jwk" :: "exc" :: rest => resJson (Cli.jwkExc realPrims w rest)
    | "jwk" :: "gen" :: rest => resJson (Cli.jwkGen realPrims w rest (List.replicate 2048 0))
    | _ => err "unmodelled-subcommand")
]
end Jose.Driver
