/-
  JSON values with the operations of jansson 2.14 that jose relies on.

  * strings are Lean `String`s: jansson only ever holds valid UTF-8;
  * objects are insertion-ordered, key-unique association lists
    (`json_object_set` on an existing key replaces the value in place);
  * reals are opaque tokens (see DESIGN §3);
  * `dump` is `json_dumps(JSON_COMPACT | JSON_SORT_KEYS | JSON_ENCODE_ANY)`;
  * `Json.parse` mirrors `json_loadb` (see Jose/JsonParse.lean).
-/
namespace Jose

inductive Json where
  | null
  | bool (b : Bool)
  | int (i : Int)
  | real (tok : String)
  | str (s : String)
  | arr (l : List Json)
  | obj (kvs : List (String × Json))
  deriving Repr, Inhabited

namespace Json

/-- the seven jansson type tags -/
inductive Ty where
  | object | array | string | integer | real | true_ | false_ | null
  deriving DecidableEq, Repr

def ty : Json → Ty
  | .null => .null
  | .bool true => .true_
  | .bool false => .false_
  | .int _ => .integer
  | .real _ => .real
  | .str _ => .string
  | .arr _ => .array
  | .obj _ => .object

def isObject : Json → Bool | .obj _ => true | _ => false
def isArray : Json → Bool | .arr _ => true | _ => false
def isString : Json → Bool | .str _ => true | _ => false
def isInteger : Json → Bool | .int _ => true | _ => false

/-- association-list lookup (first match; lists are kept key-unique) -/
def lookup (k : String) : List (String × Json) → Option Json
  | [] => none
  | (k', v) :: r => if k' = k then some v else lookup k r

/-- `json_object_get`; `NULL` for non-objects -/
def get? (j : Json) (k : String) : Option Json :=
  match j with
  | .obj kvs => lookup k kvs
  | _ => none

def setKV (k : String) (v : Json) : List (String × Json) → List (String × Json)
  | [] => [(k, v)]
  | (k', v') :: r => if k' = k then (k, v) :: r else (k', v') :: setKV k v r

/-- removal of a key (objects are key-unique, so at most one member goes) -/
def delKV (k : String) : List (String × Json) → List (String × Json)
  | [] => []
  | (k', v') :: r => if k' = k then delKV k r else (k', v') :: delKV k r

/-- deleting a list of names, in order -/
def delAll (ms : List String) (l : List (String × Json)) : List (String × Json) :=
  ms.foldl (fun acc m => delKV m acc) l

/-- `json_object_set` (fails, i.e. `none`, on non-objects) -/
def set? (j : Json) (k : String) (v : Json) : Option Json :=
  match j with
  | .obj kvs => some (.obj (setKV k v kvs))
  | _ => none

/-- `json_object_del`: `none` when not an object or key missing (jansson returns -1) -/
def del? (j : Json) (k : String) : Option Json :=
  match j with
  | .obj kvs => if (lookup k kvs).isSome then some (.obj (delKV k kvs)) else none
  | _ => none

/-- `json_object_update(a, b)` on member lists -/
def updateKV (a b : List (String × Json)) : List (String × Json) :=
  b.foldl (fun acc kv => setKV kv.1 kv.2 acc) a

/-- `json_object_update_missing(a, b)` on member lists -/
def updateMissingKV (a b : List (String × Json)) : List (String × Json) :=
  b.foldl (fun acc kv => if (lookup kv.1 acc).isSome then acc else acc ++ [kv]) a

def update? (a b : Json) : Option Json :=
  match a, b with
  | .obj x, .obj y => some (.obj (updateKV x y))
  | _, _ => none

def updateMissing? (a b : Json) : Option Json :=
  match a, b with
  | .obj x, .obj y => some (.obj (updateMissingKV x y))
  | _, _ => none

def strVal? : Json → Option String | .str s => some s | _ => none
def intVal? : Json → Option Int | .int i => some i | _ => none
def arrVal? : Json → Option (List Json) | .arr l => some l | _ => none
def objVal? : Json → Option (List (String × Json)) | .obj l => some l | _ => none

/-- `json_array_size` (0 for non-arrays) -/
def arraySize : Json → Nat | .arr l => l.length | _ => 0

/-- `json_string_value(json_object_get(j, k))` -/
def getStr? (j : Json) (k : String) : Option String := (j.get? k).bind strVal?

/-! ### `json_equal` -/

mutual
  def equal : Json → Json → Bool
    | .null, .null => true
    | .bool a, .bool b => a == b
    | .int a, .int b => a == b
    | .real a, .real b => a == b
    | .str a, .str b => a == b
    | .arr a, .arr b => equalList a b
    | .obj a, .obj b => a.length == b.length && equalObj a b
    | _, _ => false
  def equalList : List Json → List Json → Bool
    | [], [] => true
    | x :: xs, y :: ys => equal x y && equalList xs ys
    | _, _ => false
  /-- every member of `a` has an equal member in `b` -/
  def equalObj : List (String × Json) → List (String × Json) → Bool
    | [], _ => true
    | (k, v) :: r, b =>
      (match lookup k b with
       | some v' => equal v v'
       | none => false) && equalObj r b
end

/-! ### compact sorted dump -/

def hexDigitUpper (n : Nat) : Char :=
  if n < 10 then Char.ofNat (48 + n) else Char.ofNat (55 + n)

/-- escape one character as jansson's `dump_string` does (no ENSURE_ASCII, no ESCAPE_SLASH) -/
def escapeChar (c : Char) : List Char :=
  if c = '\\' then ['\\', '\\']
  else if c = '"' then ['\\', '"']
  else if c = '\x08' then ['\\', 'b']
  else if c = '\x0c' then ['\\', 'f']
  else if c = '\n' then ['\\', 'n']
  else if c = '\r' then ['\\', 'r']
  else if c = '\t' then ['\\', 't']
  else if c.toNat < 0x20 then
    ['\\', 'u', '0', '0', hexDigitUpper (c.toNat / 16), hexDigitUpper (c.toNat % 16)]
  else [c]

def escapeChars (cs : List Char) : List Char := cs.flatMap escapeChar

def quote (s : String) : List Char := '"' :: (escapeChars s.toList ++ ['"'])

def intChars (i : Int) : List Char := (toString i).toList

/-- insertion of a rendered member into a key-sorted list -/
def insertSorted (kv : String × List Char) : List (String × List Char) → List (String × List Char)
  | [] => [kv]
  | x :: r => if kv.1 < x.1 then kv :: x :: r else x :: insertSorted kv r

def sortKV (l : List (String × List Char)) : List (String × List Char) :=
  l.foldr insertSorted []

def joinComma : List (List Char) → List Char
  | [] => []
  | [x] => x
  | x :: y :: r => x ++ (',' :: joinComma (y :: r))

mutual
  def dumpChars : Json → List Char
    | .null => "null".toList
    | .bool true => "true".toList
    | .bool false => "false".toList
    | .int i => intChars i
    | .real t => t.toList
    | .str s => quote s
    | .arr l => '[' :: (joinComma (dumpList l) ++ [']'])
    | .obj kvs => '{' :: (joinComma ((sortKV (dumpMembers kvs)).map (·.2)) ++ ['}'])
  def dumpList : List Json → List (List Char)
    | [] => []
    | x :: r => dumpChars x :: dumpList r
  /-- each member rendered as `"key":value`, tagged with its key for sorting -/
  def dumpMembers : List (String × Json) → List (String × List Char)
    | [] => []
    | (k, v) :: r => (k, quote k ++ (':' :: dumpChars v)) :: dumpMembers r
end

def dump (j : Json) : String := String.ofList (dumpChars j)

end Json
end Jose
