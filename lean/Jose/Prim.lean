import Jose.Json
/-
  Abstract primitives.  Everything jose delegates to OpenSSL / zlib is a field of
  `Prims`; model functions and theorems are parameterised by a `Prims` value and
  hold for every one.  Laws needed by particular theorems are *hypotheses* of
  those theorems, never axioms.  The driver instantiates `Prims` with the
  executable implementations of `Jose/Crypto/*` (Driver/Prims.lean).
-/
namespace Jose

abbrev Bs := List Nat   -- byte strings in the model

/-- RSA private key material as imported from a JWK: OpenSSL uses the CRT parameters when all
    five are present (falling back to `d` if their result does not verify), else `d` -/
structure RsaPriv where
  n : Bs
  e : Bs
  d : Option Bs
  crt : Option (Bs × Bs × Bs × Bs × Bs)     -- p, q, dp, dq, qi

structure Prims where
  /-- digest by jose hash name (S1, S224, S256, S384, S512); `none` for unknown names -/
  hash : String → Option (Bs → Bs)
  /-- HMAC with the named hash: key, message -/
  hmac : String → Bs → Bs → Bs := fun _ _ _ => []
  /-- what `EC_KEY_check_key` decides for curve, x, y and optional d (byte strings as decoded) -/
  ecValid : String → Bs → Bs → Option Bs → Bool := fun _ _ _ _ => false
  /-- `ECDSA_do_verify`: curve, x, y, digest, r, s -/
  ecdsaVerify : String → Bs → Bs → Bs → Bs → Bs → Bool := fun _ _ _ _ _ _ => false
  /-- `ECDSA_do_sign`: curve, d, digest, randomness → (r, s) each of the curve's width -/
  ecdsaSign : String → Bs → Bs → Bs → Option (Bs × Bs) := fun _ _ _ _ => none
  /-- `EVP_DigestVerifyFinal` for RSA: pss?, hash name, n, e, message, signature -/
  rsaVerify : Bool → String → Bs → Bs → Bs → Bs → Bool := fun _ _ _ _ _ _ => false
  /-- `EVP_DigestSignFinal` for RSA: pss?, hash name, private key, message, salt -/
  rsaSign : Bool → String → RsaPriv → Bs → Bs → Option Bs := fun _ _ _ _ _ => none
  /-- `EC_KEY_generate_key` on a named curve from randomness: (d, x, y), each of the curve's width -/
  ecGen : String → Bs → Option (Bs × Bs × Bs) := fun _ _ => none
  /-- `RSA_generate_key_ex`: bits, public exponent (as a number), randomness → members by name -/
  rsaGen : Nat → Nat → Bs → Option (List (String × Bs)) := fun _ _ _ => none
  /-- ECDH: curve, private d, peer x, y → shared point (x, y) of the curve's width -/
  ecdh : String → Bs → Bs → Bs → Option (Bs × Bs) := fun _ _ _ _ => none
  /-- point addition / subtraction for ECMR: curve, (x1,y1), (x2,y2), negate second? -/
  ecAdd : String → Bs → Bs → Bs → Bs → Bool → Option (Bs × Bs) := fun _ _ _ _ _ _ => none
  /-- AES-GCM: key, iv, aad, plaintext → (ciphertext, tag) -/
  gcmEnc : Bs → Bs → Bs → Bs → Bs × Bs := fun _ _ _ _ => ([], [])
  /-- AES-GCM open: key, iv, aad, ciphertext, tag -/
  gcmDec : Bs → Bs → Bs → Bs → Bs → Option Bs := fun _ _ _ _ _ => none
  /-- AES-CBC with PKCS#7 padding -/
  cbcEnc : Bs → Bs → Bs → Bs := fun _ _ _ => []
  cbcDec : Bs → Bs → Bs → Option Bs := fun _ _ _ => none
  /-- RFC 3394 key wrap / unwrap -/
  kwWrap : Bs → Bs → Option Bs := fun _ _ => none
  kwUnwrap : Bs → Bs → Option Bs := fun _ _ => none
  /-- RSAES: oaep hash (`none` = PKCS#1 v1.5), n, e, message, randomness -/
  rsaEnc : Option String → Bs → Bs → Bs → Bs → Option Bs := fun _ _ _ _ _ => none
  /-- RSAES decryption: oaep hash, private key, ciphertext -/
  rsaDec : Option String → RsaPriv → Bs → Option Bs := fun _ _ _ => none
  /-- PBKDF2-HMAC: hash name, password, salt, iterations, length; `none` when OpenSSL refuses (iterations < 1) -/
  pbkdf2 : String → Bs → Bs → Int → Nat → Option Bs := fun _ _ _ _ _ => none
  /-- raw DEFLATE as jose drives zlib: compress everything; decompress (`none` = data error) -/
  deflate : Bs → Bs := fun x => x
  inflate : Bs → Option Bs := fun x => some x

end Jose
