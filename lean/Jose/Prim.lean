import Jose.Json
/-
  Abstract primitives.  Everything jose delegates to OpenSSL / zlib is a field of
  `Prims`; model functions and theorems are parameterised by a `Prims` value and
  hold for every one.  Laws needed by particular theorems are *hypotheses* of
  those theorems (see `PrimLaws` below), never axioms.  The driver instantiates
  `Prims` with the executable implementations of `Jose/Crypto/*` (Driver/Prims.lean).
-/
namespace Jose

abbrev Bs := List Nat   -- byte strings in the model

structure Prims where
  /-- digest by jose hash name (S1, S224, S256, S384, S512); `none` for unknown names -/
  hash : String → Option (Bs → Bs)

end Jose
