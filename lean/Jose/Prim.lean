import Jose.Json
/-
  Abstract primitives.  Everything jose delegates to OpenSSL / zlib is a field of
  `Prims`; model functions and theorems are parameterised by a `Prims` value and
  hold for every one.  Laws needed by particular theorems are *hypotheses* of
  those theorems, never axioms.  The driver instantiates `Prims` with the
  executable implementations of `Jose/Crypto/*` (Driver/Prims.lean).
-/
namespace Jose

abbrev Bs := List Nat   -- byte strings in the model

structure Prims where
  /-- digest by jose hash name (S1, S224, S256, S384, S512); `none` for unknown names -/
  hash : String → Option (Bs → Bs)
  /-- HMAC with the named hash: key, message -/
  hmac : String → Bs → Bs → Bs := fun _ _ _ => []
  /-- what `EC_KEY_check_key` decides for curve, x, y and optional d (byte strings as decoded) -/
  ecValid : String → Bs → Bs → Option Bs → Bool := fun _ _ _ _ => false
  /-- `ECDSA_do_verify`: curve, x, y, digest, r, s -/
  ecdsaVerify : String → Bs → Bs → Bs → Bs → Bs → Bool := fun _ _ _ _ _ _ => false
  /-- `ECDSA_do_sign`: curve, d, digest, randomness → (r, s) each of the curve's width -/
  ecdsaSign : String → Bs → Bs → Bs → Option (Bs × Bs) := fun _ _ _ _ => none
  /-- `EVP_DigestVerifyFinal` for RSA: pss?, hash name, n, e, message, signature -/
  rsaVerify : Bool → String → Bs → Bs → Bs → Bs → Bool := fun _ _ _ _ _ _ => false
  /-- `EVP_DigestSignFinal` for RSA: pss?, hash name, n, d, message, salt -/
  rsaSign : Bool → String → Bs → Bs → Bs → Bs → Option Bs := fun _ _ _ _ _ _ => none

end Jose
