import Jose.Driver.B64
import Jose.Driver.IO
import Jose.Driver.Jwk
import Jose.Driver.Entity
import Jose.Driver.Jws
import Jose.Driver.Jwe
import Jose.Driver.Cli
import Jose.Driver.Cfg
/-
  Line-protocol driver: answers each `<op> <json>` line from the model.
  (`lake exe josemodel < ops`); see harness/hx.c for the real side.
-/
open Jose Jose.Driver

def allOps : List (String × (Json → Json)) := b64Ops ++ ioOps ++ jwkOps ++ entityOps ++ jwsOps ++ jweOps ++ cliOps ++ cfgOps

def handle (line : String) : String :=
  let line := line.trimAscii.toString
  let (op, rest) :=
    match line.splitOn " " with
    | [] => ("", "")
    | o :: r => (o, " ".intercalate r)
  match allOps.lookup op with
  | none => "{\"error\":\"unknown-op\"}"
  | some f =>
    match Json.loadString { decodeAny := true, allowNul := true } (if rest.isEmpty then "{}" else rest) with
    | none => "{\"error\":\"bad-args\"}"
    | some args => (f args).dump

partial def loop (hin hout : IO.FS.Stream) : IO Unit := do
  let line ← hin.getLine
  if line.isEmpty then return ()
  if line.trimAscii.toString.isEmpty then loop hin hout else
  hout.putStrLn (handle line)
  hout.flush
  loop hin hout

def main : IO Unit := do
  loop (← IO.getStdin) (← IO.getStdout)
