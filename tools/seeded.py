#!/usr/bin/env python3
"""Seeded-change bookkeeping.

  seeded.py confirm <prop> <n>     confirm change n produced in /tmp/wt-<prop> (applies, builds, 25/25 tests, demo
                                   exits 0 on the patched and 1 on the clean build) and store it as seeded/<prop>-<n>/
  seeded.py run <name> [checks..]  apply seeded/<name>/patch.diff to /repo, run the named checks (default: the property's
                                   own), record the verdicts in seeded/<name>/meta.json, undo the change
"""
import json, os, shutil, subprocess, sys, time
VERIF = os.path.dirname(os.path.dirname(os.path.abspath(__file__)))
SEEDED = os.path.join(VERIF, "seeded")
REPO = os.environ.get("VERIF_REPO", "/repo")


def sh(cmd, **kw):
    return subprocess.run(cmd, shell=isinstance(cmd, str), stdout=subprocess.PIPE, stderr=subprocess.STDOUT, text=True, **kw)


def confirm(prop, n):
    wt, out = "/tmp/wt-%s" % prop, "/tmp/wt-%s-out" % prop
    patch = os.path.join(out, "patch%s.diff" % n)
    demo = os.path.join(out, "demo%s.sh" % n)
    res = {"property": prop, "n": n}
    sh(["git", "-C", wt, "checkout", "--", "."])
    r = sh(["git", "-C", wt, "apply", "--check", patch])
    res["applies_to_worktree"] = r.returncode == 0
    r = sh(["git", "-C", REPO, "apply", "--check", patch])
    res["applies_to_repo_head"] = r.returncode == 0
    if not res["applies_to_worktree"]:
        return res
    sh(["git", "-C", wt, "apply", patch])
    b = sh("cd %s && (test -d _b || meson setup _b) >/dev/null 2>&1; ninja -C _b 2>&1 | tail -3" % wt)
    res["builds"] = "error" not in b.stdout.lower() or "ninja: no work" in b.stdout
    t = sh("meson test -C %s/_b 2>&1 | grep -E '^Ok:|^Fail:'" % wt)
    res["tests"] = " ".join(t.stdout.split())
    d1 = sh(["bash", demo, wt], timeout=900)
    res["demo_patched_exit"] = d1.returncode
    sh(["git", "-C", wt, "checkout", "--", "."])
    sh("ninja -C %s/_b >/dev/null 2>&1" % wt)
    d0 = sh(["bash", demo, wt], timeout=900)
    res["demo_clean_exit"] = d0.returncode
    res["confirmed"] = bool(res["builds"] and "Ok: 25" in res["tests"] and "Fail: 0" in res["tests"] and d1.returncode == 0 and d0.returncode == 1)
    if res["confirmed"]:
        dst = os.path.join(SEEDED, "%s-%s" % (prop, n))
        os.makedirs(dst, exist_ok=True)
        shutil.copy(patch, os.path.join(dst, "patch.diff"))
        shutil.copy(demo, os.path.join(dst, "demo.sh"))
        meta = json.load(open(os.path.join(out, "meta%s.json" % n)))
        meta["confirmation"] = {k: res[k] for k in ("tests", "demo_patched_exit", "demo_clean_exit", "applies_to_repo_head")}
        meta["demo_output_patched"] = d1.stdout[-1500:]
        json.dump(meta, open(os.path.join(dst, "meta.json"), "w"), indent=1)
    return res


def run(name, checks):
    d = os.path.join(SEEDED, name)
    meta = json.load(open(os.path.join(d, "meta.json")))
    prop = meta.get("property", name.split("-")[0])
    checks = checks or [prop]
    if sh(["git", "-C", REPO, "status", "--porcelain", "--untracked-files=no"]).stdout.strip():
        raise SystemExit("/repo is not clean")
    r = sh(["git", "-C", REPO, "apply", os.path.join(d, "patch.diff")])
    if r.returncode != 0:
        # later "fix:" commits moved or changed nearby lines: the same edit with context fuzz (a hunk that still does not
        # fit means the fix rewrote the very code the change edits - the change is then superseded, not missed)
        r2 = sh(["patch", "-p1", "-F3", "-s", "--no-backup-if-mismatch", "-d", REPO, "-i", os.path.join(d, "patch.diff")])
        rej = sh(["git", "-C", REPO, "ls-files", "--others", "--exclude-standard"]).stdout.split()
        if r2.returncode != 0 or any(x.endswith(".rej") for x in rej):
            sh(["git", "-C", REPO, "checkout", "--", "."])
            for x in rej:
                if x.endswith((".rej", ".orig")):
                    os.remove(os.path.join(REPO, x))
            meta.setdefault("checks", {})["_apply"] = (r.stdout + r2.stdout)[-300:]
            json.dump(meta, open(os.path.join(d, "meta.json"), "w"), indent=1)
            print(name, "patch does not apply:", r.stdout[-200:])
            return
        meta["applied_with_fuzz"] = True
    try:
        for c in checks:
            t0 = time.time()
            rr = sh([os.path.join(VERIF, "check"), c, "--tier", "quick"], cwd=VERIF)
            lines = [l for l in rr.stdout.splitlines() if l.startswith(("VIOLATION", "KNOWN-FINDING"))]
            viol = [l for l in lines if l.startswith("VIOLATION")]
            info = {"exit": rr.returncode, "caught": rr.returncode != 0 and bool(viol), "violation_lines": viol[:4], "wall_s": round(time.time() - t0, 1)}
            # keep the first replay's headline
            for l in viol[:1]:
                p = l.split("replay=")[1].split()[0]
                try:
                    rp = json.load(open(p))
                    info["replay_site"] = rp.get("site") or rp.get("kind")
                    info["replay_message"] = (rp.get("message") or "")[:300]
                except Exception:
                    pass
            meta.setdefault("checks", {})[c] = info
            print(name, c, "CAUGHT" if info["caught"] else "missed", info.get("replay_site"), "%.0fs" % info["wall_s"], flush=True)
    finally:
        sh(["git", "-C", REPO, "checkout", "--", "."])
        json.dump(meta, open(os.path.join(d, "meta.json"), "w"), indent=1)
        # evidence files were rewritten by runs on a modified tree: restore the committed ones
        sh(["git", "-C", VERIF, "checkout", "--", "evidence", "lean/Jose/Tables.lean", "lean/Jose/SugTable.lean", "lean/Jose/Grid"])


if __name__ == "__main__":
    if sys.argv[1] == "confirm":
        print(json.dumps(confirm(sys.argv[2], sys.argv[3]), indent=1))
    elif sys.argv[1] == "run":
        run(sys.argv[2], sys.argv[3:])
