#!/usr/bin/env python3
"""MANIFEST.setup_cmd: build the framework from files on disk (offline)."""
import os, subprocess, sys
sys.path.insert(0, os.path.dirname(os.path.abspath(__file__)))
import build_repo, extract_tables
VERIF = build_repo.VERIF
build_repo.build("asan")
extract_tables.main()
r = subprocess.run(["lake", "build"], cwd=os.path.join(VERIF, "lean"))
sys.exit(r.returncode)
