"""C03 — JWS sign/verify round trip and RFC 7515 interoperability in both directions."""
import copy, glob, json, os
import keys as K
import jwsgen as G

ID = "C03"
RULE = ("jws.sig on the implementation and on the independent Lean implementation for every signature algorithm x "
        "key of the pool valid for it (all EC curves, RSA 2048/3072/4096, oct 32..1024) x payload (empty, short, "
        "binary, 55/56/64/4096 bytes, 70000 in thorough) x template form (none+key alg, protected object, protected "
        "string, unprotected header, mixed, inferred); each token verified by both sides under the key and its public "
        "half; HMAC and RS* tokens compared bit for bit; second/third signatures added (general form), multi-key "
        "calls, streamed payloads; RFC 7515/7520 vectors; distinct = distinct (op,args); non-trivial = a token is "
        "produced or verified")
EXPLANATION = ("round-trip and signing-input theorems are proved on the model for every Prims satisfying the stated "
               "laws; this run executes both implementations on the same inputs and cross-verifies every token.")
ASSUMPTIONS = ["the Lean primitives (Jose/Crypto) are the independent RFC 7518 implementation; they were validated "
               "against OpenSSL/hashlib known answers when written and are re-validated here through interop"]
BUDGET = {"quick": 600, "thorough": 3000}
TRUSTED = ["Jose/Crypto/*.lean (SHA-2, HMAC, ECDSA over 4 curves, RSA PKCS#1 v1.5 / PSS) as independent implementation"]


def mask(tok):
    """replace randomized signature values by a placeholder"""
    t = copy.deepcopy(tok)
    def m(s):
        h = G.merged_header(s) or {}
        if isinstance(s, dict) and "signature" in s and h.get("alg") not in G.DETERMINISTIC:
            s["signature"] = "<sig>"
    if isinstance(t, dict):
        m(t)
        for s in t.get("signatures", []) if isinstance(t.get("signatures"), list) else []:
            m(s)
    return t


def canon(op, args, r):
    if op in ("jws.sig", "jws.sig_io") and isinstance(r, dict) and r.get("ok"):
        return {"ok": True, "jws": mask(r["jws"])}
    return r


def p_sig(op, args, real):
    if "crash" in real:
        return None
    if op in ("jws.sig", "jws.sig_io") and args.get("_expect_ok") and not real.get("ok"):
        return ("sig:refused", "signing refused for a valid combination: " + json.dumps({k: v for k, v in args.items() if k != "jwk"})[:300])
    return None


def p_ver(op, args, real):
    if "crash" in real:
        return None
    if op in ("jws.ver", "jws.ver_io"):
        ok = real.get("r") if op == "jws.ver" else (real.get("io") and all(real.get("feeds", [])) and real.get("done") is True)
        if args.get("_expect") is True and not ok:
            return ("ver:rejects-valid", "a genuinely signed token was rejected (%s): %s" % (args.get("_why"), json.dumps(args.get("jws"))[:300]))
        if args.get("_expect") is False and ok:
            return ("ver:accepts-invalid", "accepted: %s %s" % (args.get("_why"), json.dumps(args.get("jws"))[:300]))
    return None


def nontrivial(op, args, real):
    return json.dumps({k: v for k, v in args.items() if not k.startswith("_")}, sort_keys=True)


def strip(args):
    return {k: v for k, v in args.items() if not k.startswith("_")}


def compare(ctx, ops, p):
    """ops carry private '_' annotations for the oracle; they are not sent to either side"""
    sent = [(o, strip(a)) for o, a in ops]
    amap = {id(s[1]): a for s, (o, a) in zip(sent, ops)}
    def pc(op, args, real):
        return p(op, amap.get(id(args), args), real)
    return ctx.compare(sent, pc, nontrivial, canon=canon)


def vectors(ctx):
    """RFC 7515 / 7520 JWS examples shipped with the repository"""
    d = os.path.join(os.environ.get("VERIF_REPO", "/repo"), "tests", "vectors")
    ops = []
    for f in sorted(glob.glob(os.path.join(d, "*.jws[fg]"))):
        base = f.rsplit(".", 1)[0]
        for kf in (base + ".jwk", base + ".jwkset"):
            if os.path.exists(kf):
                try:
                    jws, jwk = json.load(open(f)), json.load(open(kf))
                except Exception:
                    continue
                if "payload" not in jws and os.path.exists(base + ".payl"):
                    jws["payload"] = G.b64u(open(base + ".payl", "rb").read())
                if "payload" not in jws:
                    continue
                ops.append(("jws.ver", {"jws": jws, "jwk": jwk, "all": kf.endswith("jwkset"), "_expect": True, "_why": "RFC vector " + os.path.basename(f)}))
    # compact vectors (RFC 7515 A.1 - A.4 exist only in this form; A.1's protected header is NOT what jose itself would
    # write: "typ" before "alg", CR LF and a space inside) as the flattened objects they spell
    for f in sorted(glob.glob(os.path.join(d, "*.jwsc"))):
        base = f.rsplit(".", 1)[0]
        parts = open(f).read().strip().split(".")
        if len(parts) != 3 or not os.path.exists(base + ".jwk"):
            continue
        try:
            jwk = json.load(open(base + ".jwk"))
        except Exception:
            continue
        if not parts[1] and os.path.exists(base + ".payl"):
            parts[1] = G.b64u(open(base + ".payl", "rb").read())
        jws = {"protected": parts[0], "payload": parts[1], "signature": parts[2]}
        ops.append(("jws.ver", {"jws": jws, "jwk": jwk, "all": False, "_expect": True, "_why": "RFC vector " + os.path.basename(f) + " as a flattened object"}))
        ops.append(("jws.ver", {"jws": {"payload": parts[1], "signatures": [{"protected": parts[0], "signature": parts[2]}]}, "jwk": [jwk], "all": True, "_expect": True,
                                "_why": "RFC vector " + os.path.basename(f) + " as a general object"}))
    return ops


def run(ctx):
    rng = ctx.rng
    pool = K.pool(ctx.jose)
    quick = ctx.tier == "quick"
    names = list(pool) if not quick else ["oct-32", "oct-48", "oct-64", "oct-1024", "EC-P256", "EC-P384", "EC-P521", "EC-K256", "RSA-2048", "RSA-3072"]
    pls = G.payloads(rng, ctx.tier)
    sig_ops = []
    for name in names:
        key = pool[name]
        for alg in G.algs_for(name, key):
            for label, tmpl, src in G.templates(alg):
                if src == "infer" and G.inferred_alg(name, key) is None:
                    continue
                k = dict(key, alg=alg) if src == "key" else key
                used = alg if src != "infer" else G.inferred_alg(name, key)
                for pay in (pls if (label in ("prot-obj", "infer") and not (quick and key["kty"] == "RSA")) else pls[:3]):
                    sig_ops.append(("jws.sig", {"jws": {"payload": G.b64u(pay)}, "sig": tmpl, "jwk": k, "rnd": [rng.randbytes(32).hex()],
                                                "_expect_ok": True, "_alg": used, "_name": name, "_label": label}))
    # signing keys that carry their own permissions (what `jose jwk gen` produces), for every algorithm
    for name in names:
        key = pool[name]
        for alg in G.algs_for(name, key):
            for deco, lab in (({"key_ops": ["sign"]}, "key_ops [sign]"), ({"use": "sig"}, "use sig"), ({"key_ops": ["sign", "verify"], "alg": alg}, "key_ops [sign,verify] + alg")):
                sig_ops.append(("jws.sig", {"jws": {"payload": G.b64u(pls[1])}, "sig": {"protected": {"alg": alg}} if "alg" not in deco else None, "jwk": dict(key, **deco),
                                            "rnd": [rng.randbytes(32).hex()], "_expect_ok": True, "_alg": alg, "_name": name, "_label": lab, "_vk": key}))
    # symmetric key sizes strictly between the boundaries of the inference ladder, and at them: the inferred algorithm must be
    # one the key is long enough for (HS256 from 32, HS384 from 48, HS512 from 64 bytes)
    for n in (32, 33, 40, 47, 48, 49, 63, 64, 65, 100, 1024):
        want = "HS512" if n >= 64 else "HS384" if n >= 48 else "HS256"
        sig_ops.append(("jws.sig", {"jws": {"payload": G.b64u(pls[1])}, "sig": {"protected": {"kid": "i"}}, "jwk": {"kty": "oct", "k": G.b64u(rng.randbytes(n))},
                                    "rnd": [rng.randbytes(32).hex()], "_expect_ok": True, "_alg": want, "_name": "oct-%d" % n, "_label": "infer, %d bytes" % n}))
    for o, a in sig_ops:
        if a["sig"] is None:
            del a["sig"]
    real, model = compare(ctx, sig_ops, p_sig)
    # cross verification of every produced token by both implementations
    ver_ops = []
    toks = []
    for (op, a), r, m in zip(sig_ops, real, model):
        for side, res in (("jose", r), ("lean", m)):
            if res.get("ok"):
                tok = res["jws"]
                if "_vk" in a:      # signed with a key restricted to signing: verified with the plain key and its public half
                    a = dict(a, jwk=a["_vk"])
                toks.append((tok, a["jwk"], a["_alg"], side))
                why = "%s-signed %s %s" % (side, a["_alg"], a["_label"])
                ver_ops.append(("jws.ver", {"jws": tok, "jwk": a["jwk"], "_expect": True, "_why": why}))
                if a["jwk"]["kty"] != "oct":
                    ver_ops.append(("jws.ver", {"jws": tok, "jwk": K.public(a["jwk"]), "_expect": True, "_why": why + " public half"}))
                    # the public half as the library exports it from a key restricted to signing: key_ops ["verify"]
                    ver_ops.append(("jws.ver", {"jws": tok, "jwk": dict(K.public(a["jwk"]), key_ops=["verify"]), "_expect": True,
                                                "_why": why + " public half with key_ops [verify]"}))
                    ver_ops.append(("jws.ver", {"jws": tok, "jwk": dict(K.public(a["jwk"]), use="sig"), "_expect": True, "_why": why + " public half with use sig"}))
                else:
                    ver_ops.append(("jws.ver", {"jws": tok, "jwk": dict(a["jwk"], key_ops=["verify"]), "_expect": True, "_why": why + " key restricted to verify"}))
                h = G.merged_header(tok)
                if not h or h.get("alg") != a["_alg"]:
                    ctx.pfails.append(("sig:alg-recorded", "%s recorded alg %s, used %s" % (side, h and h.get("alg"), a["_alg"]), op, strip(a), res))
    ver_ops += vectors(ctx)
    compare(ctx, ver_ops, p_ver)
    ctx.count("tokens", len(toks))

    # general form: add a second and a third signature to jose-made tokens, verify every entry after each step
    firsts = [t for t in toks if t[3] == "jose"]
    rng.shuffle(firsts)
    firsts = firsts[: (60 if quick else 600)]
    step_ops = []
    for tok, k1, a1, _ in firsts:
        name2 = rng.choice([n for n in names if G.algs_for(n, pool[n])])
        k2 = pool[name2]
        a2 = rng.choice(G.algs_for(name2, k2))
        step_ops.append(("jws.sig", {"jws": tok, "sig": {"protected": {"alg": a2}}, "jwk": k2, "rnd": [rng.randbytes(32).hex()],
                                     "_expect_ok": True, "_alg": a2, "_k1": k1, "_label": "second"}))
    real2, model2 = compare(ctx, step_ops, p_sig)
    ver2 = []
    third = []
    for (op, a), r, m in zip(step_ops, real2, model2):
        for side, res in (("jose", r), ("lean", m)):
            if not res.get("ok"):
                continue
            tok = res["jws"]
            if not isinstance(tok.get("signatures"), list) or len(tok["signatures"]) != 2 or "signature" in tok:
                ctx.pfails.append(("sig:general-form", "second signature did not give general form: " + json.dumps(tok)[:300], op, strip(a), res))
            for k, why in ((a["_k1"], "first key after 2nd addition"), (a["jwk"], "second key")):
                ver2.append(("jws.ver", {"jws": tok, "jwk": k, "_expect": True, "_why": side + " " + why}))
            ver2.append(("jws.ver", {"jws": tok, "jwk": [a["_k1"], a["jwk"]], "all": True, "_expect": True, "_why": side + " both keys, all"}))
            # one key, `all`: the flag is about keys, not about signatures - some signature under the key suffices
            ver2.append(("jws.ver", {"jws": tok, "jwk": a["jwk"], "all": True, "_expect": True, "_why": side + " second key alone, all"}))
            ver2.append(("jws.ver", {"jws": tok, "jwk": a["_k1"], "all": True, "_expect": True, "_why": side + " first key alone, all"}))
            sgs = tok.get("signatures") if isinstance(tok.get("signatures"), list) else []
            if len(sgs) == 2:
                ver2.append(("jws.ver", {"jws": tok, "sig": sgs[1], "jwk": a["jwk"], "_expect": True, "_why": side + " second signature named, its key"}))
                ver2.append(("jws.ver", {"jws": tok, "sig": sgs[0], "jwk": a["_k1"], "_expect": True, "_why": side + " first signature named, its key"}))
                ver2.append(("jws.ver", {"jws": tok, "sig": sgs, "jwk": [a["_k1"], a["jwk"]], "all": True, "_expect": True, "_why": side + " signature array with key array"}))
            ver2.append(("jws.ver", {"jws": tok, "jwk": {"keys": [a["jwk"], a["_k1"]]}, "all": True, "_expect": True, "_why": side + " JWKSet, all"}))
            foreign = {"kty": "oct", "k": G.b64u(rng.randbytes(128))}      # a key nobody signed with
            ver2.append(("jws.ver", {"jws": tok, "jwk": [a["jwk"], foreign], "all": True, "_expect": False, "_why": side + " all with a foreign key"}))
            ver2.append(("jws.ver", {"jws": tok, "jwk": [foreign, a["jwk"]], "all": False, "_expect": True, "_why": side + " any with a foreign key"}))
            if side == "jose":
                third.append((tok, a["_k1"], a["jwk"]))
    compare(ctx, ver2, p_ver)
    # multi-key calls and streamed payloads
    multi = []
    for _ in range(40 if quick else 400):
        usable = [n for n in names if G.algs_for(n, pool[n])]
        ns = [rng.choice(usable) for _ in range(rng.randrange(1, 4))]
        ks = [pool[n] for n in ns]
        pay = rng.choice(pls)
        shape = rng.choice(["arr", "set"])
        jwk = ks if shape == "arr" else {"keys": ks}
        # one template shared by all keys: each key must get its own copy, down to the nested protected object, so that an
        # algorithm inferred for one key is not seen by the next (keys of different kinds infer different algorithms)
        tm = rng.choice([None, {"header": {"kid": "shared"}}, "per-key", {"protected": {"kid": "shared-protected"}},
                         {"protected": {"typ": "JWT"}, "header": {"kid": "both"}}])
        sigt = [{"protected": {"alg": rng.choice(G.algs_for(n, pool[n]))}} for n in ns] if tm == "per-key" else tm
        a = {"jws": {"payload": G.b64u(pay)}, "jwk": jwk, "rnd": [rng.randbytes(32).hex() for _ in ks], "_expect_ok": True, "_keys": ks}
        if sigt is not None:
            a["sig"] = sigt
        multi.append(("jws.sig", a))
        parts = []
        left = pay
        while left:
            k = rng.randrange(1, len(left) + 1)
            parts.append(left[:k].hex())
            left = left[k:]
        b = dict(a, jws={}, feeds=[G.b64u(pay).encode().hex()] if rng.random() < 0.3 else
                 [G.b64u(pay).encode()[i:i + 7].hex() for i in range(0, len(G.b64u(pay)), 7)])
        b["_pay"] = G.b64u(pay)
        multi.append(("jws.sig_io", b))
    real3, model3 = compare(ctx, multi, p_sig)
    ver3 = []
    for (op, a), r, m in zip(multi, real3, model3):
        for side, res in (("jose", r), ("lean", m)):
            if not res.get("ok"):
                continue
            tok = dict(res["jws"])
            if op == "jws.sig_io":
                tok["payload"] = a["_pay"]
            ver3.append(("jws.ver", {"jws": tok, "jwk": a["jwk"], "all": True, "_expect": True, "_why": side + " multi-key all"}))
            for k in a["_keys"]:
                ver3.append(("jws.ver", {"jws": tok, "jwk": k, "_expect": True, "_why": side + " multi-key single"}))
    compare(ctx, ver3, p_ver)
    run_cli(ctx, pool)


def run_cli(ctx, pool):
    """the same round trip through the command-line tool, whose payload plumbing (byte-wise reads from a file or
    stdin, streaming through base64) is separate code: every byte value, NUL, 0xFF, dots and newlines in the payload"""
    rng = ctx.rng
    js = lambda o: json.dumps(o, separators=(",", ":"))
    pays = [bytes(range(256)), b"\xff", b"ab\xffcd", b"\x00", b"\xff\xfe\xfd" * 20, b"dots.in.payload\n", b"", rng.randbytes(1000),
            bytes([0xff] * 48), b"\r\n\x1a\x04\x1b"]
    keys = [("oct-32", "HS256"), ("EC-P256", "ES256"), ("RSA-2048", "RS256")]
    ops = []
    for pay in pays:
        for kn, alg in (keys if len(pay) in (256, 1, 5) else keys[:1]):
            for via in ("file", "stdin"):
                for compact in (False, True):
                    fs = {"k.jwk": js(pool[kn]).encode().hex()}
                    argv = ["jws", "sig", "-i", "{}", "-s", js({"protected": {"alg": alg}}), "-k", "k.jwk", "-I", "pay.bin" if via == "file" else "-"] + (["-c"] if compact else [])
                    a = {"argv": argv, "files": fs, "_pay": pay, "_kn": kn, "_alg": alg}
                    if via == "file":
                        fs["pay.bin"] = pay.hex()
                    else:
                        a["stdin"] = pay.hex()
                    ops.append(("cli.run", a))
    real = ctx.real([(o, strip(a)) for o, a in ops])
    ver, cliver = [], []
    for (o, a), r in zip(ops, real):
        ctx.evaluations += 1
        ctx.count("op:cli jws sig")
        if "crash" in r:
            ctx.pfails.append(("crash:cli.run", r["crash"], o, strip(a), r))
            continue
        text = bytes.fromhex(r.get("stdout") or "").decode("utf-8", "replace").strip()
        tok = None
        if r.get("status") == 0:
            if text.startswith("{"):
                try:
                    tok = json.loads(text)
                except Exception:
                    tok = None
            elif text.count(".") == 2:
                p_, y_, s_ = text.split(".")
                tok = {"protected": p_, "payload": y_, "signature": s_}
        if tok is None:
            ctx.pfails.append(("cli:sig:refused", "jose jws sig failed or printed no token for a %d-byte payload (%s): %r" % (len(a["_pay"]), " ".join(a["argv"]), text[:100]),
                               o, strip(a), r))
            continue
        if tok.get("payload") != G.b64u(a["_pay"]):
            ctx.pfails.append(("cli:sig:payload", "the token signs payload %r..., the file held %r... (%d bytes)" % (
                G.b64d(tok.get("payload") or "")[:12], a["_pay"][:12], len(a["_pay"])), o, strip(a), r))
            continue
        ver.append(("jws.ver", {"jws": tok, "jwk": pool[a["_kn"]], "_expect": True, "_why": "signed by the command-line tool, %d-byte payload" % len(a["_pay"])}))
        det = {k: v for k, v in tok.items() if k != "payload"}
        cliver.append(("cli.run", {"argv": ["jws", "ver", "-i", js(det), "-I", "pay.bin", "-k", "k.jwk", "-O", "-"],
                                   "files": {"k.jwk": js(pool[a["_kn"]]).encode().hex(), "pay.bin": a["_pay"].hex()}, "_pay": a["_pay"]}))
    compare(ctx, ver, p_ver)
    for (o, a), r in zip(cliver, ctx.real([(o, strip(a)) for o, a in cliver])):
        ctx.evaluations += 1
        ctx.count("op:cli jws ver")
        if r.get("status") != 0 or r.get("stdout") != a["_pay"].hex():
            ctx.pfails.append(("cli:ver:detached", "jose jws ver -I on the very file that was signed: status %s, %d bytes written for %d" % (
                r.get("status"), len(r.get("stdout") or "") // 2, len(a["_pay"])), o, strip(a), r))


def replay(ctx, rp):
    ops = [(o, a) for o, a in rp.get("ops", [])] + [(d["op"], d["args"]) for d in rp.get("correspondence_disagreements", [])]
    compare(ctx, ops, lambda *a: None)
