"""C14 — hostile parameters cannot force unbounded work or oversized buffers."""
import copy, json, zlib
import keys as K
import jwsgen as G
import jwegen as E

ID = "C14"
CORPUS_FIRST = True
BUILDS = ["asan", "plain"]
RULE = ("boundary grids on the implementation and the model, each line under a watchdog: PBES2 p2c in {-2^63, "
        "-2^32-1, -2^32+1000, -2^32+32768, -2^31-1, -2^31, -1, 0, 1, 999, 1000, 4096, 32767, 32768, 32769, 65536, "
        "2^31-1, 2^31, 2^31+1000, 2^32+1000, 2^40, 2^63-1} plus non-integers, on unwrap (dec, dec_jwk) and on wrap (enc, "
        "enc_jwk; header in protected / unprotected / recipient), 3 PBES2 algorithms; p2s lengths 0..40, 1022..1026, "
        "2048, 65536; one-shot decryption of ciphertext texts of 262140..262148 characters with zip in the protected "
        "header / outside it / absent; inflate feeds of 262143..262146 bytes; k / encrypted_key / apu / apv / x / "
        "signature / password of 1023, 1024, 1025, 1368, 1369, 4096, 65536 bytes on every algorithm that reads them. "
        "distinct = distinct (op,args); non-trivial = every line")
EXPLANATION = ("guard logic and its ordering before key derivation / decompression are theorems on the model; the grids "
               "tie the model to lib/openssl/pbes2.c, lib/jwe.c, lib/zlib/deflate.c and the KEYMAX guards; 'promptly' is "
               "measured with a watchdog (a refused or bounded request must end within LIMIT_MS under ASan), not proved")
ASSUMPTIONS = ["the ~200 KB ciphertext / 256 KiB feed cases run on the uninstrumented (-O2) build of the working tree; all other "
               "grids on the ASan/UBSan build",
               "wall-clock bound: 20 s per operation under ASan on this machine (32768 PBKDF2 iterations take < 0.2 s; "
               "2^31 would take tens of minutes)"]
BUDGET = {"quick": 900, "thorough": 2400}
LIMIT_MS = 20000
P2C_MAX, P2C_MIN, KEYMAX, MAXC = 32768, 1000, 1024, 262144

PBES2 = ["PBES2-HS256+A128KW", "PBES2-HS384+A192KW", "PBES2-HS512+A256KW"]
GRID = [-2 ** 63, -2 ** 32 - 1, -2 ** 32 + 1000, -2 ** 32 + 32768, -2 ** 31 - 1, -2 ** 31, -1, 0, 1, 999, 1000, 4096, 32767,
        32768, 32769, 65536, 2 ** 31 - 1, 2 ** 31, 2 ** 31 + 1000, 2 ** 32 + 1000, 2 ** 40, 2 ** 63 - 1]
NONINT = [None, True, "1000", 1000.5, [1000], {"v": 1000}]


def strip(a):
    return {k: v for k, v in a.items() if not (k.startswith("_") and k not in ("_limit_ms", "_time"))}


def cmp(ctx, ops, p, canon=None, chunk_min=50, kind="asan"):
    sent = [(o, strip(a)) for o, a in ops]
    amap = {id(s[1]): a for s, (o, a) in zip(sent, ops)}
    def pc(op, args, real):
        if isinstance(real, dict) and real.get("timeout"):
            return ("work:unbounded", "still running after %d ms (%s): %s" % (LIMIT_MS, amap[id(args)].get("_why"), json.dumps(args)[:400]))
        return p(op, amap[id(args)], real)
    def cn(op, args, r):
        r = {k: v for k, v in r.items() if k != "ms"} if isinstance(r, dict) else r
        return canon(op, amap[id(args)], r) if canon else r
    return ctx.compare(sent, pc, lambda op, args, real: json.dumps(args, sort_keys=True)[:3000], canon=cn, chunk_min=chunk_min, kind=kind)


def ok_of(real):
    return bool(real.get("ok")) or ("v" in real)


def p_refuse(op, a, real):
    if "crash" in real:
        return None
    if a.get("_must_refuse") and ok_of(real):
        return (a["_site"], "accepted although out of bounds (%s): %s" % (a.get("_why"), json.dumps(strip(a))[:400]))
    if a.get("_must_accept") and not ok_of(real):
        return (a["_site"] + ":refuses-valid", "refused although within bounds (%s): %s" % (a.get("_why"), json.dumps(strip(a))[:400]))
    if a.get("_pt") is not None and ok_of(real) and real.get("pt") != a["_pt"]:
        return (a["_site"] + ":plaintext", "wrong plaintext (%s)" % a.get("_why"))
    return None


def mask_enc(op, a, r):
    if op in ("jwe.enc", "jwe.enc_jwk") and isinstance(r, dict) and r.get("ok"):
        out = dict(r)
        if "jwe" in out:
            out["jwe"] = E.mask(out["jwe"], a.get("_wrap"), False)
        return out
    return r


def lim(a):
    a["_limit_ms"] = LIMIT_MS
    return a


def run_p2c(ctx):
    rng = ctx.rng
    pw = ["password", "a much longer password, beyond thirty-six bytes", {"kty": "oct", "k": G.b64u(rng.randbytes(24))}]
    # --- unwrap: genuine tokens (p2c = 1000 in the per-recipient header), then the count is replaced
    mk = []
    for alg in PBES2:
        for key in pw:
            mk.append(("jwe.enc", {"jwe": {"protected": {"alg": alg, "enc": "A128GCM"}}, "rcp": {"header": {"p2c": 1000}}, "jwk": key,
                                   "pt": "c0ffee", "rand": rng.randbytes(120).hex(), "_wrap": alg, "_must_accept": True, "_site": "p2c:wrap",
                                   "_why": "p2c 1000"}))
    real, model = cmp(ctx, mk, p_refuse, mask_enc)
    ops = []
    for (o, a), r in zip(mk, real):
        if not r.get("ok"):
            continue
        tok = r["jwe"]
        for v in GRID + NONINT:
            t = copy.deepcopy(tok)
            t["header"]["p2c"] = v
            isint = isinstance(v, int) and not isinstance(v, bool)
            for op in ("jwe.dec", "jwe.dec_jwk"):
                x = lim({"jwe": t, "jwk": a["jwk"], "rand": "00" * 64, "_site": "p2c:unwrap", "_why": "p2c=%r on unwrap" % (v,)})
                if (isint and v > P2C_MAX) or not isint:
                    x["_must_refuse"] = True
                if v == 1000 and op == "jwe.dec":
                    x["_must_accept"] = True
                    x["_pt"] = "c0ffee"
                ops.append((op, x))
        # the count may also sit in the protected header of a forged token: refused before any derivation all the same
        for v in (32769, 2 ** 31 - 1, -2 ** 31 - 1):
            t = copy.deepcopy(tok)
            del t["header"]["p2c"]
            t["protected"] = G.enc({"alg": a["_wrap"], "enc": "A128GCM", "p2c": v})
            x = lim({"jwe": t, "jwk": a["jwk"], "rand": "00" * 64, "_site": "p2c:unwrap", "_why": "protected p2c=%r" % v})
            if v > P2C_MAX:
                x["_must_refuse"] = True
            ops.append(("jwe.dec", x))
    cmp(ctx, ops, p_refuse)
    # --- wrap
    ops = []
    for alg in PBES2:
        for place in ("protected", "unprotected", "recipient"):
            for v in GRID + NONINT:
                jwe = {"protected": {"alg": alg, "enc": "A128GCM"}}
                rcp = None
                if place == "protected":
                    jwe["protected"]["p2c"] = v
                elif place == "unprotected":
                    jwe["unprotected"] = {"p2c": v}
                else:
                    rcp = {"header": {"p2c": v}}
                isint = isinstance(v, int) and not isinstance(v, bool)
                x = lim({"jwe": jwe, "jwk": rng.choice(pw), "pt": "c0ffee", "rand": rng.randbytes(120).hex(), "_wrap": alg,
                         "_site": "p2c:wrap", "_why": "p2c=%r (%s) on wrap" % (v, place), "_v": v})
                if rcp is not None:
                    x["rcp"] = rcp
                if not isint or v < P2C_MIN or v > P2C_MAX:
                    x["_must_refuse"] = True
                else:
                    x["_must_accept"] = True
                ops.append(("jwe.enc", x))
        # no count given: the default must itself be within bounds and recorded
        ops.append(("jwe.enc", lim({"jwe": {"protected": {"alg": alg, "enc": "A128GCM"}}, "jwk": "pw", "pt": "00", "rand": rng.randbytes(120).hex(),
                                    "_wrap": alg, "_must_accept": True, "_site": "p2c:wrap", "_why": "default count"})))
    def p_wrap(op, a, real):
        pf = p_refuse(op, a, real)
        if pf:
            return pf
        if real.get("ok"):
            h = G.merged_header(real["jwe"]) if False else None
            tok = real["jwe"]
            hdr = {}
            for part in (tok.get("unprotected"), tok.get("header")):
                if isinstance(part, dict):
                    hdr.update(part)
            try:
                hdr.update(json.loads(G.b64d(tok["protected"])))
            except Exception:
                pass
            c = hdr.get("p2c")
            if not isinstance(c, int) or isinstance(c, bool) or c < P2C_MIN or c > P2C_MAX:
                return ("p2c:wrap", "a JWE with p2c=%r was produced (%s)" % (c, a.get("_why")))
        return None
    real, model = cmp(ctx, ops, p_wrap, mask_enc)
    # what was produced must unwrap again (the recorded count is the one used)
    back = []
    for (o, a), r in zip(ops, real):
        if r.get("ok"):
            back.append(("jwe.dec", lim({"jwe": r["jwe"], "jwk": a["jwk"], "rand": "00" * 64, "_must_accept": True, "_pt": a["pt"],
                                         "_site": "p2c:roundtrip", "_why": a.get("_why")})))
    cmp(ctx, back, p_refuse)
    ctx.count("p2c-grid", len(GRID) + len(NONINT))


def run_p2s(ctx):
    rng = ctx.rng
    mk = [("jwe.enc", {"jwe": {"protected": {"alg": alg, "enc": "A128GCM"}}, "rcp": {"header": {"p2c": 1000}}, "jwk": "password", "pt": "aa",
                       "rand": rng.randbytes(120).hex()}) for alg in PBES2]
    real = ctx.real(mk)
    ops = []
    lens = list(range(0, 41)) + [1022, 1023, 1024, 1025, 1026, 2048, 65536]
    for (o, a), r in zip(mk, real):
        if not r.get("ok"):
            ctx.pfails.append(("p2s:setup", "cannot produce a PBES2 token", o, a, r))
            continue
        for n in lens:
            t = copy.deepcopy(r["jwe"])
            t["header"]["p2s"] = G.b64u(rng.randbytes(n))
            x = lim({"jwe": t, "jwk": "password", "rand": "00" * 64, "_site": "p2s:bounds", "_why": "p2s of %d bytes" % n})
            if n < 8 or n > KEYMAX:
                x["_must_refuse"] = True
            ops.append(("jwe.dec_jwk", x))
        for bad in (None, 5, "!!!!", "A", [], {}):
            t = copy.deepcopy(r["jwe"])
            t["header"]["p2s"] = bad
            ops.append(("jwe.dec_jwk", lim({"jwe": t, "jwk": "password", "rand": "00" * 64, "_must_refuse": True, "_site": "p2s:bounds",
                                            "_why": "p2s %r" % (bad,)})))
        t = copy.deepcopy(r["jwe"])
        del t["header"]["p2s"]
        ops.append(("jwe.dec_jwk", lim({"jwe": t, "jwk": "password", "rand": "00" * 64, "_must_refuse": True, "_site": "p2s:bounds", "_why": "no p2s"})))
    cmp(ctx, ops, p_refuse)


def run_zip(ctx):
    """one-shot decryption around MAX_COMPRESSED_SIZE characters of ciphertext text"""
    rng = ctx.rng
    cek = {"kty": "oct", "k": G.b64u(rng.randbytes(16))}
    target = MAXC // 4 * 3          # ciphertext bytes whose text is exactly MAXC characters
    # without zip the ciphertext is as long as the plaintext (GCM); with zip the length is found by scanning
    mk = []
    for n in range(target - 4, target + 5):
        mk.append(("jwe.enc_cek", {"jwe": {"protected": {"enc": "A128GCM"}}, "cek": cek, "pt": rng.randbytes(n).hex(), "rand": "11" * 12, "_zip": None}))
        mk.append(("jwe.enc_cek", {"jwe": {"protected": {"enc": "A128GCM"}, "unprotected": {"zip": "DEF"}}, "cek": cek, "pt": rng.randbytes(n).hex(),
                                   "rand": "11" * 12, "_zip": "unprotected"}))
    # (deflate adds a small constant to incompressible input: every length in the window, so that the text lengths MAXC-1,
    #  MAXC and MAXC+1 all occur - in both tiers)
    for n in list(range(target - 80, target - 20, 1 if ctx.tier == "thorough" else 3)) + list(range(target - 40, target - 22)):
        mk.append(("jwe.enc_cek", {"jwe": {"protected": {"enc": "A128GCM", "zip": "DEF"}}, "cek": cek, "pt": rng.randbytes(n).hex(), "rand": "11" * 12,
                                   "_zip": "protected"}))
    # a highly compressible plaintext far above the limit whose ciphertext is tiny: must decrypt
    mk.append(("jwe.enc_cek", {"jwe": {"protected": {"enc": "A128GCM", "zip": "DEF"}}, "cek": cek, "pt": (b"A" * (4 * MAXC)).hex(), "rand": "11" * 12,
                               "_zip": "protected"}))
    real = ctx.real([(o, strip(a)) for o, a in mk], kind="plain", chunk_min=1)
    ops = []
    seen = {}
    for (o, a), r in zip(mk, real):
        if not r.get("ok"):
            ctx.pfails.append(("zip:setup", "encryption failed", o, {}, r))
            continue
        L = len(r["jwe"]["ciphertext"])
        seen[(a["_zip"], L)] = seen.get((a["_zip"], L), 0) + 1
        if a["_zip"] == "protected" and seen[(a["_zip"], L)] > 1:
            continue
        x = lim({"jwe": r["jwe"], "cek": cek, "_site": "zip:limit", "_why": "%d characters of ciphertext, zip %s" % (L, a["_zip"])})
        if a["_zip"] == "protected" and L > MAXC:
            x["_must_refuse"] = True
        else:
            x["_must_accept"] = True
            x["_pt"] = a["pt"]
        ops.append(("jwe.dec_cek", x))
        ctx.count("zip:%s:%s" % (a["_zip"], "over" if L > MAXC else "within"))
    # the big ones are slow in the Lean implementation: all go to the implementation and the oracle, a sample to both
    sample = [x for i, x in enumerate(ops) if i % (4 if ctx.tier == "quick" else 2) == 0]
    cmp(ctx, sample, p_refuse, chunk_min=1, kind="plain")
    rest = [x for i, x in enumerate(ops) if i % (4 if ctx.tier == "quick" else 2) != 0]
    sent = [(o, strip(a)) for o, a in rest]
    for (o, a), r in zip(rest, ctx.real(sent, kind="plain", chunk_min=1)):
        ctx.evaluations += 1
        if r.get("timeout"):
            ctx.pfails.append(("work:unbounded", a["_why"], o, strip(a), r))
        pf = p_refuse(o, a, r)
        if pf:
            ctx.pfails.append((pf[0], pf[1], o, {"why": a["_why"]}, r))
    # inflate stage: a single feed above the limit is refused, at the limit it is processed
    ops = []
    for n in (MAXC - 1, MAXC, MAXC + 1, MAXC + 2, 2 * MAXC):
        big = zlib.compressobj(0, zlib.DEFLATED, -15)
        zb = big.compress(rng.randbytes(n)) + big.flush()      # stored blocks: len(zb) = n + 5 per 64k block
        for cut in (MAXC - 1, MAXC, MAXC + 1, MAXC + 2):
            if cut >= len(zb):
                continue
            x = lim({"chain": ["inflate", ["malloc"]], "feeds": [zb[:cut].hex(), zb[cut:cut + MAXC].hex()] + ([zb[cut + MAXC:].hex()] if len(zb) > cut + MAXC else []),
                     "_site": "inflate:feed-limit", "_why": "first feed of %d bytes" % cut})
            if cut > MAXC:
                x["_must_refuse"] = True
            ops.append(("io.run", x))
    def p_io(op, a, real):
        if "crash" in real:
            return None
        okv = real.get("ok") if "ok" in real else real.get("done")
        fed = real.get("feeds")
        refused = (isinstance(fed, list) and not all(fed)) or okv is False or real.get("done") is False
        if a.get("_must_refuse") and not refused:
            return (a["_site"], "a feed above the limit was processed (%s): %s" % (a["_why"], json.dumps(real)[:200]))
        return None
    cmp(ctx, ops, p_io, chunk_min=1, kind="plain")


def sized(n, rng):
    return G.b64u(rng.randbytes(n))


def run_sizes(ctx):
    """every member that is decoded into a fixed KEYMAX buffer, around and far above the limit"""
    rng = ctx.rng
    pool = K.pool(ctx.jose)
    sizes = [1023, 1024, 1025, 1368, 1369, 4096, 65536]
    ops = []
    pay = G.b64u(b"p")
    for n in sizes:
        over = n > KEYMAX
        key = {"kty": "oct", "k": sized(n, rng)}
        why = "%d-byte " % n
        # HMAC key: sign and verify
        for alg in G.HS:
            x = lim({"jws": {"payload": pay}, "sig": {"protected": {"alg": alg}}, "jwk": key, "_site": "size:hmac-key", "_why": why + "HMAC key, sign"})
            x["_must_refuse" if over else "_must_accept"] = True
            ops.append(("jws.sig", x))
            tok = {"payload": pay, "protected": G.enc({"alg": alg}), "signature": sized(G.HLEN[alg], rng)}
            x = lim({"jws": tok, "jwk": key, "all": False, "_site": "size:hmac-key", "_why": why + "HMAC key, verify"})
            x["_must_refuse"] = True
            ops.append(("jws.ver", x))
        # oversize signature value
        tok = {"payload": pay, "protected": G.enc({"alg": "HS256"}), "signature": sized(n, rng)}
        ops.append(("jws.ver", lim({"jws": tok, "jwk": pool["oct-32"], "all": False, "_must_refuse": True, "_site": "size:signature", "_why": why + "signature"})))
        for kn, alg in (("EC-P256", "ES256"), ("RSA-2048", "RS256"), ("RSA-2048", "PS256")):
            tok = {"payload": pay, "protected": G.enc({"alg": alg}), "signature": sized(n, rng)}
            ops.append(("jws.ver", lim({"jws": tok, "jwk": pool[kn], "all": False, "_must_refuse": True, "_site": "size:signature", "_why": why + alg + " signature"})))
        # key wrapping keys, direct keys, content keys: exact lengths only
        for w in ("A128KW", "A256KW", "A128GCMKW", "dir"):
            x = lim({"jwe": {"protected": {"alg": w, "enc": "A128GCM"}}, "jwk": key, "pt": "00", "rand": rng.randbytes(120).hex(), "_must_refuse": True,
                     "_site": "size:wrap-key", "_why": why + "key for " + w})
            ops.append(("jwe.enc", x))
        x = lim({"jwe": {"protected": {"enc": "A128GCM"}}, "cek": key, "pt": "00", "rand": "22" * 16, "_must_refuse": True, "_site": "size:cek",
                 "_why": why + "content key"})
        ops.append(("jwe.enc_cek", x))
        # PBES2 password given as an oct key
        x = lim({"jwe": {"protected": {"alg": PBES2[0], "enc": "A128GCM", "p2c": 1000}}, "jwk": key, "pt": "00", "rand": rng.randbytes(120).hex(),
                 "_site": "size:pbes2-password", "_why": why + "PBES2 password key", "_wrap": PBES2[0]})
        x["_must_refuse" if over else "_must_accept"] = True
        ops.append(("jwe.enc", x))
    # PBES2 password given as a JSON string (what `jose jwe enc -p` hands over): same 1024-byte bound, wrap and unwrap
    tokp = ctx.real([("jwe.enc", {"jwe": {"protected": {"alg": PBES2[0], "enc": "A128GCM", "p2c": 1000}}, "jwk": "p" * 1024, "pt": "00", "rand": rng.randbytes(120).hex()})])[0]
    for n in (1023, 1024, 1025, 1026, 2048, 4096, 65536):
        over = n > KEYMAX
        for w in PBES2:
            x = lim({"jwe": {"protected": {"alg": w, "enc": "A128GCM", "p2c": 1000}}, "jwk": "p" * n, "pt": "00", "rand": rng.randbytes(120).hex(),
                     "_site": "size:pbes2-password", "_why": "%d-character PBES2 password (JSON string), wrap with %s" % (n, w), "_wrap": w})
            x["_must_refuse" if over else "_must_accept"] = True
            ops.append(("jwe.enc", x))
        if tokp.get("ok"):
            x = lim({"jwe": tokp["jwe"], "jwk": "p" * n, "rand": "00" * 64, "_site": "size:pbes2-password", "_why": "%d-character PBES2 password (JSON string), unwrap" % n})
            x["_must_accept" if n == 1024 else "_must_refuse"] = True
            ops.append(("jwe.dec_jwk", x))
            x = lim({"jwe": tokp["jwe"], "jwk": {"kty": "oct", "k": sized(n, rng)}, "rand": "00" * 64, "_must_refuse": True, "_site": "size:pbes2-password",
                     "_why": "%d-byte PBES2 password key, unwrap" % n})
            ops.append(("jwe.dec_jwk", x))
    # ECDH-ES unwrapping with a key that has no d takes the key as the agreed value ("external exchange"): its x feeds the
    # same fixed buffer as a computed one
    tokx = ctx.real([("jwe.enc", {"jwe": {"protected": {"alg": "ECDH-ES", "enc": "A128GCM"}}, "jwk": pool["EC-P256"], "pt": "00", "rand": rng.randbytes(120).hex()}),
                     ("jwe.enc", {"jwe": {"protected": {"alg": "ECDH-ES+A128KW", "enc": "A128GCM"}}, "jwk": pool["EC-P256"], "pt": "00", "rand": rng.randbytes(120).hex()})])
    for tk in tokx:
        if not tk.get("ok"):
            continue
        for n in (32, 1023, 1024, 1025, 1026, 1100, 2048, 65536):
            x = lim({"jwe": tk["jwe"], "jwk": {"kty": "EC", "crv": "P-256", "x": sized(n, rng), "y": pool["EC-P256"]["y"]}, "rand": "00" * 64, "_site": "size:exchanged-x",
                     "_why": "%d-byte x of an externally exchanged key" % n})
            if n > KEYMAX:
                x["_must_refuse"] = True
            ops.append(("jwe.dec_jwk", x))
    # wrapping a caller-supplied content key of 1023..1041 and more bytes with every family that wraps through a fixed buffer
    for n in sizes + [1032, 1040, 1041]:
        cek = {"kty": "oct", "k": sized(n, rng)}
        for w, kn in (("A128KW", "oct-16"), ("A256KW", "oct-32"), ("A128GCMKW", "oct-16"), ("PBES2-HS256+A128KW", None), ("ECDH-ES+A128KW", "EC-P256")):
            x = lim({"jwe": {"protected": {"alg": w, "enc": "A128GCM", **({"p2c": 1000} if w.startswith("PBES2") else {})}}, "rcp": {}, "jwk": pool[kn] if kn else "password",
                     "cek": cek, "rand": rng.randbytes(120).hex(), "_site": "size:wrapped-cek", "_why": "%d-byte content key wrapped with %s" % (n, w), "_wrap": w})
            if n > KEYMAX and "GCMKW" not in w:     # AES-GCM key wrapping streams through heap buffers: no fixed buffer, no bound
                x["_must_refuse"] = True
            ops.append(("jwe.enc_jwk", x))
    real_, model_ = cmp(ctx, ops, p_refuse, mask_enc)
    # what was wrapped within the bound unwraps again (the consuming side's bound is not tighter than the producing one)
    back = []
    for (o, a), r in zip(ops, real_):
        if o == "jwe.enc_jwk" and r.get("ok") and a.get("_site") == "size:wrapped-cek":
            back.append(("jwe.dec_jwk", lim({"jwe": r["jwe"], "jwk": a["jwk"], "rand": "00" * 64, "_must_accept": True, "_site": "size:wrapped-cek",
                                             "_why": a["_why"] + ", unwrapped again"})))
    cmp(ctx, back, p_refuse, mask_enc)
    # members of tokens: encrypted_key, apu, apv, epk.x
    mk = [("jwe.enc", {"jwe": {"protected": {"alg": "A128KW", "enc": "A128GCM"}}, "jwk": pool["oct-16"], "pt": "00", "rand": rng.randbytes(120).hex()}),
          ("jwe.enc", {"jwe": {"protected": {"alg": "ECDH-ES+A128KW", "enc": "A128GCM"}}, "jwk": pool["EC-P256"], "pt": "00", "rand": rng.randbytes(120).hex()}),
          ("jwe.enc", {"jwe": {"protected": {"alg": "ECDH-ES", "enc": "A128GCM"}}, "jwk": pool["EC-P256"], "pt": "00", "rand": rng.randbytes(120).hex()}),
          ("jwe.enc", {"jwe": {"protected": {"alg": "A256GCMKW", "enc": "A128GCM"}}, "jwk": pool["oct-32"], "pt": "00", "rand": rng.randbytes(120).hex()}),
          ("jwe.enc", {"jwe": {"protected": {"alg": "RSA-OAEP", "enc": "A128GCM"}}, "jwk": pool["RSA-2048"], "pt": "00", "rand": rng.randbytes(120).hex()})]
    real = ctx.real(mk)
    ops = []
    for (o, a), r in zip(mk, real):
        if not r.get("ok"):
            ctx.pfails.append(("size:setup", "cannot produce token", o, a, r))
            continue
        tok, key = r["jwe"], a["jwk"]
        alg = a["jwe"]["protected"]["alg"]
        for n in sizes + [1040, 1041]:
            why = "%d-byte " % n
            if "encrypted_key" in tok:
                t = copy.deepcopy(tok)
                t["encrypted_key"] = sized(n, rng)
                ops.append(("jwe.dec_jwk", lim({"jwe": t, "jwk": key, "rand": "00" * 700, "_site": "size:encrypted_key", "_why": why + "encrypted_key " + alg,
                                                **({"_must_refuse": True} if alg != "RSA1_5" else {})})))
            if alg.startswith("ECDH"):
                for m in ("apu", "apv"):
                    t = copy.deepcopy(tok)
                    t.setdefault("unprotected", {})[m] = sized(n, rng)
                    x = lim({"jwe": t, "jwk": key, "rand": "00" * 64, "_site": "size:" + m, "_why": why + m})
                    if n > KEYMAX:
                        x["_must_refuse"] = True
                    ops.append(("jwe.dec_jwk", x))
                    # producing side
                    x = lim({"jwe": {"protected": {"alg": alg, "enc": "A128GCM", m: sized(n, rng)}}, "jwk": key, "pt": "00", "rand": rng.randbytes(120).hex(),
                             "_site": "size:" + m, "_why": why + m + " on wrap", "_wrap": alg})
                    x["_must_refuse" if n > KEYMAX else "_must_accept"] = True
                    ops.append(("jwe.enc", x))
                t = copy.deepcopy(tok)
                hdr = json.loads(G.b64d(t["protected"]))
                hloc = t["header"] if "epk" in t.get("header", {}) else None
                if hloc is not None:
                    hloc["epk"]["x"] = sized(n, rng)
                    ops.append(("jwe.dec_jwk", lim({"jwe": t, "jwk": key, "rand": "00" * 64, "_must_refuse": True, "_site": "size:epk.x", "_why": why + "epk.x"})))
    # exchanged coordinates
    for n in sizes:
        k = dict(K.public(pool["EC-P256-b"]), x=sized(n, rng))
        ops.append(("jwk.exc", lim({"prv": pool["EC-P256"], "pub": k, "_must_refuse": True, "_site": "size:exc.x", "_why": "%d-byte x in exchange" % n})))
        k = dict(pool["EC-P256"], d=sized(n, rng))
        ops.append(("jwk.exc", lim({"prv": k, "pub": K.public(pool["EC-P256-b"]), "_must_refuse": True, "_site": "size:exc.d", "_why": "%d-byte d in exchange" % n})))
    cmp(ctx, ops, p_refuse, mask_enc)


def run(ctx):
    run_p2c(ctx)
    run_p2s(ctx)
    run_sizes(ctx)
    run_zip(ctx)


def replay(ctx, rp):
    ops = [(o, dict(a, _limit_ms=LIMIT_MS)) for o, a in rp.get("ops", [])]
    def p(op, a, real):
        if isinstance(real, dict) and real.get("timeout"):
            return ("work:unbounded", "still running after %d ms" % LIMIT_MS)
        return None
    ctx.compare(ops, p, None, canon=lambda o, a, r: {k: v for k, v in r.items() if k != "ms"} if isinstance(r, dict) else r)
