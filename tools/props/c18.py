"""C18 — the command-line tool is faithful to the library: exit status and output."""
import copy, itertools, json
import keys as K
import jwsgen as G
import jwegen as E

ID = "C18"
RULE = ("cli.run (the working tree's cmd/ objects run in a forked child of the ASan harness, with files and stdin) against "
        "the model of the tool and against the library itself through the harness operations (the oracle): jws ver — "
        "tokens of every signature algorithm x serialization (flattened, general with 2 signatures, compact) x input form "
        "(inline, file, stdin; JSON or compact stream) x key arguments (right, wrong, unusable, several -k, JWKSet, set "
        "with one unusable key) x -a x -O (file, stdout, none) x -I detached payload; jws sig — templates x keys x -c x -O "
        "x -o x -I, every token produced is verified by `jws ver` and by the library; jws fmt — conversions between the "
        "three serializations and detached payloads, verification preserved; jwe dec — tokens of every key management "
        "x serialization x input form x key arguments x -O x -I; jwe enc and jwe fmt (modelled; jwe enc byte for byte under a RAND_bytes tape); 529 deterministic command lines of the primitive-free subcommands; jwk "
        "thp / pub / eql / exc / gen / use on valid keys and keys the library refuses; b64 enc / dec on valid and invalid "
        "text. distinct = distinct command lines; non-trivial = every line")
EXPLANATION = ("exit-status and output theorems are proved on the control-flow model of each subcommand (Jose/Cli.lean) over the "
               "model's library functions; the run ties that model to cmd/*.c and, independently of the model, checks the "
               "property's own statement: status 0 exactly when the library call on the same inputs succeeds, output = the "
               "library's result, nothing printed on refusal")
ASSUMPTIONS = ["stdout is not a terminal (no trailing newline); the password prompt (-p) is not exercised (no terminal)",
               "on a failing run only the exit status is compared (the tool streams part of its output before it knows)"]
BUDGET = {"quick": 1200, "thorough": 3600}


def hx(b):
    return (b if isinstance(b, bytes) else b.encode()).hex()


def js(o):
    return json.dumps(o, separators=(",", ":"))


def strip(a):
    return {k: v for k, v in a.items() if not k.startswith("_")}


def cmp(ctx, ops, p, canon=None):
    sent = [(o, strip(a)) for o, a in ops]
    amap = {id(s[1]): a for s, (o, a) in zip(sent, ops)}
    def pc(op, args, real):
        if isinstance(real, dict) and "crash" in real:
            return None
        return p(amap[id(args)], real)
    def cn(op, args, r):
        a = amap[id(args)]
        if not isinstance(r, dict):
            return r
        if r.get("status") != 0:
            return {"status": r.get("status"), "crash": r.get("crash")}
        if a.get("_random"):
            return {"status": 0}
        return r
    return ctx.compare(sent, pc, lambda op, args, real: json.dumps(args, sort_keys=True)[:4000], canon=cn)


def compact_of(tok):
    return "%s.%s.%s" % (tok.get("protected", ""), tok.get("payload", ""), tok.get("signature", ""))


def jwe_compact(tok):
    return ".".join(tok.get(k, "") for k in ("protected", "encrypted_key", "iv", "ciphertext", "tag"))


def input_forms(text_json, text_compact, rng):
    """(label, argv fragment, files, stdin)"""
    forms = [("inline-json", ["-i", text_json], {}, None), ("file-json", ["-i", "tok.json"], {"tok.json": hx(text_json)}, None),
             ("stdin-json", ["-i", "-"], {}, hx(" \n" + text_json))]
    if text_compact is not None:
        forms += [("inline-compact", ["-i", text_compact], {}, None), ("file-compact", ["-i", "tok.jws"], {"tok.jws": hx(text_compact)}, None),
                  ("stdin-compact", ["-i", "-"], {}, hx(text_compact))]
    return forms


# ---------------------------------------------------------------- jws ver

def run_jws_ver(ctx):
    rng = ctx.rng
    pool = K.pool(ctx.jose)
    pay = b"payload for the command line \x00\xff"
    mk = []
    combos = [("oct-32", "HS256"), ("oct-64", "HS512"), ("EC-P256", "ES256"), ("EC-P521", "ES512"), ("RSA-2048", "RS256"), ("RSA-2048", "PS384")]
    for name, alg in combos:
        mk.append(("jws.sig", {"jws": {"payload": G.b64u(pay)}, "sig": {"protected": {"alg": alg}}, "jwk": pool[name], "_k": [name]}))
        mk.append(("jws.sig", {"jws": {"payload": G.b64u(pay)}, "sig": {"protected": {"alg": alg}, "header": {"kid": "u"}}, "jwk": pool[name], "_k": [name]}))
    mk.append(("jws.sig", {"jws": {"payload": G.b64u(pay)}, "sig": [{"protected": {"alg": "HS256"}}, {"protected": {"alg": "ES256"}}],
                           "jwk": [pool["oct-32"], pool["EC-P256"]], "_k": ["oct-32", "EC-P256"]}))
    real = ctx.real([(o, strip(a)) for o, a in mk])
    toks = [(a["_k"], r["jws"]) for (o, a), r in zip(mk, real) if r.get("ok")]
    if len(toks) != len(mk):
        ctx.pfails.append(("cli:setup", "library refused to sign", "jws.sig", {}, {}))
    ops, lib = [], []
    unusable = dict(pool["oct-32"], use="enc")
    for names, tok in toks:
        single = "signatures" not in tok
        allprot = single and "header" not in tok
        variants = [("genuine", tok)]
        bad = copy.deepcopy(tok)
        if single:
            bad["payload"] = G.b64u(pay + b"!")
        else:
            bad["signatures"][1]["signature"] = bad["signatures"][0]["signature"]
        variants.append(("tampered", bad))
        for vlabel, t in variants:
            forms = input_forms(js(t), compact_of(t) if allprot else None, rng)
            if ctx.tier == "quick":
                forms = rng.sample(forms, min(3, len(forms)))
            keysets = [("own", [pool[n] for n in names]), ("own-public", [K.public(pool[n]) if pool[n]["kty"] != "oct" else pool[n] for n in names]),
                       ("wrong", [pool["oct-48"]]), ("own+wrong", [pool[names[0]], pool["oct-48"]]), ("unusable", [unusable]),
                       ("own+unusable", [pool[names[0]], unusable]), ("jwkset", [{"keys": [pool[n] for n in names]}]), ("empty-set", [{"keys": []}])]
            if ctx.tier == "quick":
                keysets = keysets[:1] + rng.sample(keysets[1:], 3)
            for flabel, iargv, files, stdin in forms:
                for klabel, ks in keysets:
                    for all_ in (False, True):
                        for out in (None, "out.bin", "-"):
                            fs = dict(files)
                            argv = ["jws", "ver"] + iargv
                            flat = []
                            for i, k in enumerate(ks):
                                fs["k%d.jwk" % i] = hx(js(k))
                                argv += ["-k", "k%d.jwk" % i]
                                flat += k["keys"] if isinstance(k, dict) and "keys" in k else [k]
                            if all_:
                                argv.append("-a")
                            if out:
                                argv += ["-O", out]
                            a = {"argv": argv, "files": fs, "_tok": t, "_keys": flat, "_all": all_, "_out": out, "_pay": pay if vlabel == "genuine" or not single else pay + b"!",
                                 "_why": "%s token, %s, keys %s, all=%s, -O %s" % (vlabel, flabel, klabel, all_, out)}
                            if stdin is not None:
                                a["stdin"] = stdin
                            ops.append(("cli.run", a))
        # detached payload: the object carries no payload, the raw bytes come from a file
        if single:
            det = {k: v for k, v in tok.items() if k != "payload"}
            for src, p in (("pay.bin", pay), ("pay.bin", pay + b"x")):
                for out in (None, "out.bin"):
                    for flabel, iargv, files, stdin in input_forms(js(det), compact_of(det) if allprot else None, rng):
                        fs = dict(files, **{"k0.jwk": hx(js(pool[names[0]])), src: hx(p)})
                        argv = ["jws", "ver"] + iargv + ["-I", src, "-k", "k0.jwk"] + (["-O", out] if out else [])
                        x = {"argv": argv, "files": fs, "_tok": dict(det, payload=G.b64u(p)), "_keys": [pool[names[0]]], "_all": False, "_out": out,
                             "_pay": p, "_why": "detached payload (%s), token %s" % ("genuine" if p == pay else "altered", flabel)}
                        if stdin is not None:
                            x["stdin"] = stdin
                        ops.append(("cli.run", x))
    # the library's verdict on the same inputs
    lib_ops = [("jws.ver", {"jws": a["_tok"], "jwk": a["_keys"], "all": a["_all"]}) for o, a in ops]
    verdicts = ctx.real(lib_ops)
    for (o, a), v in zip(ops, verdicts):
        a["_lib"] = bool(v.get("r"))
    def p(a, real):
        ok = real.get("status") == 0
        if ok != a["_lib"]:
            return ("cli:jws-ver:status", "jose jws ver exits %s but the library's verification of the same JWS with the same keys says %s (%s): %s"
                    % (real.get("status"), a["_lib"], a["_why"], js(a["argv"])[:400]))
        if ok and a["_out"]:
            got = real["stdout"] if a["_out"] == "-" else real["files"].get(a["_out"])
            if got != hx(a["_pay"]):
                return ("cli:jws-ver:payload", "payload written with -O differs (%s)" % a["_why"])
        if ok and a["_out"] != "-" and real.get("stdout"):
            return ("cli:jws-ver:stdout", "unexpected standard output (%s)" % a["_why"])
        return None
    for i in range(0, len(ops), 20000):
        cmp(ctx, ops[i:i + 20000], p)
    ctx.count("jws-ver", len(ops))


# ---------------------------------------------------------------- jws sig / fmt

def parse_out(real, target):
    t = real["stdout"] if target in (None, "-") else real["files"].get(target)
    if t is None:
        return None
    return bytes.fromhex(t).decode("utf-8", "replace")


def tok_of_text(text):
    text = text.strip()
    if text.startswith("{"):
        try:
            return json.loads(text)
        except Exception:
            return None
    parts = text.split(".")
    if len(parts) == 3:
        return {"protected": parts[0], "payload": parts[1], "signature": parts[2]}
    return None


def run_jws_sig(ctx):
    rng = ctx.rng
    pool = K.pool(ctx.jose)
    pay = b"sign me \x01\x02\xff\x00.\xfe\n"
    ops = []
    keysets = [(["oct-32"], True), (["EC-P256"], False), (["RSA-2048"], True), (["oct-32", "EC-P384"], False), (["oct-16"], True)]
    tmpls = [None, [{"protected": {"alg": "HS256"}}], [{"header": {"kid": "k1"}}], [{"protected": {"typ": "JWT"}}, {"header": {"kid": "second"}}], [5], [{"protected": {"alg": "nope"}}]]
    inputs = [{"payload": G.b64u(pay)}, {"payload": G.b64u(pay), "protected": G.enc({"alg": "HS256"}), "signature": "AAAA"}, {}, {"payload": 5}]
    for names, det in keysets:
        for t in tmpls:
            for inp in inputs:
                for compact in (False, True):
                    for out, detach, detached in ((None, None, False), ("o.jws", None, False), (None, "p.bin", False), (None, None, True), ("o.jws", "p.bin", True)):
                        fs = {}
                        argv = ["jws", "sig"]
                        obj = dict(inp)
                        if detached:
                            obj.pop("payload", None)
                            fs["in.bin"] = hx(pay)
                        argv += ["-i", js(obj)]
                        if detached:
                            argv += ["-I", "in.bin"]
                        for s in (t or []):
                            argv += ["-s", js(s)]
                        for i, n in enumerate(names):
                            fs["k%d.jwk" % i] = hx(js(pool[n]))
                            argv += ["-k", "k%d.jwk" % i]
                        if out:
                            argv += ["-o", out]
                        if detach:
                            argv += ["-O", detach]
                        if compact:
                            argv.append("-c")
                        if rng.random() < (0.5 if ctx.tier == "quick" else 1.0):
                            ops.append(("cli.run", {"argv": argv, "files": fs, "_names": names, "_out": out, "_detach": detach, "_compact": compact, "_random": not det,
                                                    "_pay": pay if (detached or "payload" in inp) else b"", "_inp": inp, "_tmpl": t, "_detached": detached,
                                                    "_why": "keys %s, templates %s, input %s, compact=%s, -o %s, -O %s, -I %s" % (names, js(t), js(inp)[:60], compact, out, detach, detached)}))
    # library oracle: same templates, same keys
    lib_ops = []
    for o, a in ops:
        inp = dict(a["_inp"])
        if a["_detached"]:
            inp["payload"] = G.b64u(pay)
        inp.setdefault("payload", "")       # the tool reads an absent payload as the empty one
        ks = [pool[n] for n in a["_names"]]
        sigs = list(a["_tmpl"] or [])
        sigs = sigs + [{}] * (len(ks) - len(sigs))
        lib_ops.append(("jws.sig", {"jws": inp, "sig": sigs, "jwk": ks}))
    libres = ctx.real(lib_ops)
    second = []
    def p(a, real):
        return None
    real, model = cmp(ctx, ops, p)
    for (o, a), r, lr in zip(ops, real, libres):
        if "crash" in r:
            continue
        ok = r.get("status") == 0
        existing = ("signature" in a["_inp"] or "protected" in a["_inp"])
        too_many = a["_compact"] and (len(a["_names"]) + (1 if existing else 0)) > 1
        more_t = len(a["_tmpl"] or []) > len(a["_names"])
        lib_ok = bool(lr.get("ok")) and not too_many and not more_t
        if ok != lib_ok:
            ctx.pfails.append(("cli:jws-sig:status", "jose jws sig exits %s, the library call on the same inputs %s (%s)" % (r.get("status"), "succeeds" if lib_ok else "is refused", a["_why"]),
                               "cli.run", strip(a), r))
            continue
        if not ok:
            out = parse_out(r, a["_out"]) or ""
            if tok_of_text(out) and "signature" in json.dumps(tok_of_text(out)) and not existing:
                ctx.pfails.append(("cli:jws-sig:prints-on-failure", "a token was printed although the command failed (%s)" % a["_why"], "cli.run", strip(a), r))
            continue
        text = parse_out(r, a["_out"])
        tok = tok_of_text(text or "")
        if tok is None:
            ctx.pfails.append(("cli:jws-sig:output", "output is neither a JSON object nor a compact JWS (%s): %r" % (a["_why"], (text or "")[:200]), "cli.run", strip(a), r))
            continue
        fs = {"k%d.jwk" % i: hx(js(pool[n])) for i, n in enumerate(a["_names"])}
        kargs = sum((["-k", "k%d.jwk" % i] for i in range(len(a["_names"]))), [])
        if a["_detach"]:
            if r["files"].get(a["_detach"]) != hx(a["_pay"]):
                ctx.pfails.append(("cli:jws-sig:detach", "detached payload file differs (%s)" % a["_why"], "cli.run", strip(a), r))
            fs["p.bin"] = hx(a["_pay"])
            second.append(("cli.run", {"argv": ["jws", "ver", "-i", text.strip(), "-I", "p.bin", "-a"] + kargs, "files": fs, "_why": a["_why"]}))
            second.append(("cli.run", {"argv": ["jws", "ver", "-i", "tok.txt", "-I", "p.bin", "-a", "-O", "-"] + kargs, "files": dict(fs, **{"tok.txt": hx(text)}),
                                       "_why": a["_why"] + ", token from a file", "_pay": a["_pay"], "_nofmt": True}))
            second.append(("cli.run", {"argv": ["jws", "ver", "-i", "-", "-I", "p.bin", "-a"] + kargs, "files": fs, "stdin": hx(text),
                                       "_why": a["_why"] + ", token on stdin", "_nofmt": True}))
        else:
            second.append(("cli.run", {"argv": ["jws", "ver", "-i", text.strip(), "-a", "-O", "-"] + kargs, "files": fs, "_why": a["_why"], "_pay": a["_pay"]}))
    # adding a signature to a token that already carries one, in every spelling of the input token
    first = ctx.real([("jws.sig", {"jws": {"payload": G.b64u(pay)}, "sig": {"protected": {"alg": "HS256"}}, "jwk": pool["oct-32"]})])[0]
    if first.get("ok"):
        t1 = first["jws"]
        for flabel, iargv, files, stdin in input_forms(js(t1), compact_of(t1), rng):
            for k2, tmpl in (("EC-P256", None), ("oct-64", {"protected": {"alg": "HS512"}}), ("RSA-2048", {"header": {"kid": "second"}})):
                fs = dict(files, **{"k2.jwk": hx(js(pool[k2]))})
                argv = ["jws", "sig"] + iargv + (["-s", js(tmpl)] if tmpl else []) + ["-k", "k2.jwk"]
                x = {"argv": argv, "files": fs, "_why": "second signature (%s) added to a token given as %s" % (k2, flabel), "_k2": k2}
                if stdin is not None:
                    x["stdin"] = stdin
                rr = ctx.real([("cli.run", strip(x))])[0]
                ctx.evaluations += 1
                out = tok_of_text(parse_out(rr, None) or "") if rr.get("status") == 0 else None
                if out is None or not isinstance(out.get("signatures"), list) or len(out["signatures"]) != 2:
                    ctx.pfails.append(("cli:jws-sig:second", "%s: status %s, output %r" % (x["_why"], rr.get("status"), (parse_out(rr, None) or "")[:200]), "cli.run", strip(x), rr))
                    continue
                vs = ctx.real([("jws.ver", {"jws": out, "jwk": pool["oct-32"]}), ("jws.ver", {"jws": out, "jwk": pool[k2]}),
                               ("jws.ver", {"jws": out, "jwk": [pool["oct-32"], pool[k2]], "all": True})])
                if not all(v.get("r") for v in vs):
                    ctx.pfails.append(("cli:jws-sig:second", "%s: the result does not verify under (first key, second key, both): %s :: %s" % (
                        x["_why"], [bool(v.get("r")) for v in vs], js(out)[:300]), "cli.run", strip(x), rr))

    def p2(a, real):
        if real.get("status") != 0:
            return ("cli:jws-sig:not-accepted", "a token produced by jose jws sig is refused by jose jws ver (%s): %s" % (a["_why"], js(a["argv"])[:300]))
        if "_pay" in a and real.get("stdout") != hx(a["_pay"]):
            return ("cli:jws-sig:payload", "payload recovered from the produced token differs (%s)" % a["_why"])
        return None
    cmp(ctx, second, p2)
    ctx.count("jws-sig", len(ops))
    # fmt: every produced token through the other serializations
    fm = []
    for o, a in [x for x in second if not x[1].get("_nofmt")][:: (3 if ctx.tier == "quick" else 1)]:
        text = a["argv"][3]
        tok = tok_of_text(text)
        if tok is None:
            continue
        nsig = len(tok.get("signatures", [])) if "signatures" in tok else 1
        keys = [x for x in a["argv"] if x.endswith(".jwk")]
        for c in (False, True):
            fm.append(("cli.run", {"argv": ["jws", "fmt", "-i", text] + (["-c"] if c else []) + (["-I", "p.bin"] if "-I" in a["argv"] else []),
                                   "files": a["files"], "_compact": c, "_nsig": nsig, "_tok": tok, "_keys": keys, "_ver": a, "_why": "fmt %s of %s" % ("-c" if c else "json", text[:80])}))
    rf, _ = cmp(ctx, fm, lambda a, real: None)
    third = []
    for (o, a), r in zip(fm, rf):
        if "crash" in r:
            continue
        ok = r.get("status") == 0
        unprot = any("header" in s for s in (a["_tok"].get("signatures") or [a["_tok"]]) if isinstance(s, dict))
        if a["_compact"] and a["_nsig"] > 1 and ok:
            ctx.pfails.append(("cli:jws-fmt:compact-many", "compact output of %d signatures succeeded" % a["_nsig"], "cli.run", strip(a), r))
        if not ok:
            if not a["_compact"] or (a["_nsig"] == 1 and not unprot):
                ctx.pfails.append(("cli:jws-fmt:refused", "conversion refused (%s)" % a["_why"], "cli.run", strip(a), r))
            continue
        if unprot and a["_compact"]:
            continue          # unprotected parameters are lost in compact form: outside the property's premise
        text = parse_out(r, None).strip()
        va = a["_ver"]
        rest = list(va["argv"][4:])
        if "-I" in rest:        # fmt has put the payload back into the object
            i = rest.index("-I")
            del rest[i:i + 2]
        argv = ["jws", "ver", "-i", text] + rest
        third.append(("cli.run", {"argv": argv, "files": va["files"], "_why": a["_why"]}))
    cmp(ctx, third, lambda a, real: None if real.get("status") == 0 else ("cli:jws-fmt:not-verifiable", "after %s the token no longer verifies: %s" % (a["_why"], js(a["argv"])[:300])))
    ctx.count("jws-fmt", len(fm))


# ---------------------------------------------------------------- jwe dec / enc / fmt

def run_jwe(ctx):
    rng = ctx.rng
    pool = K.pool(ctx.jose)
    pt = b"secret \x00\xfe\xff. plaintext\n" * 3
    mk = []
    for wrap in (E.WRAPS if ctx.tier != "quick" else ["dir", "A128KW", "A256GCMKW", "ECDH-ES", "ECDH-ES+A192KW", "RSA-OAEP", "RSA1_5", "PBES2-HS256+A128KW"]):
        enc = rng.choice(E.ENCS)
        key = E.key_for(pool, wrap, enc, rng)
        for zip_ in (False, True):
            prot = {"alg": wrap, "enc": enc}
            if zip_:
                prot["zip"] = "DEF"
            if wrap.startswith("PBES2"):
                prot["p2c"] = 1000
            mk.append(("jwe.enc", {"jwe": {"protected": prot}, "jwk": key, "pt": pt.hex(), "rand": rng.randbytes(300).hex(), "_key": key}))
    mk.append(("jwe.enc", {"jwe": {"protected": {"enc": "A128GCM"}}, "rcp": {}, "jwk": [pool["oct-16"], pool["EC-P256"]], "pt": pt.hex(), "rand": rng.randbytes(400).hex(),
                           "_key": pool["EC-P256"]}))
    real = ctx.real([(o, strip(a)) for o, a in mk])
    ops = []
    unusable = dict(pool["oct-16"], use="sig")
    for (o, a), r in zip(mk, real):
        if not r.get("ok"):
            ctx.pfails.append(("cli:setup", "library refused to encrypt", o, {}, r))
            continue
        tok, key = r["jwe"], a["_key"]
        if isinstance(key, str):
            key_json = js(key)
        else:
            key_json = js(key)
        single = "recipients" not in tok
        allprot = single and "header" not in tok and "unprotected" not in tok and "aad" not in tok
        bad = copy.deepcopy(tok)
        bad["tag"] = ("A" if bad["tag"][0] != "A" else "B") + bad["tag"][1:]
        for vlabel, t in (("genuine", tok), ("tampered", bad)):
            forms = input_forms(js(t), jwe_compact(t) if allprot else None, rng)
            if ctx.tier == "quick":
                forms = rng.sample(forms, min(3, len(forms)))
            for flabel, iargv, files, stdin in forms:
                for klabel, ks in (("own", [key]), ("wrong", [pool["oct-48"]]), ("wrong+own", [pool["oct-48"], key]), ("unusable", [unusable]), ("set", [{"keys": [pool["oct-64"], key]}])):
                    for out in (None, "pt.bin"):
                        fs = dict(files)
                        argv = ["jwe", "dec"] + iargv
                        flat = []
                        for i, k in enumerate(ks):
                            fs["k%d.jwk" % i] = hx(js(k))
                            argv += ["-k", "k%d.jwk" % i]
                            flat += k["keys"] if isinstance(k, dict) and "keys" in k else [k]
                        if out:
                            argv += ["-O", out]
                        x = {"argv": argv, "files": fs, "_tok": t, "_keys": flat, "_out": out, "_pt": pt, "_why": "%s JWE, %s, keys %s, -O %s" % (vlabel, flabel, klabel, out)}
                        if stdin is not None:
                            x["stdin"] = stdin
                        ops.append(("cli.run", x))
        if single:
            # detached ciphertext: every spelling of the token (JSON / compact with an empty ciphertext field; inline,
            # file, stdin), the ciphertext bytes from a file; genuine and altered ciphertext; with and without -O
            det = {k: v for k, v in tok.items() if k != "ciphertext"}
            ctb = G.b64d(tok["ciphertext"])
            for flabel, iargv, files, stdin in input_forms(js(det), jwe_compact(det) if allprot else None, rng):
                for clabel, cb in (("genuine", ctb), ("altered", ctb[:-1] + bytes([ctb[-1] ^ 1]) if ctb else b"x")):
                    for out in (None, "pt.bin"):
                        if ctx.tier == "quick" and clabel == "altered" and out:
                            continue
                        fs = dict(files, **{"k0.jwk": hx(key_json), "ct.bin": cb.hex()})
                        x = {"argv": ["jwe", "dec"] + iargv + ["-I", "ct.bin", "-k", "k0.jwk"] + (["-O", out] if out else []), "files": fs,
                             "_tok": dict(det, ciphertext=G.b64u(cb)), "_keys": [key], "_out": out, "_pt": pt,
                             "_why": "detached ciphertext (%s), token %s, -O %s" % (clabel, flabel, out)}
                        if stdin is not None:
                            x["stdin"] = stdin
                        ops.append(("cli.run", x))
    lib_ops = [("jwe.dec", {"jwe": a["_tok"], "jwk": a["_keys"], "rand": "00" * 600}) for o, a in ops]
    for (o, a), v in zip(ops, ctx.real(lib_ops)):
        a["_lib"] = v
    def p(a, real):
        ok = real.get("status") == 0
        lib_ok = bool(a["_lib"].get("ok"))
        if ok != lib_ok:
            return ("cli:jwe-dec:status", "jose jwe dec exits %s, the library's decryption of the same JWE with the same keys %s (%s): %s"
                    % (real.get("status"), "succeeds" if lib_ok else "fails", a["_why"], js(a["argv"])[:300]))
        if ok:
            got = real["files"].get(a["_out"]) if a["_out"] else real["stdout"]
            if got != a["_lib"].get("pt"):
                return ("cli:jwe-dec:plaintext", "plaintext written differs from the library's (%s)" % a["_why"])
        return None
    cmp(ctx, ops, p)
    ctx.count("jwe-dec", len(ops))
    # jwe enc through the tool (implementation and oracle only), then dec, then fmt
    encs = []
    for wrap in ("dir", "A128KW", "ECDH-ES", "RSA-OAEP", "A128GCMKW"):
        for enc in (rng.choice(E.ENCS[:3]), rng.choice(E.ENCS[3:])):
            key = E.key_for(pool, wrap, enc, rng)
            for zip_ in (False, True):
                for compact in (False, True):
                    for detach in (None, "ct.bin"):
                        prot = {"alg": wrap, "enc": enc}
                        if zip_:
                            prot["zip"] = "DEF"
                        fs = {"pt.bin": hx(pt), "k0.jwk": hx(js(key))}
                        argv = ["jwe", "enc", "-i", js({"protected": prot}), "-I", "pt.bin", "-k", "k0.jwk"] + (["-c"] if compact else []) + (["-O", detach] if detach else [])
                        encs.append(("cli.run", {"argv": argv, "files": fs, "rand": rng.randbytes(300).hex(), "_key": key, "_detach": detach,
                                                 "_random": wrap in E.RANDOMIZED or zip_, "_why": "%s/%s zip=%s compact=%s -O %s" % (wrap, enc, zip_, compact, detach)}))
    # additional authenticated data in the template: the JSON forms carry it; the compact form has no place for it, so
    # asking for compact output must fail rather than print a token that cannot be decrypted
    for wrap, enc in (("A128KW", "A128GCM"), ("dir", "A128CBC-HS256"), ("ECDH-ES", "A256GCM")):
        key = E.key_for(pool, wrap, enc, rng)
        for aad in ("QUFE", ""):
            for compact in (False, True):
                for detach in (None, "ct.bin"):
                    fs = {"pt.bin": hx(pt), "k0.jwk": hx(js(key))}
                    argv = ["jwe", "enc", "-i", js({"protected": {"alg": wrap, "enc": enc}, "aad": aad}), "-I", "pt.bin", "-k", "k0.jwk"] + (["-c"] if compact else []) + (["-O", detach] if detach else [])
                    encs.append(("cli.run", {"argv": argv, "files": fs, "rand": rng.randbytes(300).hex(), "_key": key, "_detach": detach, "_may_refuse": compact,
                                             "_random": wrap in E.RANDOMIZED, "_why": "%s/%s aad=%r compact=%s -O %s" % (wrap, enc, aad, compact, detach)}))
    encs.append(("cli.run", {"argv": ["jwe", "enc", "-i", js({"protected": {"enc": "A128GCM"}}), "-I", "pt.bin", "-k", "k0.jwk", "-k", "k1.jwk", "-c"],
                             "files": {"pt.bin": hx(pt), "k0.jwk": hx(js(pool["oct-16"])), "k1.jwk": hx(js(pool["oct-32"]))}, "_key": pool["oct-16"], "_detach": None,
                             "_must_fail": True, "_why": "compact with two recipients"}))
    # more shapes of the command line: templates in -i / -r, several keys, header placement, missing pieces
    for argv, fs, rnd_ in (
            (["jwe", "enc", "-I", "pt.bin", "-k", "k0.jwk"], {"pt.bin": hx(pt), "k0.jwk": hx(js(pool["oct-16"]))}, False),
            (["jwe", "enc", "-I", "pt.bin", "-k", "k0.jwk", "-k", "k1.jwk"], {"pt.bin": hx(pt), "k0.jwk": hx(js(pool["oct-16"])), "k1.jwk": hx(js(pool["oct-32"]))}, False),
            (["jwe", "enc", "-I", "pt.bin", "-k", "k0.jwk", "-k", "k1.jwk", "-r", js({"header": {"kid": "a"}}), "-r", js({"header": {"kid": "b"}})],
             {"pt.bin": hx(pt), "k0.jwk": hx(js(pool["oct-16"])), "k1.jwk": hx(js(pool["oct-24"]))}, False),
            (["jwe", "enc", "-I", "pt.bin", "-k", "k0.jwk", "-r", "{}", "-r", "{}"], {"pt.bin": hx(pt), "k0.jwk": hx(js(pool["oct-16"]))}, False),
            (["jwe", "enc", "-i", js({"unprotected": {"alg": "A128KW"}, "protected": {"enc": "A128GCM"}}), "-I", "pt.bin", "-k", "k0.jwk", "-c"],
             {"pt.bin": hx(pt), "k0.jwk": hx(js(pool["oct-16"]))}, False),
            (["jwe", "enc", "-i", js({"protected": {"enc": "A128GCM"}}), "-r", js({"header": {"alg": "A128GCMKW"}}), "-I", "pt.bin", "-k", "k0.jwk", "-c"],
             {"pt.bin": hx(pt), "k0.jwk": hx(js(pool["oct-16"]))}, False),
            (["jwe", "enc", "-I", "pt.bin", "-k", "set.jwk"], {"pt.bin": hx(pt), "set.jwk": hx(js({"keys": [pool["oct-16"], pool["oct-32"]]}))}, False),
            (["jwe", "enc", "-k", "k0.jwk"], {"k0.jwk": hx(js(pool["oct-16"]))}, False),
            (["jwe", "enc", "-I", "pt.bin"], {"pt.bin": hx(pt)}, False),
            (["jwe", "enc", "-I", "nofile", "-k", "k0.jwk"], {"k0.jwk": hx(js(pool["oct-16"]))}, False),
            (["jwe", "enc", "-I", "pt.bin", "-k", "k0.jwk"], {"pt.bin": hx(pt), "k0.jwk": hx(js(dict(pool["oct-16"], use="sig")))}, False),
            (["jwe", "enc", "-i", js({"protected": {"alg": "nope"}}), "-I", "pt.bin", "-k", "k0.jwk"], {"pt.bin": hx(pt), "k0.jwk": hx(js(pool["oct-16"]))}, False),
            (["jwe", "enc", "-i", "5", "-I", "pt.bin", "-k", "k0.jwk"], {"pt.bin": hx(pt), "k0.jwk": hx(js(pool["oct-16"]))}, False),
            (["jwe", "enc", "-I", "pt.bin", "-k", "k0.jwk", "-o", "out.jwe", "-O", "ct.bin"], {"pt.bin": hx(pt), "k0.jwk": hx(js(pool["oct-32"]))}, False)):
        encs.append(("cli.run", {"argv": argv, "files": fs, "rand": rng.randbytes(300).hex(), "_key": None, "_detach": None, "_random": rnd_, "_shape": True, "_why": " ".join(argv)[:120]}))
    # correspondence with the model of the tool (exact output where the random tape decides every byte)
    cmp(ctx, [x for x in encs], lambda a, real: None)
    sent = [(o, strip(a)) for o, a in encs if not a.get("_shape")]
    encs = [(o, a) for o, a in encs if not a.get("_shape")]
    re_ = ctx.real(sent)
    decs = []
    for (o, a), r in zip(encs, re_):
        ctx.evaluations += 1
        if "crash" in r:
            ctx.pfails.append(("crash:cli.run", r["crash"], o, strip(a), r))
            continue
        if a.get("_must_fail"):
            if r.get("status") == 0:
                ctx.pfails.append(("cli:jwe-enc:compact-many", "compact output with two recipients succeeded", o, strip(a), r))
            continue
        if r.get("status") != 0:
            if not a.get("_may_refuse"):
                ctx.pfails.append(("cli:jwe-enc:status", "jose jwe enc failed for a valid combination (%s)" % a["_why"], o, strip(a), r))
            continue
        text = parse_out(r, None).strip()
        fs = {"k0.jwk": hx(js(a["_key"]))}
        argv = ["jwe", "dec", "-i", text, "-k", "k0.jwk"]
        if a["_detach"]:
            fs["ct.bin"] = r["files"].get(a["_detach"], "")
            argv += ["-I", "ct.bin"]
        decs.append(("cli.run", {"argv": argv, "files": fs, "_why": a["_why"]}))
        decs.append(("cli.run", {"argv": ["jwe", "dec", "-i", "tok.txt"] + argv[4:], "files": dict(fs, **{"tok.txt": hx(text)}), "_why": a["_why"] + ", token from a file"}))
        decs.append(("cli.run", {"argv": ["jwe", "dec", "-i", "-"] + argv[4:], "files": fs, "stdin": hx(text), "_why": a["_why"] + ", token on stdin"}))
        # and through fmt into the other serialization
        tokj = json.loads(text) if text.startswith("{") else None
        if not a["_detach"] and not (tokj is not None and ("header" in tokj or "unprotected" in tokj or "recipients" in tokj)):
            decs.append(("cli.run", {"argv": ["jwe", "fmt", "-i", text] + ([] if "." in text and not text.startswith("{") else ["-c"]), "files": {}, "_fmt": True, "_key": a["_key"], "_why": a["_why"],
                                     "_may_refuse": tokj is not None and "aad" in tokj}))
    sent = [(o, strip(a)) for o, a in decs]
    rd = ctx.real(sent)
    more = []
    for (o, a), r in zip(decs, rd):
        ctx.evaluations += 1
        if "crash" in r:
            ctx.pfails.append(("crash:cli.run", r["crash"], o, strip(a), r))
        elif a.get("_fmt"):
            if r.get("status") != 0:
                if not a.get("_may_refuse"):
                    ctx.pfails.append(("cli:jwe-fmt:refused", "conversion refused (%s)" % a["_why"], o, strip(a), r))
            else:
                more.append(("cli.run", {"argv": ["jwe", "dec", "-i", parse_out(r, None).strip(), "-k", "k0.jwk"], "files": {"k0.jwk": hx(js(a["_key"]))}, "_why": "after fmt: " + a["_why"]}))
        elif r.get("status") != 0 or r.get("stdout") != hx(pt):
            ctx.pfails.append(("cli:jwe-enc:not-accepted", "a JWE produced by jose jwe enc does not decrypt to the plaintext with jose jwe dec (%s)" % a["_why"], o, strip(a), r))
    # jwe fmt -c of general-form objects: one recipient converts (and still decrypts), more than one is refused
    gen_ops = []
    for n in (1, 2, 3):
        ks = [pool["oct-16"], pool["oct-32"], pool["oct-24"]][:n]
        gen_ops.append(("jwe.enc", {"jwe": {"protected": {"enc": "A128GCM", "alg": "A128KW" if n == 1 else None}} if False else
                                    {"protected": dict({"enc": "A128GCM"}, **({"alg": "A128KW"} if n == 1 else {}))},
                                    "rcp": {} if n > 1 else None, "jwk": ks if n > 1 else ks[0], "pt": pt.hex(), "rand": rng.randbytes(400).hex()}))
    gen_ops = [(o, {k: v for k, v in a.items() if v is not None}) for o, a in gen_ops]
    for (o, a), r in zip(gen_ops, ctx.real(gen_ops)):
        if not r.get("ok"):
            ctx.pfails.append(("cli:setup", "library refused to encrypt", o, a, r))
            continue
        tok = r["jwe"]
        n = len(a["jwk"]) if isinstance(a["jwk"], list) else 1
        forms = [tok]
        if n == 1:      # the same single recipient spelled in general form
            g = {k: v for k, v in tok.items() if k not in ("encrypted_key", "header")}
            g["recipients"] = [{k: tok[k] for k in ("encrypted_key", "header") if k in tok}]
            forms.append(g)
        for t in forms:
            rr = ctx.real([("cli.run", {"argv": ["jwe", "fmt", "-i", js(t), "-c"], "files": {}})])[0]
            ctx.evaluations += 1
            if n > 1 and rr.get("status") == 0:
                ctx.pfails.append(("cli:jwe-fmt:compact-many", "jose jwe fmt -c of a JWE with %d recipients exits 0 and prints %r" % (
                    n, bytes.fromhex(rr.get("stdout") or "").decode("utf-8", "replace")[:120]), "cli.run", {"argv": ["jwe", "fmt", "-i", js(t), "-c"], "files": {}}, rr))
            elif n == 1 and rr.get("status") != 0:
                ctx.pfails.append(("cli:jwe-fmt:refused", "compact conversion of a single-recipient JWE refused (%s form)" % ("general" if "recipients" in t else "flattened"),
                                   "cli.run", {"argv": ["jwe", "fmt", "-i", js(t), "-c"], "files": {}}, rr))
            elif n == 1:
                more.append(("cli.run", {"argv": ["jwe", "dec", "-i", parse_out(rr, None).strip(), "-k", "k0.jwk"], "files": {"k0.jwk": hx(js(a["jwk"]))},
                                         "_why": "after fmt -c of a %s single-recipient JWE" % ("general" if "recipients" in t else "flattened")}))
    # every `jwe fmt` command line used above also goes through the model of the tool (correspondence), together with
    # more spellings: token inline / file / stdin, JSON and compact, -I detached ciphertext, -O, -o
    fmt_lines = [(o, a) for o, a in decs if a.get("_fmt")]
    for (o, a), r in zip(gen_ops, ctx.real(gen_ops)):
        if r.get("ok"):
            tok = r["jwe"]
            ctb = G.b64d(tok["ciphertext"])
            det = {k: v for k, v in tok.items() if k != "ciphertext"}
            single = "recipients" not in tok
            for flabel, iargv, files, stdin in input_forms(js(tok), jwe_compact(tok) if single and "header" not in tok else None, rng):
                for extra in ([], ["-c"], ["-o", "out.txt"], ["-c", "-O", "ct.bin"], ["-O", "ct.bin"]):
                    x = {"argv": ["jwe", "fmt"] + iargv + extra, "files": dict(files), "_why": "jwe fmt %s %s" % (flabel, extra)}
                    if stdin is not None:
                        x["stdin"] = stdin
                    fmt_lines.append(("cli.run", x))
            for flabel, iargv, files, stdin in input_forms(js(det), jwe_compact(det) if single and "header" not in tok else None, rng):
                for extra in ([], ["-c"]):
                    x = {"argv": ["jwe", "fmt"] + iargv + ["-I", "ct.bin"] + extra, "files": dict(files, **{"ct.bin": ctb.hex()}), "_why": "jwe fmt detached %s %s" % (flabel, extra)}
                    if stdin is not None:
                        x["stdin"] = stdin
                    fmt_lines.append(("cli.run", x))
    for bad in ({"ciphertext": 5, "tag": "AA"}, {"ciphertext": "AA"}, {"ciphertext": "AA", "tag": 5}, {"ciphertext": "AA", "tag": "AA", "iv": 5},
                {"ciphertext": "AA", "tag": "AA", "recipients": 5}, {"ciphertext": "AA", "tag": "AA", "recipients": [5]}, {"ciphertext": "AA", "recipients": [{"tag": "BB"}]},
                {"ciphertext": "A", "tag": "AA"}, {"ciphertext": "AA", "tag": "AA", "recipients": [{"encrypted_key": 5}]}, {"tag": "AA"}):
        for extra in ([], ["-c"]):
            fmt_lines.append(("cli.run", {"argv": ["jwe", "fmt", "-i", js(bad)] + extra, "files": {}, "_why": "malformed input to jwe fmt"}))
    cmp(ctx, fmt_lines, lambda a, real: None)
    ctx.count("jwe-fmt-lines", len(fmt_lines))
    for (o, a), r in zip(more, ctx.real([(o, strip(a)) for o, a in more])):
        ctx.evaluations += 1
        if r.get("status") != 0 or r.get("stdout") != hx(pt):
            ctx.pfails.append(("cli:jwe-fmt:not-decryptable", "after jwe fmt the token no longer decrypts (%s)" % a["_why"], o, strip(a), r))
    ctx.count("jwe-enc", len(encs))


# ---------------------------------------------------------------- jwk *, b64

def run_jwk(ctx):
    rng = ctx.rng
    pool = K.pool(ctx.jose)
    good = [pool[n] for n in ("oct-32", "EC-P256", "EC-P521", "RSA-2048")]
    broken = [{"kty": "EC", "crv": "P-256", "x": "AAAA"}, {"kty": "nope", "k": "AA"}, {"k": "AAAA"}, {"kty": "RSA", "n": "AAAA"}, {"kty": "oct"}]
    ops = []
    def add(argv, files, **kw):
        ops.append(("cli.run", dict(argv=argv, files=files, **kw)))
    # thp
    for ks in [[k] for k in good + broken] + [[good[0], good[1]], [good[1], broken[0]], [{"keys": good[:3]}], [{"keys": [good[0], broken[1]]}]]:
        for alg in (None, "S1", "S512", "nope", "HS256"):
            for out in (None, "t.txt"):
                fs = {"k%d.jwk" % i: hx(js(k)) for i, k in enumerate(ks)}
                argv = ["jwk", "thp"] + sum((["-i", "k%d.jwk" % i] for i in range(len(ks))), []) + (["-a", alg] if alg else []) + (["-o", out] if out else [])
                flat = sum(([k] if "keys" not in k else k["keys"] for k in ks), [])
                add(argv, fs, _kind="thp", _keys=flat, _alg=alg or "S256", _out=out, _why="thumbprint of %d key(s) with %s" % (len(flat), alg))
    # find
    add(["jwk", "thp", "-i", "k.jwk", "-f", "x" * 43], {"k.jwk": hx(js({"keys": good}))}, _kind="find", _why="no key has that thumbprint")
    # find with a match: in a set, among several -i, with another hash, behind an unusable key
    import hashlib
    def thp_of(k, h):
        req = {"oct": ["k", "kty"], "RSA": ["e", "kty", "n"], "EC": ["crv", "kty", "x", "y"]}[k["kty"]]
        return G.b64u(h(json.dumps({m: k[m] for m in req}, separators=(",", ":"), sort_keys=True).encode()).digest())
    for i_, k in enumerate(good):
        add(["jwk", "thp", "-i", "k.jwk", "-f", thp_of(k, hashlib.sha256)], {"k.jwk": hx(js({"keys": good}))}, _kind="findm", _match=k, _why="find key %d of a set" % i_)
        add(["jwk", "thp", "-i", "k.jwk", "-a", "S1", "-f", thp_of(k, hashlib.sha1)], {"k.jwk": hx(js({"keys": good}))}, _kind="findm", _match=k, _why="find key %d of a set by S1" % i_)
        add(["jwk", "thp", "-i", "k.jwk", "-f", thp_of(k, hashlib.sha1)], {"k.jwk": hx(js({"keys": good}))}, _kind="findm", _match=None, _why="S1 thumbprint searched under S256")
        add(["jwk", "thp", "-i", "a.jwk", "-i", "b.jwk", "-f", thp_of(k, hashlib.sha256)], {"a.jwk": hx(js(good[(i_ + 1) % 4])), "b.jwk": hx(js(k))}, _kind="findm", _match=k, _why="find among two -i")
    add(["jwk", "thp", "-i", "k.jwk", "-f", thp_of(good[1], hashlib.sha256)], {"k.jwk": hx(js({"keys": [broken[0], good[1]]}))}, _kind="findm", _match=None, _why="an unusable key before the match")
    add(["jwk", "thp", "-i", "k.jwk", "-f", thp_of(good[1], hashlib.sha256)[:-1]], {"k.jwk": hx(js({"keys": good}))}, _kind="findm", _match=None, _why="a prefix of a thumbprint")
    # eql with three keys: all must be equal
    for trip in ([good[0]] * 3, [good[0], good[0], good[1]], [good[1], K.public(good[1]), good[1]], [good[0], good[1], good[0]]):
        add(["jwk", "eql"] + sum((["-i", "k%d.jwk" % i] for i in range(3)), []), {"k%d.jwk" % i: hx(js(k)) for i, k in enumerate(trip)}, _kind="eqln", _keys=trip, _why="eql of three")
    # exc with a template whose members collide with the result: the exchanged key's members win
    add(["jwk", "exc", "-l", "l.jwk", "-r", "r.jwk", "-i", js({"kty": "oct", "x": "AAAA", "crv": "P-384", "kid": "t"})],
        {"l.jwk": hx(js(pool["EC-P256"])), "r.jwk": hx(js(K.public(pool["EC-P256-b"])))}, _kind="exc", _l=pool["EC-P256"], _r=K.public(pool["EC-P256-b"]),
        _tmpl={"kty": "oct", "x": "AAAA", "crv": "P-384", "kid": "t"}, _why="exchange with a colliding template")
    # gen with two valid templates: a set of two keys, each as asked for
    add(["jwk", "gen", "-i", js({"alg": "HS256"}), "-i", js({"alg": "ES256"})], {}, _kind="genn", _ts=[{"alg": "HS256"}, {"alg": "ES256"}], _random=True, _why="two templates")
    add(["jwk", "gen", "-i", js({"keys": [{"alg": "HS512"}, {"kty": "oct", "bytes": 16}]})], {}, _kind="genn", _ts=[{"alg": "HS512"}, {"kty": "oct", "bytes": 16}], _random=True, _why="a set of templates")
    # pub
    for ks in [[k] for k in good + broken[:3]] + [good[:2], [{"keys": good}], [good[0], {"kty": "oct", "k": 5}], [5]]:
        for set_ in (False, True):
            fs = {"k%d.jwk" % i: hx(js(k)) for i, k in enumerate(ks)}
            argv = ["jwk", "pub"] + sum((["-i", "k%d.jwk" % i] for i in range(len(ks))), []) + (["-s"] if set_ else [])
            add(argv, fs, _kind="pub", _keys=ks, _set=set_, _why="public export of %s" % js(ks)[:80])
    # eql
    for a_, b_ in itertools.product(good[:3] + broken[:2], repeat=2):
        add(["jwk", "eql", "-i", "a.jwk", "-i", "b.jwk"], {"a.jwk": hx(js(a_)), "b.jwk": hx(js(b_))}, _kind="eql", _a=a_, _b=b_, _why="eql")
    add(["jwk", "eql", "-i", "a.jwk"], {"a.jwk": hx(js(good[0]))}, _kind="eql1", _why="one key only")
    # exc
    ecs = [pool[n] for n in ("EC-P256", "EC-P256-b", "EC-P384")]
    for l, r in itertools.product(ecs + [good[0], broken[0]], repeat=2):
        for tmpl in (None, {"kid": "t"}):
            fs = {"l.jwk": hx(js(l)), "r.jwk": hx(js(K.public(r) if r.get("kty") in ("EC",) and "d" in r else r))}
            argv = ["jwk", "exc", "-l", "l.jwk", "-r", "r.jwk"] + (["-i", js(tmpl)] if tmpl else [])
            add(argv, fs, _kind="exc", _l=l, _r=K.public(r) if r.get("kty") in ("EC",) and "d" in r else r, _tmpl=tmpl, _why="exchange")
    # gen
    for t in ({"alg": "HS256"}, {"kty": "oct", "bytes": 16}, {"alg": "ES256"}, {"kty": "EC", "crv": "P-999"}, {"alg": "HS256", "kty": "EC"}, {"kty": "oct"}, {"kty": "RSA", "bits": 1024}, {}):
        for set_ in (False, True):
            add(["jwk", "gen", "-i", js(t)] + (["-s"] if set_ else []), {}, _kind="gen", _t=t, _set=set_, _random=True, _why="generate %s" % js(t))
    add(["jwk", "gen", "-i", js({"alg": "HS256"}), "-i", js({"kty": "nope"})], {}, _kind="gen2", _random=True, _why="second template invalid")
    # use
    for k in [good[0], dict(good[0], use="sig"), dict(good[1], key_ops=["verify"]), dict(good[0], use="enc", key_ops=["sign"])]:
        for uses in (["sign"], ["sign", "verify"], ["encrypt"], ["nope"]):
            for flags in ([], ["-a"], ["-r"], ["-a", "-r"]):
                for out in (None, "u.jwk"):
                    argv = ["jwk", "use", "-i", "k.jwk"] + sum((["-u", u] for u in uses), []) + flags + (["-o", out] if out else [])
                    add(argv, {"k.jwk": hx(js(k))}, _kind="use", _k=k, _uses=uses, _all="-a" in flags, _req="-r" in flags, _out=out, _why="use %s %s" % (uses, flags))
    # b64
    for data in (b"", b"a", b"ab", b"abc", bytes(range(256)), rng.randbytes(1000)):
        add(["b64", "enc", "-I", "d.bin"], {"d.bin": hx(data)}, _kind="b64enc", _data=data, _why="encode %d bytes" % len(data))
        txt = G.b64u(data)
        for t, valid in (("Zh", False), ("Zm9vY", False), ("Zm9v=", False), ("Zm9v Zh", False)) if data == b"a" else ():
            add(["b64", "dec", "-i", "t.txt"], {"t.txt": hx(t)}, _kind="b64dec", _data=data, _text=t, _valid=valid, _why="decode %r" % t[:30])
        for t, valid in ((txt, True), (txt + "\n", True), (" " + txt[:3] + " \n" + txt[3:], True), (txt + "=", len(txt) % 4 == 0 and False), (txt + "A" if len(txt) % 4 == 0 else txt[:-1] + "*", False)):
            add(["b64", "dec", "-i", "t.txt"], {"t.txt": hx(t)}, _kind="b64dec", _data=data, _text=t, _valid=valid, _why="decode %r" % t[:30])
    # library oracles
    lib = []
    for o, a in ops:
        k = a["_kind"]
        if k == "thp":
            lib.append([("jwk.thp", {"jwk": x, "alg": a["_alg"]}) for x in a["_keys"]])
        elif k == "pub":
            lib.append([("jwk.pub", {"jwk": x}) for x in a["_keys"]])
        elif k == "eql":
            lib.append([("jwk.eql", {"a": a["_a"], "b": a["_b"]})])
        elif k == "exc":
            lib.append([("jwk.exc", {"prv": a["_l"], "pub": a["_r"]})])
        elif k == "use":
            lib.append([("jwk.prm", {"jwk": a["_k"], "op": u, "req": a["_req"]}) for u in a["_uses"]])
        else:
            lib.append([])
    flat = [x for l in lib for x in l]
    fr = ctx.real(flat)
    it = iter(fr)
    for (o, a), l in zip(ops, lib):
        a["_lib"] = [next(it) for _ in l]
    def p(a, real):
        k, ok = a["_kind"], real.get("status") == 0
        out = bytes.fromhex(real.get("stdout") or "").decode("utf-8", "replace")
        if k == "thp":
            texts = [x.get("v") for x in a["_lib"]]
            lib_ok = all(t is not None for t in texts) and len(texts) > 0
            if ok != lib_ok:
                return ("cli:jwk-thp:status", "jose jwk thp exits %s, jose_jwk_thp %s for these keys (%s)" % (real.get("status"), "succeeds" if lib_ok else "fails", a["_why"]))
            got = out if not a["_out"] else bytes.fromhex(real["files"].get(a["_out"], "")).decode()
            if ok:
                exp = "".join(t + "\n" for t in texts) if len(texts) > 1 else texts[0]
                if got != exp:
                    return ("cli:jwk-thp:output", "thumbprint printed %r, the library's is %r (%s)" % (got[:80], exp[:80], a["_why"]))
            elif len(got.strip()) >= 20 and not any(t and t in got for t in texts if t):
                return ("cli:jwk-thp:prints-on-failure", "something like a thumbprint was printed although the command failed: %r" % got[:80])
        elif k == "pub":
            lib_ok = all(x.get("ok") for x in a["_lib"])
            if ok != lib_ok:
                return ("cli:jwk-pub:status", "jose jwk pub exits %s, jose_jwk_pub %s (%s)" % (real.get("status"), "succeeds" if lib_ok else "fails", a["_why"]))
            if ok:
                flat = []
                for x in a["_lib"]:
                    j = x["jwk"]
                    flat += j["keys"] if isinstance(j, dict) and "keys" in j and isinstance(j["keys"], list) else [j]
                exp = flat[0] if len(flat) == 1 and not a["_set"] else {"keys": flat}
                try:
                    if json.loads(out) != exp:
                        return ("cli:jwk-pub:output", "exported key differs from the library's (%s)" % a["_why"])
                except Exception:
                    return ("cli:jwk-pub:output", "output is not JSON (%s)" % a["_why"])
            elif '"d"' in out or '"k"' in out:
                return ("cli:jwk-pub:prints-on-failure", "key material printed although the export failed")
        elif k == "eql":
            if ok != bool(a["_lib"][0].get("r")):
                return ("cli:jwk-eql:status", "jose jwk eql exits %s, jose_jwk_eql says %s" % (real.get("status"), a["_lib"][0].get("r")))
        elif k == "eql1" and ok:
            return ("cli:jwk-eql:status", "a single key compares equal")
        elif k == "eqln":
            ks_ = a["_keys"]
            pub_ = lambda x: {m: v for m, v in x.items() if m in ("kty", "k", "crv", "x", "y", "n", "e")}
            want = all(pub_(ks_[0]) == pub_(y) for y in ks_[1:])
            if ok != want:
                return ("cli:jwk-eql:status", "jose jwk eql of three keys exits %s, the keys are %s equal (%s)" % (real.get("status"), "all" if want else "not all", a["_why"]))
        elif k == "findm":
            if a["_match"] is None:
                if ok or out.strip():
                    return ("cli:jwk-thp:find", "a key was found although none has that thumbprint (%s): %r" % (a["_why"], out[:60]))
            else:
                try:
                    got_ = json.loads(out)
                except Exception:
                    got_ = None
                if not ok or got_ != a["_match"]:
                    return ("cli:jwk-thp:find", "status %s, printed %r instead of the key with that thumbprint (%s)" % (real.get("status"), out[:80], a["_why"]))
        elif k == "genn":
            from props import c11
            try:
                ks_ = json.loads(out)["keys"] if ok else None
            except Exception:
                ks_ = None
            if not ok or not isinstance(ks_, list) or len(ks_) != len(a["_ts"]):
                return ("cli:jwk-gen:status", "jose jwk gen with %d templates: status %s, output %r" % (len(a["_ts"]), real.get("status"), out[:80]))
            for t_, j_ in zip(a["_ts"], ks_):
                err = c11.check_key(t_, j_, c11.expected(ctx, t_)[1])
                if err:
                    return ("cli:jwk-gen:output", err)
        elif k == "exc":
            v = a["_lib"][0].get("v")
            if ok != (v is not None):
                return ("cli:jwk-exc:status", "jose jwk exc exits %s, jose_jwk_exc %s" % (real.get("status"), "succeeds" if v else "fails"))
            if ok and json.loads(out) != dict(a["_tmpl"] or {}, **v):
                return ("cli:jwk-exc:output", "exchanged key differs from the library's")
            if not ok and '"x"' in out:
                return ("cli:jwk-exc:prints-on-failure", "a key was printed although the exchange failed")
        elif k == "use":
            grants = [bool(x.get("r")) for x in a["_lib"]]
            st = all(grants) if a["_all"] else any(grants)
            if ok != st:
                return ("cli:jwk-use:status", "jose jwk use exits %s, jose_jwk_prm gives %s (%s)" % (real.get("status"), grants, a["_why"]))
        elif k in ("gen", "gen2"):
            from props import c11
            if k == "gen2":
                if ok or out.strip():
                    return ("cli:jwk-gen:status", "second template invalid, yet status %s / output %r" % (real.get("status"), out[:60]))
                return None
            ex = c11.expected(ctx, a["_t"])
            if ex[0] == "reject" and ok:
                return ("cli:jwk-gen:status", "jose jwk gen succeeded for %s" % js(a["_t"]))
            if ex[0] == "accept":
                if not ok:
                    return ("cli:jwk-gen:status", "jose jwk gen refused %s" % js(a["_t"]))
                j = json.loads(out)
                j = j["keys"][0] if a["_set"] else j
                err = c11.check_key(a["_t"], j, ex[1])
                if err:
                    return ("cli:jwk-gen:output", err)
            if not ok and out.strip():
                return ("cli:jwk-gen:prints-on-failure", "output on failure: %r" % out[:80])
        elif k == "b64enc":
            if not ok or out != G.b64u(a["_data"]):
                return ("cli:b64-enc", "jose b64 enc gives %r for %d bytes" % (out[:40], len(a["_data"])))
        elif k == "b64dec":
            if a["_valid"] and (not ok or real.get("stdout") != hx(a["_data"])):
                return ("cli:b64-dec", "jose b64 dec refuses or mis-decodes valid text %r" % a["_text"][:40])
            if not a["_valid"] and ok:
                return ("cli:b64-dec", "jose b64 dec accepts invalid text %r" % a["_text"][:40])
        return None
    cmp(ctx, ops, p)
    ctx.count("jwk-b64", len(ops))


def run(ctx):
    run_jwk(ctx)
    run_jws_ver(ctx)
    run_jws_sig(ctx)
    run_jwe(ctx)
    run_pure(ctx)


def run_pure(ctx):
    """the deterministic command lines of the primitive-free subcommands (tools/extract_tables.pure_cli_lines)"""
    import extract_tables
    ops = [(o, dict(a, _why="primitive-free subcommand line")) for o, a in extract_tables.pure_cli_lines()]
    cmp(ctx, ops, lambda a, real: None)
    ctx.count("pure-lines", len(ops))


def replay(ctx, rp):
    ctx.compare([(o, strip(a)) for o, a in rp.get("ops", [])], None, None,
                canon=lambda o, a, r: {"status": r.get("status")} if isinstance(r, dict) and r.get("status") != 0 else r)
