"""C01 — JWS verification is sound: only genuinely signed content verifies."""
import copy, json
import keys as K
import jwsgen as G
from props.c03 import compare, strip, nontrivial as nt3

ID = "C01"
BUILDS = ["asan", "alloc"]
CORPUS_FIRST = True
RULE = ("valid tokens for every signature algorithm x key (jose-signed and Lean-signed, flattened and general), then "
        "the mutation stream: every character position of the signature (stride for RSA in quick), position classes of "
        "payload and protected, structural edits (member deletion, empty, wrong JSON type, signature swap, alg "
        "none/absent/other, conflicting unprotected alg), key edits (bit flips in k/n/x/y, public half, other key, key "
        "alg), key-set shapes (single, array, JWKSet, empty, with unusable keys) x any/all, vacuous cases; streaming "
        "verification under random chunkings; every acceptance by the implementation is re-derived from raw primitive "
        "checks by the specification oracle; distinct = distinct (op,args); non-trivial = token carries a signature")
EXPLANATION = ("soundness theorem proved on the model for every Prims; this run ties the model to lib/jws.c + hooks and "
               "evaluates the property directly: implementation says verified => the statement's condition holds.")
ASSUMPTIONS = ["raw signature validity is decided by the independent Lean primitives (prim.sigverify)"]
BUDGET = {"quick": 900, "thorough": 3600}
TRUSTED = ["Jose/Crypto/*.lean as independent implementation of HMAC / ECDSA / RSASSA verification"]

B64 = "ABCDEFGHIJKLMNOPQRSTUVWXYZabcdefghijklmnopqrstuvwxyz0123456789-_"


def flip_char(s, i):
    c = s[i]
    j = B64.index(c) if c in B64 else 0
    return s[:i] + B64[(j + 1) % 64] + s[i + 1:]


def flip_bit_b64(s, bit):
    b = bytearray(G.b64d(s))
    if not b:
        return s + "AA"
    b[(bit // 8) % len(b)] ^= 1 << (bit % 8)
    return G.b64u(bytes(b))


def positions(n, dense, rng, stride=16):
    if dense or n <= 96:
        return list(range(n))
    ps = set(range(0, n, stride)) | {0, 1, 2, 3, n - 1, n - 2, n - 3, n - 4}
    ps |= {rng.randrange(n) for _ in range(8)}
    return sorted(p for p in ps if 0 <= p < n)


def mutations(rng, tok, key, alg, pool, dense):
    """yield (why, jws, sig, jwk, all, expect) ; expect: False = must be refused, None = oracle decides"""
    sigv = tok["signature"]
    # 1. signature value: every (or strided) character position
    for i in positions(len(sigv), dense or not alg.startswith(("RS", "PS")), rng):
        yield ("sig char %d" % i, dict(tok, signature=flip_char(sigv, i)), None, key, False, None)
    yield ("sig truncated", dict(tok, signature=sigv[:-1]), None, key, False, None)
    yield ("sig truncated 4", dict(tok, signature=sigv[:-4]), None, key, False, None)
    yield ("sig extended", dict(tok, signature=sigv + "AAAA"), None, key, False, None)
    yield ("sig empty", dict(tok, signature=""), None, key, False, False)
    yield ("sig absent", {k: v for k, v in tok.items() if k != "signature"}, None, key, False, False)
    for v in (None, 5, True, [], {}, [sigv], 1.5):
        yield ("sig type %r" % (v,), dict(tok, signature=v), None, key, False, False)
    # 2. payload / protected position classes
    for member in ("payload", "protected"):
        s = tok.get(member)
        if not isinstance(s, str) or not s:
            continue
        n = len(s)
        for i in sorted({0, 1, 2, 3, n - 1, n - 2, n - 3, n - 4, n // 2} & set(range(n))):
            yield ("%s char %d" % (member, i), dict(tok, **{member: flip_char(s, i)}), None, key, False, None)
        yield (member + " extended", dict(tok, **{member: s + "AA"}), None, key, False, None)
        yield (member + " truncated", dict(tok, **{member: s[:-1]}), None, key, False, None)
    yield ("payload absent", {k: v for k, v in tok.items() if k != "payload"}, None, key, False, False)
    yield ("payload type", dict(tok, payload=5), None, key, False, False)
    yield ("payload empty", dict(tok, payload=""), None, key, False, None)
    # 3. algorithm games
    prot = G.merged_header(tok) or {}
    for a in ("none", "None", "", "HS256", "RS256", "ES256", "PS512", "ES256K", "HS512", "bogus"):
        if a != alg:
            yield ("protected alg " + a, dict(tok, protected=G.enc(dict(prot, alg=a))), None, key, False, None)
    yield ("protected without alg", dict(tok, protected=G.enc({k: v for k, v in prot.items() if k != "alg"})), None, key, False, None)
    yield ("protected without alg, header alg", dict(tok, protected=G.enc({}), header={"alg": alg}), None, key, False, None)
    yield ("unprotected alg conflicts", dict(tok, header={"alg": "none"}), None, key, False, None)
    yield ("protected as object", dict(tok, protected=prot), None, key, False, False)
    # a protected header that is not text is not part of any signing input: whatever the signature was made over
    # (in particular over an *empty* protected header, the algorithm sitting in the unprotected one), it must be refused
    for v in ({"alg": alg, "kid": "root-key", "admin": True}, {}, {"alg": alg}, [], 5, True, None):
        yield ("protected replaced by %s" % json.dumps(v), dict(tok, protected=v), None, key, False, False)
        yield ("protected %s in a general-form entry" % json.dumps(v),
               {"payload": tok.get("payload"), "signatures": [dict({k: x for k, x in tok.items() if k != "payload"}, protected=v)]}, None, key, False, False)
    yield ("protected bad b64", dict(tok, protected="!!!"), None, key, False, False)
    yield ("protected not json", dict(tok, protected=G.b64u(b"nope")), None, key, False, False)
    yield ("protected absent", {k: v for k, v in tok.items() if k != "protected"}, None, key, False, None)
    yield ("header not object", dict(tok, header=5), None, key, False, False)
    if isinstance(tok.get("header"), dict):
        # the unprotected header is not covered by the signature: anyone can strip it; without it (and with a key that
        # declares no algorithm) nothing names an algorithm any more unless the protected header does
        nohdr = {k: v for k, v in tok.items() if k != "header"}
        named = "alg" in (G.merged_header(nohdr) or {})
        yield ("unprotected header removed", nohdr, None, key, False, None if named else False)
        yield ("alg removed from the unprotected header", dict(tok, header={k: v for k, v in tok["header"].items() if k != "alg"}), None, key, False, None if named else False)
    if key.get("kty") == "EC" and alg.startswith("ES"):
        # (r, s) = (Qx mod n, Qx mod n) is a valid ECDSA signature of the all-zero digest under ANY key: it must never
        # verify over a real message (a verifier that lost its digest would accept it)
        import ecmath
        n_ = ecmath.CURVES[key["crv"]]["n"]
        w = len(G.b64d(key["x"]))
        r_ = int.from_bytes(G.b64d(key["x"]), "big") % n_
        forged = G.b64u(r_.to_bytes(w, "big") * 2)
        yield ("signature valid for the all-zero digest", dict(tok, signature=forged), None, key, False, False)
        yield ("signature valid for the all-zero digest, public key", dict(tok, signature=forged), None, K.public(key), False, False)
    # 4. key edits
    for m in ("k", "n", "e", "x", "y", "d"):
        if m in key and m != "d":
            for bit in (0, 7, 8 * 5 + 3, 8 * 31):
                yield ("key %s bit %d" % (m, bit), tok, None, dict(key, **{m: flip_bit_b64(key[m], bit)}), False, None)
    yield ("key alg other", tok, None, dict(key, alg="HS256" if alg != "HS256" else "HS384"), False, False)
    yield ("key alg same", tok, None, dict(key, alg=alg), False, True)
    yield ("key use enc", tok, None, dict(key, use="enc"), False, False)
    yield ("key ops sign only", tok, None, dict(key, key_ops=["sign"]), False, False)
    yield ("key ops verify", tok, None, dict(key, key_ops=["verify"]), False, True)
    if key["kty"] != "oct":
        yield ("public half", tok, None, K.public(key), False, True)
    others = [pool[n] for n in ("oct-64", "EC-P256-b", "EC-P384-b", "EC-P521-b", "RSA-2048-b", "EC-K256")]
    for o in others:
        if o != key:
            yield ("other key " + o["kty"], tok, None, o, False, False if o["kty"] != key["kty"] or o["kty"] != "oct" else None)
    for j in (5, None, "key", True, {}, {"kty": key["kty"]}):
        yield ("key junk %r" % (j,), tok, None, j, False, False)
    # 5. key-set shapes, any / all
    bad = pool["oct-16"]
    other = others[1] if key["kty"] != "EC" else others[0]
    for all_ in (False, True):
        yield ("empty array all=%s" % all_, tok, None, [], all_, False)
        yield ("empty set all=%s" % all_, tok, None, {"keys": []}, all_, False)
        yield ("[key] all=%s" % all_, tok, None, [key], all_, True)
        yield ("{keys:[key]} all=%s" % all_, tok, None, {"keys": [key]}, all_, True)
        yield ("[key,key] all=%s" % all_, tok, None, [key, key], all_, True)
        yield ("[other,key] all=%s" % all_, tok, None, [other, key], all_, not all_)
        yield ("[key,other] all=%s" % all_, tok, None, [key, other], all_, not all_)
        yield ("[unusable,key] all=%s" % all_, tok, None, [bad, key], all_, not all_)
        yield ("[junk,key] all=%s" % all_, tok, None, [5, key], all_, not all_)
        yield ("[other,other] all=%s" % all_, tok, None, [other, other], all_, False)
        # a key that may not verify (use / key_ops) verifies nothing: under `all` it is a demanded key that failed, not a
        # key to be skipped - whether it is the signing key itself or another one, before or behind the genuine key
        for why_, rk in (("the key with use enc", dict(key, use="enc")), ("the key with key_ops [sign]", dict(key, key_ops=["sign"])),
                         ("another key with use enc", dict(other, use="enc")), ("another key with key_ops []", dict(other, key_ops=[]))):
            yield ("[key, %s] all=%s" % (why_, all_), tok, None, [key, rk], all_, not all_)
            yield ("{keys:[%s, key]} all=%s" % (why_, all_), tok, None, {"keys": [rk, key]}, all_, not all_)
        yield ("[the key with use enc] all=%s" % all_, tok, None, [dict(key, use="enc")], all_, False)
        yield ("keys not array all=%s" % all_, tok, None, {"keys": key}, all_, False)
        # key lists inside key lists: the inner list inherits any / all
        yield ("[{keys:[key,other]}] all=%s" % all_, tok, None, [{"keys": [key, other]}], all_, not all_)
        yield ("{keys:[{keys:[key,other]}]} all=%s" % all_, tok, None, {"keys": [{"keys": [key, other]}]}, all_, not all_)
        yield ("[[key],[other]] all=%s" % all_, tok, None, [[key], [other]], all_, not all_)
        yield ("[[key,key],{keys:[key]}] all=%s" % all_, tok, None, [[key, key], {"keys": [key]}], all_, True)
        yield ("[[]] all=%s" % all_, tok, None, [[]], all_, False)
        yield ("[key,[]] all=%s" % all_, tok, None, [key, []], all_, not all_)
        yield ("[[[key]]] all=%s" % all_, tok, None, [[[key]]], all_, True)
    # 6. explicit sig argument
    yield ("sig = token", tok, tok, key, False, True)
    yield ("sig = other object", tok, dict(tok, signature=flip_char(sigv, 0)), key, False, None)
    yield ("sig junk", tok, 5, key, False, None)
    yield ("sig array vs single key", tok, [tok], key, False, False)
    yield ("sig array vs key array", tok, [tok], [key], False, True)
    yield ("sig array size mismatch", tok, [tok, tok], [key], False, False)
    # the i-th signature object goes with the i-th key: a valid object paired with a foreign key, an empty one with the right key
    hollow = {k: v for k, v in tok.items() if k not in ("payload", "signature")}
    yield ("sig array [tok, hollow] vs [foreign, key]", tok, [tok, dict(hollow, signature="")], [bad, key], False, False)
    yield ("sig array [hollow, tok] vs [key, foreign]", tok, [dict(hollow, signature=""), tok], [key, bad], False, False)
    yield ("sig array [hollow, tok] vs [foreign, key]", tok, [dict(hollow, signature=""), tok], [bad, key], False, True)
    yield ("sig array [tok, tok] vs [key, foreign] all", tok, [tok, tok], [key, other], True, False)
    yield ("sig junk vs key array", tok, 5, [key], False, None)
    # the unprotected header relabels the algorithm (the signing input does not change): another name of the same family
    if isinstance(tok.get("header"), dict) and "alg" in tok["header"] and "alg" not in (G.merged_header({k: v for k, v in tok.items() if k != "header"}) or {}):
        for other_alg in ("ES256K" if alg == "ES256" else "ES256" if alg == "ES256K" else "HS384" if alg == "HS256" else "HS256" if alg.startswith("HS") else
                          "PS256" if alg == "RS256" else "RS256" if alg == "PS256" else "RS256" if alg.startswith(("RS", "PS")) else "ES256",):
            if other_alg != alg:
                yield ("unprotected alg relabelled to " + other_alg, dict(tok, header=dict(tok["header"], alg=other_alg)), None, key, False, False)
                yield ("unprotected alg relabelled to %s, key declares it" % other_alg, dict(tok, header=dict(tok["header"], alg=other_alg)), None, dict(key, alg=other_alg), False, False)
    # 7. general-form containers
    # the signature text re-spelled with characters outside the URL-safe alphabet (standard base64, padding, a line end):
    # the same bytes would come out of a lenient decoder - the text changed, verification fails
    if "-" in sigv or "_" in sigv:
        yield ("signature in the standard base64 alphabet", dict(tok, signature=sigv.replace("-", "+").replace("_", "/")), None, key, False, False)
    for tail in ("=", "==", "\n", " ", "\u0000"):
        yield ("signature followed by %r" % tail, dict(tok, signature=sigv + tail), None, key, False, False)
    yield ("signature preceded by a space", dict(tok, signature=" " + sigv), None, key, False, False)
    yield ("signatures [tok]", {"payload": tok["payload"], "signatures": [{k: v for k, v in tok.items() if k != "payload"}]}, None, key, False, True)
    yield ("signatures []", {"payload": tok["payload"], "signatures": []}, None, key, False, False)
    yield ("signatures [] + flattened members", dict(tok, signatures=[]), None, key, False, False)
    yield ("signatures junk", dict(tok, signatures=5), None, key, False, None)
    yield ("signatures [junk, tok]", {"payload": tok["payload"], "signatures": [5, {k: v for k, v in tok.items() if k != "payload"}]}, None, key, False, True)


def run(ctx):
    rng = ctx.rng
    pool = K.pool(ctx.jose)
    quick = ctx.tier == "quick"
    names = ["oct-32", "oct-64", "EC-P256", "EC-P384", "EC-P521", "EC-K256", "RSA-2048"] + ([] if quick else ["RSA-3072", "RSA-4096", "oct-1024", "oct-48"])
    sig_ops = []
    for name in names:
        key = pool[name]
        for alg in G.algs_for(name, key):
            for pay in (b"", b"payload \x00\xff" + rng.randbytes(20)):
                sig_ops.append(("jws.sig", {"jws": {"payload": G.b64u(pay)}, "sig": {"protected": {"alg": alg, "kid": name}}, "jwk": key,
                                            "rnd": [rng.randbytes(32).hex()], "_expect_ok": True, "_alg": alg, "_name": name}))
    # tokens whose protected header is empty / absent: the algorithm is named by the unprotected header or the key
    # (every algorithm: what a verifier does with a token that names NO algorithm depends on which algorithm a lookup
    # without a name would hit, which is an artefact of registration order)
    for name, alg in [(n_, a_) for n_ in ("oct-64", "EC-P256", "EC-P384", "EC-P521", "EC-K256", "RSA-2048") for a_ in G.algs_for(n_, pool[n_])]:
        for tmpl in ({"header": {"alg": alg}}, {"header": {"alg": alg, "kid": name}, "protected": {}}):
            sig_ops.append(("jws.sig", {"jws": {"payload": G.b64u(b"unprotected alg")}, "sig": tmpl, "jwk": pool[name],
                                        "rnd": [rng.randbytes(32).hex()], "_expect_ok": True, "_alg": alg, "_name": name}))
    real, model = compare(ctx, sig_ops, lambda *a: None)
    base = []
    for (op, a), r, m in zip(sig_ops, real, model):
        for side, res in (("jose", r), ("lean", m)):
            if res.get("ok") and (side == "jose" or a["jwk"]["kty"] != "RSA" or not quick):
                base.append((res["jws"], a["jwk"], a["_alg"], side))
    ctx.count("base-tokens", len(base))
    ops = []
    for tok, key, alg, side in base:
        ops.append(("jws.ver", {"jws": tok, "jwk": key, "_expect": True, "_why": side + " unmutated " + alg}))
        dense = not quick or side == "jose" and alg in ("RS256", "PS256") and False
        for why, jws, sig, jwk, all_, expect in mutations(rng, tok, key, alg, pool, dense):
            a = {"jws": jws, "jwk": jwk, "all": all_, "_expect": expect, "_why": "%s %s: %s" % (side, alg, why)}
            if sig is not None:
                a["sig"] = sig
            if jwk is None:
                del a["jwk"]
            ops.append(("jws.ver", a))
    # signature swap between tokens of the same algorithm
    byalg = {}
    for tok, key, alg, side in base:
        byalg.setdefault(alg, []).append((tok, key))
    for alg, l in byalg.items():
        for (t1, k1), (t2, k2) in zip(l, l[1:]):
            ops.append(("jws.ver", {"jws": dict(t1, signature=t2["signature"]), "jwk": k1, "_expect": None, "_why": "swapped signature " + alg}))
            ops.append(("jws.ver", {"jws": {"payload": t1["payload"], "signatures": [{k: v for k, v in t2.items() if k != "payload"},
                                                                                     {k: v for k, v in t1.items() if k != "payload"}]},
                                    "jwk": k1, "_expect": True, "_why": "general with a foreign first signature " + alg}))
    # streaming verification: random chunkings of the payload text
    for tok, key, alg, side in base[:: (3 if quick else 1)]:
        p = tok["payload"].encode()
        for _ in range(3):
            parts, left = [], p
            while left:
                k = rng.randrange(1, len(left) + 1)
                parts.append(left[:k].hex())
                left = left[k:]
            if rng.random() < 0.3:
                parts.insert(rng.randrange(len(parts) + 1), "")
            det = {k: v for k, v in tok.items() if k != "payload"}
            ops.append(("jws.ver_io", {"jws": det, "jwk": key, "feeds": parts, "_expect": True, "_why": "streamed " + alg}))
            ops.append(("jws.ver_io", {"jws": det, "jwk": key, "feeds": parts[:-1] + [(bytes.fromhex(parts[-1])[:-1] + b"A").hex()] if parts and parts[-1] else parts + ["41"],
                                       "_expect": None, "_why": "streamed, last byte changed " + alg}))
        # vacuous and key-set cases streamed (the verdict is the final `done`), with and without feeds
        other_ = pool["oct-64"] if key.get("kty") != "oct" else pool["EC-P256-b"]
        for feeds in ([p.hex()], []):
            for all_ in (False, True):
                whole = feeds == [p.hex()]
                ops.append(("jws.ver_io", {"jws": det, "jwk": [], "all": all_, "feeds": feeds, "_expect": False, "_why": "streamed, empty key array"}))
                ops.append(("jws.ver_io", {"jws": det, "jwk": {"keys": []}, "all": all_, "feeds": feeds, "_expect": False, "_why": "streamed, empty key set"}))
                ops.append(("jws.ver_io", {"jws": {"signatures": []}, "jwk": key, "all": all_, "feeds": feeds, "_expect": False, "_why": "streamed, empty signature list"}))
                ops.append(("jws.ver_io", {"jws": det, "jwk": [key, other_], "all": all_, "feeds": feeds, "_expect": (whole and not all_) if tok["payload"] else None,
                                           "_why": "streamed, [key, other] all=%s" % all_}))
                ops.append(("jws.ver_io", {"jws": det, "jwk": [other_, key], "all": all_, "feeds": feeds, "_expect": (whole and not all_) if tok["payload"] else None,
                                           "_why": "streamed, [other, key] all=%s" % all_}))
                ops.append(("jws.ver_io", {"jws": det, "jwk": [[key], {"keys": [other_]}], "all": all_, "feeds": feeds, "_expect": (whole and not all_) if tok["payload"] else None,
                                           "_why": "streamed, nested key lists all=%s" % all_}))
    accepted = []

    def p_ver(op, args, real):
        if "crash" in real:
            return None
        ok = real.get("r") if op == "jws.ver" else bool(real.get("io") and all(real.get("feeds", [])) and real.get("done") is True)
        if ok:
            accepted.append((op, args))
        if args.get("_expect") is True and not ok:
            return ("ver:rejects-valid", "rejected (%s): %s" % (args.get("_why"), json.dumps(strip(args))[:400]))
        if args.get("_expect") is False and ok:
            return ("ver:accepts-invalid", "accepted (%s): %s" % (args.get("_why"), json.dumps(strip(args))[:400]))
        return None

    for i in range(0, len(ops), 100000):
        compare(ctx, ops[i:i + 100000], p_ver)
    ctx.count("accepted-by-implementation", len(accepted))
    # specification oracle: every acceptance must follow from raw primitive validity
    queries, owners = [], []
    for n, (op, a) in enumerate(accepted):
        jws = a["jws"]
        if op == "jws.ver_io":
            jws = dict(jws, payload=b"".join(bytes.fromhex(f) for f in a["feeds"]).decode("latin-1"))
        for idx, alg, k, msg, sb in G.pair_queries(jws, a.get("sig"), a.get("jwk")):
            queries.append(("prim.sigverify", {"alg": alg, "jwk": k, "msg": msg.hex(), "sig": sb.hex()}))
            owners.append((n, idx))
    res = ctx.model(queries)
    ctx.count("primitive-checks", len(queries))
    valid = {}
    for (n, idx), r in zip(owners, res):
        valid.setdefault(n, {})[idx] = bool(r.get("r"))
    for n, (op, a) in enumerate(accepted):
        if not G.spec_verdict(a["jws"], a.get("sig"), a.get("jwk"), a.get("all", False), valid.get(n, {})):
            ctx.pfails.append(("ver:unsound", "verified although no demanded (signature, key) pair is valid (%s): %s" % (
                a.get("_why"), json.dumps(strip(a))[:400]), op, strip(a), {"r": True}))
    run_faults(ctx, pool)


def run_faults(ctx, pool):
    """Invalid tokens stay rejected when any single allocation of the verification fails: a verifier that loses its digest
    (or its decoded signature) to a failed allocation and carries on would accept a signature crafted for the all-zero
    digest.  Enumerates EVERY allocation of each scenario in the fault-injection build (same harness as C20)."""
    import ecmath
    from props.c20 import lib_text, failed
    text = lib_text(ctx.builds["alloc"])
    pay = G.b64u(b"payload that was never signed")
    scs = []
    for kn, alg in (("EC-P256", "ES256"), ("EC-P384", "ES384"), ("EC-P521", "ES512"), ("EC-K256", "ES256K")):
        k_ = pool[kn]
        n_ = ecmath.CURVES[k_["crv"]]["n"]
        w_ = len(G.b64d(k_["x"]))
        r_ = int.from_bytes(G.b64d(k_["x"]), "big") % n_
        tok = {"payload": pay, "protected": G.enc({"alg": alg}), "signature": G.b64u(r_.to_bytes(w_, "big") * 2)}
        scs.append(("jws.ver", {"jws": tok, "jwk": K.public(k_), "all": False}))
        scs.append(("jws.ver_io", {"jws": {k: v for k, v in tok.items() if k != "payload"}, "jwk": K.public(k_), "all": False, "feeds": [pay.encode().hex()]}))
    for kn, alg, w_ in (("oct-32", "HS256", 32), ("oct-64", "HS512", 64), ("RSA-2048", "RS256", 256), ("RSA-2048", "PS256", 256)):
        tok = {"payload": pay, "protected": G.enc({"alg": alg}), "signature": G.b64u(bytes(w_))}
        scs.append(("jws.ver", {"jws": tok, "jwk": pool[kn], "all": False}))
    line = lambda o, a, k: ("alloc.run", {"op": o, "args": a, "k": k, "text": text, "warm": k == 0})
    base = ctx.real([line(o, a, 0) for o, a in scs], kind="alloc", chunk_min=4)
    ops, meta = [], []
    for i, ((o, a), b0) in enumerate(zip(scs, base)):
        if "res" not in b0 or not failed(o, b0["res"]):
            ctx.pfails.append(("ver:accepts-invalid", "forged token accepted without any fault: %s" % json.dumps(a)[:300], o, a, b0))
            continue
        for k in range(1, b0["count"] + 1):
            ops.append(line(o, a, k))
            meta.append(i)
    res = ctx.real(ops, kind="alloc", chunk_min=20)
    ctx.evaluations += len(res) + len(scs)
    ctx.count("invalid tokens under every single allocation fault (runs)", len(res))
    for i, (_, la), r in zip(meta, ops, res):
        o, a = scs[i]
        ctx.distinct.add(("fault %d/%d" % (i, la["k"])).encode())
        if "crash" in r:
            continue                  # C09 / C20 report crashes
        if "res" in r and not failed(o, r["res"]):
            ctx.pfails.append(("ver:accepts-invalid:under-allocation-failure", "%s accepts a signature that is valid only for the all-zero digest / a zero tag when "
                               "allocation %d of %d fails (requested through %s): %s" % (o, la["k"], base[i]["count"], r.get("entry"), json.dumps(a)[:300]),
                               "alloc.run", {"op": o, "args": a, "k": la["k"]}, r))


def replay(ctx, rp):
    if any(o == "alloc.run" for o, a in rp.get("ops", [])):
        from props.c20 import lib_text, failed
        text = lib_text(ctx.builds["alloc"])
        for o, a in rp["ops"]:
            r = ctx.real([("alloc.run", dict(a, text=text))], kind="alloc")[0]
            ctx.evaluations += 1
            if "res" in r and not failed(a["op"], r["res"]):
                ctx.pfails.append(("ver:accepts-invalid:under-allocation-failure", "accepted: %s" % json.dumps(a)[:300], "alloc.run", a, r))
        return
    ops = [(o, a) for o, a in rp.get("ops", [])] + [(d["op"], d["args"]) for d in rp.get("correspondence_disagreements", [])]
    compare(ctx, ops, lambda *a: None)
