"""C19 — `jose fmt` executes its option string as the documented stack machine."""
import itertools, json
import fmtspec

ID = "C19"
CORPUS_FIRST = True
RULE = ("cli.run fmt (the working tree's cmd/fmt.c, in a forked child) on generated option programs: all programs of "
        "length <=2 (quick) / <=3 (thorough) over all 33 options with arguments from a small alphabet after 0..2 pushes, "
        "plus random programs of length 4..12 biased to keep the stack non-empty; exit status, standard output and "
        "every file written are compared with the Lean model and with an executable rendering of the manual; "
        "distinct = distinct programs; non-trivial = at least one option after the pushes executes")
EXPLANATION = ("stop-at-first-failure and exit-status theorems proved on the model Jose/Fmt.lean; exhaustive short programs tie "
               "the model to cmd/fmt.c; tools/fmtspec.py (the manual, written independently) is the direct oracle.")
ASSUMPTIONS = ["options are given as separate short arguments (getopt's bundling and long names are not exercised)",
               "circular values followed by -E are not generated (jansson's json_equal does not terminate on them)"]
BUDGET = {"quick": 600, "thorough": 3600}

VALUES = [None, True, 1, 1.5, "a", "YQ", [], [1, 2], {}, {"a": 1}, [[3], {"b": [4]}], "eyJhIjoxfQ", {"a": {"b": 2}, "c": [5, 6]},
          # false; base64url text of JSON scalars (what -y must load just like objects): 1, true, "a", null, false
          False, "MQ", "dHJ1ZQ", "ImEi", "bnVsbA", "ZmFsc2U", "WzEsMl0",
          # members given in non-sorted order (every output option prints objects with sorted keys, at every depth)
          {"b": 1, "a": 2}, [{"z": 1, "a": {"y": 0, "b": [{"d": 1, "c": 2}]}}], {"k": {"z": 1, "a": 2}, "b": 0}]
NAMES = ["a", "b", "0", "1", "-1", "-3", "9", "x y", ""]
COUNTS = [0, 1, 2, 5]
UCOUNTS = [-1, -2, 4294967295, 4294967297]        # -M and -i take an unsigned count: these must not act as small counts
TCOUNTS = [0, 1, 2, -1, -2, 7]
FILES = ["-", "f1", "f2"]
NOARG = list("XOASIRNTFB0EQUcaxleYy")


def opt_variants():
    out = [(c, None) for c in NOARG]
    out += [("M", c) for c in COUNTS + UCOUNTS] + [("i", c) for c in COUNTS + UCOUNTS] + [("t", c) for c in TCOUNTS]
    out += [("j", v) for v in VALUES] + [("q", s) for s in ("", "s", "é")]
    out += [(c, f) for c in "ofu" for f in FILES]
    out += [(c, n) for c in "dgs" for n in NAMES]
    return out


def argv_of(prog):
    av = ["fmt"]
    for o, p in prog:
        av.append("-" + o)
        if p is not None or o in "jq":
            if o == "j":
                av.append(json.dumps(p))
            else:
                av.append(str(p))
    return av


def canon(op, args, r):
    if isinstance(r, dict) and "files" in r:
        st = r.get("status")
        av = args["argv"][1:]
        # an output option that fails on a circular value has already written part of it
        # (jansson detects the cycle while dumping): what the failing option itself wrote is not compared
        letters = [a for a in av if len(a) == 2 and a[0] == "-" and not a[1].isdigit()]
        if st and 0 < st <= len(letters) and letters[st - 1] in ("-o", "-f"):
            return {"status": st, "failed-output": True}
        return {"status": st, "stdout": r.get("stdout"), "files": r.get("files"), "crash": r.get("crash")}
    return r


def has_real(prog):
    return any(o == "j" and "1.5" in json.dumps(p) for o, p in prog)


def p_check(op, args, real):
    if "crash" in real:
        return None
    prog = args["_prog"]
    spec = fmtspec.run(prog)
    if spec["unspecified"]:
        if (spec["status"] == 0) != (real.get("status") == 0):
            return ("fmt:status", "manual: %s, tool exits %s for %s" % (spec["status"], real.get("status"), " ".join(args["argv"])))
        return None
    letters = [o for o, _ in prog]
    st = real.get("status")
    if st and spec["status"] == st and 0 < st <= len(letters) and letters[st - 1] in "of":
        return None           # partial output of a failing dump (circular value): see canon
    got = (real.get("status"), bytes.fromhex(real.get("stdout") or "").decode("utf-8", "replace"),
           {k: bytes.fromhex(v).decode("utf-8", "replace") for k, v in (real.get("files") or {}).items()})
    exp = (spec["status"], spec["stdout"], spec["files"])
    if got != exp:
        # the option at which manual and tool part ways: the earlier of the two failure indices
        ks = [k for k in (got[0], exp[0]) if k]
        k = min(ks) if ks else 0
        letter = prog[k - 1][0] if 0 < k <= len(prog) and got[0] != exp[0] else "output"
        return ("fmt:-" + letter, "manual says %s, tool did %s for: jose %s" % (json.dumps(exp)[:200], json.dumps(got)[:200], " ".join(args["argv"])))
    return None


def nontrivial(op, args, real):
    return " ".join(args["argv"])


def with_dump(body):
    """body followed by options that print every value left on the stack, top first (the depth is the manual's)"""
    r = fmtspec.run(body)
    return body + [("o", "-"), ("U", None)] * r.get("depth", 0) if r["status"] == 0 else body + [("o", "-")]


def gen(ctx):
    rng = ctx.rng
    V = opt_variants()
    th = ctx.tier == "thorough"
    progs = []
    pushes = [[], [("j", [1, 2, 3])], [("j", {"a": 1, "b": [2]})], [("j", "str")], [("j", [1, 2, 3]), ("j", {"k": 0})],
              [("j", [{"b": 1, "a": 2}, {"z": {"y": 1, "x": 2}}])], [("j", {"m": {"z": 1, "a": 2}, "c": [{"q": 1, "p": 2}]})],
              [("j", {"a": 1}), ("j", [7, 8, 9, 10])], [("j", 5), ("j", 5)], [("j", [[1], [2]]), ("g", "0")]]
    maxlen = 3 if th else 2
    for pre in pushes:
        for n in range(1, maxlen + 1):
            pool = V if n <= 2 else [v for v in V if v[0] not in "ofu" or v[1] == "-"]
            if n == 3:
                pool = [v for v in pool if not (v[0] == "j" and v[1] not in (None, 1, [], {}))]
                pool = [v for v in pool if not (v[0] in "dgs" and v[1] not in ("a", "0", "-1", "9"))]
            for body in itertools.product(pool, repeat=n):
                progs.append(pre + list(body) + [("o", "-")])
    # random longer programs
    weights = {"j": 6, "g": 4, "s": 3, "a": 2, "x": 2, "c": 2, "U": 2, "M": 2, "o": 2, "l": 1, "d": 2, "i": 2, "t": 2}
    bag = [v for v in V for _ in range(weights.get(v[0], 1))]
    for _ in range(12000 if not th else 200000):
        n = rng.randrange(4, 13)
        body = [("j", rng.choice(VALUES[7:]))] + [rng.choice(bag) for _ in range(n)]
        progs.append(body + [("Q", None), ("o", "-")] if rng.random() < 0.5 else with_dump(body))
    # copies must be independent of their originals at every depth ("deep copy", "values are otherwise unchanged"):
    # copy or query a nested value, walk into the copy, mutate there, then print every value left on the stack
    nested = [{"a": {"b": 1}}, [[1, 2], 3], {"a": [1, {"b": [2, 3]}], "c": {"d": {}}}, [[[0]], {"k": [1]}], {"a": {"b": {"c": [1, 2, 3]}}}]
    walks = {0: [[("g", "a")], [("g", "a"), ("g", "b")], [("g", "c"), ("g", "d")], [("g", "a"), ("g", "1")], [("g", "a"), ("g", "1"), ("g", "b")],
                 [("g", "a"), ("g", "b"), ("g", "c")]],
             1: [[("g", "0")], [("g", "0"), ("g", "0")], [("g", "1")], [("g", "1"), ("g", "k")], [("g", "-1")]]}
    muts = [[("j", 2), ("s", "b")], [("j", 9), ("s", "0")], [("d", "b")], [("d", "0")], [("d", "-1")], [("t", 0)], [("t", 1)], [("t", -1)], [("e", None)],
            [("j", 7), ("a", None)], [("j", [7]), ("x", None)], [("j", {"z": 1}), ("x", None)], [("j", 7), ("i", 0)], [("j", 7), ("s", "zz")]]
    for v in nested:
        for w in walks[1 if isinstance(v, list) else 0]:
            for m in muts:
                for cp in ("c", "Q"):
                    progs.append(with_dump([("j", v), (cp, None)] + (w if cp == "c" else [("g", "0")] + w) + m))
                    # and mutate the original, then look at the copy
                    progs.append(with_dump([("j", v), (cp, None), ("M", 1)] + (w if cp == "c" else w) + m))
    # the manual's own examples
    progs.append([("j", {}), ("c", None), ("s", "unprotected"), ("q", "A128KW"), ("s", "alg"), ("U", None), ("U", None), ("o", "-")])
    progs.append([("j", {"protected": "eyJhbGciOiJBMTI4S1cifQ"}), ("O", None), ("g", "protected"), ("y", None), ("O", None), ("g", "alg"), ("S", None), ("u", "-")])
    progs.append([("j", {"keys": [{"kty": "oct"}, {"kty": "EC"}]}), ("O", None), ("g", "keys"), ("A", None), ("f", "-")])
    return progs


def cyclic_then_equal(prog):
    # -E after a program that may have built a circular value is not generated (see ASSUMPTIONS)
    letters = [o for o, _ in prog]
    return "E" in letters and any(l in letters for l in "asix") and "g" in letters


def run(ctx):
    progs = [p for p in gen(ctx) if not has_real(p) or True]
    progs = [p for p in progs if not cyclic_then_equal(p)]
    ops = [("cli.run", {"argv": argv_of(p), "_prog": p}) for p in progs]
    from props.c03 import strip
    for i in range(0, len(ops), 40000):
        chunk = ops[i:i + 40000]
        sent = [(o, strip(a)) for o, a in chunk]
        amap = {id(s[1]): a for s, (o, a) in zip(sent, chunk)}
        ctx.compare(sent, lambda op, args, real: p_check(op, amap[id(args)], real), nontrivial, canon=canon)
    ctx.exhaustive = True
    run_forms(ctx)


def run_forms(ctx):
    """what the program text itself cannot express: values pushed from a file or from standard input, quoting and
    unquoting of strings that need escapes, an output file that cannot be opened, long option names and bundled short
    ones.  Each line carries the status and output the manual gives for it."""
    hx = lambda t: (t if isinstance(t, bytes) else t.encode()).hex()
    cases = [
        (["fmt", "-j", "-", "-j", "-", "-o", "-"], {"stdin": hx('{"a":1} [2]')}, 0, "[2]"),
        (["fmt", "-j", "-", "-g", "a", "-o", "-"], {"stdin": hx(' {"a":7}')}, 0, "7"),
        (["fmt", "-j", "in.json", "-g", "a", "-o", "-"], {"files": {"in.json": hx('{"a":7}')}}, 0, "7"),
        (["fmt", "-j", "in.json", "-o", "-"], {"files": {"in.json": hx('{"a":')}}, None, None),
        (["fmt", "-j", "nofile", "-o", "-"], {}, None, None),
        (["fmt", "-q", "1", "-S", "-o", "-"], {}, 0, '"1"'),
        (["fmt", "-q", "true", "-S", "-o", "-"], {}, 0, '"true"'),
        (["fmt", "-q", "{}", "-S", "-o", "-"], {}, 0, '"{}"'),
        (["fmt", "-q", 'a"b\\c', "-u", "-"], {}, 0, 'a"b\\c\n'),
        (["fmt", "-q", 'a"b\\c', "-o", "-"], {}, 0, '"a\\"b\\\\c"'),
        (["fmt", "-j", '"x\\ny"', "-u", "f1"], {}, 0, ""),
        (["fmt", "-j", '"s"', "-u", "nodir/x", "-o", "-"], {}, 2, ""),
        (["fmt", "-j", "[1]", "-o", "nodir/x", "-o", "-"], {}, 2, ""),
        (["fmt", "-j", "[1]", "-o", "-", "-U", "-o", "-"], {}, 4, "[1]"),
        (["fmt", "-j", "5", "-f", "-"], {}, 2, ""),
        (["fmt", "--json={\"a\":[1,2]}", "--get=a", "--truncate=-1", "--output=-"], {}, 0, "[1]"),
        (["fmt", "--json", "[1,2]", "--length", "--output", "-"], {}, 0, "2"),
        (["fmt", "-j", "{}", "-cs", "unprotected", "-UUo-"], {}, 6, ""),
        (["fmt", "-j", "{}", "-cs", "unprotected", "-Uo-"], {}, 0, '{"unprotected":{}}'),
        (["fmt", "-j", '{"a":1,"b":[2]}', "-j", '{"a":9,"c":3}', "-a", "-U", "-o", "-"], {}, 0, '{"a":1,"b":[2],"c":3}'),
        (["fmt", "-j", '{"a":1,"b":[2]}', "-j", '{"a":9,"c":3}', "-x", "-U", "-o", "-"], {}, 0, '{"a":9,"b":[2],"c":3}'),
        (["fmt", "-j", "false", "-B", "-X", "-T", "-F", "-o", "-"], {}, 0, "false"),
        (["fmt", "-j", "[1,2,3]", "-g", "+1", "-o", "-"], {}, 0, "2"),
        (["fmt", "-j", "[1,2,3]", "-g", "01", "-o", "-"], {}, 0, "2"),
        (["fmt", "-j", "[1,2,3]", "-g", "1x", "-o", "-"], {}, 0, "2"),
        (["fmt", "-j", "[1,2,3]", "-g", "-0", "-o", "-"], {}, 0, "1"),
        (["fmt", "-j", "[1,2,3]", "-g", "x1", "-o", "-"], {}, 2, ""),
    ]
    ops = []
    for argv, extra, st, out in cases:
        ops.append(("cli.run", dict({"argv": argv}, **extra)))
    # the model of the tool has no long names, no bundling, one read of standard input and no directories (ASSUMPTIONS):
    # those lines are judged against the manual on the implementation only, the others are compared with the model too
    def modelled(argv, extra):
        return not any(a.startswith("--") or (a.startswith("-") and len(a) > 2 and not a[1:].lstrip("-").isdigit() and a[1] not in "0123456789") for a in argv[1:]
                       if a.startswith("-") and a not in ("-",)) and argv.count("-") < 3 and not any("nodir" in a for a in argv)
    both = [x for x, c in zip(ops, cases) if modelled(c[0], c[1])]
    ctx.compare(both, None, lambda o, a, r: json.dumps(a, sort_keys=True), canon=canon)
    real = ctx.real(ops)
    ctx.evaluations += len(ops)
    for (o, a), (argv, extra, st, out), r in zip(ops, cases, real):
        if st is None or "crash" in r:
            continue
        got = (r.get("status"), bytes.fromhex(r.get("stdout") or "").decode("utf-8", "replace"))
        if got[0] != st or (st == 0 or out) and got[1] != out and not (st and out == ""):
            ctx.pfails.append(("fmt:forms", "manual says status %s output %r, tool did %r for: jose %s" % (st, out, got, " ".join(argv)), o, a, r))
    ctx.count("option-forms", len(ops))


def replay(ctx, rp):
    ops = [(o, a) for o, a in rp.get("ops", [])] + [(d["op"], d["args"]) for d in rp.get("correspondence_disagreements", [])]
    ctx.compare(ops, None, nontrivial, canon=canon)
