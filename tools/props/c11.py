"""C11 — generated keys are valid, sized as requested, fresh; so are IVs, salts, epks."""
import copy, itertools, json
import keys as K
import jwsgen as G
import jwegen as E
import ecmath as EC

ID = "C11"
CORPUS_FIRST = True
RULE = ("jwk.gen on the implementation (RAND_bytes tape for symmetric keys) and the model: every registered algorithm "
        "name and unknown names x kty {absent, oct, EC, RSA, other} x crv {absent, 4 named, unknown} x bytes {absent, -1, "
        "0, 1, 16, 32, 1024, 1025, non-integer} x bits {absent, 1024, 2047, 2048, 2^32+512, 2^32+2048, non-integer} x e "
        "{absent, 3, 65537, 65539, 1, 4, 5, 65536, -1, base64url forms, bool, object, array, null, real} x use/key_ops "
        "presets (RSA generations are capped); every accepted key is checked by an independent oracle (lengths, "
        "n = p*q, d*e = 1 mod lcm, CRT members, d*G = (x,y), widths, generation-only members gone, key_ops inferred) and "
        "used with its algorithm (sign/verify or encrypt/decrypt); every contradictory or unsupported template must be "
        "refused. Freshness: repeated generation / encryption without a tape, pairwise distinctness of k, d, n, CEK, IV, "
        "p2s, epk, GCMKW iv. distinct = distinct (op,args); non-trivial = every line")
EXPLANATION = ("PREP/MAKE/inference/completeness stages are characterised by theorems for every template and every "
               "instance of the primitives; the key material is proved to be the generator's output; the grid ties the model "
               "to lib/jwk.c and lib/openssl/{oct,rsa,ec}.c and the per-algorithm PREP hooks (regenerated prepTable); "
               "non-repetition of OpenSSL's generator is validated statistically, not proved")
ASSUMPTIONS = ["RSA generation in the executable model is a stub (placeholder members); generated RSA/EC members are masked in "
               "the comparison and checked arithmetically on the implementation's keys instead",
               "freshness is a statistical statement: N independent draws of >= 96 bits are pairwise distinct"]
BUDGET = {"quick": 900, "thorough": 3000}

SIGN_OPS, WRAP_OPS, ENCR_OPS, EXCH_OPS = ["sign", "verify"], ["wrapKey", "unwrapKey"], ["encrypt", "decrypt"], ["deriveKey"]
GEN_MEMBERS = {"oct": ["k"], "EC": ["x", "y", "d"], "RSA": ["n", "e", "d", "p", "q", "dp", "dq", "qi"]}


def strip(a):
    return {k: v for k, v in a.items() if not k.startswith("_")}


def canon(op, a, r):
    if op == "jwk.gen" and isinstance(r, dict):
        r = {k: v for k, v in r.items() if k != "rand_calls"}
        j = r.get("jwk")
        if r.get("ok") and isinstance(j, dict) and j.get("kty") in ("EC", "RSA"):
            j = dict(j)
            for m in GEN_MEMBERS[j["kty"]]:
                if m in j and not (isinstance(a.get("jwk"), dict) and m in a["jwk"]):
                    j[m] = "<generated>"
            r = dict(r, jwk=j)
    return r


def kinds(ctx):
    out = {}
    for a in ctx.tables["algs"]:
        out.setdefault(a["name"], a["kind"])
    return out


# what RFC 7518 says an algorithm name implies for a key (independent of the table regenerated from the code)
SPEC_PREP = {}
for _a, _n in (("HS256", 32), ("HS384", 48), ("HS512", 64), ("A128KW", 16), ("A192KW", 24), ("A256KW", 32), ("A128GCMKW", 16), ("A192GCMKW", 24),
               ("A256GCMKW", 32), ("A128GCM", 16), ("A192GCM", 24), ("A256GCM", 32), ("A128CBC-HS256", 32), ("A192CBC-HS384", 48), ("A256CBC-HS512", 64),
               ("PBES2-HS256+A128KW", 16), ("PBES2-HS384+A192KW", 24), ("PBES2-HS512+A256KW", 32)):
    SPEC_PREP[_a] = {"alg": _a, "kty": "oct", "bytes": _n}
for _a, _c in (("ES256", "P-256"), ("ES384", "P-384"), ("ES512", "P-521"), ("ES256K", "secp256k1")):
    SPEC_PREP[_a] = {"alg": _a, "kty": "EC", "crv": _c, "crv_strict": True}
for _a in ("ECDH-ES", "ECDH-ES+A128KW", "ECDH-ES+A192KW", "ECDH-ES+A256KW", "ECDH", "ECMR"):
    SPEC_PREP[_a] = {"alg": _a, "kty": "EC", "crv": "P-521" if _a in ("ECDH", "ECMR") else "P-521", "crv_strict": False}
for _a in ("RS256", "RS384", "RS512", "PS256", "PS384", "PS512", "RSA1_5", "RSA-OAEP", "RSA-OAEP-224", "RSA-OAEP-256", "RSA-OAEP-384", "RSA-OAEP-512"):
    SPEC_PREP[_a] = {"alg": _a, "kty": "RSA"}


def prep_rows(ctx):
    rows = dict(SPEC_PREP)
    # default curves of the key-agreement algorithms are the library's choice, not the RFC's: taken from the code
    for r in ctx.tables["prep"]:
        if r["alg"] in rows and not rows[r["alg"]].get("crv_strict") and rows[r["alg"]].get("kty") == "EC":
            rows[r["alg"]] = dict(rows[r["alg"]], crv=r.get("crv"), crv_strict=bool(r.get("crv_strict")))
    return rows


def table_mismatches(ctx):
    """the regenerated PREP table against the RFC: every difference is a violation (the model follows the table)"""
    out = []
    reg = {r["alg"]: r for r in ctx.tables["prep"]}
    for a, sp in SPEC_PREP.items():
        r = reg.get(a)
        if r is None:
            out.append("%s has no PREP hook" % a)
            continue
        for k in ("kty", "bytes"):
            if sp.get(k) is not None and r.get(k) != sp[k]:
                out.append("%s implies %s=%r, RFC 7518 says %r" % (a, k, r.get(k), sp[k]))
        if sp.get("crv_strict") and (r.get("crv") != sp["crv"] or not r.get("crv_strict")):
            out.append("%s must fix the curve to %s and refuse another (table: crv=%r strict=%r)" % (a, sp["crv"], r.get("crv"), r.get("crv_strict")))
    return out


def i_of(b):
    return int.from_bytes(G.b64d(b), "big")


def expected(ctx, t):
    """what the property demands of jose_jwk_gen for template t: ('reject', why) | ('accept', checks) | ('any', why)"""
    if not isinstance(t, dict):
        return ("reject", "template is not an object")
    rows = prep_rows(ctx)
    alg = t.get("alg")
    row = rows.get(alg) if isinstance(alg, str) else None
    kty = t.get("kty")
    if "kty" in t and not isinstance(kty, str):
        return ("reject", "kty is not a string")
    if "alg" in t and not isinstance(alg, str):
        return ("any", "alg is not a string")
    if alg == "dir" and kty is not None and kty != "oct":
        return ("reject", "alg dir (direct use of a symmetric key) contradicts kty %r" % kty)
    if row:
        if kty is not None and kty != row["kty"]:
            return ("reject", "kty %r contradicts alg %s (%s)" % (kty, alg, row["kty"]))
        kty = row["kty"]
    if kty is None:
        return ("reject", "nothing generable: neither kty nor a known alg")
    if kty not in ("oct", "EC", "RSA"):
        return ("reject", "unknown kty %r" % kty)
    for m in GEN_MEMBERS[kty]:
        if m in t and not (kty == "RSA" and m == "e"):
            return ("any", "template presets generated member %s" % m)
    if (kty != "oct" and "bytes" in t) or (kty != "RSA" and ("bits" in t or "e" in t)) or (kty != "EC" and "crv" in t):
        return ("any", "size member of another key type")
    want = {"kty": kty}
    if kty == "oct":
        b = t.get("bytes")
        if "bytes" in t and (not isinstance(b, int) or isinstance(b, bool)):
            return ("reject", "bytes is not an integer")
        imp = row.get("bytes") if row else None
        if imp is not None:
            if b not in (None, 0) and b != imp:
                return ("reject", "bytes %r contradicts alg %s (%d)" % (b, alg, imp))
            b = imp
        if b is None:
            return ("reject", "oct key without a size")
        if b <= 0 or b > 1024:
            return ("reject", "unsupported size %d" % b)
        want["bytes"] = b
    elif kty == "EC":
        c = t.get("crv")
        if "crv" in t and not isinstance(c, str):
            return ("reject", "crv is not a string")
        imp = row.get("crv") if row else None
        if imp is not None and row.get("crv_strict"):
            if c is not None and c != imp:
                return ("reject", "crv %r contradicts alg %s (%s)" % (c, alg, imp))
            c = imp
        elif c is None:
            c = imp or "P-256"
        if c not in EC.CURVES:
            return ("reject", "unsupported curve %r" % c)
        want["crv"] = c
    else:
        bits = t.get("bits", 2048)
        if not isinstance(bits, int) or isinstance(bits, bool):
            return ("reject", "bits is not an integer")
        if bits < 2048:
            return ("reject", "RSA size %d below 2048" % bits)
        if bits > 2 ** 31 - 1:
            return ("reject", "RSA size %d cannot be honoured" % bits)
        if bits % 8 != 0 or bits > 8192:
            return ("any", "size OpenSSL rounds or takes minutes for")
        want["bits"] = bits
        e = t.get("e", 65537)
        if isinstance(e, str):
            try:
                ev = i_of(e)
            except Exception:
                return ("reject", "e is not base64url")
        elif isinstance(e, int) and not isinstance(e, bool):
            ev = e
        else:
            return ("reject", "e of type %s" % type(e).__name__)
        if ev < 0:
            return ("reject", "negative exponent")
        if ev % 2 == 0 or ev == 1:
            return ("reject", "even or trivial exponent %d" % ev)
        if ev != 3 and ev < 65537:
            return ("any", "small odd exponent %d (the library's own rule refuses it)" % ev)
        if ev.bit_length() > 256:
            return ("any", "oversized exponent")
        want["e"] = ev
    if "use" in t and not isinstance(t["use"], str):
        return ("any", "use is not a string")
    if isinstance(alg, str) and "use" not in t and "key_ops" not in t:
        k = kinds(ctx).get(alg)
        ops = {"sign": SIGN_OPS, "wrap": WRAP_OPS, "encr": ENCR_OPS, "exch": EXCH_OPS}.get(k)
        if ops:
            want["key_ops"] = ops
    return ("accept", want)


def check_key(t, j, want):
    """independent validity oracle for a generated key; returns an error text or None"""
    if not isinstance(j, dict):
        return "result is not an object"
    for m in ("bytes", "bits"):
        if m in j:
            return "generation-only member %r is still there" % m
    if j.get("kty") != want["kty"]:
        return "kty %r, expected %r" % (j.get("kty"), want["kty"])
    for k, v in t.items():
        if k not in ("bytes", "bits", "e") and j.get(k) != v:
            return "template member %r changed or lost" % k
    if "key_ops" in want and j.get("key_ops") != want["key_ops"]:
        return "key_ops %r, expected %r inferred from alg" % (j.get("key_ops"), want["key_ops"])
    if "key_ops" not in want and "key_ops" not in t and "key_ops" in j:
        return "key_ops %r appeared although nothing asks for it" % (j.get("key_ops"),)
    try:
        if want["kty"] == "oct":
            n = len(G.b64d(j["k"]))
            if n != want["bytes"]:
                return "%d key bytes, %d requested" % (n, want["bytes"])
        elif want["kty"] == "EC":
            if j.get("crv") != want["crv"]:
                return "curve %r, expected %r" % (j.get("crv"), want["crv"])
            c = EC.CURVES[want["crv"]]
            for m in ("x", "y", "d"):
                if len(G.b64d(j[m])) != c["len"]:
                    return "%s has %d bytes, the curve's width is %d" % (m, len(G.b64d(j[m])), c["len"])
            if not EC.valid_key(j):
                return "d*G != (x, y) or point off the curve"
        else:
            n, e, d, p, q = (i_of(j[m]) for m in ("n", "e", "d", "p", "q"))
            if n.bit_length() != want["bits"]:
                return "modulus of %d bits, %d requested" % (n.bit_length(), want["bits"])
            if e != want["e"]:
                return "public exponent %d, %d requested" % (e, want["e"])
            if p * q != n:
                return "n != p*q"
            if (d * e) % ((p - 1) * (q - 1) // __import__("math").gcd(p - 1, q - 1)) != 1:
                return "d*e != 1 mod lcm(p-1, q-1)"
            if i_of(j["dp"]) != d % (p - 1) or i_of(j["dq"]) != d % (q - 1) or (i_of(j["qi"]) * q) % p != 1:
                return "CRT members inconsistent"
    except Exception as ex:
        return "member missing or undecodable: %r" % (ex,)
    return None


def p_gen(ctx):
    def p(op, a, real):
        if "crash" in real or op != "jwk.gen":
            return None
        t = a["jwk"]
        ex = expected(ctx, t)
        if ex[0] == "reject" and real.get("ok"):
            site = "gen:accepts-bad-template"
            if ex[1].startswith("alg dir"):
                site = "gen:alg-dir"
            elif "cannot be honoured" in ex[1]:
                site = "gen:rsa-bits-narrowed"
            elif "negative exponent" in ex[1]:
                site = "gen:rsa-negative-exponent"
            return (site, "%s, yet a key was generated: %s -> %s" % (ex[1], json.dumps(t), json.dumps(real.get("jwk"))[:300]))
        if ex[0] == "accept":
            if not real.get("ok"):
                return ("gen:refuses-valid-template", "refused: %s" % json.dumps(t))
            err = check_key(t, real.get("jwk"), ex[1])
            if err:
                return ("gen:invalid-key", "%s for template %s: %s" % (err, json.dumps(t), json.dumps(real.get("jwk"))[:300]))
        return None
    return p


def templates(ctx):
    rng = ctx.rng
    quick = ctx.tier == "quick"
    names = sorted(kinds(ctx)) + ["nope", "", "HS257"]
    out = []
    ktys = [None, "oct", "EC", "RSA", "x", "OCT", "ec", "Rsa"]          # names are case-sensitive (RFC 7517/7518)
    crvs = [None, "P-256", "P-384", "P-521", "secp256k1", "P-192", 5, "p-256", "SECP256K1"]
    byts = [None, -1, 0, 1, 16, 32, 1024, 1025, "16", 1.5, True, 2 ** 32 + 16, 2 ** 32 + 32, 2 ** 31]
    names = names + ["hs256", "Es256", "a128kw", "ecdh-es", "RSA-oaep"]
    # alg x kty x (crv | bytes): everything except RSA generation
    for alg in [None] + names:
        for kty in ktys:
            base = {}
            if alg is not None:
                base["alg"] = alg
            if kty is not None:
                base["kty"] = kty
            out.append(dict(base))
            for c in crvs[1:]:
                out.append(dict(base, crv=c))
            for b in byts[1:]:
                out.append(dict(base, bytes=b))
    for pre in ({"use": "sig"}, {"use": "enc"}, {"key_ops": ["sign"]}, {"key_ops": []}, {"use": "sig", "key_ops": ["verify"]}, {"kid": "k1", "x5t": "abc"}, {"use": 5}):
        for alg in ("HS256", "ES256", "A128GCM", "ECDH-ES", "A128KW", "ECMR", None):
            t = dict(pre)
            if alg:
                t["alg"] = alg
            else:
                t.update(kty="oct", bytes=16)
            out.append(t)
    for t in ({"kty": 5}, {"kty": None}, {"alg": 5, "kty": "oct", "bytes": 8}, {"kty": "oct", "bytes": 8, "k": "AAAA"}, {"kty": "EC", "x": "AAAA"},
              {"kty": "EC", "crv": "P-256", "d": "AAAA"}, {"keys": []}):
        out.append(t)
    rsa_free, rsa_gen = [], []
    for t in out:
        ex = expected(ctx, t)
        (rsa_gen if (ex[0] != "reject" and (t.get("kty") == "RSA" or prep_rows(ctx).get(t.get("alg"), {}).get("kty") == "RSA")) else rsa_free).append(t)
    # RSA: rejections are cheap, generations are capped
    bits = [1024, 2047, 2 ** 32 + 512, 2 ** 32 + 2048, -2048, "2048", 2048.0, None, True]
    exps = [1, 4, 5, 65536, -1, 0, "AQ", "Ag", "AAAB", True, False, {}, [], None, 1.5, {"e": 3}, "!!", 2 ** 63 - 1, 2 ** 62 + 1]
    rsa = []
    for b in bits:
        rsa.append({"kty": "RSA", "bits": b})
        rsa.append({"alg": "RS256", "bits": b})
    for e in exps:
        rsa.append({"kty": "RSA", "e": e})
        rsa.append({"alg": "PS256", "bits": 2048, "e": e})
    good = [{"kty": "RSA"}, {"kty": "RSA", "bits": 2048, "e": 3}, {"kty": "RSA", "e": 65537}, {"kty": "RSA", "e": "AQAB"}, {"alg": "RSA-OAEP"},
            {"kty": "RSA", "e": 65539}, {"alg": "RS512", "use": "sig"}, {"kty": "RSA", "bits": 2049}, {"kty": "RSA", "e": "Aw"}]
    # sizes other than the default are judged in both tiers (3072 is named by the property)
    good += [{"kty": "RSA", "bits": 3072}, {"alg": "PS384", "bits": 2560}]
    if not quick:
        good += [{"kty": "RSA", "bits": 4096, "e": 3}] + rsa_gen[:20] + [{"alg": a_} for a_ in ("RS256", "RS384", "PS512", "RSA1_5", "RSA-OAEP-256", "RSA-OAEP-512")]
    else:
        good += rsa_gen[:4] + [{"alg": rng.choice(["RS256", "RS384", "PS512", "RSA1_5", "RSA-OAEP-256", "RSA-OAEP-384"])}]
    return rsa_free, rsa, good


def run_grid(ctx):
    rng = ctx.rng
    p = p_gen(ctx)
    free, rsa, good = templates(ctx)
    ops = [("jwk.gen", {"jwk": t, "rand": rng.randbytes(1100).hex()}) for t in free + rsa]
    amap = {}
    def pc(op, args, real):
        return p(op, args, real)
    real, model = ctx.compare(ops, pc, lambda o, a, r: json.dumps(a["jwk"], sort_keys=True), canon=canon)
    ops2 = [("jwk.gen", {"jwk": t, "rand": rng.randbytes(64).hex()}) for t in good]
    real2, model2 = ctx.compare(ops2, pc, lambda o, a, r: json.dumps(a["jwk"], sort_keys=True), canon=canon, chunk_min=1)
    ctx.count("templates", len(ops) + len(ops2))
    ctx.count("rsa-generations", sum(1 for r in real2 if r.get("ok")))
    acc = [(a["jwk"], r["jwk"]) for (o, a), r in zip(ops + ops2, real + real2) if r.get("ok")]
    ctx.count("accepted", len(acc))
    ctx.count("rejected", len(ops) + len(ops2) - len(acc))
    use_keys(ctx, acc)


def use_keys(ctx, acc):
    """a generated key works with the algorithm it was generated for"""
    rng = ctx.rng
    k = kinds(ctx)
    pay = G.b64u(b"generated keys must work")
    st1 = []
    exch = []
    for t, j in acc:
        if expected(ctx, t)[0] != "accept":
            continue
        alg = t.get("alg")
        kind = k.get(alg)
        if "use" in t or "key_ops" in t or not isinstance(alg, str):
            continue
        if kind == "sign":
            st1.append(("jws.sig", {"jws": {"payload": pay}, "jwk": j, "_j": j, "_alg": alg}))
        elif kind == "wrap":
            if alg == "dir" and len(G.b64d(j.get("k", ""))) not in (16, 24, 32, 48, 64):
                continue        # a direct key only fits the content algorithm of its length
            st1.append(("jwe.enc", {"jwe": {"protected": {"enc": "A128GCM"} if alg != "dir" else {}}, "jwk": j, "pt": "c0de", "rand": rng.randbytes(300).hex(), "_j": j, "_alg": alg}))
        elif kind == "encr":
            st1.append(("jwe.enc_cek", {"jwe": {}, "cek": j, "pt": "c0de", "rand": rng.randbytes(64).hex(), "_j": j, "_alg": alg}))
        elif kind == "exch":
            exch.append((alg, j))
    # keys generated for a key-exchange algorithm exchange with one another (same algorithm, same curve), both ways agree
    import ecmath as M
    byc = {}
    for alg, j in exch:
        byc.setdefault((alg, j.get("crv")), []).append(j)
    xo = []
    for (alg, crv), js_ in byc.items():
        for a_, b_ in zip(js_, js_[1:] + js_[:1]):
            xo.append(("jwk.exc", {"prv": a_, "pub": K.public(b_), "_alg": alg}))
            xo.append(("jwk.exc", {"prv": b_, "pub": K.public(a_), "_alg": alg}))
    xr = ctx.real([(o, strip(a)) for o, a in xo[:80]])
    for i in range(0, len(xr) - 1, 2):
        ctx.evaluations += 2
        (o, a), r1, r2 = xo[i], xr[i], xr[i + 1]
        if "v" not in r1 or "v" not in r2:
            ctx.pfails.append(("gen:key-unusable", "keys generated for %s do not exchange: %s" % (a["_alg"], json.dumps(strip(a))[:300]), o, strip(a), r1))
        elif a["_alg"] == "ECDH" and r1["v"] != r2["v"]:
            ctx.pfails.append(("gen:key-unusable", "keys generated for ECDH exchange to different values", o, strip(a), r1))
        elif not M.valid_key(r1["v"]):
            ctx.pfails.append(("gen:key-unusable", "exchange of generated keys gives a point off their curve", o, strip(a), r1))
    ctx.count("exchange-keys-used", len(xr))
    if len(st1) > 400:
        st1 = rng.sample(st1, 400)
    sent = [(o, strip(a)) for o, a in st1]
    real = ctx.real(sent)
    st2 = []
    for (o, a), r in zip(st1, real):
        ctx.evaluations += 1
        if not r.get("ok"):
            ctx.pfails.append(("gen:alg-dir" if a["_alg"] == "dir" else "gen:key-unusable",
                               "the key generated for %s is refused by %s: %s" % (a["_alg"], o, json.dumps(a["_j"])[:300]), o, strip(a), r))
            continue
        if o == "jws.sig":
            st2.append(("jws.ver", {"jws": r["jws"], "jwk": K.public(a["_j"]) if a["_j"]["kty"] != "oct" else a["_j"], "all": True, "_alg": a["_alg"]}))
        elif o == "jwe.enc":
            st2.append(("jwe.dec", {"jwe": r["jwe"], "jwk": a["_j"], "rand": "00" * 600, "_alg": a["_alg"]}))
        else:
            st2.append(("jwe.dec_cek", {"jwe": r["jwe"], "cek": a["_j"], "_alg": a["_alg"]}))
    def p2(op, a, real):
        good = real.get("r") if op == "jws.ver" else (real.get("ok") and real.get("pt") == "c0de")
        if not good:
            return ("gen:key-unusable", "round trip with the key generated for %s failed (%s)" % (a.get("_alg"), op))
        return None
    sent2 = [(o, strip(a)) for o, a in st2]
    am = {id(s[1]): a for s, (o, a) in zip(sent2, st2)}
    ctx.compare(sent2, lambda op, args, real: p2(op, am[id(args)], real), lambda o, a, r: json.dumps(a, sort_keys=True)[:2000])
    ctx.count("keys-used", len(st2))


def run_fresh(ctx):
    """no tape: the library's real generator; every random output must be pairwise distinct"""
    pool = K.pool(ctx.jose)
    quick = ctx.tier == "quick"
    n = 150 if quick else 1500
    ops = []
    ops += [("jwk.gen", {"jwk": {"kty": "oct", "bytes": 16}})] * n
    ops += [("jwk.gen", {"jwk": {"alg": "HS256"}})] * n
    ops += [("jwk.gen", {"jwk": {"kty": "EC", "crv": "P-256"}})] * (n // 2)
    ops += [("jwk.gen", {"jwk": {"alg": "ES512"}})] * (n // 3)
    ops += [("jwk.gen", {"jwk": {"kty": "RSA"}})] * (4 if quick else 16)
    encs = []
    for enc in E.ENCS:
        encs += [("jwe.enc", {"jwe": {"protected": {"alg": "A128KW", "enc": enc}}, "jwk": pool["oct-16"], "pt": "00"})] * (n // 3)
    encs += [("jwe.enc", {"jwe": {"protected": {"alg": "PBES2-HS256+A128KW", "enc": "A128GCM", "p2c": 1000}}, "jwk": "pw", "pt": "00"})] * (n // 3)
    encs += [("jwe.enc", {"jwe": {"protected": {"alg": "ECDH-ES", "enc": "A128GCM"}}, "jwk": K.public(pool["EC-P256"]), "pt": "00"})] * (n // 3)
    encs += [("jwe.enc", {"jwe": {"protected": {"alg": "A256GCMKW", "enc": "A128GCM"}}, "jwk": pool["oct-32"], "pt": "00"})] * (n // 3)
    encs += [("jwe.enc_jwk", {"jwe": {"protected": {"alg": "A128KW", "enc": "A256GCM"}}, "jwk": pool["oct-16"], "cek": {}})] * (n // 3)
    encs += [("jwe.enc_jwk", {"jwe": {"protected": {"alg": "RSA-OAEP", "enc": "A128CBC-HS256"}}, "jwk": K.public(pool["RSA-2048"]), "cek": {}})] * (n // 6)
    real = ctx.real(ops + encs, chunk_min=10)
    ctx.evaluations += len(real)
    seen = {}
    def note(kind, val, op, args):
        if val is None:
            return
        key = (kind, val)
        if key in seen:
            ctx.pfails.append(("fresh:" + kind, "the same %s was produced twice by independent calls: %s" % (kind, val[:80]), op, args, {}))
        seen[key] = True
        ctx.count("fresh:" + kind)
    for (o, a), r in zip(ops + encs, real):
        if not r.get("ok"):
            ctx.pfails.append(("fresh:setup", "operation refused: " + json.dumps(a)[:200], o, a, r))
            continue
        if o == "jwk.gen":
            j = r["jwk"]
            note({"oct": "oct k", "EC": "EC d", "RSA": "RSA n"}[j["kty"]] + ("" if j["kty"] != "oct" else " (%d bytes)" % len(G.b64d(j["k"]))),
                 j.get("k") or j.get("d") if j["kty"] != "RSA" else j.get("n"), o, a)
            if j["kty"] == "RSA":
                note("RSA p", j.get("p"), o, a)
        else:
            tok = r["jwe"]
            hdr = dict(tok.get("header") or {})
            try:
                hdr.update(json.loads(G.b64d(tok["protected"])))
            except Exception:
                pass
            alg = hdr.get("alg")
            if o == "jwe.enc":
                note("content iv (%s)" % hdr.get("enc"), tok.get("iv"), o, a)
            if o == "jwe.enc_jwk":
                note("content key", r.get("cek", {}).get("k"), o, a)
            if alg and alg.startswith("PBES2"):
                note("p2s", hdr.get("p2s"), o, a)
            if alg and alg.startswith("ECDH"):
                note("epk", (hdr.get("epk") or {}).get("x"), o, a)
            if alg and alg.endswith("GCMKW"):
                note("GCMKW iv", hdr.get("iv"), o, a)
            if alg in ("A128KW", "A256GCMKW", "RSA-OAEP") and o == "jwe.enc":
                note("encrypted_key (fresh CEK)", tok.get("encrypted_key"), o, a)
    # every byte position of a random output varies over the draws (a generator call that fills only part of its buffer,
    # or a fixed tail, passes the whole-value distinctness above)
    bykind = {}
    for (kind, val) in seen:
        if kind.startswith(("RSA", "encrypted_key")):
            continue
        try:
            bykind.setdefault(kind, []).append(G.b64d(val))
        except Exception:
            pass
    for kind, vals in bykind.items():
        L = min(len(v) for v in vals)
        if len(vals) >= 20:
            stuck = [i for i in range(L) if len({v[i] for v in vals}) == 1]
            if stuck:
                ctx.pfails.append(("fresh:stuck-bytes", "%s: byte positions %s had the same value in all %d independent draws" % (kind, stuck[:12], len(vals)), "jwk.gen", {}, {}))
            ctx.count("fresh:byte-positions-checked", L)
    # several recipients in ONE call with ONE template: each recipient gets its own generated values
    multi = []
    tmpls = (None, {}, {"header": {"x-note": "shared"}})
    for t in tmpls:
        for keys in ([K.public(pool["EC-P256"]), K.public(pool["EC-P256-b"]), K.public(pool["EC-P256"])], [pool["oct-32"], pool["oct-32"]], ["pw one", "pw two"]):
            alg = "ECDH-ES+A128KW" if isinstance(keys[0], dict) and keys[0].get("kty") == "EC" else "A256GCMKW" if isinstance(keys[0], dict) else "PBES2-HS256+A128KW"
            a = {"jwe": {"protected": {"enc": "A128GCM"}, "unprotected": dict({"alg": alg}, **({"p2c": 1000} if alg.startswith("PBES2") else {}))}, "jwk": keys, "pt": "00"}
            if t is not None:
                a["rcp"] = t
            multi += [("jwe.enc", a)] * 3
    for (o, a), r in zip(multi, ctx.real(multi, chunk_min=4)):
        ctx.evaluations += 1
        if not r.get("ok") or not isinstance(r["jwe"].get("recipients"), list) or len(r["jwe"]["recipients"]) != len(a["jwk"]):
            ctx.pfails.append(("fresh:setup", "one call for %d keys refused or malformed: %s" % (len(a["jwk"]), json.dumps(r)[:300]), o, a, r))
            continue
        for m in ("epk", "iv", "p2s", "tag"):
            vals = [json.dumps((rc.get("header") or {}).get(m), sort_keys=True) for rc in r["jwe"]["recipients"] if (rc.get("header") or {}).get(m) is not None]
            if len(set(vals)) != len(vals):
                ctx.pfails.append(("fresh:per-recipient " + m, "two recipients of one JWE carry the same %s: %s" % (m, json.dumps(r["jwe"]["recipients"])[:400]), o, a, r))
            for v in vals:
                note("per-recipient " + m, v, o, a)


def run(ctx):
    for m in table_mismatches(ctx):
        ctx.pfails.append(("gen:prep-table", m, "tables", {}, {}))
    run_grid(ctx)
    run_fresh(ctx)
    run_rng_failure(ctx)


def run_rng_failure(ctx):
    """every place the library asks the random generator for key material, IVs or salts: when that request fails
    (RAND_bytes reports failure and writes nothing) the operation fails — it never hands out whatever the buffer held"""
    import jwegen as E
    rng = ctx.rng
    pool = K.pool(ctx.jose)
    cases = [("jwk.gen", {"jwk": {"kty": "oct", "bytes": 16}}), ("jwk.gen", {"jwk": {"alg": "A256GCM"}}), ("jwk.gen", {"jwk": {"alg": "HS512"}}),
             ("jwk.gen", {"jwk": {"alg": "A128KW"}})]
    for enc in E.ENCS:
        cases.append(("jwe.enc_cek", {"jwe": {"protected": {"enc": enc}}, "cek": {"kty": "oct", "k": G.b64u(rng.randbytes(E.CEKLEN[enc]))}, "pt": "c0de"}))
    for w, kn in (("A128KW", "oct-16"), ("A256GCMKW", "oct-32"), ("PBES2-HS256+A128KW", None), ("RSA-OAEP", "RSA-2048"), ("ECDH-ES+A128KW", "EC-P256"), ("dir", None)):
        key = "a password" if w.startswith("PBES2") else dict(pool["oct-32"], alg="A256GCM") if w == "dir" else pool[kn]
        prot = {"enc": "A256GCM"} if w == "dir" else {"alg": w, "enc": "A128CBC-HS256"}
        if w.startswith("PBES2"):
            prot["p2c"] = 1000
        cases.append(("jwe.enc", {"jwe": {"protected": prot}, "jwk": key, "pt": "c0de"}))
    ops, meta = [], []
    base = ctx.real([(o, dict(a, rand=rng.randbytes(400).hex())) for o, a in cases])
    for (o, a), r0 in zip(cases, base):
        if not r0.get("ok"):
            ctx.pfails.append(("gen:rng-setup", "%s refused without any fault: %s" % (o, json.dumps(a)[:200]), o, a, r0))
            continue
        for k in range(0, 4):
            ops.append((o, dict(a, rand=rng.randbytes(400).hex(), rand_fail=k)))
            meta.append(k)
    real = ctx.real(ops)
    fired = 0
    for (o, a), k, r in zip(ops, meta, real):
        ctx.evaluations += 1
        ctx.count("op:rng-failure")
        if "crash" in r:
            ctx.pfails.append(("crash:" + o, r["crash"], o, a, r))
            continue
        if r.get("ok"):
            ctx.count("rng-failure:completed")
            # request number k was made (the library went on to request k+1 or finished) and was told it failed
            if r.get("rand_calls", 0) > k:
                out = r.get("jwk") or r.get("jwe") or {}
                ctx.pfails.append(("gen:rng-failure-ignored", "%s completed although request %d (of %d) to the random generator reported failure: %s"
                                   % (o, k, r.get("rand_calls"), json.dumps(out)[:300]), o, a, r))
        else:
            fired += 1
    ctx.count("rng-failure:refused", fired)
    if fired == 0:
        ctx.pfails.append(("gen:rng-failure-harness", "no injected generator failure made any operation fail", "jwk.gen", {}, {}))


def replay(ctx, rp):
    p = p_gen(ctx)
    ctx.compare(rp.get("ops", []), lambda o, a, r: p(o, a, r), None, canon=canon)
