"""C07 — IO chains: chunking independence, failure and bound propagation."""
import hashlib, itertools, json, zlib
from props.c08 import ref_enc, ref_dec

ID = "C07"
CORPUS_FIRST = True
RULE = ("io.run on chains built from the public constructors (malloc/buffer/file sinks, b64 enc/dec, hash, "
        "deflate/inflate, multiplexer any/all) plus a recording probe sink that fails on a chosen call; all "
        "compositions of every length <=10 into feed sizes for the b64/plex/buffer chains, random compositions "
        "around 3/4/16/48/64/4096/65536, every failure position of every probe, buffer capacities 0..need+1; "
        "distinct = distinct (chain, feeds); non-trivial = at least one non-empty feed")
EXPLANATION = ("Theorems in Jose/Props/C07.lean are about the chain model Jose/IO.lean; this run ties that model to "
               "lib/io.c, lib/b64.c, lib/openssl/hash.c, lib/zlib/deflate.c and evaluates the property directly: "
               "every chunking of the same data must give the verdict and sink bytes of a denotational (one-shot) "
               "reference written in Python, failing sinks must make the head fail, dropped branches get no calls.")
ASSUMPTIONS = ["Python hashlib/zlib/base64 as independent references for the direct oracle",
               "transformer stages (hash, inflate, deflate) are modelled at verdict level: what they emit in total "
               "and whether the run succeeds, not how their output is split into downstream feeds"]
BUDGET = {"quick": 400, "thorough": 3000}
HASHES = {"S1": "sha1", "S224": "sha224", "S256": "sha256", "S384": "sha384", "S512": "sha512"}
MAXC = 262144


# ---- denotational reference (one-shot semantics), independent of the Lean model ----

def sem(chain, data, probe_ok):
    """-> (ok, [leaf expectation or None]) ; probe_ok: iterator over observed probe verdicts in leaf order"""
    k = chain[0]
    if k in ("malloc", "file"):
        return True, [data]
    if k == "buffer":
        return (len(data) <= chain[1]), [data if len(data) <= chain[1] else None]
    if k == "probe":
        return next(probe_ok), [None]
    if k == "b64enc":
        return sem(chain[1], ref_enc(data), probe_ok)
    if k == "b64dec":
        d = ref_dec(data)
        if d is None:
            ok, lv = sem(chain[1], b"", probe_ok)
            return False, [None] * len(lv)
        return sem(chain[1], d, probe_ok)
    if k == "hash":
        return sem(chain[2], hashlib.new(HASHES[chain[1]], data).digest(), probe_ok)
    if k == "deflate":
        # only used directly in front of inflate
        assert chain[1][0] == "inflate"
        return sem(chain[1][1], data, probe_ok)
    if k == "inflate":
        try:
            o = zlib.decompressobj(-15)
            d = o.decompress(data) + o.flush()
        except zlib.error:
            ok, lv = sem(chain[1], b"", probe_ok)
            return False, [None] * len(lv)
        return sem(chain[1], d, probe_ok)
    if k == "jwedec":
        # content decryption stream: the genuine ciphertext gives the plaintext, anything else fails at done
        a = chain[1]
        if data.hex() == a["_ct"]:
            return sem(chain[2], bytes.fromhex(a["_pt"]), probe_ok)
        ok, lv = sem(chain[2], b"", probe_ok)
        return False, [None] * len(lv)
    if k == "plex":
        res = [sem(c, data, probe_ok) for c in chain[2]]
        oks = [r[0] for r in res]
        ok = (all(oks) if chain[1] else any(oks)) and len(oks) > 0
        leaves = []
        for r in res:
            leaves += r[1] if r[0] else [None] * len(r[1])
        if chain[1] and not ok:
            leaves = [None] * len(leaves)
        return ok, leaves
    raise ValueError(k)


def probes_in(chain):
    k = chain[0]
    if k == "probe":
        return [chain[1]]
    if k == "plex":
        return [p for c in chain[2] for p in probes_in(c)]
    if k in ("malloc", "file", "buffer"):
        return [None] if False else []
    return probes_in(chain[-1])


def max_feed(chain):
    return chain[0] == "inflate"


def p_check(op, args, real):
    if op != "io.run" or "crash" in real:
        return None
    chain = args["chain"]
    if real.get("nochain"):
        return ("io:ctor", "constructor refused a valid chain %s" % json.dumps(chain))
    feeds = [bytes.fromhex(f) for f in args["feeds"]]
    data = b"".join(feeds)
    verdict = all(real["feeds"]) and real["done"] is True
    leaves = real["leaves"]
    # probes: observed failures, and "no call after a failure"
    fails = probes_in(chain)
    plogs = [l["log"] for l in leaves if l["k"] == "probe"]
    observed = []
    for fa, log in zip(fails, plogs):
        failed = fa is not None and len(log) > fa
        observed.append(not failed)
        if fa is not None and len(log) > fa + 1:
            return ("io:dropped-called", "probe failing at call %d received %d calls: %s" % (fa, len(log), json.dumps(args)[:300]))
    # buffer sinks never beyond capacity
    for l in leaves:
        if l["k"] == "buffer" and not l["canary"]:
            return ("io:buffer-overflow", "buffer sink wrote beyond its capacity: " + json.dumps(args)[:300])
    if chain[0] == "inflate" and any(len(f) > MAXC for f in feeds):
        exp_ok, exp_leaves = False, None
    else:
        exp_ok, exp_leaves = sem(chain, data, iter(observed))
    if verdict != exp_ok:
        site = "io:verdict:" + ("reports-success" if verdict else "reports-failure")
        return (site, "verdict %s but one-shot semantics says %s for %s" % (verdict, exp_ok, json.dumps(args)[:400]))
    if verdict and exp_leaves is not None:
        for i, (l, e) in enumerate(zip(leaves, exp_leaves)):
            if e is not None and l["k"] in ("sink", "buffer") and bytes.fromhex(l["data"]) != e:
                return ("io:bytes", "leaf %d holds %s, expected %s for %s" % (i, l["data"][:80], e.hex()[:80], json.dumps(args)[:300]))
            if e is not None and l["k"] == "probe":
                got = b"".join(bytes.fromhex(c[2:]) for c in l["log"] if c.startswith("f:"))
                if got != e:
                    return ("io:bytes", "probe leaf %d got %s expected %s" % (i, got.hex()[:80], e.hex()[:80]))
    return None


def canon(op, args, r):
    """what is compared between model and implementation"""
    if not isinstance(r, dict) or "leaves" not in r:
        return r
    verdict = all(r["feeds"]) and r["done"] is True
    exact = not any(k in json.dumps(args["chain"]) for k in ('"hash"', '"inflate"', '"deflate"', '"jwedec"'))
    if exact:
        return r
    # transformer stages: verdict, and sink contents on success (for probes: the bytes received,
    # not how the transformer split them into calls)
    def lv(l):
        if l["k"] == "probe":
            return {"k": "probe", "data": "".join(c[2:] for c in l["log"] if c.startswith("f:"))}
        return l
    return {"verdict": verdict, "leaves": [lv(l) for l in r["leaves"]] if verdict else None}


def nontrivial(op, args, real):
    return json.dumps(args, sort_keys=True) if any(args["feeds"]) else None


def compositions(n):
    if n == 0:
        yield []
        return
    for bits in range(1 << (n - 1)):
        parts, cur = [], 1
        for i in range(n - 1):
            if bits >> i & 1:
                parts.append(cur)
                cur = 1
            else:
                cur += 1
        parts.append(cur)
        yield parts


def split(data, parts):
    out, i = [], 0
    for p in parts:
        out.append(data[i:i + p].hex())
        i += p
    return out


def with_empties(rng, feeds):
    out = []
    for f in feeds:
        if rng.random() < 0.15:
            out.append("")
        out.append(f)
    if rng.random() < 0.15:
        out.append("")
    return out


def rand_parts(rng, n, around=None):
    parts = []
    left = n
    while left > 0:
        if around and rng.random() < 0.7:
            k = max(1, rng.choice(around) + rng.choice([-2, -1, 0, 0, 1, 2]))
        else:
            k = rng.randrange(1, max(2, min(left, 300)) + 1)
        k = min(k, left)
        parts.append(k)
        left -= k
    return parts


SHAPES_SMALL = [
    ["b64enc", ["malloc"]],
    ["b64dec", ["malloc"]],
    ["b64enc", ["b64dec", ["malloc"]]],
    ["plex", False, [["buffer", 4], ["malloc"]]],
    ["plex", True, [["buffer", 4], ["malloc"]]],
    ["plex", False, [["buffer", 3], ["buffer", 6]]],
    ["b64enc", ["plex", True, [["malloc"], ["buffer", 8]]]],
    ["b64dec", ["plex", False, [["buffer", 2], ["probe", None]]]],
    ["plex", False, []],
    ["plex", True, []],
    ["plex", True, [["b64dec", ["malloc"]], ["b64enc", ["file"]]]],
    ["plex", False, [["b64dec", ["malloc"]], ["b64dec", ["buffer", 3]]]],
    ["hash", "S256", ["malloc"]],
    ["b64enc", ["hash", "S1", ["b64enc", ["buffer", 27]]]],
]


def gen_small(ctx):
    rng = ctx.rng
    ops = []
    alpha = b"QUJDREVGRw-_!= \x00AB9z"
    for shape in SHAPES_SMALL:
        for n in range(0, 11 if ctx.tier == "thorough" else 9):
            datas = [bytes(rng.randrange(256) for _ in range(n)), ref_enc(rng.randbytes(n))[:n].ljust(n, b"A"),
                     bytes(rng.choice(alpha) for _ in range(n))]
            for data in datas:
                for parts in compositions(n):
                    ops.append(("io.run", {"chain": shape, "feeds": split(data, parts)}))
        ops.append(("io.run", {"chain": shape, "feeds": [""]}))
        ops.append(("io.run", {"chain": shape, "feeds": ["", "", ""]}))
    return ops


def has_xform(chain):
    return any(k in json.dumps(chain) for k in ('"hash"', '"inflate"', '"deflate"', '"jwedec"'))


def tame_probes(chain):
    """under a transformer stage the model does not predict the call structure: probes there either
    never fail or fail on their first call"""
    if chain[0] == "probe":
        return ["probe", None if chain[1] is None else 0]
    if chain[0] == "plex":
        return ["plex", chain[1], [tame_probes(c) for c in chain[2]]]
    if chain[0] in ("malloc", "file", "buffer"):
        return chain
    return chain[:-1] + [tame_probes(chain[-1])]


def rand_chain(rng, depth, leaves_ok=True):
    c = rand_chain0(rng, depth)
    return tame_probes(c) if has_xform(c) else c


def rand_chain0(rng, depth):
    r = rng.random()
    if depth <= 0 or r < 0.25:
        k = rng.random()
        if k < 0.4:
            return ["malloc"]
        if k < 0.7:
            return ["buffer", rng.choice([0, 1, 2, 3, 4, 8, 16, 47, 48, 64, 100, 5000, 100000])]
        if k < 0.8:
            return ["file"]
        return ["probe", rng.choice([None, None, 0, 1, 2, 3, 5, 8])]
    if r < 0.45:
        return ["b64enc", rand_chain0(rng, depth - 1)]
    if r < 0.6:
        return ["b64dec", rand_chain0(rng, depth - 1)]
    if r < 0.7:
        return ["hash", rng.choice(list(HASHES)), rand_chain0(rng, depth - 1)]
    if r < 0.78:
        return ["deflate", ["inflate", rand_chain0(rng, depth - 1)]]
    return ["plex", rng.random() < 0.5, [rand_chain0(rng, depth - 1) for _ in range(rng.randrange(0, 4))]]


def gen_random(ctx):
    rng = ctx.rng
    ops = []
    n_chains = 400 if ctx.tier == "quick" else 6000
    for _ in range(n_chains):
        chain = rand_chain(rng, 3)
        n = rng.choice([0, 1, 2, 3, 4, 5, 7, 15, 16, 17, 47, 48, 49, 63, 64, 65, 95, 96, 97, 128, 129, 200, 1000])
        kind = rng.random()
        if kind < 0.5:
            data = rng.randbytes(n)
        elif kind < 0.85:
            data = ref_enc(rng.randbytes(n))
        else:
            d = bytearray(ref_enc(rng.randbytes(n)))
            if d:
                d[rng.randrange(len(d))] = rng.choice(b"=!+/ \x00\xff")
            data = bytes(d)
        for _ in range(4):
            parts = rand_parts(rng, len(data), around=[3, 4, 16, 48, 64])
            ops.append(("io.run", {"chain": chain, "feeds": with_empties(rng, split(data, parts))}))
        ops.append(("io.run", {"chain": chain, "feeds": [data.hex()]}))
        ops.append(("io.run", {"chain": chain, "feeds": [bytes([b]).hex() for b in data[:300]]}
                    if len(data) <= 300 else {"chain": chain, "feeds": [data.hex()]}))
    return ops


def gen_long(ctx):
    rng = ctx.rng
    ops = []
    sizes = [4094, 4095, 4096, 4097, 4098, 65534, 65535, 65536, 65537, 65538]
    if ctx.tier == "thorough":
        sizes += [rng.randrange(1000, 300000) for _ in range(20)]
    chains = [["b64enc", ["malloc"]], ["b64dec", ["malloc"]], ["hash", "S512", ["b64enc", ["malloc"]]],
              ["deflate", ["inflate", ["malloc"]]], ["b64enc", ["b64dec", ["hash", "S256", ["buffer", 32]]]],
              ["plex", True, [["b64enc", ["malloc"]], ["hash", "S384", ["buffer", 48]]]]]
    for n in sizes:
        raw = rng.randbytes(n) if rng.random() < 0.5 else bytes(rng.choice(b"abc ") for _ in range(n))
        for ch in chains:
            if ch[0] == "deflate" and n >= MAXC - 1024:
                # how the deflater splits its output into feeds for the inflater decides whether one of them exceeds
                # the inflater's per-feed limit; the verdict-level model of transformer stages does not predict that
                continue
            data = ref_enc(raw) if ch[0] == "b64dec" else raw
            for _ in range(3):
                parts = rand_parts(rng, len(data), around=[3, 4, 16, 48, 64, 4096, 65536])
                ops.append(("io.run", {"chain": ch, "feeds": split(data, parts)}))
            ops.append(("io.run", {"chain": ch, "feeds": [data.hex()]}))
    # inflate input limit (single feed above MAX_COMPRESSED_SIZE), and truncated / corrupted streams
    comp = zlib.compressobj(9, zlib.DEFLATED, -15)
    z = comp.compress(b"x" * 1000) + comp.flush()
    ops.append(("io.run", {"chain": ["inflate", ["malloc"]], "feeds": [z.hex()]}))
    ops.append(("io.run", {"chain": ["inflate", ["malloc"]], "feeds": [z[:5].hex(), z[5:].hex()]}))
    big = zlib.compressobj(0, zlib.DEFLATED, -15)
    zb = big.compress(rng.randbytes(MAXC + 10)) + big.flush()
    ops.append(("io.run", {"chain": ["inflate", ["malloc"]], "feeds": [zb.hex()]}))
    ops.append(("io.run", {"chain": ["inflate", ["malloc"]], "feeds": [zb[:MAXC].hex(), zb[MAXC:].hex()]}))
    ops.append(("io.run", {"chain": ["inflate", ["malloc"]], "feeds": [zb[:MAXC + 1].hex(), zb[MAXC + 1:].hex()]}))
    return ops


def gen_failures(ctx):
    """every failure position of a probe under every stage kind; buffer capacities around need"""
    rng = ctx.rng
    ops = []
    data = rng.randbytes(100)
    wrappers = [lambda x: x, lambda x: ["b64enc", x], lambda x: ["b64dec", x], lambda x: ["hash", "S256", x],
                lambda x: ["deflate", ["inflate", x]], lambda x: ["plex", True, [["malloc"], x]],
                lambda x: ["plex", False, [["malloc"], x]], lambda x: ["plex", False, [x]],
                lambda x: ["plex", True, [x, ["malloc"]]], lambda x: ["plex", False, [x, x]],
                lambda x: ["b64enc", ["plex", False, [["b64dec", x], ["buffer", 10]]]],
                lambda x: ["hash", "S1", ["b64enc", x]]]
    for w in wrappers:
        for fa in list(range(0, 8)) + [None]:
            ch = w(["probe", fa])
            if has_xform(ch):
                ch = tame_probes(ch)
            d = ref_enc(data) if "b64dec" == ch[0] else data
            for parts in ([len(d)], [1] * len(d), rand_parts(rng, len(d)), rand_parts(rng, len(d), [48, 64])):
                ops.append(("io.run", {"chain": ch, "feeds": split(d, parts)}))
        for n in range(0, 40):
            for cap in {0, 1, n - 1, n, n + 1, ref_len(n) - 1, ref_len(n), ref_len(n) + 1}:
                if cap >= 0:
                    ch = w(["buffer", cap])
                    d = ref_enc(data[:n]) if "b64dec" == ch[0] else data[:n]
                    ops.append(("io.run", {"chain": ch, "feeds": split(d, rand_parts(rng, len(d)))}))
    return ops


def gen_cipher(ctx):
    """the content-decryption stream (AES-GCM, AES-CBC-HMAC, with and without inflate behind it) in front of every
    kind of downstream chain: stages that buffer until done, bounded sinks, multiplexers, failing sinks; plaintext
    lengths around the cipher block size (a final block that is pure padding included); every chunking class"""
    import jwegen as E
    rng = ctx.rng
    lens = [0, 1, 15, 16, 17, 31, 32, 33, 48, 100] + ([4096, 70000] if ctx.tier == "thorough" else [1000])
    mk = []
    for enc in E.ENCS:
        cek = {"kty": "oct", "k": ref_enc(rng.randbytes(E.CEKLEN[enc])).decode()}
        for zip_ in (False, True):
            for n in lens:
                pt = rng.randbytes(n) if not zip_ else bytes(rng.choice(b"ab") for _ in range(n))
                prot = {"enc": enc}
                if zip_:
                    prot["zip"] = "DEF"
                mk.append(("jwe.enc_cek", {"jwe": {"protected": prot}, "cek": cek, "pt": pt.hex(), "rand": rng.randbytes(32).hex()}))
    ops = []
    for (o, a), r in zip(mk, ctx.real(mk)):
        if not r.get("ok"):
            ctx.pfails.append(("io:setup", "content encryption refused", o, a, r))
            continue
        tok = r["jwe"]
        ct = ref_dec(tok["ciphertext"].encode())
        pt = bytes.fromhex(a["pt"])
        head = {"jwe": {k: v for k, v in tok.items() if k != "ciphertext"}, "cek": a["cek"], "_pt": pt.hex(), "_ct": ct.hex()}
        need = ref_len(len(pt))
        downs = [["malloc"], ["b64enc", ["malloc"]], ["b64enc", ["buffer", need]], ["b64enc", ["buffer", max(need - 1, 0)]], ["buffer", len(pt)],
                 ["buffer", max(len(pt) - 1, 0)], ["probe", None], ["probe", 0], ["plex", True, [["malloc"], ["b64enc", ["b64dec", ["malloc"]]]]],
                 ["plex", False, [["buffer", 0], ["b64enc", ["file"]]]], ["hash", "S256", ["b64enc", ["malloc"]]], ["deflate", ["inflate", ["b64enc", ["malloc"]]]]]
        if ctx.tier == "quick" and len(pt) not in (0, 16, 17, 32):
            downs = rng.sample(downs, 4)
        for dn in downs:
            ch = ["jwedec", head, dn]
            chunkings = [[len(ct)], [1] * len(ct) if len(ct) <= 200 else rand_parts(rng, len(ct), [16]), rand_parts(rng, len(ct), [15, 16, 17])]
            for parts in chunkings:
                ops.append(("io.run", {"chain": ch, "feeds": with_empties(rng, split(ct, parts)) if rng.random() < 0.3 else split(ct, parts)}))
        if ct:
            bad = bytearray(ct)
            bad[rng.randrange(len(bad))] ^= 1
            ops.append(("io.run", {"chain": ["jwedec", head, ["b64enc", ["malloc"]]], "feeds": split(bytes(bad), rand_parts(rng, len(bad), [16]))}))
            ops.append(("io.run", {"chain": ["jwedec", head, ["malloc"]], "feeds": split(ct[:-1], rand_parts(rng, len(ct) - 1, [16])) or [""]}))
    ctx.count("cipher-chains", len(ops))
    return ops


def ref_len(n):
    return len(ref_enc(b"\0" * n))


def group_check(ctx, ops, real):
    """direct property: same data, same chain => same verdict and (on success) same sink bytes"""
    groups = {}
    for (op, args), r in zip(ops, real):
        if "leaves" not in r or probes_in(args["chain"]):
            continue
        # the inflater's per-feed input limit is, by design, a function of the feed size (C14)
        if '"inflate"' in json.dumps(args["chain"]) and any(len(f) > 2 * MAXC for f in args["feeds"]):
            continue
        key = (json.dumps(args["chain"]), "".join(args["feeds"]))
        verdict = all(r["feeds"]) and r["done"] is True
        # leaves of branches that failed (any-mode multiplexer) necessarily depend on where the
        # feed boundaries fall; only leaves on successful paths are compared
        try:
            mask = sem(args["chain"], bytes.fromhex(key[1]), iter([]))[1]
        except Exception:
            mask = [None] * len(r["leaves"])
        obs = (verdict, json.dumps([l.get("data") for l, m in zip(r["leaves"], mask) if m is not None])
               if verdict else None)
        if key in groups and groups[key][0] != obs:
            ctx.pfails.append(("io:chunking", "two chunkings of the same data differ: %s vs %s" % (
                json.dumps(groups[key][1])[:300], json.dumps(args)[:300]), op, args, r))
        groups.setdefault(key, (obs, args))
    ctx.count("chunking-groups", len(groups))


def run_zlib_direct(ctx):
    """The compressor and the decompressor on their own (not hidden behind each other), on the implementation only -
    zlib's bytes are not predicted by the model: (a) `deflate` straight into a sink: for every chunking the same bytes,
    and those bytes are a raw DEFLATE stream of the input (Python's zlib inflates them to it); into a sink that is too
    small or fails: the run fails.  (b) `inflate` at the head with complete, truncated, extended and corrupted streams:
    the verdict and the bytes do not depend on the chunking, and equal Python's verdict."""
    import zlib
    rng = ctx.rng
    ops, meta = [], []
    datas = [b"", b"a", b"abc" * 10, rng.randbytes(100), b"compress me " * 600, rng.randbytes(5000)]
    for d in datas:
        for parts in ([len(d)], [1] * min(len(d), 64) + ([len(d) - 64] if len(d) > 64 else []), rand_parts(rng, len(d), [1, 4096]), rand_parts(rng, len(d), [3])):
            feeds = split(d, parts)
            ops.append(("io.run", {"chain": ["deflate", ["malloc"]], "feeds": feeds}))
            meta.append(("def", d, None))
            ops.append(("io.run", {"chain": ["deflate", ["b64enc", ["malloc"]]], "feeds": with_empties(rng, feeds)}))
            meta.append(("def64", d, None))
        ops.append(("io.run", {"chain": ["deflate", ["buffer", 1]], "feeds": [d.hex()]}))
        meta.append(("def-small", d, None))
        ops.append(("io.run", {"chain": ["deflate", ["probe", 0]], "feeds": [d.hex()]}))
        meta.append(("def-probe", d, None))
        co = zlib.compressobj(9, zlib.DEFLATED, -15)
        z = co.compress(d) + co.flush()
        variants = [("whole", z, d), ("truncated", z[:-1], None), ("truncated more", z[:max(1, len(z) // 2)], None), ("trailing bytes", z + b"\x00\x01", "trail"),
                    ("corrupted", bytes([z[0] ^ 0x06]) + z[1:], "any"), ("garbage", rng.randbytes(20), "any")]
        for label, zz, want in variants:
            for parts in ([len(zz)], [1] * len(zz) if len(zz) <= 200 else [len(zz) // 2, len(zz) - len(zz) // 2], rand_parts(rng, len(zz), [2, 5])):
                ops.append(("io.run", {"chain": ["inflate", ["malloc"]], "feeds": split(zz, parts)}))
                meta.append(("inf:" + label, zz, want))
    real = ctx.real(ops)
    ctx.evaluations += len(ops)
    seen = {}
    for (o, a), (kind, data, want), r in zip(ops, meta, real):
        if "crash" in r or "leaves" not in r:
            continue
        ok = all(r["feeds"]) and r["done"] is True
        out = r["leaves"][0].get("data") if r["leaves"] else None
        if kind in ("def", "def64"):
            if not ok:
                ctx.pfails.append(("io:deflate", "compressing %d bytes into an unbounded sink failed" % len(data), o, a, r))
                continue
            raw = bytes.fromhex(out) if kind == "def" else None
            if kind == "def64":
                import base64
                raw = base64.urlsafe_b64decode(bytes.fromhex(out) + b"=" * (-len(bytes.fromhex(out)) % 4))
            try:
                back = zlib.decompress(raw, -15)
            except Exception as e:
                back = None
            if back != data:
                ctx.pfails.append(("io:deflate", "the compressor's output is not a raw DEFLATE stream of its input (%d bytes in, chunking %s)" % (len(data), [len(f) // 2 for f in a["feeds"]][:8]), o, a, r))
            key = (kind, data)
            if key in seen and seen[key] != raw:
                ctx.pfails.append(("io:chunking", "the compressor's output depends on how its input was cut (%d bytes)" % len(data), o, a, r))
            seen.setdefault(key, raw)
        elif kind in ("def-small", "def-probe"):
            if ok:
                ctx.pfails.append(("io:verdict:reports-success", "deflate into a sink that cannot take its output reports success", o, a, r))
        else:
            key = (kind, data)
            obs = (ok, out if ok else None)
            if key in seen and seen[key] != obs:
                ctx.pfails.append(("io:chunking", "inflate (%s): verdict or bytes depend on the chunking" % kind, o, a, r))
            seen.setdefault(key, obs)
            if want is not None and want not in ("any", "trail"):
                if not ok or bytes.fromhex(out or "") != want:
                    ctx.pfails.append(("io:inflate", "a complete stream was refused or inflated to other bytes", o, a, r))
            # (a truncated stream: zlib reports Z_BUF_ERROR at Z_FINISH, which lib/zlib/deflate.c takes for "nothing more
            #  to write" - the decompressor reports success with the bytes so far.  No property of the list speaks about
            #  the validity of compressed streams (inside a JWE they are authenticated); only chunking independence is
            #  demanded here.  Recorded in corpus/audit-open.md.)
    ctx.count("zlib-direct", len(ops))


def run(ctx):
    run_zlib_direct(ctx)
    for gen in (gen_small, gen_random, gen_long, gen_failures, gen_cipher):
        ops = gen(ctx)
        for i in range(0, len(ops), 200000):
            chunk = ops[i:i + 200000]
            real, _ = ctx.compare(chunk, p_check, nontrivial, canon=canon)
            group_check(ctx, chunk, real)
    ctx.exhaustive = True


def replay(ctx, rp):
    ops = [(o, a) for o, a in rp.get("ops", [])]
    for d in rp.get("correspondence_disagreements", []):
        ops.append((d["op"], d["args"]))
    real, _ = ctx.compare(ops, p_check, nontrivial, canon=canon)
    group_check(ctx, ops, real)
