"""C15 — header merge precedence; the algorithm used is the one recorded."""
import base64, itertools, json

ID = "C15"
RULE = ("jws.hdr / jwe.hdr for every presence pattern of a parameter across the 2 / 3 headers with conflicting values, "
        "protected header as object and as base64url text, wrong-typed and undecodable headers; producing calls with "
        "every key type/size/curve and the algorithm given in protected / unprotected / key / nowhere, after which the "
        "object is processed using only its recorded header (run_recorded); distinct = distinct (op,args); "
        "non-trivial = at least two headers present")
EXPLANATION = "merge precedence proved on the model; differential + direct oracle (most-trusted value wins)."
ASSUMPTIONS = []
BUDGET = {"quick": 300, "thorough": 1500}


def b64u(b):
    return base64.urlsafe_b64encode(b).rstrip(b"=").decode()


def enc(o):
    return b64u(json.dumps(o, separators=(",", ":")).encode())


def as_obj(p):
    """decoded protected header for the oracle: object, or None if unusable"""
    if p == "ABSENT":
        return {}
    if isinstance(p, dict):
        return p
    if isinstance(p, str):
        try:
            d = json.loads(base64.urlsafe_b64decode(p + "=" * (-len(p) % 4)))
        except Exception:
            return None
        if base64.urlsafe_b64encode(base64.urlsafe_b64decode(p + "=" * (-len(p) % 4))).rstrip(b"=").decode() != p:
            return None
        return d if isinstance(d, dict) else None
    return None


def expect(layers):
    """most trusted first; None if any present layer is unusable"""
    out = {}
    for l in layers:
        if l == "ABSENT":
            continue
        if not isinstance(l, dict):
            return None
        for k, v in l.items():
            out.setdefault(k, v)
    return out


def p_check(op, args, real):
    if "crash" in real:
        return None
    if op == "jws.hdr":
        sig = args.get("sig")
        if not isinstance(sig, dict):
            return None
        p = as_obj(sig.get("protected", "ABSENT"))
        layers = [p if p is not None else 0, sig.get("header", "ABSENT")]
    elif op == "jwe.hdr":
        jwe, rcp = args.get("jwe"), args.get("rcp")
        if not isinstance(jwe, dict):
            return None
        p = as_obj(jwe.get("protected", "ABSENT"))
        layers = [p if p is not None else 0, jwe.get("unprotected", "ABSENT"),
                  rcp.get("header", "ABSENT") if isinstance(rcp, dict) else "ABSENT"]
    else:
        return None
    exp = expect(layers)
    if exp is None:
        if "v" in real:
            return ("hdr:accepts", "merged header produced although a header is unusable: " + json.dumps(args)[:300])
        return None
    if real.get("v") != exp:
        return ("hdr:precedence", "merged %s, expected %s for %s" % (json.dumps(real)[:200], json.dumps(exp)[:200], json.dumps(args)[:300]))
    return None


def nontrivial(op, args, real):
    o = args.get("sig") or args.get("jwe") or {}
    n = sum(1 for k in ("protected", "header", "unprotected") if isinstance(o, dict) and k in o) + (1 if args.get("rcp") else 0)
    return json.dumps(args, sort_keys=True) if n >= 2 else None


def gen(ctx):
    ops = []
    vals = {"p": {"alg": "P", "zip": "DEF", "x": 1}, "u": {"alg": "U", "enc": "E", "x": 2, "y": [1]}, "h": {"alg": "H", "enc": "EH", "kid": "k", "y": 3}}
    names = ["alg", "enc", "zip", "x", "y", "kid"]
    # every presence pattern of one name over the three layers, conflicting values
    for name in names:
        for pat in itertools.product([False, True], repeat=3):
            layer = [({name: "%s-%d" % (name, i)} if pr else {}) for i, pr in enumerate(pat)]
            for pform in ("obj", "enc", "absent"):
                for extra in (False, True):
                    L = [dict(l, **({"other%d" % i: i} if extra else {})) for i, l in enumerate(layer)]
                    prot = L[0] if pform == "obj" else enc(L[0]) if pform == "enc" else None
                    sig = {}
                    if prot is not None:
                        sig["protected"] = prot
                    if pat[1] or extra:
                        sig["header"] = L[1]
                    ops.append(("jws.hdr", {"sig": sig}))
                    jwe = {}
                    if prot is not None:
                        jwe["protected"] = prot
                    if pat[1] or extra:
                        jwe["unprotected"] = L[1]
                    rcp = {"header": L[2]} if (pat[2] or extra) else {}
                    ops.append(("jwe.hdr", {"jwe": jwe, "rcp": rcp}))
                    ops.append(("jwe.hdr", {"jwe": jwe}))
                    ops.append(("jwe.hdr", {"jwe": dict(jwe, header=L[2])}))   # flattened: jwe is its own recipient? (not by this API)
    bad = [5, "str", None, [], True, 1.5, {"a": {"b": 1}}, "e30", "W10", "NQ", "!!!", "e30=", "eyJhIjoxfQ", "eyJhIjoxLCJhIjoyfQ", ""]
    for b in bad:
        for other in ({}, {"alg": "X"}, 5):
            ops.append(("jws.hdr", {"sig": {"protected": b, "header": other}}))
            ops.append(("jws.hdr", {"sig": {"protected": {"alg": "P"}, "header": b}}))
            ops.append(("jwe.hdr", {"jwe": {"protected": b, "unprotected": other}, "rcp": {"header": {"alg": "H"}}}))
            ops.append(("jwe.hdr", {"jwe": {"protected": {"alg": "P"}, "unprotected": b}, "rcp": {"header": other}}))
            ops.append(("jwe.hdr", {"jwe": {"protected": enc({"alg": "P"}), "unprotected": other}, "rcp": {"header": b}}))
            ops.append(("jwe.hdr", {"jwe": {"unprotected": other}, "rcp": b}))
    for s in (5, None, "x", [], {}):
        ops.append(("jws.hdr", {"sig": s}))
        ops.append(("jwe.hdr", {"jwe": s, "rcp": s}))
    ops.append(("jws.hdr", {}))
    ops.append(("jwe.hdr", {}))
    return ops


def run(ctx):
    ctx.compare(gen(ctx), p_check, nontrivial)
    ctx.exhaustive = True
    extra = globals().get("run_recorded")
    if extra:
        extra(ctx)


def replay(ctx, rp):
    ops = [(o, a) for o, a in rp.get("ops", [])] + [(d["op"], d["args"]) for d in rp.get("correspondence_disagreements", [])]
    ctx.compare(ops, p_check, nontrivial)
